#!/bin/bash
# ./check.sh Cxx quick|thorough | ./check.sh Cxx --replay <file>
cd "$(dirname "$0")"
export VERIF_REPO="${VERIF_REPO:-/repo}"
export PYTHONPATH="$VERIF_REPO${PYTHONPATH:+:$PYTHONPATH}"
export PYTHONDONTWRITEBYTECODE=1
exec /venv/bin/python harness/cli.py "$@"
