import struct, io, os, time
from adb_shell import constants
from adb_shell.adb_message import AdbMessage
from adb_shell.adb_device import AdbDevice
from adb_shell.transport.base_transport import BaseTransport

def pkt(cmd, a0, a1, data=b''):
    m = AdbMessage(cmd, a0, a1, data); return m.pack() + data

class T(BaseTransport):
    def __init__(self, cap=None):
        self.rx = b''; self.tx = b''; self.cap = cap; self.calls=[]
    def close(self): pass
    def connect(self, t): pass
    def bulk_read(self, n, t):
        self.calls.append(('r', n))
        if not self.rx: raise TimeoutError('silent')
        r = self.rx[:n]; self.rx = self.rx[n:]; return r
    def bulk_write(self, data, t):
        k = len(data) if self.cap is None else min(self.cap, len(data))
        self.tx += bytes(data[:k]); return k

def parse(tx):
    out=[]
    while tx:
        cmd,a0,a1,ln,ck,mg = struct.unpack('<6I', tx[:24]); d = tx[24:24+ln]; tx = tx[24+ln:]
        out.append((constants.WIRE_TO_ID.get(cmd), a0, a1, bytes(d)))
    return out
