from sim import *
from adb_shell.hidden_helpers import _AdbTransactionInfo
# K1: thread B (stream 2) reads A's CLSE off the wire while A has nothing parked -> dropped
t = T(); d = AdbDevice(t); t.rx = pkt(constants.CNXN, 0x01000000, 4096, b'device::\0'); d.connect()
io_ = d._io_manager
A = _AdbTransactionInfo(1, 101, 0.1, 0.2, None); B = _AdbTransactionInfo(2, 102, 0.1, 0.2, None)
t.rx = pkt(constants.CLSE, 101, 1) + pkt(constants.WRTE, 102, 2, b'x')
print('B reads:', io_.read([constants.WRTE, constants.CLSE], B, allow_zeros=True))
print('store len', len(io_._packet_store))
try: print('A reads:', io_.read([constants.WRTE, constants.CLSE], A, allow_zeros=True))
except Exception as e: print('K1: A gets', type(e).__name__)
