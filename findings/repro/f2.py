from sim import *
import tempfile
# F2: push dir from a different cwd ; F4: BytesIO + callback
t = T(); d = AdbDevice(t); t.rx = pkt(constants.CNXN, 0x01000000, 4096, b'device::\0'); d.connect()
dd = tempfile.mkdtemp(); open(os.path.join(dd,'a.txt'),'wb').write(b'hello')
os.chdir('/')
# device replies for shell mkdir: OKAY, CLSE; then for sync: OKAY, (OKAY for WRTE), WRTE(OKAY sync), CLSE
t.rx = pkt(constants.OKAY, 101, 1) + pkt(constants.CLSE, 101, 1) + pkt(constants.OKAY, 102, 2) + pkt(constants.OKAY, 102, 2) + pkt(constants.WRTE, 102, 2, b'OKAY\0\0\0\0') + pkt(constants.CLSE, 102, 2)
try:
    d.push(dd, '/sdcard/x'); print('push dir ok'); print(parse(t.tx)[-4:])
except Exception as e: print('F2:', type(e).__name__, e)
t.rx = pkt(constants.OKAY, 103, 3) + pkt(constants.OKAY, 103, 3) + pkt(constants.WRTE, 103, 3, b'OKAY\0\0\0\0') + pkt(constants.CLSE, 103, 3)
try:
    d.push(io.BytesIO(b'abc'), '/sdcard/y', progress_callback=lambda *a: print('cb', a)); print('push bytesio ok')
except Exception as e: print('F4:', type(e).__name__, e)
