"""F6 (C11): pull(progress_callback=...) ignores the caller's timeouts for its internal stat().
Run: cd /verif/findings/repro && PYTHONPATH=/repo /venv/bin/python f6.py
On the pinned tree: the device goes silent after acknowledging the first OPEN; pull(read_timeout_s=0.5, transport_timeout_s=0.5)
needs 10.5 s of (virtual) time because `_pull` calls `self.stat(device_path)` with the default 10 s timeouts. After the fix: 1.0 s."""
import sys
sys.path.insert(0, '/verif/harness')
import session
scn = dict(envs=[dict(sim=dict(maxdata=4096, silent_after=2), dt=1)],
           ops=[dict(op='connect'), dict(op='pull', path=b'/f', cb='count', tt=512, rt=512)])
r = session.Runner(scn, 'sync')
t0 = r.clock.now
obs = r.run()
print(obs[1]['res'], 'virtual seconds spent in pull:', (obs[1]['now'] - obs[0]['now']) / 1024.0)
