from sim import *
# F1: short writes
t = T(cap=10)
d = AdbDevice(t)
t.rx = pkt(constants.CNXN, 0x01000000, 4096, b'device::\0')
print(d.connect(), len(t.tx), 24+len(b'host::x\0'))
print(parse(t.tx))
