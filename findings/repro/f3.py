# F3: do the three signers agree / verify as SHA-1-prehashed PKCS1v15?
import os, tempfile, hashlib
from adb_shell.auth.keygen import keygen
from adb_shell.auth.sign_pythonrsa import PythonRSASigner
from adb_shell.auth.sign_cryptography import CryptographySigner
from adb_shell.auth.sign_pycryptodome import PycryptodomeAuthSigner
d = tempfile.mkdtemp()
p = os.path.join(d, 'k')
keygen(p)
tok = os.urandom(20)
s1 = PythonRSASigner.FromRSAKeyPath(p).Sign(tok)
s2 = CryptographySigner(p).Sign(tok)
s3 = PycryptodomeAuthSigner(p).Sign(tok)
print(s1 == s2, s1 == s3, len(s1), len(s3))
from cryptography.hazmat.primitives import serialization
key = serialization.load_pem_private_key(open(p,'rb').read(), None)
n = key.private_numbers().public_numbers.n; e = 65537
def dec(s): return pow(int.from_bytes(s,'big'), e, n).to_bytes(256,'big')
print(dec(s1).hex()[:20], dec(s1)[-36:].hex())
print(dec(s3)[-52:].hex())
import base64, struct
pub = open(p+'.pub','rb').read()
blob = base64.b64decode(pub.split(b' ')[0])
print(len(blob), pub.split(b' ',1)[1])
