from sim import *
import adb_shell.adb_device as ad
# F5: FAIL WRTE overtakes the OKAY of the first WRTE in a two-WRTE push
t = T(); d = AdbDevice(t); t.rx = pkt(constants.CNXN, 0x01000000, 4096, b'device::\0'); d.connect()
fail = b'FAIL' + struct.pack('<I', 4) + b'nope'
t.rx = pkt(constants.OKAY, 103, 1) + pkt(constants.WRTE, 103, 1, fail) + pkt(constants.OKAY, 103, 1) + pkt(constants.OKAY, 103, 1)+ pkt(constants.CLSE, 103, 1)
try:
    d.push(io.BytesIO(b'a'*6000), '/sdcard/y', read_timeout_s=0.2); print('push ok ?!')
except Exception as e: print('F5:', type(e).__name__, e)
print([(c,a,b,len(x)) for c,a,b,x in parse(t.tx)[1:]])
