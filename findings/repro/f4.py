from sim import *
t = T(); d = AdbDevice(t); t.rx = pkt(constants.CNXN, 0x01000000, 4096, b'device::\0'); d.connect()
t.rx = pkt(constants.OKAY, 103, 1) + pkt(constants.OKAY, 103, 1) + pkt(constants.WRTE, 103, 1, b'OKAY\0\0\0\0') + pkt(constants.CLSE, 103, 1)
try:
    d.push(io.BytesIO(b'abc'), '/sdcard/y', progress_callback=lambda *a: print('cb', a)); print('push bytesio ok')
except Exception as e: print('F4:', type(e).__name__, e)
print(parse(t.tx)[1:])
t.rx = pkt(constants.OKAY, 103, 2) + pkt(constants.OKAY, 103, 2) + pkt(constants.WRTE, 103, 2, b'OKAY\0\0\0\0') + pkt(constants.CLSE, 103, 2)
t.tx=b''
d.push(io.BytesIO(b'abc'), '/sdcard/y', mtime=7); print(parse(t.tx))
