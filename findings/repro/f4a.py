import asyncio, io, struct
from adb_shell import constants
from adb_shell.adb_message import AdbMessage
from adb_shell.adb_device_async import AdbDeviceAsync
from adb_shell.transport.base_transport_async import BaseTransportAsync
def pkt(cmd, a0, a1, data=b''):
    m = AdbMessage(cmd, a0, a1, data); return m.pack() + data
class T(BaseTransportAsync):
    def __init__(self): self.rx=b''; self.tx=b''
    async def close(self): pass
    async def connect(self, t): pass
    async def bulk_read(self, n, t):
        r=self.rx[:n]; self.rx=self.rx[n:]; return r
    async def bulk_write(self, d, t): self.tx+=bytes(d); return len(d)
async def main():
    t=T(); d=AdbDeviceAsync(t); t.rx=pkt(constants.CNXN,0x01000000,4096,b'device::\0'); await d.connect()
    t.rx = pkt(constants.OKAY,103,1)+pkt(constants.OKAY,103,1)+pkt(constants.WRTE,103,1,b'OKAY\0\0\0\0')+pkt(constants.CLSE,103,1)
    await d.push(io.BytesIO(b'abc'),'/sdcard/y',progress_callback=lambda *a: print('cb',a)); print('async bytesio push ok')
asyncio.run(main())
