"""F8 (C10): pull() closes its stream in a `finally`; when the transfer itself failed (e.g. the device answered RECV with a sync FAIL)
and the close handshake ALSO fails (the device never answers the host's CLSE), the close's timeout replaces the failure the device
already reported.  Run: cd /verif/findings/repro && PYTHONPATH=/repo /venv/bin/python f8.py
pinned tree: `err TransportTimeout`;  after the fix: `err AdbCommandFailureException:...` ("nope")."""
import sys
sys.path.insert(0, '/verif/harness')
import session
scn = dict(envs=[dict(sim=dict(maxdata=4096, fs={b'/x': ('fail', b'nope')}, no_clse_reply=True), dt=1)],
           ops=[dict(op='connect'), dict(op='pull', path=b'/x', tt=512, rt=512)])
for impl in ('sync', 'async'):
    obs = session.Runner(scn, impl).run()
    print(impl, obs[1]['res'])
