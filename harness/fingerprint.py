"""Search guidance only (never a verdict): AST fingerprints of the modelled source functions.

`fingerprints.json` (committed) records the fingerprints of the tree the model was written against.  When a check runs
against a tree in which some modelled function differs, the case budget of that run is multiplied (more scenarios, same
oracles) and the changed functions are named in the evidence.  A changed fingerprint alone is NOT reported as anything."""
import ast
import hashlib
import json
import os

FILES = ["adb_shell/adb_device.py", "adb_shell/adb_device_async.py", "adb_shell/hidden_helpers.py", "adb_shell/adb_message.py",
         "adb_shell/constants.py", "adb_shell/transport/tcp_transport.py", "adb_shell/transport/tcp_transport_async.py",
         "adb_shell/transport/usb_transport.py", "adb_shell/auth/keygen.py", "adb_shell/auth/sign_pythonrsa.py",
         "adb_shell/auth/sign_cryptography.py", "adb_shell/auth/sign_pycryptodome.py"]


def _strip_doc(node):
    for n in ast.walk(node):
        if isinstance(n, (ast.FunctionDef, ast.AsyncFunctionDef, ast.ClassDef, ast.Module)):
            if n.body and isinstance(n.body[0], ast.Expr) and isinstance(getattr(n.body[0], "value", None), ast.Constant) and isinstance(n.body[0].value.value, str):
                n.body = n.body[1:] or [ast.Pass()]
    return node


def compute(repo):
    out = {}
    for rel in FILES:
        path = os.path.join(repo, rel)
        if not os.path.exists(path):
            continue
        with open(path) as f:
            tree = _strip_doc(ast.parse(f.read()))
        mod_level = [n for n in tree.body if not isinstance(n, (ast.FunctionDef, ast.AsyncFunctionDef, ast.ClassDef))]
        out[rel + "::<module>"] = hashlib.sha1(ast.dump(ast.Module(body=mod_level, type_ignores=[])).encode()).hexdigest()[:16]
        for n in tree.body:
            if isinstance(n, (ast.FunctionDef, ast.AsyncFunctionDef)):
                out["%s::%s" % (rel, n.name)] = hashlib.sha1(ast.dump(n).encode()).hexdigest()[:16]
            elif isinstance(n, ast.ClassDef):
                for m in n.body:
                    if isinstance(m, (ast.FunctionDef, ast.AsyncFunctionDef)):
                        out["%s::%s.%s" % (rel, n.name, m.name)] = hashlib.sha1(ast.dump(m).encode()).hexdigest()[:16]
    return out


def changed(repo, baseline_path):
    if not os.path.exists(baseline_path):
        return []
    with open(baseline_path) as f:
        base = json.load(f)
    cur = compute(repo)
    out = sorted(k for k in set(base) | set(cur) if base.get(k) != cur.get(k) and not k.startswith("__"))
    try:
        td = twin_diffs(repo)
        if "__twin_diffs__" in base and td != base["__twin_diffs__"]:
            out.append("twins differ (after await-erasure) in: %s" % ", ".join(sorted(set(td) ^ set(base["__twin_diffs__"]))))
    except Exception:
        pass
    return out


# ---- twin comparison (search guidance for C16) ------------------------------------------------------------------
class _Erase(ast.NodeTransformer):
    """await-erasure: what remains of the async twin once async/await/Async are removed"""

    def visit_Await(self, node):
        return self.visit(node.value)

    def visit_AsyncFunctionDef(self, node):
        self.generic_visit(node)
        return ast.FunctionDef(name=node.name, args=node.args, body=node.body, decorator_list=node.decorator_list, returns=None, type_comment=None, lineno=0, col_offset=0)

    def visit_AsyncWith(self, node):
        self.generic_visit(node)
        return ast.With(items=node.items, body=node.body, lineno=0, col_offset=0)

    def visit_AsyncFor(self, node):
        self.generic_visit(node)
        return ast.For(target=node.target, iter=node.iter, body=node.body, orelse=node.orelse, lineno=0, col_offset=0)

    def visit_comprehension(self, node):
        self.generic_visit(node)
        node.is_async = 0
        return node

    def visit_Name(self, node):
        node.id = node.id.replace("Async", "").replace("_async", "")
        return node

    def visit_Attribute(self, node):
        self.generic_visit(node)
        node.attr = node.attr.replace("Async", "").replace("_async", "")
        return node


def _methods(path, erase):
    with open(path) as f:
        tree = _strip_doc(ast.parse(f.read()))
    if erase:
        tree = _Erase().visit(tree)
    out = {}
    for n in tree.body:
        if isinstance(n, ast.ClassDef):
            cname = n.name.replace("Async", "")
            for m in n.body:
                if isinstance(m, (ast.FunctionDef, ast.AsyncFunctionDef)):
                    m.name = m.name.replace("Async", "")
                    out["%s.%s" % (cname, m.name)] = ast.dump(ast.Module(body=m.body, type_ignores=[]))
    return out


def twin_diffs(repo):
    """Methods of the device / io-manager classes whose bodies differ between the twins after await-erasure (a stable, small set on the
    unchanged tree: file handling through aiofiles / executors, list comprehensions over async generators)."""
    a = _methods(os.path.join(repo, "adb_shell", "adb_device.py"), False)
    b = _methods(os.path.join(repo, "adb_shell", "adb_device_async.py"), True)
    return sorted(k for k in set(a) | set(b) if a.get(k) != b.get(k))


if __name__ == "__main__":
    import sys
    repo = sys.argv[1] if len(sys.argv) > 1 else "/repo"
    here = os.path.dirname(os.path.dirname(os.path.abspath(__file__)))
    with open(os.path.join(here, "fingerprints.json"), "w") as f:
        fp = compute(repo)
        fp["__twin_diffs__"] = twin_diffs(repo)
        json.dump(fp, f, indent=0, sort_keys=True)
    print("wrote fingerprints for", repo)
