"""Search guidance only (never a verdict): AST fingerprints of the modelled source functions.

`fingerprints.json` (committed) records the fingerprints of the tree the model was written against.  When a check runs
against a tree in which some modelled function differs, the case budget of that run is multiplied (more scenarios, same
oracles) and the changed functions are named in the evidence.  A changed fingerprint alone is NOT reported as anything."""
import ast
import hashlib
import json
import os

FILES = ["adb_shell/adb_device.py", "adb_shell/adb_device_async.py", "adb_shell/hidden_helpers.py", "adb_shell/adb_message.py",
         "adb_shell/constants.py", "adb_shell/transport/tcp_transport.py", "adb_shell/transport/tcp_transport_async.py",
         "adb_shell/transport/usb_transport.py", "adb_shell/auth/keygen.py", "adb_shell/auth/sign_pythonrsa.py",
         "adb_shell/auth/sign_cryptography.py", "adb_shell/auth/sign_pycryptodome.py"]


def _strip_doc(node):
    for n in ast.walk(node):
        if isinstance(n, (ast.FunctionDef, ast.AsyncFunctionDef, ast.ClassDef, ast.Module)):
            if n.body and isinstance(n.body[0], ast.Expr) and isinstance(getattr(n.body[0], "value", None), ast.Constant) and isinstance(n.body[0].value.value, str):
                n.body = n.body[1:] or [ast.Pass()]
    return node


def compute(repo):
    out = {}
    for rel in FILES:
        path = os.path.join(repo, rel)
        if not os.path.exists(path):
            continue
        with open(path) as f:
            tree = _strip_doc(ast.parse(f.read()))
        mod_level = [n for n in tree.body if not isinstance(n, (ast.FunctionDef, ast.AsyncFunctionDef, ast.ClassDef))]
        out[rel + "::<module>"] = hashlib.sha1(ast.dump(ast.Module(body=mod_level, type_ignores=[])).encode()).hexdigest()[:16]
        for n in tree.body:
            if isinstance(n, (ast.FunctionDef, ast.AsyncFunctionDef)):
                out["%s::%s" % (rel, n.name)] = hashlib.sha1(ast.dump(n).encode()).hexdigest()[:16]
            elif isinstance(n, ast.ClassDef):
                for m in n.body:
                    if isinstance(m, (ast.FunctionDef, ast.AsyncFunctionDef)):
                        out["%s::%s.%s" % (rel, n.name, m.name)] = hashlib.sha1(ast.dump(m).encode()).hexdigest()[:16]
    return out


def changed(repo, baseline_path):
    if not os.path.exists(baseline_path):
        return []
    with open(baseline_path) as f:
        base = json.load(f)
    cur = compute(repo)
    return sorted(k for k in set(base) | set(cur) if base.get(k) != cur.get(k))


if __name__ == "__main__":
    import sys
    repo = sys.argv[1] if len(sys.argv) > 1 else "/repo"
    here = os.path.dirname(os.path.dirname(os.path.abspath(__file__)))
    with open(os.path.join(here, "fingerprints.json"), "w") as f:
        json.dump(compute(repo), f, indent=0, sort_keys=True)
    print("wrote fingerprints for", repo)
