"""Baton scheduler: real threads (or asyncio tasks) run ONE AT A TIME; control changes hands only at yield points
(acquisition of a substituted lock, optional line-level preemption inside chosen functions).  The observed order of
atomic sections is what the Lean interleaving model replays."""
import asyncio
import sys
import threading


class Deadlock(Exception):
    pass


class Baton(object):
    def __init__(self, rng, fixed=None):
        self.rng = rng
        self.fixed = list(fixed) if fixed else None   # optional predetermined order of thread ids
        self.mu = threading.Condition()
        self.parked = {}        # tid -> ('want', lock) | ('line',) | ('start',)
        self.running = None
        self.finished = set()
        self.tids = []
        self.log = []           # (tid, event, detail)
        self.picks = []         # every scheduling decision, in order (a complete replayable schedule)
        self.local = threading.local()

    # ---- worker side ------------------------------------------------------------------------------------
    def park(self, reason):
        tid = self.local.tid
        with self.mu:
            self.parked[tid] = reason
            self.running = None
            self.mu.notify_all()
            while self.running != tid:
                self.mu.wait()
            del self.parked[tid]

    def finish(self):
        tid = self.local.tid
        with self.mu:
            self.finished.add(tid)
            self.running = None
            self.mu.notify_all()

    # ---- scheduler side ---------------------------------------------------------------------------------
    def runnable(self):
        out = []
        for tid, reason in self.parked.items():
            if reason[0] == "want" and reason[1].owner is not None:
                continue
            out.append(tid)
        return sorted(out)

    STALL_S = 30.0      # a thread that was given the baton must park or finish within this wall-clock time

    def drive(self, max_steps=200000):
        import time as _time
        steps = 0
        with self.mu:
            while True:
                t0 = _time.monotonic()
                while self.running is not None:
                    self.mu.wait(1.0)
                    if self.running is not None and _time.monotonic() - t0 > self.STALL_S:
                        raise Deadlock("thread %r was scheduled and neither reached a yield point nor finished within %.0f s: it is blocked outside the "
                                       "scheduler (e.g. on a lock the harness does not control) or loops without I/O" % (self.running, self.STALL_S))
                if len(self.finished) == len(self.tids):
                    return
                if len(self.parked) + len(self.finished) < len(self.tids):
                    self.mu.wait(0.5)
                    continue
                cand = self.runnable()
                if not cand:
                    raise Deadlock("threads %r all blocked: %r" % (sorted(self.parked), {t: (r[0], getattr(r[1], "name", "")) for t, r in self.parked.items() if len(r) > 1}))
                if self.fixed:
                    want = self.fixed[0]
                    tid = want if want in cand else cand[0]
                    if want in cand:
                        self.fixed.pop(0)
                elif getattr(self, "policy", None) is not None and self.policy(cand, self) is not None:
                    tid = self.policy(cand, self)   # a scenario-specific preference (phases); the picks are recorded like any others
                elif self.picks and self.picks[-1] in cand and self.rng.random() < getattr(self, "sticky", 0.0):
                    tid = self.picks[-1]        # bursty schedules (a thread keeps the CPU for a while), as a real scheduler's time slices produce
                else:
                    tid = self.rng.choice(cand)
                steps += 1
                if steps > max_steps:
                    raise Deadlock("step budget exhausted")
                self.picks.append(tid)
                self.running = tid
                self.mu.notify_all()

    def spawn(self, fns):
        threads = []
        for i, fn in enumerate(fns):
            self.tids.append(i)

            def body(i=i, fn=fn):
                self.local.tid = i
                self.park(("start",))
                try:
                    fn()
                finally:
                    self.finish()
            t = threading.Thread(target=body, daemon=True)
            threads.append(t)
        for t in threads:
            t.start()
        return threads


class SchedLock(object):
    """Drop-in for threading.Lock used through `with`; a yield point unless the thread holds a lock named in `no_yield_under`."""

    def __init__(self, baton, name, no_yield_under=()):
        self.baton, self.name = baton, name
        self.owner = None
        self.no_yield_under = no_yield_under

    def locked(self):
        return self.owner is not None

    def acquire(self, blocking=True, timeout=-1):
        self.__enter__()
        return True

    def release(self):
        self.__exit__()

    def __enter__(self):
        b = self.baton
        tid = getattr(b.local, "tid", None)
        if tid is None:
            # a thread the scheduler does not know (the main thread preparing the scenario): a plain, uncontended lock
            assert self.owner is None, "lock %s contended outside the schedule" % self.name
            self.owner = "main"
            return self
        held = getattr(b.local, "held", [])
        ctx = getattr(b.local, "ctx", "")
        if not any(h in self.no_yield_under for h in held):
            b.park(("want", self))
        elif self.owner is not None:
            b.park(("want", self))      # must wait anyway
        assert self.owner is None, "lock %s granted while held" % self.name
        self.owner = tid
        b.local.held = held + [self.name]
        b.log.append((tid, "acq", self.name, ctx, tuple(held)))
        return self

    def __exit__(self, *a):
        b = self.baton
        if getattr(b.local, "tid", None) is None:
            self.owner = None
            return False
        self.owner = None
        b.local.held = [h for h in b.local.held if h != self.name] if self.name in b.local.held else b.local.held
        b.log.append((b.local.tid, "rel", self.name, getattr(b.local, "ctx", ""), ()))
        return False

    def acquire(self, *a, **k):
        self.__enter__()
        return True

    def release(self):
        self.__exit__()


def adopt_locks(baton, objs, known=("_transport_lock", "_store_lock", "_local_id_lock"), tid_of=None):
    """Any OTHER lock the objects under test carry (a change to the library may add one) becomes scheduler-aware too: blocking on a lock the
    baton does not know would freeze the schedule instead of handing the baton on.  Returns the names adopted."""
    real = (type(threading.Lock()), type(threading.RLock()))
    out = []
    for o in objs:
        for name, val in list(vars(o).items()):
            if name in known:
                continue
            if tid_of is None and isinstance(val, real):
                setattr(o, name, SchedLock(baton, name))
                out.append(name)
            elif tid_of is not None and isinstance(val, asyncio.Lock):
                setattr(o, name, AsyncSchedLock(baton, name, tid_of))
                out.append(name)
    return out


def line_tracer(baton, code_objects, follow=None, files=()):
    """threading.settrace-style function: park at every line of the given code objects -- and of the functions they call (transitively)
    for which `follow(code)` holds (helpers a refactoring may move part of the traced function into)."""
    traced = set(code_objects)

    def local_trace(frame, event, arg):
        if event == "line":
            baton.log.append((baton.local.tid, "line", frame.f_lineno, "", ()))
            baton.park(("line",))
        return local_trace

    def global_trace(frame, event, arg):
        if event == "call":
            code = frame.f_code
            if code in traced or code.co_filename in files:
                return local_trace
            if follow is not None and frame.f_back is not None and frame.f_back.f_code in traced and follow(code):
                traced.add(code)
                return local_trace
        return None
    return global_trace


# ---- asyncio twin -----------------------------------------------------------------------------------------------
class AsyncBaton(object):
    def __init__(self, rng, fixed=None):
        self.rng = rng
        self.fixed = list(fixed) if fixed else None
        self.parked = {}       # tid -> (future, reason)
        self.finished = set()
        self.tids = []
        self.log = []
        self.picks = []        # every scheduling decision, in order (a complete replayable schedule)
        self.cur = None

    async def park(self, tid, reason):
        fut = asyncio.get_running_loop().create_future()
        self.parked[tid] = (fut, reason)
        await fut

    def runnable(self):
        return sorted(t for t, (f, r) in self.parked.items() if not (r[0] == "want" and r[1].owner is not None))

    async def drive(self, tasks, max_steps=200000):
        steps = 0
        while len(self.finished) < len(self.tids):
            # let the running task proceed until it parks or finishes
            for _ in range(10000):
                if len(self.parked) + len(self.finished) >= len(self.tids):
                    break
                await asyncio.sleep(0)
            else:
                raise Deadlock("a task neither parked nor finished")
            if len(self.finished) == len(self.tids):
                break
            cand = self.runnable()
            if not cand:
                raise Deadlock("tasks %r all blocked" % sorted(self.parked))
            if self.fixed:
                want = self.fixed[0]
                tid = want if want in cand else cand[0]
                if want in cand:
                    self.fixed.pop(0)
            elif getattr(self, "policy", None) is not None and self.policy(cand, self) is not None:
                tid = self.policy(cand, self)
            elif self.picks and self.picks[-1] in cand and self.rng.random() < getattr(self, "sticky", 0.0):
                tid = self.picks[-1]
            else:
                tid = self.rng.choice(cand)
            steps += 1
            if steps > max_steps:
                raise Deadlock("step budget exhausted")
            self.picks.append(tid)
            fut, _ = self.parked.pop(tid)
            self.cur = tid
            fut.set_result(None)
            await asyncio.sleep(0)


class AsyncSchedLock(object):
    def __init__(self, baton, name, tid_of, no_yield_under=()):
        self.baton, self.name, self.tid_of = baton, name, tid_of
        self.owner = None
        self.no_yield_under = no_yield_under

    def locked(self):
        return self.owner is not None

    async def __aenter__(self):
        b = self.baton
        tid = self.tid_of()
        held = b.held.setdefault(tid, [])
        if not any(h in self.no_yield_under for h in held) or self.owner is not None:
            await b.park(tid, ("want", self))
        assert self.owner is None
        self.owner = tid
        b.log.append((tid, "acq", self.name, b.ctx.get(tid, ""), tuple(held)))
        held.append(self.name)
        return self

    async def __aexit__(self, *a):
        b = self.baton
        tid = self.tid_of()
        self.owner = None
        if self.name in b.held.get(tid, []):
            b.held[tid].remove(self.name)
        b.log.append((tid, "rel", self.name, b.ctx.get(tid, ""), ()))
        return False
