"""Run a scenario on the real AdbDevice / AdbDeviceAsync, then on the Lean model, and compare per-op observables."""
import asyncio
import io
import os
import shutil
import struct
import tempfile

from common import hx
import transports
from transports import Clock, Link, MemTransport, MemTransportAsync, SimHang, SimTransportError, GuardLock, GuardAsyncLock


def secs(t):
    return None if t is None else t / 1024.0


def tfmt(t):
    return "N" if t is None else str(int(t))


class CallbackAbort(BaseException):
    """raised by progress callbacks in `raisebase` mode: a callback cannot alter or abort the transfer, whatever it raises"""


class StubSigner(object):
    def __init__(self, k, pub_as_str=False):
        self.k, self.pub_as_str = k, pub_as_str
        self.signed = []

    def Sign(self, data):
        self.signed.append(bytes(data))
        return b"SIG" + bytes([self.k]) + bytes(data)

    def GetPublicKey(self):
        pub = b"PUB" + bytes([self.k])
        return pub.decode("ascii") if self.pub_as_str else pub


class wall_guard(object):
    """Wall-clock watchdog around one call into the implementation (main thread only): virtual time cannot see a real block (a leaked real
    lock, a wait on a real primitive); after WALL_LIMIT_S the call is interrupted and counts as a hang."""
    WALL_LIMIT_S = 120

    def __enter__(self):
        import signal
        import threading
        self.active = threading.current_thread() is threading.main_thread()
        if self.active:
            def on_alarm(signum, frame):
                raise SimHang("no progress for %d s of wall-clock time" % self.WALL_LIMIT_S)
            self.old = signal.signal(signal.SIGALRM, on_alarm)
            signal.setitimer(signal.ITIMER_REAL, self.WALL_LIMIT_S)
        return self

    def __exit__(self, *a):
        if self.active:
            import signal
            signal.setitimer(signal.ITIMER_REAL, 0)
            signal.signal(signal.SIGALRM, self.old)
        return False


def canon_exc(exc):
    from adb_shell import exceptions as ex
    if isinstance(exc, SimHang):
        return "Hang"
    if isinstance(exc, ex.AdbTimeoutError):
        return "AdbTimeoutError"
    if isinstance(exc, ex.TcpTimeoutException):
        return "TransportTimeout"
    if isinstance(exc, SimTransportError):
        return "TransportError"
    if isinstance(exc, ex.PushFailedError):
        a = exc.args[0] if exc.args else b""
        return "PushFailedError:" + (hx(a) if isinstance(a, (bytes, bytearray)) else "nonbytes:" + type(a).__name__)
    if isinstance(exc, ex.AdbCommandFailureException):
        msg = exc.args[0] if exc.args else ""
        prefix = "Command failed: "
        if isinstance(msg, str) and msg.startswith(prefix):
            msg = msg[len(prefix):]
        return "AdbCommandFailureException:" + hx(str(msg).encode("utf8", "surrogatepass"))
    for name in ("InvalidChecksumError", "InvalidCommandError", "InvalidResponseError", "DeviceAuthError", "AdbConnectionError",
                 "DevicePathInvalidError"):
        if isinstance(exc, getattr(ex, name)):
            return name
    if isinstance(exc, struct.error):
        return "StructError"
    if isinstance(exc, TypeError):
        return "TypeError"
    if isinstance(exc, KeyError):
        return "KeyError"
    if isinstance(exc, ValueError):
        return "ValueError"
    if isinstance(exc, (FileNotFoundError, IsADirectoryError, NotADirectoryError, PermissionError)):
        return "LocalFileError"
    return "Other:" + type(exc).__name__


def canon_val(kind, v):
    if kind == "none":
        return "none"
    if kind == "bool":
        return "bool:1" if v else "bool:0"
    if kind == "data":
        if isinstance(v, str):
            return "str:" + hx(v.encode("utf8", "surrogatepass"))
        return "bytes:" + hx(v)
    if kind == "items":
        return "items:[" + ",".join(canon_val("data", x) for x in v) + "]"
    if kind == "listing":
        return "listing:[" + ",".join("%s:%d:%d:%d" % (hx(f.filename), f.mode, f.size, f.mtime) for f in v) + "]"
    if kind == "stat":
        return "stat:%d:%d:%d" % tuple(v)
    raise ValueError(kind)


class Runner(object):
    """One scenario on one implementation."""

    def __init__(self, scn, impl):
        import adb_shell.adb_device as sync_mod
        import adb_shell.adb_device_async as async_mod
        self.scn, self.impl = scn, impl
        self.clock = Clock(scn.get("now", 1 << 40))
        self.link = Link(self.clock, scn["envs"])
        self.mod = sync_mod if impl == "sync" else async_mod
        self.mod.time = self.clock          # `time.time()` inside the module under test reads the virtual clock
        self.tmp = None
        self.loop = None
        dtt = secs(scn.get("dtt"))
        if impl == "sync":
            self.dev = sync_mod.AdbDevice(MemTransport(self.link), default_transport_timeout_s=dtt, banner=scn.get("banner", b"verif"))
        else:
            import vloop
            self.loop = vloop.VLoop(self.clock)     # asyncio timers (wait_for, timeout contexts) run on the scenario's virtual clock
            self.dev = async_mod.AdbDeviceAsync(MemTransportAsync(self.link, vsleep=True), default_transport_timeout_s=dtt, banner=scn.get("banner", b"verif"))
        # one thread / one task: a blocking request for a held lock can never be granted; report it instead of hanging the harness
        mk = GuardLock if impl == "sync" else GuardAsyncLock
        self.dev._local_id_lock = mk("localId")
        self.dev._io_manager._transport_lock = mk("transport")
        self.dev._io_manager._store_lock = mk("store")
        for k, v in scn.get("preset", {}).items():
            if k == "lid":
                self.dev._local_id = v
            elif k == "maxdata":
                self.dev._maxdata = v
            elif k == "avail":
                self.dev._available = bool(v)

    # ---- local files ---------------------------------------------------------------------------------------
    def tmpdir(self):
        if self.tmp is None:
            self.tmp = tempfile.mkdtemp(prefix="adbverif_")
            self.cwd = os.path.join(self.tmp, "cwd")
            os.mkdir(self.cwd)
        return self.tmp

    def materialize(self, src):
        kind, fid = src
        files, dirs = self.scn.get("files", {}), self.scn.get("dirs", {})
        if kind == "bytesio":
            k = getattr(self, "_seek", 0)
            bio = io.BytesIO(bytes(k) + files[fid])     # k bytes of an already-consumed prefix
            bio.seek(k)
            return bio
        if kind == "file":
            p = os.path.join(self.tmpdir(), "f%d.bin" % fid)
            with open(p, "wb") as f:
                f.write(files[fid])
            return p
        d = os.path.join(self.tmpdir(), "d%d" % fid)
        if os.path.exists(d):
            shutil.rmtree(d)
        os.mkdir(d)
        for name, cid in dirs[fid]:
            if cid not in files:
                os.mkdir(os.path.join(d, name.decode("utf8")))       # an entry that is a directory (the model: a file id without content)
                continue
            with open(os.path.join(d, name.decode("utf8")), "wb") as f:
                f.write(files[cid])
        # os.listdir order is whatever the filesystem gives; the model is told that order
        # decoys in the working directory: a DIRECTORY named like one of the pushed files, and a FILE named like another with
        # different content -- anything resolved relative to the CWD instead of the pushed directory goes wrong (F2 and relatives)
        names = [n for n, _ in dirs[fid]]
        if names:
            dn = os.path.join(self.cwd, names[0].decode("utf8"))
            if not os.path.exists(dn):
                os.mkdir(dn)
            if len(names) > 1:
                fn = os.path.join(self.cwd, names[1].decode("utf8"))
                if not os.path.exists(fn):
                    with open(fn, "wb") as f:
                        f.write(b"decoy content from the working directory")
        if not hasattr(self, "listdir_order"):
            self.listdir_order = {}
        self.listdir_order[fid] = [n.encode("utf8") for n in os.listdir(d)]
        return d

    # ---- running -------------------------------------------------------------------------------------------
    def call(self, fn, *a, **kw):
        with wall_guard():
            if self.impl == "sync":
                return fn(*a, **kw)
            return self.loop.run_until_complete(fn(*a, **kw))

    def consume(self, gen):
        items = []
        with wall_guard():
            if self.impl == "sync":
                for x in gen:
                    self.link.events.append("yield:" + hx(x if isinstance(x, (bytes, bytearray)) else x.encode("utf8", "surrogatepass")))
                    items.append(x)
            else:
                async def go():
                    async for x in gen:
                        self.link.events.append("yield:" + hx(x if isinstance(x, (bytes, bytearray)) else x.encode("utf8", "surrogatepass")))
                        items.append(x)
                self.loop.run_until_complete(go())
        return items

    def progress_cb(self, mode):
        if mode == "none":
            return None

        def cb(path, n, total):
            p = path.encode("utf8") if isinstance(path, str) else bytes(path)
            self.link.events.append("cb:%s:%d:%d" % (hx(p), n, total))
            if mode == "raise":
                raise ValueError("callback failure")
            if mode == "raisebase":
                raise CallbackAbort("callback failure outside the Exception hierarchy")
        return cb

    def run_op(self, op):
        d = self.dev
        kind = op["op"]
        tt, rt = secs(op.get("tt")), secs(op.get("rt", 10240))
        sink = None
        sink_kind = None
        before_peer = len(self.link.total_peer())
        self.link.events = []
        try:
            if kind == "connect":
                keys = [StubSigner(k, op.get("pubstr", False)) for k in op.get("keys", [])]

                def acb(dev):
                    self.link.events.append("cbauth")
                v = self.call(d.connect, rsa_keys=keys or (None if op.get("keys_none", True) else []), transport_timeout_s=tt, auth_timeout_s=secs(op.get("at", 10240)),
                              read_timeout_s=rt, auth_callback=acb if op.get("cb") else None)
                res = "ok " + canon_val("bool", v)
            elif kind == "close":
                if op.get("transport_close_raises"):
                    self.link.close_raises_once = True      # oracle-only scenarios: the model's transport close never fails
                self.call(d.close)
                res = "ok none"
            elif kind in ("shell", "exec_out"):
                v = self.call(getattr(d, kind), op["cmd"].decode("utf8"), transport_timeout_s=tt, read_timeout_s=rt, timeout_s=secs(op.get("t")), decode=op.get("decode", True))
                res = "ok " + canon_val("data", v)
            elif kind == "root":
                self.call(d.root, transport_timeout_s=tt, read_timeout_s=rt, timeout_s=secs(op.get("t")))
                res = "ok none"
            elif kind == "reboot":
                self.call(d.reboot, fastboot=op.get("fastboot", False), transport_timeout_s=tt, read_timeout_s=rt, timeout_s=secs(op.get("t")))
                res = "ok none"
            elif kind == "streaming_shell":
                gen = d.streaming_shell(op["cmd"].decode("utf8"), transport_timeout_s=tt, read_timeout_s=rt, decode=op.get("decode", True))
                v = self.consume(gen)
                res = "ok " + canon_val("items", v)
            elif kind == "ss_defer":
                # the caller obtains the generator now and iterates it later (ss_resume): nothing may happen before the iteration
                self.deferred = d.streaming_shell(op["cmd"].decode("utf8"), transport_timeout_s=tt, read_timeout_s=rt, decode=op.get("decode", True))
                res = "ok none"
            elif kind == "ss_resume":
                gen, self.deferred = getattr(self, "deferred", None), None
                if gen is None:      # creating it failed (reported at ss_defer): iterate a fresh one so the op is still well-defined
                    gen = d.streaming_shell(op["cmd"].decode("utf8"), transport_timeout_s=tt, read_timeout_s=rt, decode=op.get("decode", True))
                v = self.consume(gen)
                res = "ok " + canon_val("items", v)
            elif kind == "list":
                v = self.call(d.list, op["path"].decode("utf8") if op.get("path_str", True) else op["path"], transport_timeout_s=tt, read_timeout_s=rt)
                res = "ok " + canon_val("listing", v)
            elif kind == "stat":
                v = self.call(d.stat, op["path"].decode("utf8") if op.get("path_str", True) else op["path"], transport_timeout_s=tt, read_timeout_s=rt)
                res = "ok " + canon_val("stat", v)
            elif kind == "pull":
                sink_kind = op.get("dest", "bytesio")
                if sink_kind == "bytesio":
                    pre = op.get("pre")     # (bytes already in the caller's BytesIO, its position): pull writes from that position on, IN PLACE
                    sink = io.BytesIO(pre[0]) if pre else io.BytesIO()
                    if pre:
                        sink.seek(pre[1])
                    dest = sink
                else:
                    dest = os.path.join(self.tmpdir(), "pulled_%d.bin" % id(op))
                    if os.path.exists(dest):
                        os.unlink(dest)
                    sink = dest
                self.call(d.pull, op["path"].decode("utf8"), dest, progress_callback=self.progress_cb(op.get("cb", "none")), transport_timeout_s=tt, read_timeout_s=rt)
                res = "ok none"
            elif kind == "push":
                self._seek = op.get("seek", 0)
                src = self.materialize(op["src"])
                self._seek = 0
                old = os.getcwd()
                if op["src"][0] != "bytesio":
                    os.chdir(self.cwd)       # never the directory that holds the sources (F2)
                try:
                    self.call(d.push, src, op["path"].decode("utf8"), st_mode=op.get("mode", 33272), mtime=op.get("mtime", 0),
                              progress_callback=self.progress_cb(op.get("cb", "none")), transport_timeout_s=tt, read_timeout_s=rt)
                finally:
                    os.chdir(old)
                res = "ok none"
            else:
                raise ValueError("unknown op " + kind)
        except BaseException as exc:  # noqa
            if isinstance(exc, (KeyboardInterrupt, SystemExit)):
                raise
            res = "err " + canon_exc(exc)
        peer = self.link.total_peer()[before_peer:]
        if self.impl == "sync":
            locks = sum(1 for l in (d._io_manager._transport_lock, d._io_manager._store_lock, d._local_id_lock) if l.locked())
        else:
            locks = sum(1 for l in (d._io_manager._transport_lock, d._io_manager._store_lock, d._local_id_lock) if l.locked())
        if sink is None:
            sink_s = "N"
        elif sink_kind == "bytesio":
            pre = op.get("pre")
            if pre:
                # canonical form: the region written by this pull; anything else must be what the caller had there
                val, k = sink.getvalue(), pre[1]
                end = sink.tell() if not sink.closed else len(val)
                if k <= end and val[:k] == bytes(pre[0])[:k] and val[end:] == bytes(pre[0])[end:]:
                    sink_s = hx(val[k:end])
                else:
                    sink_s = "clobbered:" + hx(val)[:64]
            else:
                sink_s = hx(sink.getvalue())
        else:
            sink_s = "N"
            if os.path.exists(sink):
                with open(sink, "rb") as f:
                    sink_s = hx(f.read())
        link = self.link
        if res.startswith("err") and link.cur is not None:
            link.cur.track = False      # after an error the host may be out of frame sync: over-request tracking is meaningless
        conn = link.used.index(link.cur) if link.cur in link.used else len(link.used) - 1
        inoff = link.used[conn].in_off if 0 <= conn < len(link.used) else 0
        flat = []
        for a1, inner in d._io_manager._packet_store._dict.items():
            for a0, q in inner.items():
                flat.append((a1, a0, ",".join("%s:%s" % (c.decode(), hx(dd)) for c, dd in list(q._queue))))
        store_s = "{" + ";".join("%d/%d=[%s]" % (a0, a1, items) for a1, a0, items in sorted(flat)) + "}"
        return dict(conn=conn, inoff=inoff, store=store_s, res=res, peer=hx(peer), avail=int(bool(d.available)), maxdata=d._maxdata, lid=d._local_id,
                    storelen=len(d._io_manager._packet_store), now=self.clock.now, locks=locks, sink=sink_s,
                    ev="[" + ",".join(self.link.events) + "]", sink_kind=sink_kind)

    def run(self):
        out = []
        try:
            for op in self.scn["ops"]:
                out.append(self.run_op(op))
        finally:
            if self.loop is not None:
                try:
                    self.loop.run_until_complete(self.loop.shutdown_asyncgens())
                except Exception:
                    pass
                self.loop.close()
            if self.tmp:
                shutil.rmtree(self.tmp, ignore_errors=True)
        return out


def op_line(op, listdir_order=None):
    k = op["op"]
    t = "tt=%s rt=%s" % (tfmt(op.get("tt")), tfmt(op.get("rt", 10240)))
    if k == "connect":
        return "sess op connect keys=%s %s at=%s cb=%d" % (",".join(str(x) for x in op.get("keys", [])) or "-", t, tfmt(op.get("at", 10240)), 1 if op.get("cb") else 0)
    if k == "close":
        return "sess op close"
    if k in ("shell", "exec_out"):
        return "sess op %s cmd=%s %s t=%s decode=%d" % (k, hx(op["cmd"]), t, tfmt(op.get("t")), 1 if op.get("decode", True) else 0)
    if k == "root":
        return "sess op root %s t=%s" % (t, tfmt(op.get("t")))
    if k == "reboot":
        return "sess op reboot fastboot=%d %s t=%s" % (1 if op.get("fastboot") else 0, t, tfmt(op.get("t")))
    if k == "ss_defer":
        return "sess op nop"
    if k in ("streaming_shell", "ss_resume"):
        return "sess op streaming_shell cmd=%s %s decode=%d" % (hx(op["cmd"]), t, 1 if op.get("decode", True) else 0)
    if k in ("list", "stat"):
        return "sess op %s path=%s %s" % (k, hx(op["path"]), t)
    if k == "pull":
        return "sess op pull path=%s cb=%s %s" % (hx(op["path"]), op.get("cb", "none"), t)
    if k == "push":
        return "sess op push src=%s:%d path=%s mode=%d mtime=%d cb=%s %s" % (op["src"][0], op["src"][1], hx(op["path"]), op.get("mode", 33272), op.get("mtime", 0), op.get("cb", "none"), t)
    raise ValueError(k)


def model_lines(scn, runner, detail=False):
    lines = ["sess new now=%d fuel=%d banner=%s dtt=%s detail=%d" % (scn.get("now", 1 << 40), scn.get("fuel", 100000), hx(scn.get("banner", b"verif")), tfmt(scn.get("dtt")), 1 if detail else 0)]
    link = runner.link
    conns = link.used + link.future
    for c in conns:
        env = c.env
        lines.append("sess conn dt=%d wnone=%d cfail=%d frags=%s ofrags=%s faults=%s" % (
            int(env.get("dt", 1)), 1 if env.get("wnone") else 0, 1 if env.get("cfail") else 0,
            ",".join(str(x) for x in env.get("frags", [])) or "-", ",".join(str(x) for x in env.get("ofrags", [])) or "-",
            ",".join("%s:%d:%s" % tuple(f) for f in env.get("faults", [])) or "-"))
        for need, raw in c.segs:
            lines.append("sess seg %d %s" % (need, hx(raw)))
    for fid, content in scn.get("files", {}).items():
        lines.append("sess file %d %s" % (fid, hx(content)))
    for did, ents in scn.get("dirs", {}).items():
        order = getattr(runner, "listdir_order", {}).get(did)
        if order is not None and sorted(order) == sorted(n for n, _ in ents):
            m = dict(ents)
            ents = [(n, m[n]) for n in order]
        lines.append("sess dir %d %s" % (did, ",".join("%s:%d" % (hx(n), f) for n, f in ents) or "-"))
    pre = scn.get("preset", {})
    if pre:
        lines.append("sess set " + " ".join("%s=%d" % (k, int(v)) for k, v in pre.items()))
    n_setup = len(lines)
    for op in scn["ops"]:
        lines.append(op_line(op))
    return lines, n_setup


def parse_reply(line):
    """`res=... peer=... ...` -> dict; res may contain a space ('ok bytes:..')."""
    out = {}
    toks = line.split(" ")
    i = 0
    while i < len(toks):
        t = toks[i]
        if t.startswith("res="):
            out["res"] = t[4:] + " " + toks[i + 1]
            i += 2
            continue
        k, _, v = t.partition("=")
        out[k] = v
        i += 1
    return out


FIELDS = ("res", "peer", "avail", "maxdata", "lid", "storelen", "store", "now", "locks", "sink", "ev")


def compare_op(impl, model):
    diffs = []
    for f in FIELDS:
        a, b = str(impl.get(f)), str(model.get(f))
        if f == "sink" and impl.get("sink_kind") == "bytesio":
            a = "-" if a == "N" else a
            b = "-" if b == "N" else b
        if a != b:
            diffs.append((f, a[:160], b[:160]))
    return diffs


def run_scenario(driver, scn, impl, detail=False):
    """Returns (impl_obs list, model_obs list, runner)."""
    runner = Runner(scn, impl)
    impl_obs = runner.run()
    lines, n_setup = model_lines(scn, runner, detail)
    replies = driver.ask_many(lines)
    for r in replies[:n_setup]:
        if r != "ok":
            raise RuntimeError("model rejected a set-up line: %r" % r)
    model_obs = [parse_reply(r) for r in replies[n_setup:]]
    return impl_obs, model_obs, runner
