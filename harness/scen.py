"""Scenario generators (all randomness from the rng passed in) and JSON (de)serialisation."""
import copy
import struct

from sim_device import pkt, sync_rec

NOW0 = 1 << 40


# ---- serialisation ------------------------------------------------------------------------------------------
def enc(x):
    if isinstance(x, (bytes, bytearray)):
        return {"$b": bytes(x).hex()}
    if isinstance(x, tuple):
        return {"$t": [enc(i) for i in x]}
    if isinstance(x, list):
        return [enc(i) for i in x]
    if isinstance(x, dict):
        return {"$d": [[enc(k), enc(v)] for k, v in x.items()]}
    return x


def dec(x):
    if isinstance(x, list):
        return [dec(i) for i in x]
    if isinstance(x, dict):
        if "$b" in x:
            return bytes.fromhex(x["$b"])
        if "$t" in x:
            return tuple(dec(i) for i in x["$t"])
        if "$d" in x:
            return {dec(k): dec(v) for k, v in x["$d"]}
    return x


# ---- building blocks ----------------------------------------------------------------------------------------
UTF8_EDGE = [b"\xe2\x82\xac", b"\xf0\x9f\x98\x80", b"\xc3\xa9", b"\xed\xa0\x80", b"\xc0\xaf", b"\xe0\x80\xaf", b"\xf4\x90\x80\x80",
             b"\xff", b"\xfe", b"\x80", b"\xbf", b"\xe2\x82", b"\xf0\x9f", b"\xc3", b"\xef\xbf\xbd", b"\xf4\x8f\xbf\xbf", b"\xed\x9f\xbf",
             b"\xee\x80\x80", b"\xe0\xa0\x80", b"\xf0\x90\x80\x80", b"\xc2\x80", b"\xdf\xbf", b"\\x", b"\\", b"\x00", b"\n"]


def rand_bytes(rng, n):
    return bytes(rng.getrandbits(8) for _ in range(n))


def rand_output(rng, maxlen=200):
    """Device output biased to UTF-8 edge cases."""
    parts = []
    total = 0
    while total < maxlen and rng.random() < 0.85:
        r = rng.random()
        if r < 0.35:
            p = rng.choice(UTF8_EDGE)
        elif r < 0.7:
            p = bytes(rng.choice(b"abcdefghijklmnopqrstuvwxyz0123456789 \n") for _ in range(rng.randrange(1, 12)))
        else:
            p = rand_bytes(rng, rng.randrange(1, 8))
        parts.append(p)
        total += len(p)
    return b"".join(parts)


def split_chunks(rng, data, mode=None):
    """Split output into WRTE payload chunks (none, 1, 2, 3 bytes, at every byte, random)."""
    if not data:
        return rng.choice([[], [b""], [b"", b""]]) if rng.random() < 0.5 else []
    mode = mode or rng.choice(["whole", "bytes", "two", "random", "random", "with_empty"])
    if mode == "whole":
        return [data]
    if mode == "bytes":
        return [data[i:i + 1] for i in range(len(data))]
    if mode == "two":
        k = rng.randrange(0, len(data) + 1)
        return [data[:k], data[k:]]
    out = []
    i = 0
    while i < len(data):
        n = rng.randrange(1, max(2, len(data) // 2 + 1))
        out.append(data[i:i + n])
        i += n
        if mode == "with_empty" and rng.random() < 0.3:
            out.append(b"")
    return out


def rand_frags(rng, approx_len=600):
    mode = rng.choice(["none", "ones", "hdr_split", "random", "random_with_empty", "big"])
    if mode == "none":
        return []
    if mode == "ones":
        return [1] * approx_len
    if mode == "hdr_split":
        k = rng.randrange(1, 24)
        return [k, 24 - k] * 40 + [rng.randrange(1, 30) for _ in range(100)]
    if mode == "big":
        return [rng.choice([23, 24, 25, 4096, 65536]) for _ in range(60)]
    out = []
    for _ in range(rng.randrange(5, 200)):
        if mode == "random_with_empty" and rng.random() < 0.15:
            out.append(0)
        out.append(rng.choice([1, 2, 3, 7, 23, 24, 25, rng.randrange(1, 100)]))
    return out


def rand_remote_ids(rng, n=6):
    mode = rng.choice(["seq", "same", "big", "random", "mixed", "zero"])
    if mode == "seq":
        return []
    if mode == "zero":
        # out of protocol (protocol.txt: neither id of a READY may be zero) but handled by the library: a device whose own stream id is 0
        return [rng.choice([0, 0, "same", rng.randrange(1, 2 ** 32)]) for _ in range(n)]
    if mode == "same":
        return ["same"] * n
    if mode == "big":
        return [2 ** 32 - 1 - i for i in range(n)]
    if mode == "random":
        return [rng.randrange(1, 2 ** 32) for _ in range(n)]
    return [rng.choice(["same", 1, 2 ** 32 - 1, rng.randrange(1, 2 ** 32)]) for _ in range(n)]


def stray_packets(rng, n_points=4, live_ids=()):
    """Foreign-stream traffic injected before replies: ids never equal to a live (local) id of this session."""
    out = []
    for _ in range(rng.randrange(0, n_points + 1)):
        after = rng.randrange(1, 12)
        a0 = rng.randrange(1000, 2000)
        a1 = rng.randrange(100000, 200000)
        cmd = rng.choice([b"WRTE", b"OKAY", b"CLSE", b"WRTE"])
        data = rand_bytes(rng, rng.randrange(0, 20)) if cmd == b"WRTE" else b""
        out.append((after, pkt(cmd, a0, a1, data)))
    return out


def base_env(rng, sim=None, frag=True):
    sim = sim if sim is not None else {}
    if "version" not in sim and rng.random() < 0.3:
        sim["version"] = rng.choice([0x01000001, 0x01000001, 1, 0, 0xFFFFFFFF])     # devices announce other protocol versions too
    env = dict(sim=sim, dt=rng.choice([0, 1, 1, 1, 3]))
    if frag:
        env["frags"] = rand_frags(rng)
    return env


def connect_op(rng, **kw):
    op = dict(op="connect")
    op.update(kw)
    return op


# ---- families -----------------------------------------------------------------------------------------------
def gen_shell(rng, n_ops=None):
    """connect + shell/exec_out/streaming_shell/root with adversarial chunking, ids, foreign traffic."""
    shell = {}
    ops = [connect_op(rng)]
    n_ops = n_ops or rng.randrange(1, 5)
    for i in range(n_ops):
        cmd = ("c%d" % i).encode() if rng.random() < 0.8 else "é%d".encode("utf8") % i
        out = rand_output(rng)
        shell[cmd] = split_chunks(rng, out)
        kind = rng.choice(["shell", "shell", "exec_out", "streaming_shell", "root"])
        if kind == "root":
            shell[b""] = split_chunks(rng, out)
            ops.append(dict(op="root"))
        elif kind == "streaming_shell":
            ops.append(dict(op="streaming_shell", cmd=cmd, decode=rng.random() < 0.6))
        else:
            ops.append(dict(op=kind, cmd=cmd, decode=rng.random() < 0.6))
    sim = dict(maxdata=rng.choice([4096, 65536, 1 << 20]), shell=shell, burst=rng.random() < 0.4, remote_ids=rand_remote_ids(rng),
               stray=stray_packets(rng))
    scn = dict(envs=[base_env(rng, sim)], ops=ops, healthy=True)
    if rng.random() < 0.3:
        scn["preset"] = dict(lid=rng.choice([0, 1, 2 ** 32 - 3, 2 ** 32 - 2, 2 ** 32 - 1, rng.randrange(2 ** 32)]))
    return scn


def rand_name(rng):
    n = rng.choice([1, 1, 2, 5, 20, 255])
    r = rng.random()
    if r < 0.5:
        return bytes(rng.choice(b"abcdefghijklmnopqrstuvwxyz._-") for _ in range(n))
    return bytes(rng.choice([0, 47, 255, 128, 0xe2, 65, 10]) if rng.random() < 0.4 else rng.getrandbits(8) for _ in range(n))


def rand_u32(rng):
    return rng.choice([0, 1, 2 ** 31, 2 ** 32 - 1, rng.randrange(2 ** 32), 33188, 16877])


def rand_split(rng):
    mode = rng.choice(["none", "ones", "hdr", "random", "small"])
    if mode == "none":
        return None
    if mode == "ones":
        return [1]
    if mode == "hdr":
        return [rng.randrange(1, 8), 8, rng.randrange(1, 20), 100000]
    if mode == "small":
        return [rng.randrange(1, 9)]
    return [rng.randrange(1, 70000) for _ in range(rng.randrange(1, 8))]


def gen_sync_read(rng):
    """list / stat / pull with arbitrary record packetisation."""
    fs, stat, ops = {}, {}, [connect_op(rng)]
    for i in range(rng.randrange(1, 4)):
        kind = rng.choice(["list", "stat", "pull", "pull"])
        path = (rng.choice(["/p%d", "/p%d", "/\u00e9%d", "/\u6587\u4ef6/%d"]) % i).encode("utf8")
        if kind == "list":
            ents = [(rand_name(rng), rand_u32(rng), rand_u32(rng), rand_u32(rng)) for _ in range(rng.choice([0, 1, 2, 2, 5, 40]))]
            fs[path] = ("dir", ents)
            ops.append(dict(op="list", path=path))
        elif kind == "stat":
            stat[path] = (rand_u32(rng), rand_u32(rng), rand_u32(rng))
            ops.append(dict(op="stat", path=path))
        else:
            size = rng.choice([0, 1, 7, 8, 9, 100, 4095, 4096, 5000, 65535, 65536, 65537])
            content = rand_bytes(rng, min(size, 3000)) * (size // max(1, min(size, 3000))) if size else b""
            content = (content + rand_bytes(rng, size))[:size]
            if rng.random() < 0.5:
                chunks = []
                i2 = 0
                while i2 < len(content):
                    if rng.random() < 0.1:
                        chunks.append(b"")      # a zero-length DATA record is legal
                    n = rng.choice([1, 2, 100, 4096, 65536, rng.randrange(1, 70000)]) if len(chunks) < 40 else 65536
                    chunks.append(content[i2:i2 + n])
                    i2 += n
                fs[path] = ("chunks", chunks)
            else:
                fs[path] = content
            cb = rng.choice(["none", "none", "count", "raise", "raisebase"])
            if cb != "none":
                stat[path] = (33188, len(content), 5)
            ops.append(dict(op="pull", path=path, cb=cb, dest=rng.choice(["bytesio", "file"])))
            if ops[-1]["dest"] == "bytesio" and rng.random() < 0.3:
                # the caller's BytesIO is not fresh (an earlier pull went into it, or it was pre-filled): written in place from its position
                had = rand_bytes(rng, rng.choice([1, 10, 5000, 70000]))
                ops[-1]["pre"] = (had, rng.choice([0, len(had), rng.randrange(0, len(had) + 1)]))
    split = rand_split(rng)
    data_chunk = rng.choice([1, 100, 4096, 65536])
    if (split and min(split) < 64) or data_chunk < 4096:
        # tiny WRTE payloads: keep device files small so a transfer stays in the thousands of packets
        for k, v in list(fs.items()):
            if isinstance(v, (bytes, bytearray)) and len(v) > 3000:
                fs[k] = v[:rng.choice([2999, 1500, 257])]
                if k in stat:
                    stat[k] = (33188, len(fs[k]), 5)
            elif isinstance(v, tuple) and v[0] == "chunks" and sum(len(c) for c in v[1]) > 3000:
                whole = b"".join(v[1])[:rng.choice([2999, 1024])]
                fs[k] = ("chunks", [whole[i:i + 700] for i in range(0, len(whole), 700)])
                if k in stat:
                    stat[k] = (33188, len(whole), 5)
    sim = dict(maxdata=rng.choice([4096, 8192, 65536, 262144, 1 << 20]), fs=fs, stat=stat, burst=rng.random() < 0.4,
               okay_after_reply=rng.random() < 0.35, clse_zero_remote=rng.random() < 0.15, wrte_split=split, data_chunk=data_chunk, remote_ids=rand_remote_ids(rng), stray=stray_packets(rng))
    return dict(envs=[base_env(rng, sim)], ops=ops, healthy=True)


def gen_push(rng, big=False):
    """push of BytesIO / file / directory for many sizes, maxdata values, callbacks."""
    maxdata = rng.choice([4096, 4096, 8192, 131072, 262144, 1 << 20])
    chunk = min(65536, maxdata // 2)
    sizes = [0, 1, chunk - 1, chunk, chunk + 1, 2 * chunk, maxdata - 1, maxdata, maxdata + 1, 65535, 65536, 65537]
    if big:
        sizes += [3 * 65536 + 5, 300000]
    files, dirs, ops = {}, {}, [connect_op(rng)]
    has_subdir = False
    fid = 0
    # sizes that make the buffered records end within a few bytes of maxdata (off-by-some in the flush decision)
    sizes += [rng.randrange(max(0, maxdata - 160), maxdata + 40) for _ in range(6)] + [rng.randrange(max(0, chunk * 2 - 120), chunk * 2 + 40) for _ in range(4)]
    for i in range(rng.randrange(1, 3)):
        size = min(rng.choice(sizes), 300000 if big else 140000)
        base = rand_bytes(rng, min(size, 2000))
        content = (base * (size // max(1, len(base)) + 1))[:size] if size else b""
        files[fid] = content
        kind = rng.choice(["bytesio", "file", "file", "dir"])
        path = ("/sdcard/%s%d" % (rng.choice(["x", "x", "x" * 60, "x" * 1000, "\u00e9\u6587\u4ef6", "d\u00efr/\U0001f600"]), i)).encode("utf8")
        op = dict(op="push", path=path, mode=rng.choice([33272, 0, 1, 0o100644, 2 ** 31, 2 ** 32 - 1]), mtime=rng.choice([0, 0, 1, 2 ** 31, 2 ** 32 - 1]),
                  cb=rng.choice(["none", "count", "raise", "raisebase"]))
        if kind == "bytesio" and rng.random() < 0.3:
            op["seek"] = rng.choice([1, 7, 4096])       # the BytesIO was already read up to here: push sends the rest
        if kind == "dir":
            ents = []
            for j in range(rng.randrange(0, 4)):
                fid += 1
                files[fid] = rand_bytes(rng, rng.choice([0, 1, 10, 5000]))
                ents.append((("f%d_%d.bin" % (i, j)).encode(), fid))
            if ents and rng.random() < 0.25:
                # one entry of the directory is itself a directory: opening it fails on the local side, between the transfers of its neighbours
                ents.insert(rng.randrange(0, len(ents) + 1), (("sub%d" % i).encode(), 900000 + i))
                has_subdir = True
            dirs[100 + i] = ents
            op["src"] = ("dir", 100 + i)
        else:
            op["src"] = (kind, fid)
        fid += 1
        ops.append(op)
    sim = dict(maxdata=maxdata, burst=rng.random() < 0.3, remote_ids=rand_remote_ids(rng), stray=stray_packets(rng),
               wrte_split=rand_split(rng), default_chunks=[], okay_after_reply=rng.random() < 0.3)
    return dict(envs=[base_env(rng, sim)], ops=ops, files=files, dirs=dirs, healthy=not has_subdir)


def gen_reconnect_push(rng):
    """connect (large maxdata), transfer, connect AGAIN without close (small maxdata), transfer: per-connection values must not be cached."""
    md = [rng.choice([1 << 20, 262144, 65536]), rng.choice([4096, 8192])]
    if rng.random() < 0.3:
        md.reverse()
    files = {0: rand_bytes(rng, 2000) * rng.choice([1, 5, 10]), 1: rand_bytes(rng, 9000)}
    envs = [dict(sim=dict(maxdata=md[0], default_chunks=[]), dt=1), dict(sim=dict(maxdata=md[1], default_chunks=[]), dt=1)]
    ops = [dict(op="connect"), dict(op="push", src=("bytesio", 0), path=b"/sdcard/a", mtime=7), dict(op="connect"),
           dict(op="push", src=(rng.choice(["bytesio", "file"]), 1), path=b"/sdcard/b", mtime=7)]
    if rng.random() < 0.5:
        ops.insert(2, dict(op="close"))
    return dict(envs=envs, ops=ops, files=files, healthy=True)


def gen_handshake(rng):
    """connect() against every authentication behaviour; repeated connects on the same object."""
    envs, ops = [], []
    for _ in range(rng.choice([1, 1, 2, 3])):
        nkeys = rng.choice([0, 0, 1, 2, 3, 4])
        mode = rng.choice(["none", "accept", "accept", "pubkey", "never", "nontoken", "stall"])
        auth = None
        sim = dict(maxdata=rng.choice([0, 1, 4096, 1 << 20, 2 ** 32 - 1]), banner=rng.choice([b"device::x", b"", b"device::" + b"y" * 300]))
        if mode == "accept":
            auth = dict(accept=rng.randrange(0, max(1, nkeys)), pubkey_ok=True)
        elif mode == "pubkey":
            auth = dict(accept=None, pubkey_ok=True)
        elif mode == "never":
            auth = dict(accept=None, pubkey_ok=False)
            if rng.random() < 0.5:
                auth["pubkey_reply"] = rng.choice(["auth", "auth_then_cnxn"])
        elif mode == "nontoken":
            auth = dict(accept=None, pubkey_ok=True, nontoken_at=rng.randrange(0, nkeys + 1))
        elif mode == "stall":
            auth = dict(accept=None, pubkey_ok=True)
            sim["silent_after"] = rng.randrange(0, nkeys + 2)
        sim["auth"] = auth
        sim["stray"] = [(a, raw) for a, raw in stray_packets(rng, 3) if a <= nkeys + 2]
        env = base_env(rng, sim)
        env["cfail"] = rng.random() < 0.05
        envs.append(env)
        ops.append(dict(op="connect", keys=list(range(1, nkeys + 1)), keys_none=rng.random() < 0.5, pubstr=rng.random() < 0.5, cb=rng.random() < 0.6,
                        tt=rng.choice([None, 1024, 3072]), rt=rng.choice([10240, 1024, 512]), at=rng.choice([10240, 2048, 100])))
        if rng.random() < 0.5:
            sim.setdefault("shell", {})[b"probe"] = [b"alive"]
            ops.append(dict(op="shell", cmd=b"probe", decode=False))
        if rng.random() < 0.2:
            ops.append(dict(op="close"))
    return dict(envs=envs, ops=ops, dtt=rng.choice([None, None, 2048]))


# ---- more families ------------------------------------------------------------------------------------------
def gen_mixed(rng, healthy=True):
    """One session that touches every operation kind (used for faults, short writes, twins, guards)."""
    shell = {b"echo": split_chunks(rng, rand_output(rng, 60)), b"": [b"restarting adbd as root\n"]}
    content = rand_bytes(rng, rng.choice([0, 10, 3000, 9000]))
    fs = {b"/d": ("dir", [(rand_name(rng), rand_u32(rng), rand_u32(rng), rand_u32(rng)) for _ in range(rng.randrange(0, 4))]), b"/f": content}
    stat = {b"/f": (33188, len(content), 77)}
    files = {0: rand_bytes(rng, rng.choice([0, 5, 2500, 7000]))}
    ops = [connect_op(rng)]
    pool = [dict(op="shell", cmd=b"echo", decode=rng.random() < 0.5), dict(op="stat", path=b"/f"), dict(op="list", path=b"/d"),
            dict(op="pull", path=b"/f", cb=rng.choice(["none", "count"])), dict(op="push", src=("bytesio", 0), path=b"/sdcard/up", cb=rng.choice(["none", "count"])),
            dict(op="exec_out", cmd=b"echo", decode=False), dict(op="streaming_shell", cmd=b"echo", decode=rng.random() < 0.5), dict(op="root"),
            dict(op="reboot", fastboot=rng.random() < 0.5)]
    rng.shuffle(pool)
    ops += pool[:rng.randrange(2, 7)]
    sim = dict(maxdata=rng.choice([4096, 65536]), shell=shell, fs=fs, stat=stat, burst=rng.random() < 0.3, remote_ids=rand_remote_ids(rng),
               wrte_split=rng.choice([None, [7], [1000]]), data_chunk=rng.choice([100, 4096, 65536]), okay_after_reply=rng.random() < 0.3,
               clse_zero_remote=rng.random() < 0.15)
    return dict(envs=[base_env(rng, sim)], ops=ops, files=files, healthy=healthy)


def gen_frag_slow(rng):
    """Fragmentation WITH time: every read returns a few bytes and takes a while, the transport timeout is short and the read timeout generous,
    packets are small enough to arrive well inside read_timeout_s.  The packet reader's deadline is read_timeout_s (not the transport timeout,
    not per fragment): every operation must succeed with the same result as with unfragmented delivery."""
    out = rand_bytes(rng, rng.choice([30, 90, 200]))
    content = rand_bytes(rng, rng.choice([0, 60, 150]))
    shell = {b"echo": [out[:len(out) // 2], out[len(out) // 2:]] if rng.random() < 0.5 else [out], b"": [b"restarting adbd as root\n"]}
    fs = {b"/d": ("dir", [(b"n%d" % j, rand_u32(rng), rand_u32(rng), rand_u32(rng)) for j in range(rng.randrange(0, 3))]), b"/f": content}
    stat = {b"/f": (33188, len(content), 77)}
    pool = [dict(op="shell", cmd=b"echo", decode=False), dict(op="stat", path=b"/f"), dict(op="list", path=b"/d"), dict(op="pull", path=b"/f", cb="none"),
            dict(op="exec_out", cmd=b"echo", decode=False), dict(op="streaming_shell", cmd=b"echo", decode=False), dict(op="push", src=("bytesio", 0), path=b"/sdcard/up", cb="none")]
    rng.shuffle(pool)
    ops = [connect_op(rng)] + pool[:rng.randrange(2, 5)]
    tt = rng.choice([256, 512])
    for op in ops[1:]:
        op["tt"], op["rt"] = tt, 10240
    sim = dict(maxdata=4096, shell=shell, fs=fs, stat=stat, burst=rng.random() < 0.3, remote_ids=rand_remote_ids(rng))
    env = dict(sim=sim, dt=rng.choice([60, 100]), frags=[rng.choice([5, 8, 8, 13]) for _ in range(1500)])
    return dict(envs=[env], ops=ops, files={0: rand_bytes(rng, rng.choice([0, 40, 300]))}, healthy=True)


def with_fault(rng, scn, total_in, total_out):
    """Copy of a healthy scenario with one fault, then close + reconnect to a healthy device + the same ops again."""
    s = copy.deepcopy(scn)
    side = rng.choice(["in", "in", "out"])
    off = rng.randrange(0, max(1, total_in if side == "in" else total_out))
    kind = rng.choice(["timeout", "reset", "eof"] if side == "in" else ["timeout", "reset"])
    s["envs"][0]["faults"] = [(side, off, kind)]
    s["envs"][0]["dt"] = max(1, s["envs"][0].get("dt", 1))
    s["healthy"] = False
    healthy = copy.deepcopy(scn["envs"][0])
    healthy.pop("faults", None)
    # the broken session also leaves packets behind that are addressed to stream ids the host has NOT allocated yet
    # (they end up parked in the packet store); the new session must not see them
    n_open = 3 * len(scn["ops"]) + 4
    stale = []
    for k in range(1, rng.randrange(2, 8)):
        lid_future = rng.randrange(1, n_open)
        stale.append((rng.randrange(1, 10), pkt(rng.choice([b"OKAY", b"WRTE", b"OKAY"]), rng.randrange(1, 50), lid_future, b"STALE" if rng.random() < 0.5 else b"")))
    s["envs"][0]["sim"]["stray"] = list(s["envs"][0]["sim"].get("stray", [])) + stale
    middle = []
    if rng.random() < 0.35:
        # the device is still down at the first reconnect attempt: connect() raises, the object must report itself unavailable
        # and refuse operations; only then the healthy reconnect
        down = rng.choice([dict(sim=dict(silent_after=0), dt=1), dict(sim={}, dt=1, cfail=True), dict(sim=dict(auth=dict(accept=None, pubkey_ok=True)), dt=1)])
        s["envs"].append(down)
        middle = [dict(op="connect", rt=1024, tt=1024, at=1024), dict(op="shell", cmd=b"echo", decode=False)]
    s["envs"].append(healthy)
    replay_ops = [copy.deepcopy(o) for o in scn["ops"]]
    s["ops"] = scn["ops"] + ([dict(op="close")] if rng.random() < 0.6 else []) + middle + replay_ops
    s["fault"] = (side, off, kind)
    s["n_before"] = len(s["ops"]) - len(replay_ops)
    return s


def gen_short_writes(rng):
    fam = rng.choice([gen_mixed, gen_push, gen_shell, gen_handshake])
    scn = fam(rng)
    for env in scn["envs"]:
        mode = rng.choice(["ones", "small", "random", "none_return", "hdr"])
        if mode == "none_return":
            env["wnone"] = True
        elif mode == "ones":
            env["ofrags"] = [1] * 400 + [rng.choice([7, 23, 24, 25, 4095]) for _ in range(200)]
        elif mode == "small":
            env["ofrags"] = [rng.choice([1, 2, 7, 23, 24, 25]) for _ in range(600)]
        elif mode == "hdr":
            k = rng.randrange(1, 24)
            env["ofrags"] = [k, 24 - k] * 100
        else:
            env["ofrags"] = [rng.randrange(1, 5000) for _ in range(300)]
    if rng.random() < 0.25:
        # some write calls accept NOTHING and report 0 (the caller has to try again); judged by the oracles only: the model's transport
        # always accepts at least one byte
        for env in scn["envs"]:
            if not env.get("wnone"):
                env["ozeros"] = sorted(rng.sample(range(0, 40), rng.randrange(1, 8)))
        scn["oracle_only"] = True
    elif rng.random() < 0.2:
        # a write whose data is taken (and delivered) while the call itself reports the transport's timeout error
        for env in scn["envs"]:
            env["olate"] = sorted(rng.sample(range(0, 30), rng.randrange(1, 3)))
        scn["oracle_only"] = True
        scn["healthy"] = False
    return scn


def gen_guards(rng, length=None):
    """Sequences over connect-ok / connect-fail / close / every public operation (with and without an empty path)."""
    n = length or rng.randrange(1, 5)
    envs, ops = [], []
    opkinds = ["connect_ok", "connect_fail_nokeys", "connect_fail_timeout", "connect_fail_nontoken", "close",
               "shell", "exec_out", "root", "reboot", "streaming_shell", "list", "stat", "pull", "push", "list_e", "stat_e", "pull_e", "push_e"]
    for _ in range(n):
        k = rng.choice(opkinds)
        add_guard_op(rng, k, envs, ops)
    scn = dict(envs=envs, ops=ops, files={0: b"data"})
    if rng.random() < 0.3:
        # a streaming_shell generator obtained at one point of the history and iterated at a later one: only the state at ITERATION time counts
        i = rng.randrange(0, len(ops) + 1)
        j = rng.randrange(i + 1, len(ops) + 2)
        dec = rng.random() < 0.5
        ops.insert(i, dict(op="ss_defer", cmd=b"g", decode=dec))
        ops.insert(j, dict(op="ss_resume", cmd=b"g", decode=dec))
    if rng.random() < 0.25:
        # a close() whose transport.close() raises, then more operations: judged by the oracle only (`available` must be False)
        i = rng.randrange(0, len(ops) + 1)
        ops.insert(i, dict(op="close", transport_close_raises=True))
        for k in rng.sample(["shell", "stat", "pull"], 2):
            add_guard_op(rng, k, envs, ops)
        scn["oracle_only"] = True
    return scn


def add_guard_op(rng, k, envs, ops):
    shell = {b"g": [b"x"], b"": [b"r"]}
    fs = {b"/g": b"content", b"/gd": ("dir", [(b"a", 1, 2, 3)])}
    stat = {b"/g": (1, 7, 3)}
    base = dict(maxdata=4096, shell=shell, fs=fs, stat=stat)
    if k.startswith("connect"):
        sim = dict(base)
        sim["maxdata"] = rng.choice([4096, 4096, 1024, 600, 1 << 20])     # devices announcing less than the legacy 4096 exist too
        op = dict(op="connect", rt=1024, tt=1024, at=1024)
        if k == "connect_fail_nokeys":
            sim["auth"] = dict(accept=None, pubkey_ok=True)
        elif k == "connect_fail_timeout":
            sim["silent_after"] = 0
        elif k == "connect_fail_nontoken":
            sim["auth"] = dict(accept=None, pubkey_ok=True, nontoken_at=0)
            op["keys"] = [1]
        envs.append(dict(sim=sim, dt=1))
        ops.append(op)
    elif k == "close":
        ops.append(dict(op="close"))
    elif k in ("shell", "exec_out", "streaming_shell"):
        ops.append(dict(op=k, cmd=b"g", decode=rng.random() < 0.5))
    elif k in ("root", "reboot"):
        ops.append(dict(op=k))
    else:
        empty = k.endswith("_e")
        kind = k[:-2] if empty else k
        path = b"" if empty else {"list": b"/gd", "stat": b"/g", "pull": b"/g", "push": b"/sdcard/g"}[kind]
        op = dict(op=kind, path=path)
        if kind == "pull":
            op["dest"] = rng.choice(["bytesio", "file"])
            op["cb"] = rng.choice(["none", "count"])
        if kind == "push":
            op["src"] = (rng.choice(["bytesio", "file"]), 0)
        ops.append(op)


def gen_stall(rng):
    """The device stops after k packets / EOF / trickles / floods foreign or unexpected traffic; timeout grid."""
    base = gen_mixed(rng)
    ops = base["ops"]
    grid = [None, 0, -1024, 1, 512, 3072, 10240]
    tt, rt, t = rng.choice(grid[3:] + [None]), rng.choice(grid[3:]), rng.choice([None, None, 1, 3072, 10240])
    if rng.random() < 0.15:
        tt, rt = rng.choice(grid), rng.choice(grid)
    for op in ops:
        op["tt"], op["rt"] = tt, rt
        if op["op"] in ("shell", "exec_out", "root", "reboot"):
            op["t"] = t
        if op["op"] == "connect":
            op["at"] = rng.choice([100, 2048, 10240])
    env = base["envs"][0]
    kind = rng.choice(["silent", "silent", "eof", "trickle", "flood_foreign", "flood_unexpected", "keepalive"])
    sim = env["sim"]
    if kind == "keepalive":
        # the service never finishes and only sends empty writes: nothing is ever yielded to the caller, yet traffic for its stream keeps coming
        sim["keepalive"] = rng.choice([40, 300])
        sim["never_close"] = True
        env["dt"] = rng.choice([1, 20, 100])
        env["frags"] = []
    elif kind == "silent":
        sim["silent_after"] = rng.randrange(0, 14)
    elif kind == "eof":
        env["faults"] = [("in", rng.randrange(0, 400), "eof")]
        env["dt"] = max(1, env.get("dt", 1))       # an empty read takes time; with dt = 0 virtual time would never pass
    elif kind == "trickle":
        env["frags"] = [rng.choice([1, 1, 2])] * 3000
        env["dt"] = rng.choice([100, 500, 2000])
    else:
        after = rng.randrange(1, 10)
        sim["silent_after"] = after
        n = rng.choice([3, 30, 200])
        if kind == "flood_foreign":
            raws = [pkt(b"WRTE", 5000 + j, 70000, b"noise") for j in range(n)]
        else:
            raws = [pkt(rng.choice([b"SYNC", b"OPEN", b"AUTH", b"CNXN"]), 0, 0, b"") for j in range(n)]
        sim["stray"] = [(after + 1, b"".join(raws))]
        env["dt"] = rng.choice([1, 200, 1000])
    base["stall"] = kind
    base["healthy"] = False
    return base


def gen_trickle_big(rng):
    """One packet with a payload far above 64 KiB whose bytes arrive in 16 KiB reads, each quickly, the whole of it taking many times
    read_timeout_s: the wait for ONE packet's payload is bounded by read_timeout_s as a whole."""
    size = rng.choice([200000, 400000, 1000000])
    blob = rand_bytes(rng, 1000) * (size // 1000)
    sim = dict(maxdata=1 << 20, shell={b"c0": [blob]}, burst=False)
    env = dict(sim=sim, dt=rng.choice([150, 200, 300]), frags=[16384] * 200)
    kind = rng.choice(["shell", "exec_out", "streaming_shell"])
    ops = [connect_op(rng), dict(op=kind, cmd=b"c0", rt=1024, tt=1024, decode=False)]
    return dict(envs=[env], ops=ops, stall="trickle_big", healthy=False)


def gen_slow(rng):
    """A conforming but slow device: every transport call takes a sizeable fraction of a second, every single packet arrives well inside the
    per-read timeouts, and the whole-command limit timeout_s expires somewhere in the middle of (or at the very end of) the stream."""
    base = gen_shell(rng)
    env = base["envs"][0]
    env["dt"] = rng.choice([100, 200, 300, 500])
    env["frags"] = []
    for op in base["ops"]:
        if op["op"] in ("shell", "exec_out", "root", "streaming_shell"):
            # an operation costs a few transport calls per packet; aim the deadline at a random point of (or just past) its exchange
            op["t"] = env["dt"] * rng.randrange(1, 28) + rng.randrange(env["dt"])
        op["tt"], op["rt"] = 10240, 10240
    base["healthy"] = False
    return base


def gen_noclose(rng):
    """A device that serves every request but never answers the host's closing CLSE (slow or lost reply): the operation's data phase succeeds
    and the closing handshake times out."""
    base = rng.choice([gen_sync_read, gen_sync_read, gen_push])(rng)
    base["envs"][0]["sim"]["no_clse_reply"] = True
    base["healthy"] = False
    for op in base["ops"]:
        if op.get("op") == "pull" and op.get("cb") in ("count", "raise", "raisebase"):
            op["cb"] = "none"       # with a callback pull first runs stat() on its own stream, which would already fail at its close
    return base


def gen_fail(rng):
    """Device-side sync failures at every point: FAIL for RECV, FAIL status for SEND (at the end or overtaking an OKAY), invalid records."""
    files = {0: rand_bytes(rng, rng.choice([0, 100, 6000, 9000, 20000]))}
    msg = rng.choice([b"", b"nope", b"Permission denied", b"\xff\xfe bad utf8 \xe2\x82", b"x" * 1024, b"disk 100% full", b"cannot open 'My%20Song.mp3': %s %d %(x)s {0} {}"])
    sim = dict(maxdata=rng.choice([4096, 8192]), burst=rng.random() < 0.5, wrte_split=rng.choice([None, [3], [9], [1], [8, 100]]), remote_ids=rand_remote_ids(rng),
               okay_after_reply=rng.random() < 0.4)
    ops = [connect_op(rng)]
    kind = rng.choice(["pull_fail", "push_fail_status", "push_fail_early", "pull_invalid", "push_invalid", "stat_invalid", "list_invalid", "pull_fail_after_data",
                       "trailing", "trailing"])
    if kind == "trailing":
        # the device keeps writing on the stream after the record that ends the transfer (DONE / FAIL / the STAT reply): those WRTEs are still in
        # flight when the host closes the stream; they must be neither delivered nor acknowledged
        extra = b"".join(sync_rec(b"DATA", 3, data=b"zzz") for _ in range(rng.choice([1, 3, 12])))
        sim["burst"] = True
        sim["wrte_split"] = rng.choice([[8], [11], [20], [5, 40]])
        sub = rng.choice(["pull", "pull_fail", "list", "stat"])
        if sub == "pull":
            sim["fs"] = {b"/x": ("raw", sync_rec(b"DATA", 3, data=b"abc") + sync_rec(b"DONE", 0) + extra)}
            ops.append(dict(op="pull", path=b"/x"))
        elif sub == "pull_fail":
            sim["fs"] = {b"/x": ("raw", sync_rec(b"DATA", 3, data=b"abc") + sync_rec(b"FAIL", len(msg), data=msg) + extra)}
            sim["expect"] = ("AdbCommandFailureException", msg)
            ops.append(dict(op="pull", path=b"/x"))
        elif sub == "list":
            sim["fs"] = {b"/x": ("raw", sync_rec(b"DENT", 1, 2, 3, 1, data=b"a") + sync_rec(b"DONE", 0, 0, 0, 0) + extra)}
            ops.append(dict(op="list", path=b"/x"))
        else:
            sim["stat"] = {b"/x": ("raw", sync_rec(b"STAT", 1, 2, 3) + extra)}
            ops.append(dict(op="stat", path=b"/x"))
        return dict(envs=[base_env(rng, sim)], ops=ops, files=files, failkind=kind)
    if kind == "pull_fail":
        sim["fs"] = {b"/x": ("fail", msg)}
        if rng.random() < 0.3:
            sim["no_clse_reply"] = True      # the device reports the failure and then does not answer the close (F8)
        # (with a callback pull first runs stat() on its own stream; a device that never answers a close would already fail that one)
        ops.append(dict(op="pull", path=b"/x", cb="none" if sim.get("no_clse_reply") else rng.choice(["none", "count"]), dest=rng.choice(["bytesio", "file"])))
        sim["stat"] = {b"/x": (1, 2, 3)}
    elif kind == "pull_fail_after_data":
        raw = b"".join(sync_rec(b"DATA", len(c), data=c) for c in [b"abc", b"defg"][: rng.randrange(0, 3)]) + sync_rec(b"FAIL", len(msg), data=msg)
        sim["fs"] = {b"/x": ("raw", raw)}
        sim["expect"] = ("AdbCommandFailureException", msg)
        ops.append(dict(op="pull", path=b"/x"))
    elif kind == "push_fail_status":
        sim["push_result"] = ("fail", msg, "status")
        ops.append(dict(op="push", src=("bytesio", 0), path=b"/sdcard/f", cb=rng.choice(["none", "count"])))
    elif kind == "push_fail_early":
        sim["push_result"] = ("fail", msg, "early")
        if rng.random() < 0.5:
            # only the first piece(s) of the FAIL record overtake the OKAY; header and reason travel in separate packets
            sim["wrte_split"] = rng.choice([[8, 100], [8], [4], [9, 3]])
            sim["early_before"] = rng.choice([1, 1, 2])
            sim["burst"] = False
        ops.append(dict(op="push", src=("bytesio", 0), path=b"/sdcard/f"))
    elif kind == "pull_invalid":
        rid = rng.choice([b"DENT", b"OKAY", b"STAT", b"SEND", b"LIST"])
        raw = sync_rec(rid, 0) if rid != b"STAT" else sync_rec(b"STAT", 1, 2, 3)
        sim["fs"] = {b"/x": ("raw", raw)}
        sim["expect"] = ("InvalidResponseError", None)
        ops.append(dict(op="pull", path=b"/x"))
    elif kind == "push_invalid":
        rid = rng.choice([b"DATA", b"DONE", b"DENT"])
        sim["push_result"] = ("raw", sync_rec(rid, 0))
        sim["expect"] = ("InvalidResponseError", None)
        ops.append(dict(op="push", src=("bytesio", 0), path=b"/sdcard/f"))
    elif kind == "stat_invalid":
        rid = rng.choice([b"DATA", b"DONE", b"OKAY"])
        sim["stat"] = {b"/x": ("raw", sync_rec(rid, 0, 0, 0))}
        sim["expect"] = ("InvalidResponseError", None)
        ops.append(dict(op="stat", path=b"/x"))
    else:
        rid = rng.choice([b"DATA", b"OKAY", b"SEND"])
        sim["fs"] = {b"/x": ("raw", sync_rec(rid, 0, 0, 0, 0))}
        sim["expect"] = ("InvalidResponseError", None)
        ops.append(dict(op="list", path=b"/x"))
    env = base_env(rng, sim)
    if rng.random() < 0.25:
        # a slow device: the failure record trickles in over several packets, each well inside read_timeout_s, the whole of it not
        env["dt"] = rng.choice([150, 250, 300])
        env["frags"] = []
        sim["wrte_split"] = rng.choice([[1], [2], [3], [5]])
        for op in ops[1:]:
            op["rt"], op["tt"] = rng.choice([1024, 1536]), 1024
    return dict(envs=[env], ops=ops, files=files, failkind=kind)


def gen_decode_carry(rng):
    """A decode=True command whose output so far ends INSIDE a multi-byte UTF-8 sequence hangs and times out; the next commands on the same object must
    return exactly their own output (nothing of the unfinished sequence may be carried over), whatever their first bytes are."""
    tails = [b"\xc3", b"\xe2\x82", b"\xf0\x9f\x98", b"abc\xc3", b"\xe2", b"ok\n\xf0\x9f"]
    heads = [b"hello", b"\xa9llo", b"\x82\xac 5", b"\x98\x80!", b"", b"\xc3\xa9", b"\xff", b"plain\n"]
    shell = {b"hang": split_chunks(rng, rng.choice([b"", b"line 1\n"]) + rng.choice(tails))}
    ops = [connect_op(rng), dict(op=rng.choice(["shell", "exec_out"]), cmd=b"hang", decode=True, rt=rng.choice([512, 1024]), tt=rng.choice([256, 512]), t=rng.choice([None, 700]))]
    for i in range(rng.randrange(1, 4)):
        cmd = b"n%d" % i
        shell[cmd] = split_chunks(rng, rng.choice(heads) + rng.choice([b"", b" and more \xe2\x82\xac", b"\n"]))
        ops.append(dict(op=rng.choice(["shell", "exec_out", "streaming_shell", "shell"]), cmd=cmd, decode=rng.random() < 0.85))
    sim = dict(maxdata=4096, shell=shell, never_close_cmds=[b"hang"], remote_ids=rand_remote_ids(rng))
    env = base_env(rng, sim)
    env["dt"] = max(1, env.get("dt", 1))
    return dict(envs=[env], ops=ops, files={}, healthy=False)


def gen_trailing_then(rng):
    """list / stat whose reply is followed by more bytes on the stream (still in flight when the host closes it), then further list / stat calls on the same
    object: each call returns exactly the records of ITS OWN reply."""
    ops = [connect_op(rng)]
    extra = b"".join(sync_rec(b"DENT", 7, 8, 9, 3, data=b"old") for _ in range(rng.choice([1, 2, 5]))) + rng.choice([b"", sync_rec(b"STAT", 4, 5, 6), b"DEN"])
    fs, stat = {}, {}
    for i in range(rng.randrange(2, 5)):
        path = b"/p%d" % i
        if rng.random() < 0.5:
            ents = [(rand_name(rng), rand_u32(rng), rand_u32(rng), rand_u32(rng)) for _ in range(rng.choice([0, 1, 3]))]
            raw = b"".join(sync_rec(b"DENT", m, sz, mt, len(nm), data=nm) for nm, m, sz, mt in ents) + sync_rec(b"DONE", 0, 0, 0, 0)
            fs[path] = ("raw", raw + (extra if i == 0 or rng.random() < 0.4 else b""))
            ops.append(dict(op="list", path=path))
        else:
            trip = (rand_u32(rng), rand_u32(rng), rand_u32(rng))
            stat[path] = ("raw", sync_rec(b"STAT", *trip) + (extra if i == 0 or rng.random() < 0.4 else b""))
            ops.append(dict(op="stat", path=path))
    sim = dict(maxdata=rng.choice([4096, 65536]), fs=fs, stat=stat, burst=True, wrte_split=rng.choice([None, [8], [11], [20], [5, 40], [16, 4]]), remote_ids=rand_remote_ids(rng))
    return dict(envs=[base_env(rng, sim)], ops=ops, files={}, healthy=False)


def gen_corrupt(rng):
    base = rng.choice([gen_shell, gen_sync_read, gen_mixed])(rng)
    kind = rng.choice(["sum", "cmd"])
    if kind == "sum":
        how = rng.choice([True, True, "zero", "zero", rng.getrandbits(32), 0xFFFFFFFF])
    else:
        # bit flips, and whole words that are ids of OTHER protocols / protocol versions but not ADB commands of this library
        how = rng.choice([True, 0x100, 0x80, 0x8000, 0x80000000, 0xFFFFFFFF, 1 << rng.randrange(32), b"STLS", b"FAIL", b"DATA", b"QUIT", b"okay",
                          ("trunc", rng.choice([1, 5, 24, 4096, 0xFFFFFFFF]), rng.choice([0x100, b"STLS", 0x80000000])),
                          ("trunc", rng.choice([1, 5, 24, 4096, 0xFFFFFFFF]), rng.choice([0x100, b"STLS", 0x80000000]))])
    base["envs"][0]["sim"]["corrupt"] = (rng.randrange(1, 12), kind, how)
    base["healthy"] = False
    return base


def refragment(rng, scn):
    """Variants of a scenario that differ only in read fragmentation (first: unfragmented)."""
    out = []
    for mode in ["none", "ones", "hdr", "random", "empties", "big"]:
        s = copy.deepcopy(scn)
        for env in s["envs"]:
            env["dt"] = 0      # fragmentation must not be confused with slowness: no virtual time passes in these runs
            if mode == "none":
                env["frags"] = []
            elif mode == "ones":
                env["frags"] = [1] * 5000
            elif mode == "hdr":
                k = rng.randrange(1, 24)
                env["frags"] = [k, 24 - k] * 300
            elif mode == "random":
                env["frags"] = [rng.randrange(1, 60) for _ in range(800)]
            elif mode == "empties":
                env["frags"] = [rng.choice([0, 1, 5, 24, 0, 100]) for _ in range(800)]
            else:
                env["frags"] = [rng.choice([23, 24, 25, 4096]) for _ in range(300)]
        out.append(s)
    return out
