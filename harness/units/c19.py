"""C19 -- buffered packets: per-stream FIFO with correct wildcard lookup.

The real hidden_helpers._AdbPacketStore is driven directly with operation sequences (exhaustive short ones over a small id
alphabet, long random ones over a larger one).  Every step is judged against the specification as stated in Lean:
  * put/get(concrete)/clear/clear_all/len/contains: exact equality with the model (which refines AStore, theorem C19_history)
  * wildcard / zero-fallback find and get: the implementation's choice must be one of Store.allowed (theorems
    C19_find_sound_complete, C19_zero_fallback); the model then continues with the implementation's choice, so dict order is
    not compared (exact-order agreement is reported as information only).
"""
import itertools

from common import hx

CMDS = ["WRTE", "OKAY", "CLSE", "OPEN", "AUTH", "CNXN", "SYNC"]


def fmt(x):
    return "N" if x is None else str(x)


def run_impl(seq):
    """Run the op sequence on a fresh real store; returns per-op observation and the final flattened state."""
    from adb_shell.hidden_helpers import _AdbPacketStore
    st = _AdbPacketStore()
    obs = []
    for op in seq:
        kind = op[0]
        try:
            if kind == "put":
                st.put(op[1], op[2], op[3].encode(), op[4])
                obs.append(("ok",))
            elif kind == "get":
                cmd, a0, a1, data = st.get(op[1], op[2])
                obs.append(("ok", cmd.decode(), a0, a1, bytes(data)))
            elif kind == "find":
                obs.append(("key", st.find(op[1], op[2])))
            elif kind == "findz":
                obs.append(("key", st.find_allow_zeros(op[1], op[2])))
            elif kind == "clear":
                st.clear(op[1], op[2])
                obs.append(("ok",))
            elif kind == "clearall":
                st.clear_all()
                obs.append(("ok",))
            elif kind == "len":
                obs.append(("int", len(st)))
            elif kind == "contains":
                obs.append(("bool", (op[1], op[2]) in st))
        except Exception as exc:  # noqa
            obs.append(("err", type(exc).__name__))
    flat = {}
    for a1, inner in st._dict.items():
        for a0, q in inner.items():
            flat[(a0, a1)] = [(c.decode(), bytes(d)) for c, d in list(q._queue)]
    order = [(a0, a1) for a1, inner in st._dict.items() for a0 in inner]
    return obs, flat, order


def model_lines(seq, obs):
    """Lines for the driver, with wildcard choices forced to the implementation's."""
    lines = ["store new"]
    plan = []   # per op: list of (line index, role)
    for op, ob in zip(seq, obs):
        kind = op[0]
        idx = []
        if kind == "put":
            lines.append("store put %d %d %s %s" % (op[1], op[2], op[3], hx(op[4])))
            idx.append((len(lines) - 1, "exact"))
        elif kind == "get":
            wild = op[1] is None or op[2] is None
            if wild:
                lines.append("store allowed f %s %s" % (fmt(op[1]), fmt(op[2])))
                idx.append((len(lines) - 1, "allowed"))
                lines.append("store find %s %s" % (fmt(op[1]), fmt(op[2])))
                idx.append((len(lines) - 1, "order"))
                if ob[0] == "ok":
                    lines.append("store get %d %d" % (ob[2], ob[3]))
                    idx.append((len(lines) - 1, "exact"))
            else:
                lines.append("store get %d %d" % (op[1], op[2]))
                idx.append((len(lines) - 1, "exact"))
        elif kind in ("find", "findz"):
            lines.append("store allowed %s %s %s" % ("z" if kind == "findz" else "f", fmt(op[1]), fmt(op[2])))
            idx.append((len(lines) - 1, "allowed"))
            lines.append("store %s %s %s" % (kind, fmt(op[1]), fmt(op[2])))
            idx.append((len(lines) - 1, "order"))
        elif kind == "clear":
            lines.append("store clear %d %d" % (op[1], op[2]))
            idx.append((len(lines) - 1, "exact"))
        elif kind == "clearall":
            lines.append("store clearall")
            idx.append((len(lines) - 1, "exact"))
        elif kind == "len":
            lines.append("store len")
            idx.append((len(lines) - 1, "exact"))
        elif kind == "contains":
            lines.append("store allowed f %s %s" % (fmt(op[1]), fmt(op[2])))
            idx.append((len(lines) - 1, "nonempty"))
        plan.append(idx)
    lines.append("store dump")
    return lines, plan


def parse_allowed(reply):
    toks = reply.split()[1:]
    return [tuple(int(x) for x in t.split(":")) for t in toks]


def parse_dump(reply):
    flat = {}
    body = reply.strip()[1:-1]
    if not body:
        return flat
    # {a1={a0=[CMD:hex,...];a0=[...]};a1={...}}
    depth = 0
    cur = ""
    parts = []
    for ch in body:
        if ch == "{":
            depth += 1
        if ch == "}":
            depth -= 1
        if ch == ";" and depth == 0:
            parts.append(cur)
            cur = ""
        else:
            cur += ch
    parts.append(cur)
    for part in parts:
        a1, inner = part.split("=", 1)
        inner = inner[1:-1]
        for ent in inner.split(";"):
            a0, q = ent.split("=", 1)
            items = []
            for it in q[1:-1].split(","):
                if it:
                    c, d = it.split(":")
                    items.append((c, b"" if d == "-" else bytes.fromhex(d)))
            flat[(int(a0), int(a1))] = items
    return flat


def judge(seq, obs, flat, order, replies, plan):
    """Returns (prop_failure or None, disagreement or None, info dict)."""
    info = dict(order_agree=0, order_total=0)
    for i, (op, ob, idx) in enumerate(zip(seq, obs, plan)):
        kind = op[0]
        for li, role in idx:
            r = replies[li]
            if role == "allowed":
                allowed = parse_allowed(r)
                if kind == "get":
                    if ob[0] == "ok":
                        if (ob[2], ob[3]) not in allowed:
                            return dict(step=i, why="get%r returned a packet of pair %r which the spec does not allow (allowed: %r)" % (op[1:], (ob[2], ob[3]), allowed)), None, info
                    elif ob == ("err", "TypeError"):
                        if allowed:
                            return dict(step=i, why="get%r found nothing although pairs %r have pending packets" % (op[1:], allowed)), None, info
                    else:
                        return dict(step=i, why="get%r raised %r" % (op[1:], ob)), None, info
                else:
                    key = ob[1] if ob[0] == "key" else ob
                    if key is None:
                        if allowed:
                            return dict(step=i, why="%s%r returned None although pairs %r have pending packets" % (kind, op[1:], allowed)), None, info
                    elif ob[0] != "key" or tuple(key) not in allowed:
                        return dict(step=i, why="%s%r returned %r which is not a matching pair with a pending packet (allowed: %r)" % (kind, op[1:], key, allowed)), None, info
            elif role == "nonempty":
                want = bool(parse_allowed(r))
                if ob != ("bool", want):
                    return dict(step=i, why="contains%r = %r but spec says %r" % (op[1:], ob, want)), None, info
            elif role == "order":
                info["order_total"] += 1
                if kind == "get":
                    got = "ok %d %d" % (ob[2], ob[3]) if ob[0] == "ok" else "none"
                else:
                    got = "none" if ob[1] is None else "ok %d %d" % tuple(ob[1])
                if got == r:
                    info["order_agree"] += 1
            elif role == "exact":
                if kind == "get":
                    got = ("ok %s %d %d %s" % (ob[1], ob[2], ob[3], hx(ob[4]))) if ob[0] == "ok" else "err " + ob[1]
                elif kind == "len":
                    got = "ok %d" % ob[1] if ob[0] == "int" else "err " + ob[1]
                else:
                    got = "ok" if ob[0] == "ok" else "err " + ob[1]
                if got != r:
                    return dict(step=i, why="%s%r: implementation %s, specification %s" % (kind, tuple(x if not isinstance(x, bytes) else hx(x) for x in op[1:]), got, r)), None, info
    mflat = parse_dump(replies[-1])
    if mflat != flat:
        return None, dict(why="final store contents differ", impl={str(k): v for k, v in flat.items()}, model=replies[-1]), info
    return None, None, info


def alphabet(ids, cmds, pats):
    ops = []
    for a0 in ids:
        for a1 in ids:
            for c in cmds:
                ops.append(("put", a0, a1, c, b"" if c != "WRTE" else bytes([a0 * 16 + a1])))
            ops.append(("clear", a0, a1))
    for p0 in pats:
        for p1 in pats:
            ops.append(("get", p0, p1))
            ops.append(("findz", p0, p1))
    ops.append(("len",))
    return ops


def random_seq(rng, n, nid):
    ids = list(range(nid))
    pats = ids + [None, None]
    seq = []
    ctr = 0
    for _ in range(n):
        r = rng.random()
        if r < 0.42:
            c = rng.choice(["WRTE", "WRTE", "WRTE", "OKAY", "CLSE", "CLSE"] + CMDS)
            ctr += 1
            seq.append(("put", rng.choice(ids), rng.choice(ids), c, bytes([ctr % 256, ctr // 256 % 256]) if c == "WRTE" else b""))
        elif r < 0.67:
            seq.append(("get", rng.choice(pats), rng.choice(pats)))
        elif r < 0.77:
            seq.append(("find", rng.choice(pats), rng.choice(pats)))
        elif r < 0.87:
            seq.append(("findz", rng.choice(pats), rng.choice(pats)))
        elif r < 0.92:
            seq.append(("clear", rng.choice(ids), rng.choice(ids)))
        elif r < 0.95:
            seq.append(("contains", rng.choice(pats), rng.choice(pats)))
        elif r < 0.99:
            seq.append(("len",))
        else:
            seq.append(("clearall",))
    return seq


def ser(seq):
    return [[x.hex() if isinstance(x, bytes) else x for x in op] for op in seq]


def deser(seq):
    out = []
    for op in seq:
        op = list(op)
        if op[0] == "put":
            op[4] = bytes.fromhex(op[4])
        out.append(tuple(op))
    return out


def check_batch(ctx, seqs):
    rep = ctx.report
    all_lines, metas = [], []
    for seq in seqs:
        obs, flat, order = run_impl(seq)
        lines, plan = model_lines(seq, obs)
        metas.append((seq, obs, flat, order, len(all_lines), len(lines), plan))
        all_lines += lines
    replies = ctx.driver.ask_many(all_lines)
    agree = total = 0
    for seq, obs, flat, order, off, n, plan in metas:
        rep.evaluations += 1
        rep.traces_validated += 1
        pf, dis, info = judge(seq, obs, flat, order, replies[off:off + n], plan)
        agree += info["order_agree"]
        total += info["order_total"]
        for op, ob in zip(seq, obs):
            rep.count("op", op[0])
            if op[0] in ("get", "find", "findz"):
                rep.count("lookup_outcome", "%s/%s%s" % (op[0], "wild" if None in op[1:3] else "exact",
                                                          "/hit" if (ob[0] == "ok" or (ob[0] == "key" and ob[1])) else "/miss"))
        nontrivial = any((op[0] == "get" and ob[0] == "ok") or (op[0] in ("find", "findz") and ob[0] == "key" and ob[1]) for op, ob in zip(seq, obs))
        if nontrivial:
            rep.signatures.add(tuple((op[0],) + tuple(op[1:4]) + (ob[0],) for op, ob in zip(seq, obs))[:12])
        if pf:
            pf = dict(pf, case=ser(seq), signature=dict(kind="store-spec"))
            rep.prop_failures.append(pf)
        if dis:
            rep.disagreements.append(dict(dis, unit="store", case=ser(seq)))
        if len(seq) <= 6 and nontrivial:
            rep.sample(" ; ".join("%s%r -> %r" % (op[0], tuple(ser([op])[0][1:]), ob[1:] if ob[0] != "err" else ob) for op, ob in zip(seq, obs)))
    rep.count("wildcard_choice_same_as_model_order", "%d/%d" % (agree, total))


def run(ctx):
    rng, rep = ctx.rng, ctx.report
    quick = ctx.tier == "quick"
    rep.rule = ("real _AdbPacketStore driven directly. Exhaustive: all op sequences of length <= L over ids {0,1}^2, commands {WRTE,CLSE}, "
                "patterns {None,0,1}^2 (put/clear/get/find_allow_zeros/len); quick L=3, thorough L=4 on a reduced alphabet. Random: sequences of length 60 "
                "(thorough 200) over ids < 4 with all commands, find/contains/clear_all included. Non-trivial = at least one lookup hit; distinct by the "
                "(op, args, outcome) prefix of length 12.")
    ops = alphabet([0, 1], ["WRTE", "CLSE"], [None, 0, 1])
    L = 3
    seqs = []
    for n in range(1, L + 1):
        seqs += [list(p) for p in itertools.product(ops, repeat=n)]
    if not quick:
        small = alphabet([0, 1], ["WRTE", "CLSE"], [None, 1])
        first = [o for o in small if o[0] == "put"]
        seqs += [list(p) for p in itertools.product(first, small, small, small)]
    rep.exhaustive = True
    B = 4000
    for i in range(0, len(seqs), B):
        check_batch(ctx, seqs[i:i + B])
        if len(rep.prop_failures) > 20:
            break
    nrand = int((300 if quick else 5000) * ctx.budget)
    ln = 60 if quick else 200
    rnd = [random_seq(rng, ln, rng.choice([2, 3, 4, 6])) for _ in range(nrand)]
    for i in range(0, len(rnd), 200):
        check_batch(ctx, rnd[i:i + 200])
    rep.notes.append("exhaustive part: %d sequences; random part: %d sequences of length %d" % (len(seqs), nrand, ln))


def search(ctx, disagreements, proofs):
    before = len(ctx.report.prop_failures)
    rnd = [random_seq(ctx.rng, 80, ctx.rng.choice([2, 3, 4])) for _ in range(int(1500 * ctx.budget))]
    for i in range(0, len(rnd), 200):
        check_batch(ctx, rnd[i:i + 200])
        if len(ctx.report.prop_failures) > before:
            break
    fails = ctx.report.prop_failures[before:]
    return fails[0] if fails else None


def _fails(ctx, seq):
    sub = type(ctx)(ctx.prop, ctx.tier, ctx.seed)
    sub.driver = ctx.driver
    check_batch(sub, [seq])
    return sub.report.prop_failures[0] if sub.report.prop_failures else None


def shrink(ctx, failure):
    seq = deser(failure["case"])
    seq = seq[: failure.get("step", len(seq) - 1) + 1]
    best = _fails(ctx, seq) or failure
    changed = True
    while changed and len(seq) > 1:
        changed = False
        for i in range(len(seq) - 1):
            cand = seq[:i] + seq[i + 1:]
            f = _fails(ctx, cand)
            if f:
                seq, best, changed = cand, f, True
                break
    return best


def replay(ctx, payload):
    fl = payload.get("failure") or {}
    if "case" not in fl:
        print("nothing to replay: %s" % payload.get("kind"))
        return True
    f = _fails(ctx, deser(fl["case"]))
    if f:
        print("FAIL:", f["why"])
    return f is None
