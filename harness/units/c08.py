"""C08 -- pull writes exactly the device file."""
import oracles, scen
from units.mk import Unit, COMMON


def _conc(ctx):
    from units import conc
    conc.conc_sessions(ctx, int((20 if ctx.tier == "quick" else 300) * ctx.budget))

Unit([("sync", scen.gen_sync_read, 1)], (oracles.o_c08, oracles.o_c09, oracles.o_lean_sync) + COMMON,
     "pull of device files of sizes {0,1,7,8,9,100,4095,4096,5000,65535,65536,65537} split into DATA records of {1,2,100,4096,65536,random} bytes and those "
     "into WRTE payloads of 1 byte / inside the 8-byte header / random / whole; destination BytesIO or real path; callback {none, counting, raising}. "
     "Non-trivial/distinct as for C01.", 120, 3000, extra_run=_conc).export(globals())
