"""C14 -- stream ids non-zero, 32-bit, unique among live streams (sequential part; concurrent part in units/conc.py)."""
import oracles, scen
from units.mk import Unit, COMMON


def gen_ids(rng):
    s = scen.gen_shell(rng, n_ops=rng.randrange(2, 6))
    s["preset"] = dict(lid=rng.choice([0, 1, 2 ** 32 - 4, 2 ** 32 - 3, 2 ** 32 - 2, 2 ** 32 - 1]))
    return s


def _replay_c14(ctx, fl):
    from units import conc
    return conc.replay_c14(ctx, fl)


from units import mk as _mk
_mk.REPLAYERS["c14-concurrent"] = _replay_c14


def conc_part(ctx):
    try:
        from units import conc
    except ImportError:
        return
    conc.c14_concurrent(ctx)
    conc.conc_sessions(ctx)


Unit([("ids", gen_ids, 2), ("mixed", scen.gen_mixed, 1), ("stall", scen.gen_stall, 1)], (oracles.o_c14, oracles.o_c04) + COMMON,
     "id counter preset to {0,1,2^32-4..2^32-1} followed by 2-5 stream opens (and whole mixed sessions): every OPEN's local id is compared with the model "
     "and checked to be in [1,2^32-1] and unused by a live stream; concurrent part: real threads preempted inside _open. Non-trivial/distinct as for C01.",
     150, 3000, extra_run=conc_part).export(globals())
