"""C01 -- shell/exec output is exactly what the device wrote, for every chunking."""
import oracles
import scen
from units import sesscheck

ORACLES = (oracles.o_c01, oracles.o_locks)


def gen(ctx, n):
    return [scen.gen_shell(ctx.rng) for _ in range(n)]


def run(ctx):
    ctx.report.rule = ("sessions (connect, then shell/exec_out/streaming_shell/root) against the reactive simulator: outputs biased to UTF-8 edge "
                       "cases split into WRTE payloads at every byte / randomly / with empty payloads / none at all, burst and stop-and-wait devices, "
                       "remote ids {sequential, equal to local, near 2^32, random}, id counter presets near 0 and 2^32, foreign-stream packets injected, "
                       "6 read fragmentations; each scenario on AdbDevice and AdbDeviceAsync. Non-trivial = an op sent bytes or failed other than by "
                       "the connection guard; distinct by (family, per-op kind, outcome class, size class).")
    n = int((150 if ctx.tier == "quick" else 3000) * ctx.budget)
    sesscheck.check_scenarios(ctx, gen(ctx, n), ORACLES, "shell")


def search(ctx, disagreements, proofs):
    before = len(ctx.report.prop_failures)
    sesscheck.check_scenarios(ctx, gen(ctx, int(300 * ctx.budget)), ORACLES, "shell-search")
    fails = ctx.report.prop_failures[before:]
    return fails[0] if fails else None


def shrink(ctx, failure):
    return sesscheck.shrink(ctx, failure, ORACLES)


def replay(ctx, payload):
    return sesscheck.replay(ctx, payload, ORACLES)
