"""C01 -- shell/exec output is exactly what the device wrote, for every chunking."""
import oracles, scen
from units.mk import Unit, COMMON


def _conc(ctx):
    from units import conc
    conc.conc_sessions(ctx, int((700 if ctx.tier == "quick" else 8000) * ctx.budget))


Unit([("shell", scen.gen_shell, 5), ("carry", scen.gen_decode_carry, 1)], (oracles.o_c01, oracles.o_lean_c01) + COMMON,
     "sessions (connect, then shell/exec_out/streaming_shell/root) against the reactive simulator: outputs biased to UTF-8 edge cases, split into WRTE "
     "payloads at every byte / randomly / with empty payloads / none at all; burst and stop-and-wait devices; remote ids {sequential, equal to local, "
     "near 2^32, random}; id-counter presets near 0 and 2^32; foreign-stream packets injected; six read-fragmentation styles; every scenario on "
     "AdbDevice and AdbDeviceAsync. Non-trivial = some op sent bytes or failed other than by the connection guard; distinct by (family, per-op kind, "
     "outcome class, size class).", 150, 4000, extra_run=_conc).export(globals())
