"""C11 -- no operation hangs."""
import oracles, scen
from units.mk import Unit, COMMON
Unit([("stall", scen.gen_stall, 4), ("slow", scen.gen_slow, 1), ("tricklebig", scen.gen_trickle_big, 1)], (oracles.o_c11, oracles.o_c11_total, oracles.o_c11_packet, oracles.o_c11_stalled_outcome) + COMMON,
     "virtual clock; for a session touching every operation the device stalls after k packets by {silence, end-of-stream, 1-2 byte trickle with slow calls, "
     "foreign-stream flood, unexpected-command flood}; timeouts from a grid over (transport, read, total) in {None,0,-1,1/1024,0.5,3,10}; outcome kind and "
     "elapsed virtual time are compared with the model and with the bound; a would-block-forever call is the Hang verdict. Non-trivial/distinct as for C01.",
     250, 5000).export(globals())
