"""C11 -- no operation hangs."""
import oracles, scen
from units.mk import Unit, COMMON
from units import mk as _mk


def tcp_part(ctx):
    """C11 over the REAL TCP transports: a packet trickling in more slowly than read_timeout_s allows (each fragment inside the transport timeout)
    must end in a timeout within the bound; the in-memory transport cannot see what TcpTransport.bulk_read itself does with fragments."""
    from units import c18
    for impl in ("sync", "async"):
        for mode in ("trickle", "eof_open", "eof_mid"):
            f = c18.check_trickle_session(ctx, impl, mode=mode)
            if f and "infra" not in f.get("kinds", []):
                ctx.report.prop_failures.append(dict(f, no_shrink=True, replay_with="c18"))
            elif f:
                ctx.report.notes.append("stall session (%s) could not be set up: %s" % (mode, f["why"]))


def _replay_c18(ctx, fl):
    from units import c18
    return c18.replay(ctx, dict(failure=fl))


_mk.REPLAYERS["c18"] = _replay_c18
Unit([("stall", scen.gen_stall, 4), ("slow", scen.gen_slow, 1), ("tricklebig", scen.gen_trickle_big, 1)], (oracles.o_c11, oracles.o_c11_total, oracles.o_c11_packet, oracles.o_c11_stalled_outcome) + COMMON,
     "virtual clock; for a session touching every operation the device stalls after k packets by {silence, end-of-stream, 1-2 byte trickle with slow calls, "
     "foreign-stream flood, unexpected-command flood}; timeouts from a grid over (transport, read, total) in {None,0,-1,1/1024,0.5,3,10}; outcome kind and "
     "elapsed virtual time are compared with the model and with the bound; a would-block-forever call is the Hang verdict. Non-trivial/distinct as for C01.",
     250, 5000, extra_run=tcp_part).export(globals())
