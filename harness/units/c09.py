"""C09 -- list and stat are exact."""
import oracles, scen
from units.mk import Unit, COMMON


def _conc(ctx):
    from units import conc
    conc.conc_sessions(ctx, int((20 if ctx.tier == "quick" else 300) * ctx.budget))

def _faulted(rng):
    # a list/stat reply cut short by a transport failure, reconnect, the same queries again: entries and metadata are those of the NEW replies only
    from units import c12
    return c12.gen_faulted(rng)


Unit([("sync", scen.gen_sync_read, 8), ("fault", _faulted, 1), ("trailing", scen.gen_trailing_then, 2)], (oracles.o_c09, oracles.o_c08, oracles.o_lean_sync, oracles.o_c12_after_reconnect) + COMMON,
     "listings of 0,1,2,5,40 entries with names of 1..255 arbitrary bytes (NUL, '/', invalid UTF-8), 32-bit edge values in every field, any WRTE "
     "packetisation of the reply; stat triples likewise. Non-trivial/distinct as for C01.", 120, 3000, extra_run=_conc).export(globals())
