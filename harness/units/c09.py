"""C09 -- list and stat are exact."""
import oracles, scen
from units.mk import Unit, COMMON


def _conc(ctx):
    from units import conc
    conc.conc_sessions(ctx, int((20 if ctx.tier == "quick" else 300) * ctx.budget))

Unit([("sync", scen.gen_sync_read, 1)], (oracles.o_c09, oracles.o_c08, oracles.o_lean_sync) + COMMON,
     "listings of 0,1,2,5,40 entries with names of 1..255 arbitrary bytes (NUL, '/', invalid UTF-8), 32-bit edge values in every field, any WRTE "
     "packetisation of the reply; stat triples likewise. Non-trivial/distinct as for C01.", 120, 3000, extra_run=_conc).export(globals())
