"""Concurrency harness for C06 (stream isolation, no deadlock) and the concurrent part of C14 (id allocation).

Real threads / asyncio tasks run on ONE real AdbDevice(Async) under the baton scheduler (harness/sched.py).  Locks of the device
are replaced by scheduler-aware locks, so every acquisition is a scheduling point; the observed order of the code's atomic
sections (pre-check of `read` under the store lock; one loop iteration under the transport lock) is replayed through the Lean
interleaving model `Adb.Conc` and per-reader deliveries are compared.  Oracle (independent of the model): each reader gets
exactly its own stream's payloads, in order, and completes; no schedule deadlocks."""
import asyncio
import sys
import threading

import sched
from common import hx
from sim_device import pkt


class WireTransportMixin(object):
    def init_wire(self, raw):
        self.buf = bytearray(raw)
        self.written = bytearray()


def make_sync_device(raw):
    from adb_shell.adb_device import AdbDevice
    from adb_shell.transport.base_transport import BaseTransport
    from adb_shell import exceptions

    class WireTransport(BaseTransport):
        def __init__(self):
            self.buf = bytearray(raw)
            self.written = bytearray()

        def close(self):
            pass

        def connect(self, t):
            pass

        def bulk_read(self, n, t):
            if not self.buf:
                raise exceptions.TcpTimeoutException("nothing more on the wire")
            out = bytes(self.buf[:n])
            del self.buf[:n]
            return out

        def bulk_write(self, data, t):
            self.written += bytes(data)
            return len(data)
    tr = WireTransport()
    dev = AdbDevice(tr, banner=b"verif")
    dev._available = True
    return dev, tr


def make_async_device(raw):
    from adb_shell.adb_device_async import AdbDeviceAsync
    from adb_shell.transport.base_transport_async import BaseTransportAsync
    from adb_shell import exceptions

    class WireTransportAsync(BaseTransportAsync):
        def __init__(self):
            self.buf = bytearray(raw)
            self.written = bytearray()

        async def close(self):
            pass

        async def connect(self, t):
            pass

        async def bulk_read(self, n, t):
            if not self.buf:
                raise exceptions.TcpTimeoutException("nothing more on the wire")
            out = bytes(self.buf[:n])
            del self.buf[:n]
            return out

        async def bulk_write(self, data, t):
            self.written += bytes(data)
            return len(data)
    tr = WireTransportAsync()
    dev = AdbDeviceAsync(tr, banner=b"verif")
    dev._available = True
    return dev, tr


def _same_class_helper(code):
    """methods of AdbDevice itself (not of the I/O manager or the transports) called from _open: id allocation helpers and the like"""
    import adb_shell.adb_device as m
    return code.co_filename == m.__file__ and getattr(code, "co_qualname", "").startswith("AdbDevice.")


def gen_case(rng, nreaders=None):
    n = nreaders or rng.choice([2, 2, 3])
    readers = []
    used = set()
    for i in range(n):
        while True:
            lid, rid = rng.choice([1, 2, 3, 7, 2 ** 32 - 1, rng.randrange(1, 2 ** 32)]), rng.choice([1, 5, 9, 2 ** 32 - 1, rng.randrange(1, 2 ** 32)])
            if lid not in used:
                used.add(lid)
                break
        readers.append((lid, rid))
    per = []
    for i, (lid, rid) in enumerate(readers):
        k = rng.choice([0, 1, 2, 3])
        ps = [("WRTE", rid, lid, bytes([i * 16 + j])) for j in range(k)] + [("CLSE", rid, lid, b"")]
        per.append(ps)
    wire = []
    idx = [0] * n
    while any(idx[i] < len(per[i]) for i in range(n)):
        i = rng.choice([j for j in range(n) if idx[j] < len(per[j])])
        wire.append(per[i][idx[i]])
        idx[i] += 1
    return dict(readers=readers, wire=wire)


def wire_bytes(wire):
    return b"".join(pkt(c.encode(), a0, a1, d) for c, a0, a1, d in wire)


def instrument_store(dev, lost):
    store = dev._io_manager._packet_store
    orig_put = store.put

    def put(arg0, arg1, cmd, data):
        had = arg1 in store._dict and arg0 in store._dict[arg1]
        if cmd == b"CLSE" and not had:
            lost.append((arg0, arg1))
        return orig_put(arg0, arg1, cmd, data)
    store.put = put


def choices_from_log(log):
    """Model schedule from the lock log: store-lock acquisition without the transport lock = pre-check of `read`;
    transport-lock acquisition inside `read` = one loop iteration."""
    out = []
    for ev in log:
        tid, kind, name, ctx, held = ev
        if kind != "acq" or ctx != "read":
            continue
        if name == "store" and "transport" not in held:
            out.append("p%d" % tid)
        elif name == "transport":
            out.append("i%d" % tid)
    return out


def run_threads(case, rng, fixed=None):
    from adb_shell.hidden_helpers import _AdbTransactionInfo
    dev, tr = make_sync_device(wire_bytes(case["wire"]))
    baton = sched.Baton(rng, fixed)
    io = dev._io_manager
    io._transport_lock = sched.SchedLock(baton, "transport", no_yield_under=("transport",))
    io._store_lock = sched.SchedLock(baton, "store", no_yield_under=("transport",))
    sched.adopt_locks(baton, [io])
    lost = []
    instrument_store(dev, lost)
    orig_read, orig_send = io.read, io.send

    def read(*a, **k):
        prev = getattr(baton.local, "ctx", "")
        baton.local.ctx = "read"
        try:
            return orig_read(*a, **k)
        finally:
            baton.local.ctx = prev

    def send(*a, **k):
        prev = getattr(baton.local, "ctx", "")
        baton.local.ctx = "send"
        try:
            return orig_send(*a, **k)
        finally:
            baton.local.ctx = prev
    io.read, io.send = read, send
    results = [dict(items=[], outcome=None) for _ in case["readers"]]

    def worker(i):
        lid, rid = case["readers"][i]
        info = _AdbTransactionInfo(lid, rid, 1.0, 5.0, None)
        try:
            for item in dev._read_until_close(info):
                results[i]["items"].append(bytes(item))
            results[i]["outcome"] = "closed"
        except Exception as exc:  # noqa
            results[i]["outcome"] = "err " + type(exc).__name__
    threads = baton.spawn([lambda i=i: worker(i) for i in range(len(case["readers"]))])
    deadlock = None
    try:
        baton.drive()
    except sched.Deadlock as exc:
        deadlock = str(exc)
    for t in threads:
        t.join(timeout=2.0)
    return results, choices_from_log(baton.log), lost, deadlock, bytes(tr.written)


def run_tasks(case, rng, fixed=None):
    from adb_shell.hidden_helpers import _AdbTransactionInfo
    results = [dict(items=[], outcome=None) for _ in case["readers"]]
    out = {}

    async def main():
        dev, tr = make_async_device(wire_bytes(case["wire"]))
        baton = sched.AsyncBaton(rng, fixed)
        baton.held, baton.ctx = {}, {}
        tid_of = lambda: task_ids.get(asyncio.current_task())
        task_ids = {}
        io = dev._io_manager
        io._transport_lock = sched.AsyncSchedLock(baton, "transport", tid_of, no_yield_under=("transport",))
        io._store_lock = sched.AsyncSchedLock(baton, "store", tid_of, no_yield_under=("transport",))
        sched.adopt_locks(baton, [io], tid_of=tid_of)
        lost = []
        instrument_store(dev, lost)
        orig_read, orig_send = io.read, io.send

        async def read(*a, **k):
            tid = tid_of()
            prev = baton.ctx.get(tid, "")
            baton.ctx[tid] = "read"
            try:
                return await orig_read(*a, **k)
            finally:
                baton.ctx[tid] = prev

        async def send(*a, **k):
            tid = tid_of()
            prev = baton.ctx.get(tid, "")
            baton.ctx[tid] = "send"
            try:
                return await orig_send(*a, **k)
            finally:
                baton.ctx[tid] = prev
        io.read, io.send = read, send

        async def worker(i):
            await baton.park(i, ("start",))
            lid, rid = case["readers"][i]
            info = _AdbTransactionInfo(lid, rid, 1.0, 5.0, None)
            try:
                async for item in dev._read_until_close(info):
                    results[i]["items"].append(bytes(item))
                results[i]["outcome"] = "closed"
            except Exception as exc:  # noqa
                results[i]["outcome"] = "err " + type(exc).__name__
            finally:
                baton.finished.add(i)
        tasks = []
        for i in range(len(case["readers"])):
            baton.tids.append(i)
            t = asyncio.ensure_future(worker(i))
            task_ids[t] = i
            tasks.append(t)
        deadlock = None
        try:
            await baton.drive(tasks)
        except sched.Deadlock as exc:
            deadlock = str(exc)
            for t in tasks:
                t.cancel()
        await asyncio.gather(*tasks, return_exceptions=True)
        out.update(choices=choices_from_log(baton.log), lost=lost, deadlock=deadlock, written=bytes(tr.written))
    loop = asyncio.new_event_loop()
    try:
        loop.run_until_complete(main())
        loop.run_until_complete(loop.shutdown_asyncgens())
    finally:
        loop.close()
    return results, out["choices"], out["lost"], out["deadlock"], out["written"]


def model_run(driver, case, choices):
    wire = ",".join("%s:%d:%d:%s" % (c, a0, a1, hx(d)) for c, a0, a1, d in case["wire"])
    readers = ",".join("%d:%d" % r for r in case["readers"])
    r1 = driver.ask("conc new wire=%s readers=%s" % (wire or "-", readers))
    r2 = driver.ask("conc run %s" % (",".join(choices) or "-"))
    return r2


def parse_model(reply, n):
    head, _, rest = reply.partition(" lid=")
    parts = ("lid=" + rest).split(" | ")
    lost = head.split("lost=[")[1].split("]")[0]
    readers = []
    for p in parts:
        given = p.split("given=[")[1].split("]")[0]
        items = [g.split(":") for g in given.split(",") if g]
        readers.append(dict(done="done=1" in p, items=[bytes.fromhex(x[3]) if x[3] != "-" else b"" for x in items if x[0] == "WRTE"],
                            got_clse=any(x[0] == "CLSE" for x in items)))
    return dict(lost=[l for l in lost.split(",") if l], readers=readers)


def judge(case, results, lost, deadlock):
    """Oracle: exact own payloads in order, completion, no deadlock.  Returns list of failures with signatures."""
    fails = []
    if deadlock:
        fails.append(dict(why="deadlock: " + deadlock, signature=dict(kind="deadlock")))
        return fails
    for i, (lid, rid) in enumerate(case["readers"]):
        own = [d for c, a0, a1, d in case["wire"] if c == "WRTE" and a0 == rid and a1 == lid]
        got = results[i]["items"]
        if got != own[:len(got)]:
            fails.append(dict(why="reader %d (stream %d/%d) was given %r, its stream carries %r" % (i, lid, rid, [hx(g) for g in got], [hx(o) for o in own]),
                              signature=dict(kind="crosstalk-or-reorder")))
        elif results[i]["outcome"] != "closed" or got != own:
            kind = "lost-clse-no-entry" if (rid, lid) in lost and got == own else "incomplete"
            fails.append(dict(why="reader %d (stream %d/%d) ended with %s after %d of %d payloads%s" % (
                i, lid, rid, results[i]["outcome"], len(got), len(own), "; its CLSE was read by another reader while the store had no entry for the stream (K1)" if kind == "lost-clse-no-entry" else ""),
                signature=dict(kind=kind)))
    return fails


def check_case(ctx, case, mode, fixed=None):
    rep = ctx.report
    runner = run_threads if mode == "threads" else run_tasks
    results, choices, lost, deadlock, written = runner(case, ctx.rng, fixed)
    rep.evaluations += 1
    rep.traces_validated += 1
    rep.count("mode", mode)
    rep.count("readers", len(case["readers"]))
    rep.count("schedule_len", len(choices) // 5 * 5)
    m = parse_model(model_run(ctx.driver, case, choices), len(case["readers"]))
    ser = dict(readers=[list(r) for r in case["readers"]], wire=[[c, a0, a1, d.hex()] for c, a0, a1, d in case["wire"]], mode=mode, choices=choices)
    if not deadlock:
        for i, r in enumerate(results):
            mi = m["readers"][i]
            if r["items"] != mi["items"] or (r["outcome"] == "closed") != mi["got_clse"]:
                rep.disagreements.append(dict(unit="conc", case=ser, impl=dict(items=[hx(x) for x in r["items"]], outcome=r["outcome"]),
                                              model=dict(items=[hx(x) for x in mi["items"]], got_clse=mi["got_clse"]), reader=i))
                break
        if len(lost) != len(m["lost"]):
            rep.disagreements.append(dict(unit="conc", case=ser, impl_lost=lost, model_lost=m["lost"]))
    fails = judge(case, results, lost, deadlock)
    if any(len(r["items"]) for r in results) and len(set(c[1:] for c in choices)) > 1:
        rep.signatures.add((mode, tuple(choices)[:40], tuple(case["readers"])))
    if len(rep.samples) < 4:
        rep.sample(dict(mode=mode, readers=case["readers"], wire=["%s:%d:%d" % w[:3] for w in case["wire"]], schedule=" ".join(choices), results=[(len(r["items"]), r["outcome"]) for r in results], lost=lost))
    for f in fails:
        rep.prop_failures.append(dict(f, case=ser))
    return fails


K1_CASE = dict(readers=[(1, 7), (2, 8)], wire=[("CLSE", 7, 1, b""), ("WRTE", 8, 2, b"\x21"), ("CLSE", 8, 2, b"")])


def run_c06(ctx):
    rep = ctx.report
    quick = ctx.tier == "quick"
    n = int((150 if quick else 3000) * ctx.budget)
    # the known-finding witness first: reader 1 takes reader 0's CLSE off the wire before anything of stream 0 was parked
    for mode in ("threads", "tasks"):
        check_case(ctx, K1_CASE, mode, fixed=[1, 1, 1, 1, 0, 0, 0, 0])
    for k in range(n):
        case = gen_case(ctx.rng)
        check_case(ctx, case, "threads" if k % 2 == 0 else "tasks")
        if len([f for f in rep.prop_failures if f["signature"]["kind"] != "lost-clse-no-entry"]) > 5 or len(rep.disagreements) > 5:
            break


def replay_c06(ctx, payload):
    fl = payload.get("failure") or {}
    c = fl.get("case")
    if not c or "wire" not in c:
        print("nothing to replay")
        return True
    case = dict(readers=[tuple(r) for r in c["readers"]], wire=[(w[0], w[1], w[2], bytes.fromhex(w[3])) for w in c["wire"]])
    order = [int(x[1:]) for x in c.get("choices", [])]
    fails = check_case(ctx, case, c.get("mode", "threads"), fixed=order)
    for f in fails:
        print("FAIL:", f["why"])
    return not fails


# ---- C14: concurrent id allocation ---------------------------------------------------------------------------------
def c14_concurrent(ctx, only=None):
    import transports
    import adb_shell.adb_device as sync_mod
    from adb_shell.adb_device import AdbDevice
    rep = ctx.report
    n = int((100 if ctx.tier == "quick" else 1500) * ctx.budget) if only is None else 1
    for k in range(n):
        nthreads = ctx.rng.choice([2, 2, 3]) if only is None else only["threads"]
        start = ctx.rng.choice([0, 1, 2 ** 32 - 3, 2 ** 32 - 2, 2 ** 32 - 2, 2 ** 32 - 1, 2 ** 32 - 1]) if only is None else only["start"]
        clock = transports.Clock(1 << 40)
        link = transports.Link(clock, [dict(sim=dict(maxdata=4096, default_chunks=[]), dt=1)])
        sync_mod.time = clock
        baton = sched.Baton(ctx.rng, fixed=(only or {}).get("order"))
        fresh = (only or {}).get("fresh", k % 3 == 0)
        if fresh:
            # a FRESH object whose very first streams are opened concurrently: every lock the module creates (whenever it creates it) is a
            # scheduler lock, so locks made lazily on first use are under the scheduler's control as well
            made = []

            def factory():
                lk = sched.SchedLock(baton, "lock#%d" % len(made))
                made.append(lk)
                return lk
            real_lock, sync_mod.Lock = sync_mod.Lock, factory
            try:
                dev = AdbDevice(transports.MemTransport(link), banner=b"verif")
                dev.connect()
            except Exception:
                sync_mod.Lock = real_lock
                raise
            for lk, name, nyu in ((dev._local_id_lock, "localId", ()), (dev._io_manager._transport_lock, "transport", ("transport",)), (dev._io_manager._store_lock, "store", ("transport",))):
                if isinstance(lk, sched.SchedLock):
                    lk.name, lk.no_yield_under = name, nyu
        else:
            dev = AdbDevice(transports.MemTransport(link), banner=b"verif")
            dev.connect()
            dev._local_id_lock = sched.SchedLock(baton, "localId")
            dev._io_manager._transport_lock = sched.SchedLock(baton, "transport", no_yield_under=("transport",))
            dev._io_manager._store_lock = sched.SchedLock(baton, "store", no_yield_under=("transport",))
            sched.adopt_locks(baton, [dev, dev._io_manager])
        dev._local_id = start
        ids = [None] * nthreads
        tracer = sched.line_tracer(baton, {AdbDevice._open.__code__}, follow=_same_class_helper)

        def worker(i):
            sys.settrace(tracer)
            try:
                info = dev._open(b"shell:x", None, 10.0, None)
                ids[i] = info.local_id
            except Exception as exc:  # noqa
                ids[i] = "err " + type(exc).__name__
            finally:
                sys.settrace(None)
        threads = baton.spawn([lambda i=i: worker(i) for i in range(nthreads)])
        deadlock = None
        try:
            baton.drive()
        except sched.Deadlock as exc:
            deadlock = str(exc)
        for t in threads:
            t.join(timeout=2.0)
        if fresh:
            sync_mod.Lock = real_lock
        rep.evaluations += 1
        rep.count("c14_threads", nthreads)
        rep.count("c14_fresh_object", bool(fresh))
        rep.count("c14_start", start if start < 5 else "2^32-%d" % (2 ** 32 - start))
        opens = [a0 for who, cmd, a0, a1, d in link.used[0].sim.log if who == "host" and cmd == b"OPEN"]
        ser = dict(kind="c14-concurrent", threads=nthreads, start=start, fresh=bool(fresh), order=list(baton.picks))
        rep.signatures.add(("c14conc", nthreads, start, tuple(e[0] for e in baton.log if e[1] == "line")[:30]))
        good = [i for i in ids if isinstance(i, int)]
        if deadlock:
            rep.prop_failures.append(dict(case=ser, why="deadlock in concurrent _open: " + deadlock, signature=dict(kind="deadlock"), no_shrink=True))
        elif any(not isinstance(i, int) for i in ids):
            rep.prop_failures.append(dict(case=ser, why="%d concurrent opens from counter %d on a healthy device: results %r (OPEN packets carried %r)" % (nthreads, start, ids, opens),
                                          signature=dict(kind="duplicate-or-invalid-id"), no_shrink=True, replay_with="c14-concurrent"))
        elif len(set(good)) != len(good) or any(not (1 <= i <= 2 ** 32 - 1) for i in good) or len(set(opens)) != len(opens) or sorted(opens) != sorted(good):
            rep.prop_failures.append(dict(case=ser, why="%d concurrent opens from counter %d allocated ids %r (OPEN packets carried %r)" % (nthreads, start, ids, opens),
                                          signature=dict(kind="duplicate-or-invalid-id"), no_shrink=True, replay_with="c14-concurrent"))
        # correspondence with the model's allocator: the multiset of ids is nextId^[1..n](start)
        exp = []
        c = start
        for _ in range(nthreads):
            c = 1 if c + 1 == 2 ** 32 else c + 1
            exp.append(c)
        if not deadlock and sorted(good) != sorted(exp) and len(good) == nthreads:
            rep.disagreements.append(dict(unit="c14-concurrent", case=ser, impl=ids, model=exp))


def replay_c14(ctx, fl):
    before = len(ctx.report.prop_failures)
    c14_concurrent(ctx, only=fl["case"])
    for f in ctx.report.prop_failures[before:]:
        print("FAIL:", f["why"])
    return len(ctx.report.prop_failures) == before


# ---- concurrent whole operations against the reactive simulator (oracle only) ---------------------------------------
def conc_sessions(ctx, n=None, only=None):
    """2-3 workers (threads, or asyncio tasks) run whole shell()/streaming_shell() calls on ONE connected device against the reactive
    simulator; control changes hands at every lock acquisition and inside every transport call (threads: optionally at every line of
    _open).  No model correspondence here (the interleaving model abstracts sends away); the oracle is the property itself:
    every worker gets exactly its own command's output, the bytes on the wire are whole well-formed messages, OPEN ids are distinct
    among live streams, no deadlock.  A lost CLSE (K1) is classified as the known finding."""
    import transports
    import adb_shell.adb_device as sync_mod
    import adb_shell.adb_device_async as async_mod
    from adb_shell.adb_device import AdbDevice
    from adb_shell.adb_device_async import AdbDeviceAsync
    rep = ctx.report
    total = n if n is not None else int((300 if ctx.tier == "quick" else 4000) * ctx.budget)
    if only is not None:
        total = 1
    for k in range(total):
        rng = ctx.rng
        mode = (only or {}).get("mode") or ("threads" if k % 2 == 0 else "tasks")
        nw = (only or {}).get("workers") or rng.choice([2, 2, 3])
        # preset "inflight": a multi-chunk shell is under way on a stop-and-wait device while another worker closes and reconnects the object and a third
        # then opens a stream on the NEW connection (device numbering restarted): the old operation must not receive the new stream's packets
        inflight = only is None and ctx.prop in ("C06", "C12", "C01", "C14") and rng.random() < (0.5 if ctx.prop == "C06" else 0.25)
        if inflight:
            nw = 3
        start = (only or {}).get("start", rng.choice([0, 0, 5, 2 ** 32 - 3, 2 ** 32 - 2]))
        lines = (only or {}).get("lines", mode == "threads" and rng.random() < 0.5)
        outs = {}
        for i in range(nw):
            chunks = [bytes([65 + i]) * rng.randrange(1, 5) + bytes([48 + j]) for j in range(rng.choice([0, 1, 2, 3]))]
            outs[("w%d" % i).encode()] = chunks
        if only is not None:
            outs = {bytes.fromhex(a): [bytes.fromhex(c) for c in cs] for a, cs in only["outs"]}
        bias = {"C07": ["push", "push", "push", "stat", "pull", "shell"], "C08": ["pull", "pull", "push", "stat", "shell"],
                "C09": ["stat", "stat", "pull", "push", "shell"], "C10": ["push", "pull", "stat"], "C06": ["shell", "push", "stat", "pull", "push"], "C01": ["shell", "shell", "shell", "shell", "pull"]}.get(ctx.prop, ["shell", "shell", "push", "stat", "pull"])
        kinds = (only or {}).get("kinds") or [rng.choice(bias) for _ in range(nw)]
        if only is None and ctx.prop == "C01" and rng.random() < 0.5:
            start, kinds = 0, ["shell"] * nw         # shell streams side by side whose (local, remote) id pairs mirror each other (see remote_ids below)
        if only is None and ctx.prop in ("C06", "C12") and rng.random() < 0.25:
            kinds[rng.randrange(nw)] = "close"       # somebody closes the device while the others are in the middle of their operations
        if only is None and ctx.prop in ("C02", "C12", "C06", "C15") and rng.random() < (0.4 if ctx.prop in ("C02", "C06") else 0.15):
            kinds[rng.randrange(nw)] = "reconnect"   # somebody calls connect() again while the others are in the middle of (possibly half-written) messages
        if inflight:
            kinds = ["shell", "reconnect", "shell"]
            start = 0
            outs = {b"w0": [b"A" * (j + 1) + bytes([48 + j]) for j in range(rng.choice([3, 4, 6]))], b"w1": [b"unused"], b"w2": [b"BB0", b"BBB1", b"B2"][: rng.randrange(1, 4)]}
        rparks = (only or {}).get("rparks") or rng.randrange(1, 6)
        if inflight:
            rparks = rng.randrange(2, 14)
        sticky = 0.0 if only is not None else (rng.choice([0.85, 0.93, 0.97]) if inflight else rng.choice([0.0, 0.0, 0.5, 0.9]))   # how bursty the schedule is (replays use the recorded order)
        policy = None
        if inflight and rng.random() < 0.7:
            # phases: worker 0 (the multi-chunk shell) first, for a random number of steps; then the reconnecting worker until it is done; then anybody
            n_first = rng.randrange(8, 60)

            def policy(cand, b, n_first=n_first):
                if len(b.picks) < n_first:
                    return 0 if 0 in cand else None
                if 1 not in b.finished:
                    return 1 if 1 in cand else None
                return None
        rclose = (only or {}).get("rclose", inflight or rng.random() < 0.5)      # close() first, then connect() (what an application does after an error) -- or a bare connect()
        pushed = {i: bytes([97 + i]) * rng.choice([10, 3000, 5000]) for i in range(nw)}
        pulled = {i: bytes([65 + i]) * rng.choice([0, 7, 9000]) for i in range(nw)}
        if only is not None:
            pushed = {int(k2): bytes.fromhex(v) for k2, v in only.get("pushed", {}).items()}
            pulled = {int(k2): bytes.fromhex(v) for k2, v in only.get("pulled", {}).items()}
        fs = {("/r%d" % i).encode(): pulled[i] for i in range(nw)}
        stat = {("/r%d" % i).encode(): (33188 + i, len(pulled[i]), 1000 + i) for i in range(nw)}
        # C10: some of the pulled files do not exist on the device: it answers RECV with a sync FAIL, which must surface as AdbCommandFailureException
        # whichever reader took the FAIL off the transport
        failing = (only or {}).get("failing")
        if failing is None:
            failing = [i for i in range(nw) if kinds[i] == "pull" and ctx.prop == "C10" and rng.random() < 0.6]
        for i in failing:
            fs[("/r%d" % i).encode()] = ("fail", b"No such file %d" % i)
        clock = transports.Clock(1 << 40)
        link = transports.Link(clock, [dict(sim=dict(maxdata=4096, shell=dict(outs), fs=fs, stat=stat, burst=bool((only or {}).get("burst", (not inflight) and rng.random() < 0.3)),
                                                   zero_local=bool((only or {}).get("zero_local", (not inflight) and rng.random() < 0.2)),
                                                   remote_ids=[("rot", nw)] * 30 if (only or {}).get("rot", (not inflight) and start == 0 and rng.random() < (0.8 if ctx.prop == "C01" else 0.4)) else []), dt=1)])
        if "reconnect" in kinds:
            import copy as _copy
            link.future.append(transports.ConnEnv(_copy.deepcopy(link.future[0].env))) if hasattr(link.future[0], "env") else None
        sync_mod.time = clock
        async_mod.time = clock
        order = (only or {}).get("order")
        results = [None] * nw
        lost = []
        deadlock = None
        cmds = sorted(outs)
        if mode == "threads":
            dev = AdbDevice(transports.MemTransport(link), banner=b"verif")
            dev.connect()
            dev._local_id = start
            baton = sched.Baton(rng, fixed=order)
            baton.sticky = sticky
            baton.policy = policy
            dev._local_id_lock = sched.SchedLock(baton, "localId")
            dev._io_manager._transport_lock = sched.SchedLock(baton, "transport")
            dev._io_manager._store_lock = sched.SchedLock(baton, "store")
            sched.adopt_locks(baton, [dev, dev._io_manager])
            instrument_store(dev, lost)
            orig_r, orig_w = link.bulk_read, link.bulk_write

            def br(nb, t):
                baton.park(("io",))
                return orig_r(nb, t)

            def bw(d, t):
                baton.park(("io",))
                return orig_w(d, t)
            link.bulk_read, link.bulk_write = br, bw
            tracer = sched.line_tracer(baton, {AdbDevice._open.__code__}, follow=_same_class_helper) if lines else None

            import io as _io

            class ParkIO(_io.BytesIO):
                """Local file object whose read()/write() is a scheduling point (a thread can lose the CPU inside file IO)."""

                def read(self, *a):
                    baton.park(("io",))
                    return _io.BytesIO.read(self, *a)

                def write(self, b):
                    baton.park(("io",))
                    return _io.BytesIO.write(self, b)

            def worker(i):
                if tracer:
                    sys.settrace(tracer)
                try:
                    if kinds[i] == "close":
                        baton.park(("io",))
                        dev.close()
                        results[i] = ("ok", None)
                    elif kinds[i] == "reconnect":
                        for _ in range(rparks):
                            baton.park(("io",))
                        if rclose:
                            dev.close()
                            baton.park(("io",))
                        dev.connect()
                        results[i] = ("ok", None)
                    elif kinds[i] == "shell":
                        results[i] = ("ok", dev.shell(cmds[i].decode(), transport_timeout_s=1.0, read_timeout_s=5.0, decode=False))
                    elif kinds[i] == "push":
                        dev.push(ParkIO(pushed[i]), "/w%d" % i, mtime=5, transport_timeout_s=1.0, read_timeout_s=5.0)
                        results[i] = ("ok", None)
                    elif kinds[i] == "stat":
                        results[i] = ("ok", tuple(dev.stat("/r%d" % i, transport_timeout_s=1.0, read_timeout_s=5.0)))
                    else:
                        sink = ParkIO()
                        dev.pull("/r%d" % i, sink, transport_timeout_s=1.0, read_timeout_s=5.0)
                        results[i] = ("ok", sink.getvalue())
                except Exception as exc:  # noqa
                    results[i] = ("err", type(exc).__name__)
                finally:
                    sys.settrace(None)
            threads = baton.spawn([lambda i=i: worker(i) for i in range(nw)])
            try:
                baton.drive()
            except sched.Deadlock as exc:
                deadlock = str(exc)
            for t in threads:
                t.join(timeout=2.0)
            sched_order = list(baton.picks)
        else:
            out = {}

            async def main():
                dev = AdbDeviceAsync(transports.MemTransportAsync(link), banner=b"verif")
                await dev.connect()
                dev._local_id = start
                baton = sched.AsyncBaton(rng, fixed=order)
                baton.sticky = sticky
                baton.policy = policy
                baton.held, baton.ctx = {}, {}
                task_ids = {}
                tid_of = lambda: task_ids.get(asyncio.current_task())
                dev._local_id_lock = sched.AsyncSchedLock(baton, "localId", tid_of)
                dev._io_manager._transport_lock = sched.AsyncSchedLock(baton, "transport", tid_of)
                dev._io_manager._store_lock = sched.AsyncSchedLock(baton, "store", tid_of)
                sched.adopt_locks(baton, [dev, dev._io_manager], tid_of=tid_of)
                instrument_store(dev, lost)
                tr = dev._io_manager._transport
                orig_r, orig_w = tr.bulk_read, tr.bulk_write

                async def br(nb, t):
                    await baton.park(tid_of(), ("io",))
                    return await orig_r(nb, t)

                async def bw(d, t):
                    await baton.park(tid_of(), ("io",))
                    return await orig_w(d, t)
                tr.bulk_read, tr.bulk_write = br, bw

                async def worker(i):
                    await baton.park(i, ("start",))
                    import io as _io
                    try:
                        if kinds[i] == "close":
                            await baton.park(i, ("io",))
                            await dev.close()
                            results[i] = ("ok", None)
                        elif kinds[i] == "reconnect":
                            for _ in range(rparks):
                                await baton.park(i, ("io",))
                            if rclose:
                                await dev.close()
                                await baton.park(i, ("io",))
                            await dev.connect()
                            results[i] = ("ok", None)
                        elif kinds[i] == "shell":
                            results[i] = ("ok", await dev.shell(cmds[i].decode(), transport_timeout_s=1.0, read_timeout_s=5.0, decode=False))
                        elif kinds[i] == "push":
                            await dev.push(_io.BytesIO(pushed[i]), "/w%d" % i, mtime=5, transport_timeout_s=1.0, read_timeout_s=5.0)
                            results[i] = ("ok", None)
                        elif kinds[i] == "stat":
                            results[i] = ("ok", tuple(await dev.stat("/r%d" % i, transport_timeout_s=1.0, read_timeout_s=5.0)))
                        else:
                            sink = _io.BytesIO()
                            await dev.pull("/r%d" % i, sink, transport_timeout_s=1.0, read_timeout_s=5.0)
                            results[i] = ("ok", sink.getvalue())
                    except Exception as exc:  # noqa
                        results[i] = ("err", type(exc).__name__)
                    finally:
                        baton.finished.add(i)
                tasks = []
                for i in range(nw):
                    baton.tids.append(i)
                    t = asyncio.ensure_future(worker(i))
                    task_ids[t] = i
                    tasks.append(t)
                try:
                    await baton.drive(tasks)
                except sched.Deadlock as exc:
                    out["deadlock"] = str(exc)
                    for t in tasks:
                        t.cancel()
                await asyncio.gather(*tasks, return_exceptions=True)
                out["order"] = list(baton.picks)
            loop = asyncio.new_event_loop()
            try:
                loop.run_until_complete(main())
                loop.run_until_complete(loop.shutdown_asyncgens())
            finally:
                loop.close()
            deadlock = out.get("deadlock")
            sched_order = out.get("order", [])
        sim = link.used[0].sim
        rep.evaluations += 1
        rep.count("conc_sessions_mode", mode)
        ser = dict(kind="conc-sessions", mode=mode, workers=nw, start=start, lines=bool(lines), burst=bool(sim.cfg.get("burst")), zero_local=bool(sim.cfg.get("zero_local")), failing=list(failing), rot=bool(sim.cfg.get("remote_ids")),
                   outs=[[a.hex(), [c.hex() for c in cs]] for a, cs in sorted(outs.items())], order=sched_order, kinds=kinds, rparks=rparks, rclose=bool(rclose),
                   pushed={str(k2): v.hex() for k2, v in pushed.items()}, pulled={str(k2): v.hex() for k2, v in pulled.items()})
        rep.signatures.add(("concsess", mode, nw, tuple(sched_order[:40])))
        fails = []
        if deadlock:
            fails.append(("deadlock", "deadlock: " + deadlock))
        elif "reconnect" in kinds:
            # connect() from one worker while the others are in the middle of their operations: those may fail in any way, but everybody terminates and
            # what EACH connection's peer received is whole well-formed messages (send and connect exclude each other), at most one cut-off message at the
            # very end of a connection that was closed under a writer
            for i in range(nw):
                if results[i] is None:
                    fails.append(("deadlock", "worker %d (%s) never finished after another worker called connect()" % (i, kinds[i])))
            # ... and whoever returns normally returns ITS OWN data: streams of the new connection never get mixed up with those of the old one
            for i in range(nw):
                r = results[i]
                if r is None or r[0] != "ok" or i in failing:
                    continue
                if kinds[i] == "shell" and bytes(r[1]) != b"".join(outs[cmds[i]]):
                    fails.append(("crosstalk-or-reorder", "worker %d (%s) got %r across a reconnect by another worker; the device wrote %r on its stream" % (i, cmds[i].decode(), bytes(r[1]), b"".join(outs[cmds[i]]))))
                elif kinds[i] == "stat" and tuple(r[1]) != (33188 + i, len(pulled[i]), 1000 + i):
                    fails.append(("crosstalk-or-reorder", "worker %d stat(/r%d) returned %r across a reconnect, the device answers %r" % (i, i, r[1], (33188 + i, len(pulled[i]), 1000 + i))))
                elif kinds[i] == "pull" and bytes(r[1]) != pulled[i]:
                    fails.append(("crosstalk-or-reorder", "worker %d pulled %d bytes of /r%d across a reconnect, the device file has %d" % (i, len(r[1]), i, len(pulled[i]))))
            for ci, c in enumerate(link.used):
                if c.sim.malformed is not None:
                    fails.append(("malformed-wire", "connection %d: the device received bytes that are not whole well-formed messages (header fields %r) while one worker "
                                  "reconnected and others were sending" % (ci, c.sim.malformed)))
                elif ci == len(link.used) - 1 and c.sim.buf:
                    fails.append(("malformed-wire", "connection %d (the live one) ends with %d bytes that are not a whole message" % (ci, len(c.sim.buf))))
        elif "close" in kinds:
            # after a concurrent close() the other operations may fail in any way; what must hold is that everybody terminates
            for i in range(nw):
                if results[i] is None:
                    fails.append(("deadlock", "worker %d (%s) never finished after another worker called close()" % (i, kinds[i])))
        else:
            if sim.malformed is not None:
                fails.append(("malformed-wire", "the device received bytes that are not whole well-formed messages (header fields %r): concurrent sends interleaved" % (sim.malformed,)))
            opens = [a0 for who, cmd, a0, a1, d in sim.log if who == "host" and cmd == b"OPEN"]
            if len(set(opens)) != len(opens) or any(not (1 <= a <= 2 ** 32 - 1) for a in opens):
                fails.append(("duplicate-or-invalid-id", "concurrent opens from counter %d carried local ids %r" % (start, opens)))
            for i in range(nw):
                r = results[i]
                if r is None:
                    fails.append(("incomplete", "worker %d never finished" % i))
                    continue
                if i in failing:
                    if r != ("err", "AdbCommandFailureException") and not lost:
                        fails.append(("fail-not-reported", "worker %d pulled a file the device refused with a sync FAIL; the call ended with %r instead of AdbCommandFailureException" % (i, r)))
                    continue
                if r[0] == "ok":
                    if kinds[i] == "shell":
                        want = b"".join(outs[cmds[i]])
                        if bytes(r[1]) != want:
                            fails.append(("crosstalk-or-reorder", "worker %d (%s) got %r, the device wrote %r on its stream" % (i, cmds[i].decode(), bytes(r[1]), want)))
                    elif kinds[i] == "push":
                        got = sim.files_received.get(("/w%d" % i).encode())
                        if got is None or got[2] != pushed[i]:
                            fails.append(("crosstalk-or-reorder", "worker %d pushed %d bytes to /w%d; the device holds %s" % (i, len(pushed[i]), i, "nothing" if got is None else "%d bytes (first differing byte at %s)" % (
                                len(got[2]), next((j for j in range(min(len(got[2]), len(pushed[i]))) if got[2][j] != pushed[i][j]), "the end")))))
                    elif kinds[i] == "stat":
                        if tuple(r[1]) != (33188 + i, len(pulled[i]), 1000 + i):
                            fails.append(("crosstalk-or-reorder", "worker %d stat(/r%d) returned %r, the device answered %r" % (i, i, r[1], (33188 + i, len(pulled[i]), 1000 + i))))
                    else:
                        if bytes(r[1]) != pulled[i]:
                            fails.append(("crosstalk-or-reorder", "worker %d pulled %d bytes of /r%d, the device file has %d" % (i, len(r[1]), i, len(pulled[i]))))
                elif r[0] == "err":
                    kind = "lost-clse-no-entry" if lost and not any(f[0] in ("malformed-wire", "duplicate-or-invalid-id") for f in fails) else "incomplete"
                    fails.append((kind, "worker %d (%s) raised %s on a healthy device%s" % (i, kinds[i], r[1], " after its CLSE was dropped by put() (K1)" if kind == "lost-clse-no-entry" else "")))
        for kind, why in fails:
            if kind == "lost-clse-no-entry" and ctx.prop != "C06":
                continue        # K1 belongs to C06 (known finding there); other properties only look at their own clauses here
            if ctx.prop == "C02" and kind not in ("malformed-wire", "deadlock"):
                continue
            if ctx.prop == "C14" and kind not in ("duplicate-or-invalid-id", "deadlock"):
                continue
            rep.prop_failures.append(dict(case=ser, why=why, signature=dict(kind=kind), no_shrink=True, replay_with="conc-sessions"))
        if len([f for f in rep.prop_failures if f["signature"]["kind"] != "lost-clse-no-entry"]) > 5:
            break


def conc_two_devices(ctx, n=None, only=None):
    """Two AdbDevice objects, each on its own connection with short writes, used from two threads at once under one baton scheduler
    (control changes hands inside every transport call): each device's outgoing byte stream must consist of whole well-formed messages
    and each shell() must return its own device's output.  State shared between AdbDevice objects (class attributes, module globals)
    is what this exercises; the per-device locks cannot protect it."""
    import transports
    import adb_shell.adb_device as sync_mod
    from adb_shell.adb_device import AdbDevice
    rep = ctx.report
    total = 1 if only is not None else (n if n is not None else int((20 if ctx.tier == "quick" else 300) * ctx.budget))
    for k in range(total):
        rng = ctx.rng
        ndev = 2
        outs = [[bytes([65 + d]) * rng.randrange(1, 6) for _ in range(rng.choice([1, 2]))] for d in range(ndev)]
        cmdlen = [rng.choice([2, 10, 40]) for d in range(ndev)]
        ofr = [[rng.choice([1, 3, 7, 20, 24, 30]) for _ in range(60)] for d in range(ndev)]
        order = None
        if only is not None:
            outs = [[bytes.fromhex(c) for c in o] for o in only["outs"]]
            cmdlen, ofr, order = only["cmdlen"], only["ofrags"], only.get("order")
        clock = transports.Clock(1 << 40)
        sync_mod.time = clock
        cmds = [("x%d" % d).ljust(cmdlen[d], "y").encode() for d in range(ndev)]
        links = [transports.Link(clock, [dict(sim=dict(maxdata=4096, shell={cmds[d]: outs[d]}), dt=1, ofrags=list(ofr[d]))]) for d in range(ndev)]
        baton = sched.Baton(rng, fixed=order)
        devs = []
        for d in range(ndev):
            dev = AdbDevice(transports.MemTransport(links[d]), banner=b"verif")
            dev.connect()
            dev._local_id_lock = sched.SchedLock(baton, "localId%d" % d)
            dev._io_manager._transport_lock = sched.SchedLock(baton, "transport%d" % d)
            dev._io_manager._store_lock = sched.SchedLock(baton, "store%d" % d)
            sched.adopt_locks(baton, [dev, dev._io_manager])
            link = links[d]

            def wrap(link=link):
                orig_r, orig_w = link.bulk_read, link.bulk_write

                def br(nb, t):
                    baton.park(("io",))
                    return orig_r(nb, t)

                def bw(data, t):
                    baton.park(("io",))
                    r = orig_w(data, t)
                    baton.park(("io",))
                    return r
                link.bulk_read, link.bulk_write = br, bw
            wrap()
            devs.append(dev)
        results = [None] * ndev

        def worker(i):
            try:
                results[i] = ("ok", devs[i].shell(cmds[i].decode(), transport_timeout_s=1.0, read_timeout_s=5.0, decode=False))
            except Exception as exc:  # noqa
                results[i] = ("err", type(exc).__name__)
        deadlock = None
        threads = baton.spawn([lambda i=i: worker(i) for i in range(ndev)])
        try:
            baton.drive()
        except sched.Deadlock as exc:
            deadlock = str(exc)
        for t in threads:
            t.join(timeout=2.0)
        rep.evaluations += 1
        rep.count("conc_two_devices", "run")
        ser = dict(kind="conc-two-devices", outs=[[c.hex() for c in o] for o in outs], cmdlen=cmdlen, ofrags=ofr, order=list(baton.picks))
        fails = []
        if deadlock:
            fails.append(("deadlock", "deadlock: " + deadlock))
        for d in range(ndev):
            sim = links[d].used[0].sim
            if sim.malformed is not None:
                fails.append(("malformed-wire", "device %d received bytes that are not whole well-formed messages (header fields %r) while another AdbDevice was sending" % (d, sim.malformed)))
            r = results[d]
            if r is None or r[0] != "ok" or bytes(r[1]) != b"".join(outs[d]):
                fails.append(("crosstalk-or-reorder", "device %d: shell returned %r, its adbd wrote %r" % (d, r, b"".join(outs[d]))))
        for kind, why in fails:
            rep.prop_failures.append(dict(case=ser, why=why, signature=dict(kind=kind), no_shrink=True, replay_with="conc-two-devices"))
        if len(rep.prop_failures) > 5:
            break


def replay_conc_two_devices(ctx, fl):
    before = len(ctx.report.prop_failures)
    conc_two_devices(ctx, only=fl["case"])
    new = ctx.report.prop_failures[before:]
    for f in new:
        print("FAIL:", f["why"])
    return not new


def replay_conc_sessions(ctx, fl):
    before = len(ctx.report.prop_failures)
    conc_sessions(ctx, only=fl["case"])
    new = ctx.report.prop_failures[before:]
    for f in new:
        print("FAIL:", f["why"])
    return not new
