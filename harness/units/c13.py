"""C13 -- nothing is sent unless connected; availability is truthful."""
import itertools
import oracles, scen
from units.mk import Unit, COMMON
from units import sesscheck

KINDS = ["connect_ok", "connect_fail_nokeys", "connect_fail_timeout", "connect_fail_nontoken", "close",
         "shell", "exec_out", "root", "reboot", "streaming_shell", "list", "stat", "pull", "push", "list_e", "stat_e", "pull_e", "push_e"]


def exhaustive(ctx):
    L = 2 if ctx.tier == "quick" else 3
    scns = []
    for n in range(1, L + 1):
        for combo in itertools.product(KINDS, repeat=n):
            envs, ops = [], []
            for k in combo:
                scen.add_guard_op(ctx.rng, k, envs, ops)
            scns.append(dict(envs=envs, ops=ops, files={0: b"data"}))
    sesscheck.check_scenarios(ctx, scns, (oracles.o_c13,) + COMMON, "guards-exhaustive")
    ctx.report.notes.append("exhaustive: all %d sequences of length <= %d over %d step kinds" % (len(scns), L, len(KINDS)))


Unit([("guards", scen.gen_guards, 1)], (oracles.o_c13,) + COMMON,
     "all sequences up to length 2 (thorough: 3) over {connect-ok, connect-fail(no keys / timeout / non-token), close, each of the nine public operations, "
     "the four path operations with an empty path}, plus random sequences of length <= 4; sync and async; observed: exception kind, bytes written, "
     "local files created, `available` after every step. Non-trivial/distinct as for C01.", 150, 3000, extra_run=exhaustive).export(globals())
