"""C12 -- any transport failure leaves the device object recoverable."""
import copy
import oracles, scen, session
from units.mk import Unit, COMMON


def gen_faulted(rng):
    base = scen.gen_mixed(rng)
    base["envs"][0]["frags"] = []
    r = session.Runner(copy.deepcopy(base), "sync")
    r.run()
    c = r.link.used[0] if r.link.used else None
    tin = c.in_off if c else 1
    tout = c.out_off if c else 1
    return [scen.with_fault(rng, base, tin, tout) for _ in range(3)]


Unit([("fault", gen_faulted, 1)],
     (oracles.o_locks, oracles.o_c12_after_reconnect, oracles.o_c01, oracles.o_c07, oracles.o_c08, oracles.o_c09, oracles.o_c13, oracles.o_c14, oracles.o_c02),
     "a session touching every operation is first run healthy to learn its stream lengths; then a fault (transport timeout, connection reset, end-of-stream) "
     "is placed at a random inbound or outbound offset; afterwards close(), connect() to a healthy device and the same operations again. Checked on the "
     "implementation: no lock held after any call, every normally-returning call (before and after the fault) has the exact result, close/reconnect succeed. "
     "Non-trivial/distinct as for C01.", 50, 1500).export(globals())
