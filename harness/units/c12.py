"""C12 -- any transport failure leaves the device object recoverable."""
import copy
import oracles, scen, session
from units.mk import Unit, COMMON


def gen_faulted(rng):
    base = scen.gen_mixed(rng)
    base["envs"][0]["frags"] = []
    r = session.Runner(copy.deepcopy(base), "sync")
    r.run()
    c = r.link.used[0] if r.link.used else None
    tin = c.in_off if c else 1
    tout = c.out_off if c else 1
    out = []
    for _ in range(3):
        s = scen.with_fault(rng, base, tin, tout)
        if rng.random() < 0.5:
            # late packets of the BROKEN session's streams (ids it really allocated) arrive on the new connection right after its handshake:
            # the new session must not mistake them for its own (its ids continue after the old ones)
            pre = copy.deepcopy(s)
            pre["ops"] = pre["ops"][:s["n_before"]]
            rr = session.Runner(pre, "sync")
            obs = rr.run()
            used = max([o["lid"] for o in obs] + [0])
            if 1 <= used < 2 ** 31:
                from sim_device import pkt
                late = b""
                for lid in sorted(set(rng.randrange(1, used + 1) for _ in range(3))):
                    rem = rng.randrange(60, 90)
                    late += pkt(b"OKAY", rem, lid) + pkt(b"WRTE", rem, lid, b"old output") + (pkt(b"CLSE", rem, lid) if rng.random() < 0.7 else b"")
                healthy = s["envs"][-1]
                healthy["sim"] = dict(healthy["sim"], stray=list(healthy["sim"].get("stray", [])) + [(2, late)])     # with the 2nd host packet (the first OPEN): before the real OKAY
        out.append(s)
    return out


def gen_faulted_short(rng):
    """the same with a transport that accepts only a few bytes per write call, and the fault on the WRITE side: a message is cut in the middle,
    then close()/connect() (or a bare connect()) and the same operations again -- nothing of the cut message may reach the new connection"""
    base = scen.gen_mixed(rng)
    base["envs"][0]["frags"] = []
    base["envs"][0]["ofrags"] = [rng.choice([1, 5, 10, 23, 24, 30, 100]) for _ in range(4000)]
    r = session.Runner(copy.deepcopy(base), "sync")
    r.run()
    c = r.link.used[0] if r.link.used else None
    tout = c.out_off if c else 1
    out = []
    for _ in range(3):
        s = scen.with_fault(rng, base, 1, tout)
        side, off, kind = s["fault"]
        if side != "out":
            off = rng.randrange(0, max(1, tout))
            kind = rng.choice(["timeout", "reset"])
            s["envs"][0]["faults"] = [("out", off, kind)]
            s["fault"] = ("out", off, kind)
        out.append(s)
    return out


def tcp_reset(ctx):
    """real sockets: the peer aborts the connection (RST); close() must still complete and connect() must work again (both transports)"""
    from units import c18
    for kind in ("sync", "async"):
        f = c18.check_reset(ctx, kind)
        if f:
            ctx.report.prop_failures.append(dict(f, no_shrink=True, replay_with="c18"))


def _replay_c18(ctx, fl):
    from units import c18
    return c18.replay(ctx, dict(failure=fl))


from units import mk as _mk
_mk.REPLAYERS["c18"] = _replay_c18


Unit([("fault", gen_faulted, 1)],
     (oracles.o_locks, oracles.o_c12_after_reconnect, oracles.o_c01, oracles.o_c07, oracles.o_c08, oracles.o_c09, oracles.o_c13, oracles.o_c14, oracles.o_c02),
     "a session touching every operation is first run healthy to learn its stream lengths; then a fault (transport timeout, connection reset, end-of-stream) "
     "is placed at a random inbound or outbound offset; afterwards close(), connect() to a healthy device and the same operations again. Checked on the "
     "implementation: no lock held after any call, every normally-returning call (before and after the fault) has the exact result, close/reconnect succeed. "
     "Non-trivial/distinct as for C01.", 50, 1500, extra_run=tcp_reset).export(globals())
