"""C05 -- CNXN/AUTH handshake state machine."""
import oracles, scen
from units.mk import Unit, COMMON
Unit([("handshake", scen.gen_handshake, 1)], (oracles.o_c05, oracles.o_c13) + COMMON,
     "connect() with 0-4 stub keys (Sign = tag|key|token, so bytes are predictable) against devices that need no auth / accept the k-th signature / accept "
     "only the public key / never answer / send a non-token challenge at each position / go silent after k packets / cannot be connected; fresh token per "
     "challenge; CNXN maxdata in {0,1,4096,2^20,2^32-1}; stray packets before answers; str and bytes public keys; 1-3 connects on one object. "
     "Non-trivial/distinct as for C01.", 300, 6000).export(globals())
