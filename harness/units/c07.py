"""C07 -- push delivers the exact file bytes within protocol limits."""
import copy
import oracles, scen
from units.mk import Unit, COMMON, metamorphic


def cb_groups(ctx):
    n = int((12 if ctx.tier == "quick" else 150) * ctx.budget)
    groups = []
    for _ in range(n):
        base = scen.gen_push(ctx.rng)
        g = []
        for mode in ("none", "count", "raise"):
            s = copy.deepcopy(base)
            for op in s["ops"]:
                if op["op"] == "push":
                    op["cb"] = mode
            g.append(s)
        groups.append(g)
    metamorphic(ctx, groups, "callback", ("res", "peer"), "presence or failure of the progress callback changed what push sent", "callback-irrelevance")
    # pushes (and other FileSync calls) in flight at the same time on one device: each file must still arrive byte for byte
    from units import conc
    conc.conc_sessions(ctx, int((20 if ctx.tier == "quick" else 300) * ctx.budget))


Unit([("push", scen.gen_push, 4), ("reconnect", scen.gen_reconnect_push, 1)], (oracles.o_c07, oracles.o_c02, oracles.o_lean_c07) + COMMON,
     "push of BytesIO / real file / real directory (pushed from a different working directory) with sizes {0,1,chunk-1,chunk,chunk+1,2*chunk,maxdata-1,"
     "maxdata,maxdata+1,65535..65537; thorough: 300000}, maxdata {4096,8192,131072,262144,1MiB}, path lengths {1,60,1000}, modes and mtimes at 32-bit edges, "
     "callback {none, counting, raising}; the simulator's filesystem reassembles the sync stream; the same push with each callback mode must send identical "
     "bytes (metamorphic). Non-trivial/distinct as for C01.", 60, 1500, extra_run=cb_groups).export(globals())
