"""Validation of the translator (harness/pytrans.py) and of the Python-subset semantics (lean/AdbModel/Py.lean).

The refinement theorems (AdbProofs/Properties/*Src.lean) tie the hand-written model to the GENERATED definitions; what ties the
generated definitions to CPython is the translator, which is trusted.  This unit reduces that trust: on every run the generated
definitions are EXECUTED (`lake env lean --run`) on sample inputs and their results -- value or exception kind, and the object
state afterwards -- are compared with what the real Python functions do on the same inputs.

groups: 'store' (C19), 'txn' (C11/C19), 'fsinfo' (C07), 'message' (C02), 'device' (C07/C14/C16)
"""
import asyncio
import copy
import os
import queue
import random
import struct
import subprocess

import common
import pytrans

ERRS = {"InvalidResponseError": "InvalidResponseError", "AdbCommandFailureException": "AdbCommandFailureException", "InvalidCommandError": "InvalidCommandError", "InvalidChecksumError": "InvalidChecksumError", "AdbTimeoutError": "AdbTimeoutError", "OverflowError": "OverflowError", "TypeError": "TypeError", "KeyError": "KeyError", "IndexError": "IndexError", "Empty": "Empty", "AttributeError": "AttributeError",
        "ValueError": "ValueError", "error": "StructError"}


def hexs(b):
    b = bytes(b)
    return b.hex() if b else "-"


def qitems(q):
    """pending items of a queue.Queue / asyncio.Queue (the store uses whichever hidden_helpers imported), oldest first"""
    return list(q.queue) if isinstance(q, queue.Queue) else list(q._queue)


def show(v):
    if v is None:
        return "None"
    if isinstance(v, bool):
        return "True" if v else "False"
    if isinstance(v, int):
        return str(v)
    if isinstance(v, bytes):
        return "b:" + hexs(v)
    if isinstance(v, bytearray):
        return "ba:" + hexs(v)
    if isinstance(v, str):
        return "s:" + v
    if isinstance(v, tuple):
        return "(" + ",".join(show(x) for x in v) + ")"
    if isinstance(v, list):
        return "[" + ",".join(show(x) for x in v) + "]"
    if isinstance(v, dict):
        return "{" + ",".join(show(k) + ":" + show(x) for k, x in v.items()) + "}"
    if isinstance(v, (queue.Queue, asyncio.Queue)):
        return "Q[" + ",".join(show(x) for x in qitems(v)) + "]"
    return "<" + type(v).__name__ + " " + ",".join("%s=%s" % (k, show(x)) for k, x in sorted(vars(v).items())) + ">"


def lean(v):
    if v is None or isinstance(v, (bool, int, bytes, str)):
        return pytrans.lean_const(v)
    if isinstance(v, bytearray):
        return "(Val.bytearray %s)" % pytrans.lean_bytes(v)
    if isinstance(v, tuple):
        return "(Val.tuple [%s])" % ", ".join(lean(x) for x in v)
    if isinstance(v, list):
        return "(Val.list [%s])" % ", ".join(lean(x) for x in v)
    if isinstance(v, dict):
        items = []
        for k, x in v.items():
            kk = "Key.none" if k is None else ("(Key.int %s)" % (k if k >= 0 else "(%d)" % k) if isinstance(k, int) else
                                               "(Key.bytes %s)" % pytrans.lean_bytes(k) if isinstance(k, bytes) else "(Key.str %s)" % pytrans.lean_str(k))
            items.append("(%s, %s)" % (kk, lean(x)))
        return "(Val.dict [%s])" % ", ".join(items)
    if isinstance(v, (queue.Queue, asyncio.Queue)):
        return "(Val.queue [%s])" % ", ".join(lean(x) for x in qitems(v))
    return "(Val.obj %s [%s])" % (pytrans.lean_str(type(v).__name__), ", ".join("(%s, %s)" % (pytrans.lean_str(k), lean(x)) for k, x in vars(v).items()))


def outcome(fn, *args, obj=None):
    """canonical result of calling the real Python function; obj (if given) is shown afterwards"""
    try:
        r = fn(*args)
    except (queue.Empty, asyncio.QueueEmpty):
        return "err Empty"
    except struct.error:
        return "err StructError"
    except Exception as exc:  # noqa
        return "err " + ERRS.get(type(exc).__name__, "Other:" + type(exc).__name__)
    if obj is not None:
        return "ok %s | %s" % (show(r), show(obj))
    return "ok " + show(r)


def bare(cls):
    return cls.__new__(cls)


# ---- case generators: (lean expression of type String, expected text, description) ---------------------------------
def cases_store(rng, n_steps):
    from adb_shell.hidden_helpers import _AdbPacketStore
    out = []
    ids = [0, 1, 2, 7, 2 ** 32 - 1]
    wild = ids + [None]
    cmds = [b"WRTE", b"OKAY", b"CLSE", b"OPEN"]
    for _ in range(max(1, n_steps // 40)):
        st = _AdbPacketStore()
        out.append(("showM2 (AdbPacketStore_init (Val.obj \"_AdbPacketStore\" []))", outcome(bare(_AdbPacketStore).__init__, obj=_AdbPacketStore()).replace("ok None | ", "ok None | "), "store.__init__"))
        for _ in range(40):
            before = lean(st)
            op = rng.choice(["put", "put", "put", "get", "get", "find", "findz", "clear", "len", "contains", "clear_all"] if rng.random() < 0.9 else ["clear_all"])
            if op == "put":
                a = (rng.choice(ids[:4]), rng.choice(ids[:4]), rng.choice(cmds), rng.choice([b"", b"x", b"\x00\xff"]))
                exp = outcome(st.put, *a, obj=st)
                out.append(("showM2 (AdbPacketStore_put %s %s)" % (before, " ".join(lean(x) for x in a)), exp, "store.put%r" % (a,)))
            elif op == "get":
                a = (rng.choice(wild), rng.choice(wild))
                exp = outcome(st.get, *a, obj=st)
                if exp.startswith("err"):
                    # a failing get may already have changed nothing (find) -- state is not part of an exceptional result
                    pass
                out.append(("showM2 (AdbPacketStore_get %s %s)" % (before, " ".join(lean(x) for x in a)), exp, "store.get%r" % (a,)))
            elif op in ("find", "findz"):
                a = (rng.choice(wild), rng.choice(wild))
                fn = st.find if op == "find" else st.find_allow_zeros
                out.append(("showM (AdbPacketStore_%s %s %s)" % ("find" if op == "find" else "find_allow_zeros", before, " ".join(lean(x) for x in a)), outcome(fn, *a), "store.%s%r" % (op, a)))
            elif op == "clear":
                a = (rng.choice(ids[:4]), rng.choice(ids[:4]))
                exp = outcome(st.clear, *a, obj=st)
                out.append(("showM2 (AdbPacketStore_clear %s %s)" % (before, " ".join(lean(x) for x in a)), exp, "store.clear%r" % (a,)))
            elif op == "len":
                out.append(("showM (AdbPacketStore_len %s)" % before, outcome(st.__len__), "store.__len__"))
            elif op == "contains":
                a = (rng.choice(wild), rng.choice(wild))
                out.append(("showM (AdbPacketStore_contains %s %s)" % (before, lean(a)), outcome(st.__contains__, a), "store.__contains__%r" % (a,)))
            else:
                exp = outcome(st.clear_all, obj=st)
                out.append(("showM2 (AdbPacketStore_clear_all %s)" % before, exp, "store.clear_all"))
    return out


def cases_txn(rng, n):
    from adb_shell.hidden_helpers import _AdbTransactionInfo
    out = []
    tvals = [None, 0, 1, 5, 10, 10240]
    grid = [(l, r, tt, rt, t) for l in (1, 7) for r in (None, 3) for tt in tvals for rt in tvals for t in tvals]
    rng.shuffle(grid)
    for a in grid[:n]:
        o = bare(_AdbTransactionInfo)
        exp = outcome(o.__init__, *a, obj=o)
        out.append(("showM2 (AdbTransactionInfo_init (Val.obj \"_AdbTransactionInfo\" []) %s)" % " ".join(lean(x) for x in a), exp, "txn.__init__%r" % (a,)))
    for _ in range(n):
        o = _AdbTransactionInfo(rng.choice([0, 1, 2, 2 ** 32 - 1]), rng.choice([None, 0, 1, 2]), 1, 2, 3)
        a = (rng.choice([0, 1, 2, 5]), rng.choice([0, 1, 2, 2 ** 32 - 1]), rng.choice([False, True, 0, 1]))
        out.append(("showM (AdbTransactionInfo_args_match %s %s)" % (lean(o), " ".join(lean(x) for x in a)), outcome(o.args_match, *a), "txn.args_match%r on %s" % (a, show(o))))
    return out


def cases_fsinfo(rng, n):
    from adb_shell.hidden_helpers import _FileSyncTransactionInfo
    from adb_shell import constants
    out = []
    for fmt in (constants.FILESYNC_LIST_FORMAT, constants.FILESYNC_PULL_FORMAT, constants.FILESYNC_PUSH_FORMAT, constants.FILESYNC_STAT_FORMAT):
        for md in (0, 1, 24, 64):
            o = bare(_FileSyncTransactionInfo)
            exp = outcome(o.__init__, fmt, md, obj=o)
            out.append(("showM2 (FileSyncTransactionInfo_init (Val.obj \"_FileSyncTransactionInfo\" []) %s %s)" % (lean(fmt), lean(md)), exp, "fsinfo.__init__(%r, %r)" % (fmt, md)))
    for _ in range(n):
        o = _FileSyncTransactionInfo(rng.choice([constants.FILESYNC_LIST_FORMAT, constants.FILESYNC_PUSH_FORMAT, constants.FILESYNC_STAT_FORMAT]), rng.choice([16, 40, 4096]))
        o.send_buffer = bytearray()          # not read by can_add_to_send_buffer; keeps the Lean term small
        o.send_idx = rng.choice([0, 1, 7, 8, 20, 4000, 4080, 4087, 4088])
        d = rng.choice([0, 1, 7, 8, 9, 15, 16, 100, 4088, 65536])
        out.append(("showM (FileSyncTransactionInfo_can_add_to_send_buffer %s %s)" % (lean(o), lean(d)), outcome(o.can_add_to_send_buffer, d), "fsinfo.can_add(%r) idx=%r" % (d, o.send_idx)))
    return out


def cases_message(rng, n):
    from adb_shell import adb_message, constants
    out = []
    datas = [b"", b"\x00", b"abc", bytes(range(256)), b"\xff" * 300, bytearray(b"\x01\x02\xff"), bytearray(), "", "abc", "é€"]
    for d in datas:
        out.append(("showM (checksum %s)" % lean(d), outcome(adb_message.checksum, d), "checksum(%r)" % (d[:8],)))
    for _ in range(n):
        ln = rng.choice([0, 1, 23, 24, 24, 24, 25, 48])
        m = bytes(rng.randrange(256) for _ in range(ln))
        out.append(("showM (unpack %s)" % lean(m), outcome(adb_message.unpack, m), "unpack(%d bytes)" % ln))
    vals = [0, 1, 2 ** 32 - 1, 2 ** 32, -1, 305419896]
    for cmd in list(constants.IDS) + [b"XXXX"]:
        for _ in range(3):
            a = (cmd, rng.choice(vals), rng.choice(vals), rng.choice([b"", b"abc", b"\xff" * 20, bytearray(b"zz")]))
            o = bare(adb_message.AdbMessage)
            exp = outcome(o.__init__, *a, obj=o)
            out.append(("showM2 (AdbMessage_init (Val.obj \"AdbMessage\" []) %s)" % " ".join(lean(x) for x in a), exp, "AdbMessage%r" % (a,)))
            if exp.startswith("ok"):
                out.append(("showM (AdbMessage_pack %s)" % lean(o), outcome(o.pack), "AdbMessage%r.pack()" % (a,)))
                out.append(("showM (AdbMessage_checksum %s)" % lean(o), outcome(lambda: o.checksum), "AdbMessage%r.checksum" % (a,)))
    return out


class _Dev(object):
    pass


def cases_device(rng, n):
    import ast
    out = []
    units = dict(pytrans.build_units(common.REPO))
    for fname, cls, modname in (("adb_device.py", "AdbDevice", "adb_shell.adb_device"), ("adb_device_async.py", "AdbDeviceAsync", "adb_shell.adb_device_async")):
        import importlib
        mod = importlib.import_module(modname)
        klass = getattr(mod, cls)
        for md in [0, 1, 2, 3, 24, 4096, 65536, 131071, 131072, 262144, 1 << 20, 2 ** 32 - 1]:
            o = _Dev()
            o.__class__ = type(cls, (), {})
            o._maxdata = md
            exp = outcome(lambda: klass.max_chunk_size.fget(o))
            out.append(("showM (%s_max_chunk_size %s)" % (cls, lean(o)), exp, "%s.max_chunk_size maxdata=%d" % (cls, md)))
        # the id allocation statements of _open, executed on a bare object carrying only the counter
        u = units[fname]
        fn = u.fns.get(cls + "_open_alloc_id")
        if fn is None or any(isinstance(s, ast.Global) for s in fn["body"]):
            continue
        code = compile(ast.fix_missing_locations(ast.Module(body=[ast.FunctionDef(
            name="f", args=ast.arguments(posonlyargs=[], args=[ast.arg(arg="self")], kwonlyargs=[], kw_defaults=[], defaults=[]),
            body=copy.deepcopy(fn["body"]), decorator_list=[])], type_ignores=[])), "<alloc>", "exec")
        ns = {}
        exec(code, ns)
        for lid in [0, 1, 5, 2 ** 32 - 3, 2 ** 32 - 2, 2 ** 32 - 1, 2 ** 32]:
            o = _Dev()
            o.__class__ = type(cls, (), {})
            o._local_id = lid
            before = lean(o)
            exp = outcome(ns["f"], o, obj=o)
            out.append(("showM2 (%s_open_alloc_id %s)" % (cls, before), exp, "%s._open id block from %d" % (cls, lid)))
    return out


class _Key(object):
    pass


def cases_keys(rng, n):
    """_to_bytes and the arithmetic tail of encode_pubkey (executed as extracted by the translator) on odd moduli of several sizes, incl. ones whose rr has
    leading zero bytes, and on values that do not fit (OverflowError / struct.error)."""
    import ast
    import importlib
    kg = importlib.import_module("adb_shell.auth.keygen")
    out = []
    for (v, ln, order) in [(0, 4, "big"), (1, 1, "little"), (255, 1, "big"), (256, 1, "big"), (0x0102, 4, "little"), (0x0102, 4, "big"), (2 ** 2048 - 1, 256, "little"),
                           (2 ** 2048, 256, "little"), (rng.getrandbits(2040), 256, "little"), (rng.getrandbits(100), 256, "big"), (5, 0, "big"), (0, 0, "little"), (7, 3, "middle")]:
        out.append(("showM (keygen_to_bytes %s %s %s)" % (lean(v), lean(ln), lean(order)), outcome(kg._to_bytes, v, ln, order), "_to_bytes(%d bits, %d, %r)" % (v.bit_length(), ln, order)))
    units = dict(pytrans.build_units(common.REPO))
    fn = units["auth/keygen.py"].fns.get("keygen_encode_pubkey_arith")
    if fn is None or any(isinstance(st, ast.Global) for st in fn["body"]):
        return out
    code = compile(ast.fix_missing_locations(ast.Module(body=[ast.FunctionDef(
        name="f", args=ast.arguments(posonlyargs=[], args=[ast.arg(arg="key")], kwonlyargs=[], kw_defaults=[], defaults=[]),
        body=copy.deepcopy(fn["body"]), decorator_list=[])], type_ignores=[])), "<encode_pubkey_arith>", "exec")
    ns = dict(vars(kg))
    exec(code, ns)
    mods = []
    for bits in (2048, 2048, 2047, 2040, 1024, 64, 33):
        m = rng.getrandbits(bits) | 1 | (1 << (bits - 1))
        mods.append(m)
    # moduli whose rr = 2^4096 mod n has a zero top byte (about 1 in 256): search a few
    tries = 0
    while tries < 3000 and sum(1 for m in mods if (pow(2, 4096, m) >> 2040) == 0 and m.bit_length() == 2048) < 1:
        m = rng.getrandbits(2048) | 1 | (1 << 2047)
        if (pow(2, 4096, m) >> 2040) == 0:
            mods.append(m)
        tries += 1
    mods += [2 ** 2048 + 1, 4, 2 ** 2047 + 2]          # too large (OverflowError) / even (no inverse: whatever the library returns)
    for m in mods:
        for e in (65537, 3, 2 ** 32):
            k = _Key()
            k.n, k.e = m, e
            out.append(("showM (keygen_encode_pubkey_arith %s)" % lean(k), outcome(ns["f"], k), "encode_pubkey arithmetic n=%d bits e=%d" % (m.bit_length(), e)))
            if len(out) > n + 40:
                break
    return out


class _Info(object):
    pass


def cases_loops(rng, n):
    """the extracted loop iterations of _read_bytes_from_device / _write_all (both twins): the SAME rewritten body (effects as parameters) is executed as Python
    and as generated Lean on states around every branch: complete / incomplete reads, empty reads, over-delivery, deadline passed or not, None timeouts,
    short / full / zero / None write counts."""
    import ast
    out = []
    units = dict(pytrans.build_units(common.REPO))
    for fname, cls in (("adb_device.py", "AdbDevice"), ("adb_device_async.py", "AdbDeviceAsync")):
        u = units[fname]
        for meth in ("read_bytes_from_device", "write_all", "read_expected_packet_from_device"):
            for suffix in ("cond", "iter", "eff0_args"):
                lean_name = "%s_%s_%s" % (cls, meth, suffix)
                fn = u.fns.get(lean_name)
                if fn is None or any(isinstance(st, ast.Global) for st in fn["body"]):
                    continue
                code = compile(ast.fix_missing_locations(ast.Module(body=[ast.FunctionDef(
                    name="f", args=ast.arguments(posonlyargs=[], args=[ast.arg(arg=p) for p in fn["params"]], kwonlyargs=[], kw_defaults=[], defaults=[]),
                    body=copy.deepcopy(fn["body"]), decorator_list=[])], type_ignores=[])), "<%s>" % lean_name, "exec")
                import adb_shell.exceptions as exceptions
                ns = {"exceptions": exceptions}
                exec(code, ns)
                for _ in range(max(6, n // 6)):
                    info = _Info()
                    info.__class__ = type("_AdbTransactionInfo", (), {})
                    info.read_timeout_s = rng.choice([None, 0, 5, 10])
                    info.transport_timeout_s = rng.choice([None, 1, 10])
                    vals = {}
                    start = rng.randrange(0, 1000)
                    if meth == "read_expected_packet_from_device":
                        from adb_shell import constants
                        vals = dict(adb_info=info, arg0=None, arg1=None, cmd=None, data=None, expected_cmds=rng.choice([[constants.CNXN], [constants.AUTH, constants.CNXN], []]),
                                    start=start, eff0=(rng.choice([constants.CNXN, constants.AUTH, constants.WRTE]), rng.choice([0, 1, 2 ** 32 - 1]), 7, rng.choice([b"", b"tok"])),
                                    now=start + rng.choice([0, 5, 6, 11]))
                    elif meth == "read_bytes_from_device":
                        length = rng.choice([0, 1, 4, 24])
                        got = rng.choice([0, 1, length, max(0, length - 1), length + 2])
                        vals = dict(adb_info=info, data=bytearray(rng.randbytes(rng.choice([0, 3]))), length=length, start=start, temp=b"", eff0=rng.randbytes(got),
                                    now=start + rng.choice([0, 5, 6, 11]))
                    else:
                        data = rng.randbytes(rng.choice([0, 1, 5, 24]))
                        vals = dict(adb_info=info, data=data, num_written=None, start=start, eff0=rng.choice([None, 0, 1, len(data), len(data) + 1, max(0, len(data) - 1)]),
                                    now=start + rng.choice([0, 5, 6, 11]))
                    args = [vals[p_] for p_ in fn["params"]]
                    largs = " ".join(lean(copy.deepcopy(a)) for a in args)
                    exp = outcome(ns["f"], *[copy.deepcopy(a) for a in args])
                    out.append(("showM (%s %s)" % (lean_name, largs), exp, "%s(%s)" % (lean_name, ", ".join("%s=%s" % (p_, show(vals[p_])[:24]) for p_ in fn["params"]))))
    return out


def cases_packet(rng, n):
    """the effect-parameterised forms of _read_packet_from_device and _send (both twins): valid / unknown-command / wrong-checksum / short / empty-payload headers,
    messages with and without payload and with out-of-range arguments."""
    import ast
    import importlib
    import struct as _struct
    from adb_shell import constants
    from adb_shell.adb_message import AdbMessage
    out = []
    units = dict(pytrans.build_units(common.REPO))

    def header(cmd, a0, a1, data, bad_sum=False, ln=None):
        c = _struct.unpack("<I", cmd)[0]
        return _struct.pack("<6I", c, a0, a1, len(data) if ln is None else ln, (sum(data) + (1 if bad_sum else 0)) & 0xFFFFFFFF, c ^ 0xFFFFFFFF)
    for fname, cls, modname in (("adb_device.py", "AdbDevice", "adb_shell.adb_device"), ("adb_device_async.py", "AdbDeviceAsync", "adb_shell.adb_device_async")):
        u = units[fname]
        mod = importlib.import_module(modname)
        for base in ("read_packet_from_device", "send"):
            for lean_name, fn in sorted(u.fns.items()):
                if not lean_name.startswith("%s_%s_" % (cls, base)) or any(isinstance(st, ast.Global) for st in fn["body"]):
                    continue
                code = compile(ast.fix_missing_locations(ast.Module(body=[ast.FunctionDef(
                    name="f", args=ast.arguments(posonlyargs=[], args=[ast.arg(arg=p_) for p_ in fn["params"]], kwonlyargs=[], kw_defaults=[], defaults=[]),
                    body=copy.deepcopy(fn["body"]), decorator_list=[])], type_ignores=[])), "<%s>" % lean_name, "exec")
                ns = dict(vars(mod))
                exec(code, ns)
                for _ in range(max(8, n // 5)):
                    info = _Info()
                    info.__class__ = type("_AdbTransactionInfo", (), {})
                    info.read_timeout_s, info.transport_timeout_s = 10, 5
                    vals = {"adb_info": info}
                    if base == "read_packet_from_device":
                        data = rng.randbytes(rng.choice([0, 1, 5, 40]))
                        kind = rng.choice(["ok", "ok", "badsum", "unknown", "short", "long", "emptybad"])
                        cmd = rng.choice(constants.IDS)
                        if kind == "unknown":
                            cmd = rng.choice([b"FAIL", b"\xef\xbe\xad\xde", b"\x00\x00\x00\x00", b"STLS"])
                        hdr = header(cmd, rng.choice([0, 1, 2 ** 32 - 1]), rng.choice([0, 7]), data, bad_sum=(kind in ("badsum", "emptybad")))
                        if kind == "short":
                            hdr = hdr[:rng.choice([0, 23])]
                        if kind == "long":
                            hdr = hdr + b"x"
                        vals["eff0"], vals["eff1"] = hdr, data
                    else:
                        m = AdbMessage(rng.choice(constants.IDS), rng.choice([0, 5, 2 ** 32 - 1, 2 ** 32]), rng.choice([0, 9, -1 if rng.random() < 0.1 else 3]), rng.choice([b"", b"abc", b"\xff" * 30]))
                        vals["msg"], vals["eff0"], vals["eff1"] = m, None, None
                    args = [vals[p_] for p_ in fn["params"]]
                    largs = " ".join(lean(a) for a in args)
                    exp = outcome(ns["f"], *[copy.deepcopy(a) for a in args])
                    out.append(("showM (%s %s)" % (lean_name, largs), exp, "%s(%s)" % (lean_name, ", ".join("%s=%s" % (p_, show(vals[p_])[:30]) for p_ in fn["params"]))))
    return out


def cases_stream(rng, n):
    """the effect-parameterised forms of _okay / _clse / _read_until / _open and of the loop of _read_until_close (both twins), and _get_transport_timeout_s"""
    import ast
    import importlib
    from adb_shell import constants
    from adb_shell.hidden_helpers import _AdbTransactionInfo
    out = []
    units = dict(pytrans.build_units(common.REPO))
    for fname, cls, modname in (("adb_device.py", "AdbDevice", "adb_shell.adb_device"), ("adb_device_async.py", "AdbDeviceAsync", "adb_shell.adb_device_async")):
        u = units[fname]
        mod = importlib.import_module(modname)
        for lean_name, fn in sorted(u.fns.items()):
            base = lean_name[len(cls) + 1:]
            if not lean_name.startswith(cls + "_") or not any(base.startswith(b) for b in ("okay_", "clse_", "read_until_", "open_fn", "open_eff", "get_transport_timeout_s", "filesync_")):
                continue
            if any(isinstance(st, ast.Global) for st in fn["body"]):
                continue
            body = copy.deepcopy(fn["body"])
            # the translated unit calls self._get_transport_timeout_s through the class; the bare object used here gets the real method
            code = compile(ast.fix_missing_locations(ast.Module(body=[ast.FunctionDef(
                name="f", args=ast.arguments(posonlyargs=[], args=[ast.arg(arg=p_) for p_ in fn["params"]], kwonlyargs=[], kw_defaults=[], defaults=[]),
                body=body, decorator_list=[])], type_ignores=[])), "<%s>" % lean_name, "exec")
            ns = dict(vars(mod))
            exec(code, ns)
            klass = getattr(mod, cls)
            for _ in range(max(6, n // 8)):
                dev = type(cls, (), {"_get_transport_timeout_s": klass._get_transport_timeout_s})()
                dev._local_id = rng.choice([0, 5, 2 ** 32 - 2, 2 ** 32 - 1])
                dev._default_transport_timeout_s = rng.choice([None, 10])
                lid, rid = rng.choice([1, 7, 2 ** 32 - 1]), rng.choice([1, 9, 0])
                info = _AdbTransactionInfo(lid, rid, 1, 2, rng.choice([None, 3]))
                cmdb = rng.choice([constants.WRTE, constants.CLSE, constants.OKAY])
                payload = rng.choice([b"", b"abc", b"\xff\x00"])
                vals = {"self": dev, "adb_info": info, "destination": rng.choice([b"shell:ls", b"sync:", b""]), "transport_timeout_s": rng.choice([None, 4]),
                        "read_timeout_s": rng.choice([None, 5, 10]), "timeout_s": rng.choice([None, 7]), "expected_cmds": [constants.CLSE, constants.WRTE],
                        "cmd": None, "data": None, "msg": None, "start": 100, "now": 100 + rng.choice([0, 2, 4, 9]), "eff0": None, "eff1": None, "eff2": None}
                if base.startswith("filesync_"):
                    from adb_shell.hidden_helpers import _FileSyncTransactionInfo
                    fi = _FileSyncTransactionInfo(constants.FILESYNC_PULL_FORMAT, 64)
                    fi.send_buffer = bytearray(rng.randbytes(64))
                    fi.send_idx = rng.choice([0, 8, 30, 63])
                    fi.recv_buffer = bytearray(rng.randbytes(rng.choice([0, 3, 8, 20])))
                    vals.update(filesync_info=fi, size=rng.choice([0, 8, 12, 100]), _=None)
                    vals["eff0"] = (rng.choice([constants.OKAY, constants.WRTE]), payload)
                    if base.startswith("filesync_read_fn") or base.startswith("filesync_read_eff"):
                        import struct as _struct
                        fmt = rng.choice([constants.FILESYNC_LIST_FORMAT, constants.FILESYNC_PULL_FORMAT, constants.FILESYNC_STAT_FORMAT])
                        fi2 = _FileSyncTransactionInfo(fmt, 64)
                        fi2.send_buffer = bytearray()
                        fi2.send_idx = rng.choice([0, 0, 9])
                        nwords = _struct.calcsize(fmt) // 4
                        rid = rng.choice([constants.DATA, constants.DONE, constants.FAIL, constants.STAT, constants.DENT, constants.OKAY, b"XXXX"])
                        words = [_struct.unpack("<I", rid)[0]] + [rng.choice([0, 3, 2 ** 32 - 1]) for _ in range(nwords - 1)]
                        hdrb = bytearray(_struct.pack("<%dI" % nwords, *words))
                        if rng.random() < 0.1:
                            hdrb = hdrb[:-1]
                        vals.update(filesync_info=fi2, expected_ids=rng.choice([[constants.DATA, constants.DONE], [constants.STAT], [constants.DENT, constants.DONE], [constants.OKAY]]),
                                    eff0=None, eff1=hdrb, eff2=bytearray(rng.choice([b"", b"nope", b"\xff\xfe"])))
                    if base.startswith("filesync_read_until"):
                        rid = rng.choice([constants.DATA, constants.DONE, constants.DENT, constants.STAT])
                        vals.update(expected_ids=rng.choice([[constants.DATA], [constants.DENT], []]), finish_ids=rng.choice([[constants.DONE], [constants.DONE, constants.STAT], []]),
                                    cmd_id=None, header=None, data=None, eff0=(rid, (1, 2), rng.choice([None, bytearray(b"xy")])), eff1=None)
                    if base.startswith("filesync_send"):
                        fi3 = _FileSyncTransactionInfo(rng.choice([constants.FILESYNC_PUSH_FORMAT, constants.FILESYNC_LIST_FORMAT]), rng.choice([64, 40]))
                        fi3.send_buffer = bytearray(rng.randbytes(fi3._maxdata))
                        fi3.send_idx = rng.choice([0, 8, 20, 30, 39])
                        fl = copy.deepcopy(fi3)
                        fl.send_idx = 0
                        vals.update(filesync_info=fi3, command_id=rng.choice([constants.DATA, constants.SEND, constants.DONE, constants.STAT, b"XXXX"]),
                                    data=rng.choice([b"", b"abc", rng.randbytes(20), rng.randbytes(33), "sdcard/x", "p\u00e9", ""]),
                                    size=rng.choice([None, None, 0, 1700000000, 2 ** 32, -1]), eff0=fl)
                elif base.startswith("read_until_close"):
                    vals["eff0"] = (cmdb, payload)
                elif base.startswith("read_until"):
                    vals["eff0"] = (cmdb, rid, lid, payload)
                elif base.startswith("open"):
                    vals["eff1"] = (constants.OKAY, 77, lid, b"")
                args = [vals[p_] for p_ in fn["params"]]
                largs = " ".join(lean(a) for a in args)
                exp = outcome(ns["f"], *[copy.deepcopy(a) for a in args])
                out.append(("showM (%s %s)" % (lean_name, largs), exp, "%s(%s)" % (lean_name, ", ".join("%s=%s" % (p_, show(vals[p_])[:28]) for p_ in fn["params"]))))
    return out


def cases_route(rng, n):
    """what `_AdbIOManager.read` does with a packet just read from the device (both twins): parked in the store when it belongs to another stream, the stream's queue cleared on a
    matching CLSE, returned when expected -- on random stores, transactions (incl. remote id None / zeros allowed) and packets"""
    import ast
    import importlib
    from adb_shell.hidden_helpers import _AdbPacketStore, _AdbTransactionInfo
    out = []
    units = dict(pytrans.build_units(common.REPO))
    ids = [0, 1, 2, 7]
    cmds = [b"WRTE", b"OKAY", b"CLSE", b"OPEN"]
    for fname, cls, modname in (("adb_device.py", "AdbDevice", "adb_shell.adb_device"), ("adb_device_async.py", "AdbDeviceAsync", "adb_shell.adb_device_async")):
        u = units[fname]
        mod = importlib.import_module(modname)
        for lean_name in ("%s_io_read_route" % cls, "%s_io_read_drain0" % cls, "%s_io_read_drain1" % cls):
            fn = u.fns.get(lean_name)
            if fn is None or any(isinstance(st, ast.Global) for st in fn["body"]):
                continue
            code = compile(ast.fix_missing_locations(ast.Module(body=[ast.FunctionDef(
                name="f", args=ast.arguments(posonlyargs=[], args=[ast.arg(arg=p_) for p_ in fn["params"]], kwonlyargs=[], kw_defaults=[], defaults=[]),
                body=copy.deepcopy(fn["body"]), decorator_list=[])], type_ignores=[])), "<%s>" % lean_name, "exec")
            ns = dict(vars(mod))
            exec(code, ns)
            for _ in range(max(20, n // 2)):
                st = _AdbPacketStore()
                for _ in range(rng.choice([0, 1, 3, 6])):
                    st.put(rng.choice(ids), rng.choice(ids), rng.choice(cmds), rng.choice([b"", b"x"]))
                mgr = type("_AdbIOManager", (), {})()
                mgr._packet_store = st
                info = _AdbTransactionInfo(rng.choice(ids), rng.choice(ids + [None]), 1, 2, 3)
                if rng.random() < 0.6:
                    for _ in range(rng.choice([1, 2])):
                        st.put(info.remote_id if info.remote_id is not None else rng.choice(ids), info.local_id, rng.choice(cmds), rng.choice([b"", b"y"]))
                vals = {"self": mgr, "expected_cmds": rng.choice([[b"WRTE", b"CLSE"], [b"OKAY"], [b"OKAY", b"WRTE"], [b"CLSE"]]), "adb_info": info,
                        "allow_zeros": rng.choice([False, False, True]), "cmd": rng.choice(cmds), "arg0": rng.choice(ids), "arg1": rng.choice(ids), "data": rng.choice([b"", b"abc"])}
                if rng.random() < 0.5:      # make a match likely
                    vals["arg0"], vals["arg1"] = (info.remote_id if info.remote_id is not None else 5), info.local_id
                args = [vals[p_] for p_ in fn["params"]]
                largs = " ".join(lean(a) for a in args)
                exp = outcome(ns["f"], *[copy.deepcopy(a) for a in args])
                out.append(("showM (%s %s)" % (lean_name, largs), exp, "%s(%s)" % (lean_name, ", ".join("%s=%s" % (p_, show(vals[p_])[:40]) for p_ in fn["params"]))))
    return out


GROUPS = {"route": cases_route, "stream": cases_stream, "packet": cases_packet, "loops": cases_loops, "keys": cases_keys, "store": cases_store, "txn": cases_txn, "fsinfo": cases_fsinfo, "message": cases_message, "device": cases_device}


def run_cases(cases):
    """Evaluate the Lean side of all cases in one `lean --run`; returns list of result lines."""
    os.makedirs(common.WORK, exist_ok=True)
    path = os.path.join(common.WORK, "SrcCheck_%d.lean" % os.getpid())
    L = ["import AdbModel.Generated.Src", "import AdbModel.PyShow", "open Adb Adb.Py Adb.Src", "set_option maxRecDepth 100000"]
    chunk = 100
    names = []
    for i in range(0, len(cases), chunk):
        nm = "cases%d" % (i // chunk)
        names.append(nm)
        L.append("def %s : List (Unit → String) := [" % nm)
        L.append(",\n".join("  (fun _ => %s)" % c[0] for c in cases[i:i + chunk]))
        L.append("]")
    L.append("def main : IO Unit := do")
    for nm in names:
        L.append("  for f in %s do IO.println (f ())" % nm)
    with open(path, "w") as f:
        f.write("\n".join(L) + "\n")
    try:
        p = subprocess.run(["lake", "env", "lean", "--run", path], cwd=common.LEAN_DIR, stdout=subprocess.PIPE, stderr=subprocess.PIPE, text=True, timeout=1200)
    finally:
        os.unlink(path)
    if p.returncode != 0:
        return None, (p.stdout + p.stderr)[-3000:]
    return p.stdout.split("\n")[:len(cases)], ""


def check(ctx, groups, scale=1.0):
    """Runs the translator validation for the given groups; disagreements go to the report as correspondence disagreements."""
    rep = ctx.report
    rng = random.Random("srccheck/%s/%s" % (ctx.seed, ",".join(groups)))
    quick = ctx.tier == "quick"
    n = int((60 if quick else 400) * scale * max(1.0, ctx.budget))
    cases = []
    for g in groups:
        try:
            cs = GROUPS[g](rng, n * (4 if g == "store" else 1))
        except Exception as exc:  # noqa  (e.g. a function the cases call no longer exists)
            rep.disagreements.append(dict(unit="srccheck", group=g, why="could not build cases: %r" % (exc,)))
            continue
        for c in cs:
            rep.count("srccheck_group", g)
        cases += [(c[0], c[1], g + ": " + c[2]) for c in cs]
    # make sure Src.lean (and PyShow) are built; a failure here means a generated definition does not typecheck
    rc, out = common.sh(["lake", "build", "AdbModel.Generated.Src", "AdbModel.PyShow"], cwd=common.LEAN_DIR, timeout=1800)
    if rc != 0:
        rep.disagreements.append(dict(unit="srccheck", why="generated Src.lean does not build", log=out[-1500:]))
        return
    got, err = run_cases(cases)
    if got is None:
        rep.disagreements.append(dict(unit="srccheck", why="generated definitions could not be executed (a translated function is missing or ill-typed)", log=err[-1500:]))
        return
    bad = 0
    for (expr, exp, desc), g in zip(cases, got):
        rep.evaluations += 1
        rep.count("srccheck_outcome", exp.split(" ")[0] + (" " + exp.split(" ")[1] if exp.startswith("err") else ""))
        if g != exp:
            bad += 1
            if bad <= 5:
                rep.disagreements.append(dict(unit="srccheck", case=desc, impl=exp[:300], model=g[:300],
                                              why="generated Lean definition and the real Python function differ"))
    rep.notes.append("translator validation: %d executions of generated definitions (%s) compared with the real Python functions, %d differences" % (
        len(cases), ",".join(groups), bad))
    rep.sample("srccheck %s -> %s" % (cases[0][2], cases[0][1][:120]) if cases else "srccheck: no cases", cap=12)
