"""C20 -- the USB transport honours the transport contract on a conforming libusb backend.

The real `adb_shell.transport.usb_transport.UsbTransport` (and `adb_shell.adb_device.AdbDeviceUsb`) run in a fresh subprocess
(harness/usb_worker.py) on a fake `usb1` module (harness/fake_usb1.py) that is installed before adb_shell is imported.

(a) transport level: a case = setting (endpoint addresses, interface number), platform flag, constructor default, a backend
    script (the i-th libusb call gets the i-th scripted result) and a list of operations connect / read n t / write data t /
    close.  The outcome of every operation, the exact backend calls it made (handle, endpoint address, size, millisecond
    timeout) and the transport's attributes afterwards are compared with the Lean model `Adb.Usb` (driver word `usb`).
    Independently of the model an oracle evaluates the property's own wording on the observations (`oracle_case`).
(b) session level: the same scenario (connect + shell + push + pull + ...) is run through `AdbDeviceUsb` on a fake device wired
    to the device simulator (subprocess) and through `AdbDevice(MemTransport)` (session.Runner, this process); results and
    pulled bytes must be the same, and the backend must only have seen IN reads / OUT writes with millisecond timeouts.
"""
import json
import os
import subprocess
import sys

import common
from common import InfraError

HARNESS = os.path.dirname(os.path.dirname(os.path.abspath(__file__)))

ERR_KINDS = ["io", "invalidParam", "access", "noDevice", "notFound", "busy", "timeout", "overflow", "pipe", "interrupted",
             "noMem", "notSupported", "other"]
TIMEOUTS = [None, 0, 0.001, 0.5, 2.25, 10]
DEFAULTS = [None, 0.5, 9]
SIZES = [1, 24, 512, 1 << 20]
DEFAULT_TIMEOUT_S = 10          # documented default (usb_transport.DEFAULT_TIMEOUT_S; the worker's probe confirms it)
CRASHES = ("AttributeError", "TypeError", "NameError", "KeyError", "IndexError", "ValueError", "UnboundLocalError", "ZeroDivisionError")


# ---- worker ---------------------------------------------------------------------------------------------------
def call_worker(req, timeout=900):
    env = dict(os.environ, VERIF_REPO=common.REPO, PYTHONDONTWRITEBYTECODE="1")
    env["PYTHONPATH"] = common.REPO + os.pathsep + HARNESS
    p = subprocess.run([sys.executable, os.path.join(HARNESS, "usb_worker.py")], input=json.dumps(req), stdout=subprocess.PIPE,
                       stderr=subprocess.PIPE, text=True, timeout=timeout, env=env)
    if p.returncode != 0:
        raise InfraError("usb worker failed (rc=%d): %s" % (p.returncode, p.stderr[-3000:]))
    return json.loads(p.stdout)["results"]


# ---- units of time --------------------------------------------------------------------------------------------
def ms_of(t):
    """seconds -> milliseconds for the values the model's representation covers (product exact in floating point)"""
    v = float(t) * 1000
    assert v.is_integer(), "timeout %r is outside the exact grid" % (t,)
    return int(v)


def tfmt(t):
    return "N" if t is None else str(ms_of(t))


# ---- rendering (same format as Driver/Usb.lean) ---------------------------------------------------------------
def hx(h):
    return h if h else "-"


def ephex(ep):
    return "N" if ep is None else ("0x%02x" % ep if isinstance(ep, int) else repr(ep))


def nfmt(x):
    return "N" if x is None else str(x)


def show_call(c):
    name = c[0]
    if name == "open":
        return "open"
    if name == "serial":
        return "serial"
    if name in ("kda", "detach", "claim", "release"):
        return "h%s.%s:%s" % (c[1], name, nfmt(c[2]))
    if name == "bulkRead":
        return "h%s.bulkRead:%s:%s:%s" % (c[1], ephex(c[2]), c[3], c[4])
    if name == "bulkWrite":
        return "h%s.bulkWrite:%s:%s:%s" % (c[1], ephex(c[2]), hx(c[3]), c[4])
    if name == "hclose":
        return "h%s.close" % c[1]
    return "?" + repr(c)


def show_state(st):
    d = st["dts"]
    try:
        dv = float(d) * 1000
        ds = str(int(dv)) if dv.is_integer() else repr(dv)
    except Exception:  # noqa
        ds = repr(d)
    return "st=h:%s,i:%s,r:%s,w:%s,d:%s" % (nfmt(st["handle"]), nfmt(st["iface"]), ephex(st["rep"]), ephex(st["wep"]), ds)


def render_impl(o):
    return "%s calls=[%s] %s" % (o["res"], ",".join(show_call(c) for c in o["calls"]), show_state(o["state"]))


def script_entry(e):
    if e[0] == "err":
        return "e:" + e[1]
    h = e[1]
    if len(h) > 128 and h == h[:2] * (len(h) // 2):
        return "z:%d:%s:%d" % (len(h) // 2, h[:2], e[2])
    return "o:%s:%d" % (hx(h), e[2])


def model_lines(case):
    lines = ["usb new eps=%s iface=%d win=%d dms=%s script=%s" % (
        ",".join(str(a) for a in case["eps"]) or "-", case["iface"], 1 if case.get("win") else 0, tfmt(case.get("dms")),
        ",".join(script_entry(e) for e in case["script"]) or "-")]
    for op in case["ops"]:
        if op[0] == "connect":
            lines.append("usb connect")
        elif op[0] == "read":
            lines.append("usb read %d %s" % (op[1], tfmt(op[2] if len(op) > 2 else None)))
        elif op[0] == "write":
            lines.append("usb write %s %s" % (hx(op[1]), tfmt(op[2] if len(op) > 2 else None)))
        elif op[0] == "close":
            lines.append("usb close")
        else:
            raise ValueError(op)
    return lines


# ---- the oracle: the property's wording on what was observed (no model involved) ---------------------------------
def oracle_case(case, obs):
    """Returns None or dict(why=..., kind=...)."""
    eps = case["eps"]
    has_in = any(a & 0x80 for a in eps)
    has_out = any(not (a & 0x80) for a in eps)
    default_ms = (case["dms"] if case.get("dms") is not None else DEFAULT_TIMEOUT_S) * 1000
    open_now = False      # does the transport hold a handle (as far as an outside observer can tell)?
    for i, (op, o) in enumerate(zip(case["ops"], obs)):
        res, calls, rets = o["res"], o["calls"], o["rets"]
        where = "op %d %r: " % (i, op[:1] + [x if not isinstance(x, str) or len(x) < 40 else x[:40] + ".." for x in op[1:]])
        if not o.get("picked", True):
            return dict(why=where + "device discovery handed back a transport for another device/setting", kind="discovery")
        if res.startswith("err "):
            name = res[4:]
            if name == "TypeError" and op[0] == "connect" and any(r[0] == "err" and r[2] == "notFound" for r in rets):
                return dict(why=where + "kernelDriverActive/detachKernelDriver raised USBErrorNotFound and connect() raised TypeError "
                            "(warnings.warn called with the interface number as category) instead of warning and claiming the interface",
                            kind="kda-notfound-typeerror")
            if name in CRASHES:
                return dict(why=where + "raised %s (calls %s)" % (name, [show_call(c) for c in calls]), kind="crash")
        # every transfer the backend saw: direction bit, endpoint of this setting, millisecond timeout
        for c, r in zip(calls, rets):
            if c[0] in ("bulkRead", "bulkWrite"):
                ep, to = c[2], c[4]
                if not isinstance(ep, int) or ep not in eps:
                    return dict(why=where + "%s on endpoint %r which is not an endpoint of the ADB setting %r" % (c[0], ep, eps), kind="endpoint")
                if c[0] == "bulkRead" and not ep & 0x80:
                    return dict(why=where + "bulkRead on OUT endpoint 0x%02x" % ep, kind="endpoint")
                if c[0] == "bulkWrite" and ep & 0x80:
                    return dict(why=where + "bulkWrite on IN endpoint 0x%02x" % ep, kind="endpoint")
                t = op[2] if len(op) > 2 else None
                want = t * 1000 if t is not None else default_ms
                if isinstance(to, bool) or not isinstance(to, int) or to != want:
                    return dict(why=where + "%s got timeout=%r, expected %r ms (transport_timeout_s=%r, default %r s)" % (
                        c[0], to, int(want), t, case.get("dms")), kind="timeout")
                if op[0] != ("read" if c[0] == "bulkRead" else "write"):
                    return dict(why=where + "made a %s call" % c[0], kind="stray-transfer")
            if c[0] in ("kda", "detach", "claim", "release") and c[2] != case["iface"]:
                return dict(why=where + "%s(%r) but the ADB interface number is %d" % (c[0], c[2], case["iface"]), kind="interface")
        if op[0] == "read":
            n = op[1]
            if not open_now:
                if res != "err UsbReadFailedError" or calls:
                    return dict(why=where + "bulk_read on a transport without a handle gave %s with calls %s (expected UsbReadFailedError, no backend call)" % (
                        res, [show_call(c) for c in calls]), kind="use-after-close")
            else:
                xfer = [(c, r) for c, r in zip(calls, rets) if c[0] == "bulkRead"]
                if len(xfer) != 1 or calls[0][0] != "bulkRead" or xfer[0][0][3] != n:
                    return dict(why=where + "expected exactly one bulkRead of %d bytes first, saw %s" % (n, [show_call(c) for c in calls]), kind="read-calls")
                c, r = xfer[0]
                if r[0] == "err":
                    if res != "err UsbReadFailedError" or o["detail"].get("usb_error") != "USBError:" + r[2]:
                        return dict(why=where + "backend raised USBError(%s) but bulk_read gave %s (usb_error=%r)" % (r[2], res, o["detail"].get("usb_error")), kind="error-mapping")
                else:
                    data = r[2]
                    got_len = 0 if res == "ok -" else (len(res) - 3) // 2
                    if res.startswith("ok ") and len(data) // 2 <= n < got_len:
                        return dict(why=where + "bulk_read returned %d bytes, more than the %d requested (the backend answered with %d)" % (got_len, n, len(data) // 2), kind="read-too-long")
                    if res != "ok " + hx(data) or o["detail"].get("type") != "bytes":
                        return dict(why=where + "backend returned %d bytes, bulk_read gave %s.. of type %s" % (len(data) // 2, res[:60], o["detail"].get("type")), kind="read-data")
        elif op[0] == "write":
            if not open_now:
                if res != "err UsbWriteFailedError" or calls:
                    return dict(why=where + "bulk_write on a transport without a handle gave %s with calls %s (expected UsbWriteFailedError, no backend call)" % (
                        res, [show_call(c) for c in calls]), kind="use-after-close")
            else:
                # The property's wording, not one particular call pattern: whatever transfers bulk_write makes, they carry consecutive pieces of the data,
                # each starting where the bytes ACCEPTED so far end (no gap, no repetition), on the OUT endpoint; a libusb error surfaces as
                # UsbWriteFailedError; the reported count is the number of bytes libusb accepted.
                xfer = [(c, r) for c, r in zip(calls, rets) if c[0] == "bulkWrite"]
                if not xfer and not op[1] and res == "ok 0":
                    pass        # nothing to write, nothing written
                elif not xfer or calls[0][0] != "bulkWrite":
                    return dict(why=where + "expected a bulkWrite of the data first, saw %s" % ([show_call(c)[:60] for c in calls],), kind="write-calls")
                data_hex, off, failed, reported = op[1], 0, None, 0
                for c, r in xfer:
                    piece = c[3] if isinstance(c[3], str) else hx(c[3])
                    piece = "" if piece == "-" else piece
                    if failed is not None:
                        return dict(why=where + "bulk_write went on with another transfer after libusb raised USBError(%s)" % failed, kind="write-calls")
                    if piece != data_hex[2 * off: 2 * off + len(piece)] or (not piece and data_hex):
                        return dict(why=where + "bulk_write handed libusb %d bytes that are not the data from offset %d on (libusb had accepted %d of %d bytes so far): a gap or a repetition "
                                    "in what the peer receives" % (len(piece) // 2, off, off, len(data_hex) // 2), kind="write-gap")
                    if r[0] == "err":
                        failed = r[2]
                    else:
                        off += min(int(r[2]), len(piece) // 2)     # (a scripted count larger than the transfer means: all of it)
                        reported += int(r[2])
                if failed is not None:
                    # UsbWriteFailedError carries the libusb error as its second argument only (no `usb_error` attribute)
                    if res != "err UsbWriteFailedError" or o["detail"].get("args1") != "USBError:" + failed:
                        return dict(why=where + "backend raised USBError(%s) but bulk_write gave %s" % (failed, res), kind="error-mapping")
                elif res != "ok %s" % (reported,):
                    return dict(why=where + "backend accepted %r bytes but bulk_write returned %s" % (reported, res), kind="write-count")
        elif op[0] == "close":
            if res != "ok":
                return dict(why=where + "close() raised %s" % res, kind="close-raises")
            if not open_now and calls:
                return dict(why=where + "close() without a handle made backend calls %s" % ([show_call(c) for c in calls],), kind="close-idempotent")
            if open_now and (not calls or calls[0][0] != "release"):
                return dict(why=where + "close() did not start with releaseInterface: %s" % ([show_call(c) for c in calls],), kind="close-calls")
            if o["state"]["handle"] is not None:
                return dict(why=where + "close() kept the handle", kind="close-keeps-handle")
            open_now = False
        elif op[0] == "connect":
            names = [c[0] for c in calls]
            if not (has_in and has_out):
                if res != "err AssertionError" or calls:
                    return dict(why=where + "setting %r lacks an IN or OUT endpoint but connect gave %s, calls %s" % (eps, res, names), kind="connect-endpoints")
            elif res == "ok":
                ok_shapes = [["open", "claim"]] if case.get("win") else [["open", "kda", "claim"], ["open", "kda", "detach", "claim"]]
                if names not in ok_shapes:
                    return dict(why=where + "successful connect made the calls %s (platform windows=%r)" % (names, bool(case.get("win"))), kind="connect-calls")
                hids = set(c[1] for c in calls[1:])
                if len(hids) != 1 or o["state"]["handle"] not in hids or o["state"]["iface"] != case["iface"]:
                    return dict(why=where + "connect claimed on handle(s) %r but holds %r / interface %r" % (sorted(hids), o["state"]["handle"], o["state"]["iface"]), kind="connect-handle")
                rep, wep = o["state"]["rep"], o["state"]["wep"]
                if not (isinstance(rep, int) and rep & 0x80 and rep in eps and isinstance(wep, int) and not wep & 0x80 and wep in eps):
                    return dict(why=where + "connect chose read endpoint %r / write endpoint %r from %r" % (rep, wep, eps), kind="endpoint")
                open_now = True
            else:
                errs = [r for r in rets if r[0] == "err"]
                if not errs or res != "err USBError:" + errs[-1][2]:
                    return dict(why=where + "connect gave %s although the backend results were %s" % (res, rets), kind="connect-error")
                open_now = o["state"]["handle"] is not None      # a failing claimInterface leaves the handle in place
    return None


# ---- case generators --------------------------------------------------------------------------------------------
class Script(object):
    """Generator-side convenience: lays out script entries for the calls a well-behaved run makes."""

    def __init__(self, win=False):
        self.win, self.s = win, []

    def ok(self, hexdata="", n=0):
        self.s.append(["ok", hexdata, n])

    def connect(self, kda=0):
        self.ok()
        if not self.win:
            self.ok(n=kda)
            if kda:
                self.ok()
        self.ok()

    def read(self, hexdata):
        self.ok(hexdata)

    def write(self, n):
        self.ok(n=n)

    def close(self):
        self.ok()
        self.ok()


def payload(rng, k):
    if k > 64:
        return ("%02x" % rng.randrange(256)) * k
    return "".join("%02x" % rng.randrange(256) for _ in range(k))


def base_case(**kw):
    c = dict(eps=[0x81, 0x01], iface=1, win=False, dms=None, via="direct", script=[], ops=[])
    c.update(kw)
    return c


def gen_grid(rng):
    """timeouts x constructor defaults x read sizes; backend answers short / exact"""
    out = []
    full_big = 0
    for dms in DEFAULTS:
        for t in TIMEOUTS:
            for n in SIZES:
                win = rng.random() < 0.25
                kda = rng.choice([0, 1])
                s = Script(win)
                s.connect(kda)
                if n == 1 << 20:
                    k = n if full_big < 2 and t in (None, 2.25) and dms is None else rng.choice([0, 24, 511, 4096])
                    full_big += (k == n)
                else:
                    k = rng.choice([0, 1, n // 2, n, n])
                k = min(k, n)
                s.read(payload(rng, k))
                data = payload(rng, rng.choice([0, 1, 24, 40]))
                s.write(rng.choice([len(data) // 2, len(data) // 2, max(0, len(data) // 2 - 1)]))
                s.close()
                ops = [["connect"], ["read", n, t] if t is not None or rng.random() < 0.5 else ["read", n], ["write", data, t], ["close"]]
                out.append(base_case(eps=rng.choice([[0x81, 0x01], [0x01, 0x81], [0x83, 0x02]]), iface=rng.choice([0, 1, 3]), win=win, dms=dms,
                                     via=rng.choice(["direct", "direct", "find_adb", "find_serial", "find_port"]), script=s.s, ops=ops, family="grid"))
    return out


def gen_inject(rng, kinds):
    """a USBError injected at every call index of a short script (and one past its end)"""
    out = []
    for win, kda in ((False, 1), (False, 0), (True, 0)):
        s = Script(win)
        s.connect(kda)
        s.read(payload(rng, 4))
        s.write(3)
        s.read(payload(rng, 2))
        s.close()
        ops = [["connect"], ["read", 24, 0.5], ["write", "aabbcc", None], ["read", 4, None], ["close"], ["read", 1, 0], ["write", "00", 0]]
        for i in range(len(s.s) + 1):
            for kind in dict.fromkeys(kinds(i)):
                sc = [list(e) for e in s.s]
                if i < len(sc):
                    sc[i] = ["err", kind]
                else:
                    sc.append(["err", kind])
                out.append(base_case(iface=2, win=win, script=sc, ops=ops, family="inject"))
                if rng.random() < 0.3 and i + 1 < len(sc):        # the call after it fails too (e.g. getSerialNumber for the message)
                    sc2 = [list(e) for e in sc]
                    sc2[i + 1] = ["err", rng.choice(ERR_KINDS)]
                    out.append(base_case(iface=2, win=win, script=sc2, ops=ops, family="inject2"))
    return out


def gen_lifecycle(rng):
    """use before connect / after close, double close, reconnect, connect twice, settings without IN or OUT"""
    out = []
    seqs = [
        [["read", 1, None]], [["write", "00", None]], [["close"]], [["close"], ["close"], ["read", 24]],
        [["connect"], ["close"], ["close"], ["read", 24, 0.5], ["write", "0102", 0.5]],
        [["connect"], ["close"], ["connect"], ["read", 4, None], ["write", "aa", None], ["close"]],
        [["connect"], ["connect"], ["read", 4, 0], ["close"], ["read", 4, 0], ["close"]],
        [["connect"], ["read", 2, 10], ["read", 2, 10], ["read", 2, 10], ["write", "", 10], ["close"]],
    ]
    # connect(transport_timeout_s=X) does NOT change the default used by later reads/writes that give no timeout
    for x in (0.001, 1, 2.25):
        seqs.append([["connect", x], ["read", 4], ["write", "aa"], ["read", 2, None], ["write", "bb", None], ["close"], ["connect"], ["read", 4], ["write", "cc"], ["close"]])
    for ops in seqs:
        for win in (False, True):
            out.append(base_case(win=win, dms=rng.choice(DEFAULTS), script=[["ok", payload(rng, rng.choice([0, 1, 2])), rng.choice([0, 1, 2])] for _ in range(14)],
                                 ops=ops, family="lifecycle"))
    # writes larger than any internal chunking limit one might think of (16 KiB usbfs URBs, 64 KiB): ONE bulkWrite with the whole buffer, its count returned
    for win in (False, True):
        for size in (16385, 40000, 70000):
            for second in (1, 100, 16383, 16384, 20000):
                # entries are consumed per bulkWrite CALL: with one call per write (the code as it is) the three writes get `size`, `second`, `size - 1`;
                # an implementation that splits a buffer into several transfers meets the short count `second` in the middle of its first buffer
                s = Script(win)
                s.connect(0)
                s.write(size)
                s.write(second)
                s.write(size - 1)
                for _ in range(12):
                    s.write(size)
                s.close()
                k0 = rng.randrange(256)
                big = bytes((k0 + i) % 251 for i in range(size)).hex()      # position-dependent content: a gap or a repetition is visible
                out.append(base_case(win=win, script=s.s, ops=[["connect"], ["write", big, 0.5], ["write", big, None], ["write", big, 2.25], ["close"]], family="big-write"))
    # a read that times out after PART of the data arrived (libusb reports it in USBErrorTimeout.received), then close / connect / read:
    # the new connection's reads are what the IN endpoint delivers now, nothing of the old session
    for win in (False, True):
        for n_to in (1, 2):
            s = Script(win)
            s.connect(1)
            for _ in range(n_to):
                s.s.append(["err", "timeout", payload(rng, rng.choice([1, 7, 24, 40]))])
            s.close()
            s.connect(0)
            s.read(payload(rng, 24))
            s.read(payload(rng, 3))
            s.close()
            out.append(base_case(win=win, script=s.s, ops=[["connect"]] + [["read", 24, 0.5]] * n_to + [["close"], ["connect"], ["read", 24, 0.5], ["read", 8], ["close"]],
                                 family="partial-timeout"))
            s = Script(win)
            s.connect(1)
            s.s.append(["err", "timeout", payload(rng, 5)])
            s.read(payload(rng, 24))
            s.close()
            out.append(base_case(win=win, script=s.s, ops=[["connect"], ["read", 24, 0.5], ["read", 24, 0.5], ["close"]], family="partial-timeout"))
    for eps in ([], [0x81], [0x01], [0x81, 0x82], [0x01, 0x02], [0x81, 0x01, 0x82, 0x02], [0x02, 0x82, 0x01, 0x81], [0x81, 0x81, 0x01],
                [0x8F, 0x0F], [0x80, 0x00], [0xFF, 0x7F]):
        for win in (False, True):
            s = Script(win)
            s.connect(1)
            s.read("0a0b")
            s.write(2)
            s.close()
            out.append(base_case(eps=eps, iface=rng.choice([0, 5]), win=win, script=s.s,
                                 ops=[["connect"], ["read", 8, 0.5], ["write", "0102", 2.25], ["close"], ["read", 8], ["write", "01"]], family="endpoints"))
    return out


def gen_random(rng, count):
    out = []
    for _ in range(count):
        eps = rng.choice([[0x81, 0x01], [0x01, 0x81], [0x82, 0x81, 0x02, 0x01], [0x81], [0x05], [0x86, 0x07, 0x88]])
        ops = []
        for _ in range(rng.randrange(2, 9)):
            r = rng.random()
            if r < 0.25:
                ops.append(["connect"])
            elif r < 0.55:
                ops.append(["read", rng.choice([1, 2, 4, 24, 512]), rng.choice(TIMEOUTS)])
            elif r < 0.8:
                ops.append(["write", payload(rng, rng.choice([0, 1, 3, 24])), rng.choice(TIMEOUTS)])
            else:
                ops.append(["close"])
        if rng.random() < 0.7 and ops[0][0] != "connect":
            ops.insert(0, ["connect"])
        script = []
        for _ in range(rng.randrange(0, 16)):
            if rng.random() < 0.2:
                script.append(["err", rng.choice(ERR_KINDS)])
            else:
                script.append(["ok", payload(rng, rng.choice([0, 0, 1, 2, 4, 8, 30])), rng.choice([0, 0, 1, 3, 24])])
        out.append(base_case(eps=eps, iface=rng.choice([0, 1, 2, 7]), win=rng.random() < 0.3, dms=rng.choice(DEFAULTS + [0]),
                             via=rng.choice(["direct", "direct", "direct", "find_adb", "find_serial", "find_port"]), script=script, ops=ops, family="random"))
    return out


# ---- running a batch of transport cases ---------------------------------------------------------------------------
def check_cases(ctx, cases, compare=True):
    rep = ctx.report
    results = call_worker(dict(mode="transport", cases=cases))
    replies = []
    if compare:
        all_lines, offs = [], []
        for case in cases:
            lines = model_lines(case)
            offs.append((len(all_lines), len(lines)))
            all_lines += lines
        replies = ctx.driver.ask_many(all_lines)
    for ci, (case, obs) in enumerate(zip(cases, results)):
        rep.evaluations += 1
        rep.traces_validated += 1
        fam = case.get("family", "?")
        rep.count("family", fam)
        rep.count("via", case.get("via", "direct"))
        for op, o in zip(case["ops"], obs):
            rep.count("outcome", "%s/%s" % (op[0], o["res"].split(" ")[0] + (" " + o["res"].split(" ")[1] if o["res"].startswith("err") else "")))
            if op[0] in ("read", "write"):
                rep.count("timeout_s", repr(op[2] if len(op) > 2 else None))
            if op[0] == "read":
                rep.count("read_size", op[1])
                for c, r in zip(o["calls"], o["rets"]):
                    if c[0] == "bulkRead" and r[0] == "ok":
                        k = len(r[2]) // 2
                        rep.count("backend_read_answer", "empty" if k == 0 else "short" if k < c[3] else "exact" if k == c[3] else "too-long(non-conforming)")
        pf = oracle_case(case, obs)
        if pf:
            rep.prop_failures.append(dict(case=case, why=pf["why"], signature=dict(kind=pf["kind"])))
        if compare:
            off, n = offs[ci]
            rs = replies[off:off + n]
            if rs[0] != "ok":
                raise InfraError("model rejected the set-up line of case %d: %r" % (ci, rs[0]))
            for i, (op, o, m) in enumerate(zip(case["ops"], obs, rs[1:])):
                got = render_impl(o)
                if got != m:
                    rep.disagreements.append(dict(unit="usb-transport", case=case, step=i, impl=got[:400], model=m[:400]))
                    break
        made_calls = any(o["calls"] for o in obs)
        if made_calls:
            rep.signatures.add((tuple(case["eps"]), bool(case.get("win")), case.get("dms"),
                                tuple((op[0], op[1] if op[0] == "read" else None, (op[2] if len(op) > 2 else None) if op[0] in ("read", "write") else None,
                                       o["res"][:24], tuple(c[0] for c in o["calls"])) for op, o in zip(case["ops"], obs))))
        if made_calls and fam in ("grid", "inject") and ci % 37 == 0:
            rep.sample("usb[%s] eps=%s win=%s default=%r: " % (fam, [hex(a) for a in case["eps"]], case.get("win"), case.get("dms"))
                       + " ; ".join("%s -> %s" % (" ".join(str(x)[:20] for x in op), render_impl(o)[:140]) for op, o in zip(case["ops"], obs)))


# ---- sessions ---------------------------------------------------------------------------------------------------
TRANSPORT_ERRS_MEM = ("err Hang", "err TransportTimeout", "err TransportError")
TRANSPORT_ERRS_USB = ("err Other:UsbReadFailedError", "err Other:UsbWriteFailedError")


def gen_session(rng):
    import scen
    kind = rng.choice(["mixed", "mixed", "mixed", "shell", "sync", "push"])
    if kind == "shell":
        return scen.gen_shell(rng)
    if kind == "sync":
        return scen.gen_sync_read(rng)
    if kind == "push":
        return scen.gen_push(rng)
    scn = scen.gen_mixed(rng)
    have = set(o["op"] for o in scn["ops"])
    for need in (dict(op="shell", cmd=b"echo", decode=rng.random() < 0.5), dict(op="push", src=("bytesio", 0), path=b"/sdcard/up"),
                 dict(op="pull", path=b"/f")):
        if need["op"] not in have:
            scn["ops"].append(need)
    if rng.random() < 0.5:
        scn["dtt"] = rng.choice([512, 2048, 9216])
    for op in scn["ops"]:
        if op["op"] != "connect" and rng.random() < 0.3:
            op["tt"] = rng.choice([1024, 3072, 256])
    if rng.random() < 0.5:
        scn["ops"].append(dict(op="close"))
        if rng.random() < 0.5:
            scn["envs"].append(dict(scn["envs"][0]))
            scn["ops"] += [dict(op="connect"), dict(op="shell", cmd=b"echo", decode=False)]
    return scn


def check_sessions(ctx, scns):
    import scen
    import session
    rep = ctx.report
    usb = call_worker(dict(mode="session", scns=[scen.enc(s) for s in scns]))
    for scn, u in zip(scns, usb):
        rep.evaluations += 1
        rep.traces_validated += 1
        mem = session.Runner(scn, "sync").run()
        fail = None
        stop = False
        for i, (op, m, o) in enumerate(zip(scn["ops"], mem, u["obs"])):
            rep.count("session_op", "%s/%s" % (op["op"], o["res"].split(" ")[0]))
            if m["res"] in TRANSPORT_ERRS_MEM:
                if o["res"] not in TRANSPORT_ERRS_USB:
                    fail = "op %d %s: in-memory transport failed with %s, USB gave %s" % (i, op["op"], m["res"], o["res"][:80])
                stop = True          # after a transport failure the two are no longer comparable
            elif m["res"] != o["res"]:
                fail = "op %d %s: result over USB %s differs from in-memory %s" % (i, op["op"], o["res"][:120], m["res"][:120])
            elif (m["sink"] or "N") != (o["sink"] or "N") and not (m["sink"] in ("N", "-") and o["sink"] in ("N", "-")):
                fail = "op %d %s: pulled bytes differ (usb %d hex chars, in-memory %d)" % (i, op["op"], len(o["sink"]), len(m["sink"]))
            if fail or stop:
                break
        b = u["backend"]
        if not fail:
            if any(not (ep & 0x80) for ep in b["read_eps"]) or any(ep & 0x80 for ep in b["write_eps"]):
                fail = "session used read endpoints %r / write endpoints %r" % (b["read_eps"], b["write_eps"])
            elif b["transport_type"] != "UsbTransport":
                fail = "AdbDeviceUsb built a %s" % b["transport_type"]
            else:
                allowed = set([DEFAULT_TIMEOUT_S * 1000] + [int(op["tt"] * 1000 // 1024) for op in scn["ops"] if op.get("tt") is not None])
                if scn.get("dtt") is not None:
                    allowed.add(int(scn["dtt"] * 1000 // 1024))
                bad = [t for t in b["timeouts"] if isinstance(t, bool) or not isinstance(t, int) or t not in allowed]
                if bad:
                    fail = "session passed timeouts %r to the backend (allowed ms values %r)" % (bad, sorted(allowed))
                elif b["n"] and [c[0] for c in b["head"][:3]] != ["open", "kda", "claim"]:
                    fail = "session's first backend calls were %r" % (b["head"],)
        if fail:
            rep.prop_failures.append(dict(case=dict(session=scen.enc(scn)), why=fail, signature=dict(kind="session-differs")))
        if b["n_reads"] and b["n_writes"]:
            rep.signatures.add(("session", tuple(op["op"] for op in scn["ops"]), tuple(o["res"][:16] for o in u["obs"]), b["n_reads"], b["n_writes"]))
        rep.count("session_backend_calls", "<100" if b["n"] < 100 else "<1000" if b["n"] < 1000 else ">=1000")
        if len(rep.samples) < 8:
            rep.sample("session %s -> %s ; backend: %d reads on %s, %d writes on %s, timeouts %s ms" % (
                [op["op"] for op in scn["ops"]], [o["res"][:24] for o in u["obs"]], b["n_reads"], [hex(e) for e in b["read_eps"]],
                b["n_writes"], [hex(e) for e in b["write_eps"]], b["timeouts"]), cap=8)


def gen_small_session(rng, close=None):
    """connect + shell (+ close): few backend calls, so that a USBError can be injected at every one of them"""
    import scen
    out = rng.choice([b"hello\n", b"a", b"0123456789" * 3])
    sim = dict(maxdata=4096, shell={b"id": scen.split_chunks(rng, out, rng.choice(["whole", "two"]))})
    ops = [dict(op="connect"), dict(op="shell", cmd=b"id", decode=False)]
    if close if close is not None else rng.random() < 0.7:
        ops.append(dict(op="close"))
    return dict(envs=[dict(sim=sim, dt=1)], ops=ops)


def check_session_inject(ctx, scns, kinds, only=None):
    """Every backend call of a small session in turn raises a USBError: the operation in progress must fail with the documented
    exception for that call (or carry on where the code swallows it), everything before it must be as over the in-memory transport."""
    import scen
    import session
    rep = ctx.report
    res = call_worker(dict(mode="session_inject", scns=[scen.enc(s) for s in scns], kinds=kinds, only=only))
    for scn, r in zip(scns, res):
        mem = [m["res"] for m in session.Runner(scn, "sync").run()]
        base = [o["res"] for o in r["base"]["obs"]]
        rep.evaluations += 1
        if base != mem:
            rep.prop_failures.append(dict(case=dict(session=scen.enc(scn)), why="session over USB %r differs from in-memory %r" % (base, mem),
                                          signature=dict(kind="session-differs")))
            continue
        for run in r["runs"]:
            rep.evaluations += 1
            rep.traces_validated += 1
            got = [o["res"] for o in run["run"]["obs"]]
            fired = run["run"]["backend"]["fired"]
            kind = run["kind"]
            why = None
            if fired is None:
                why = "the injected error at call %d never fired" % run["k"]
            else:
                opi, call = fired
                rep.count("session_inject", "%s/%s" % (call, got[opi].split(":")[0][:40]))
                swallowed = call in ("release", "hclose", "serial") or (call in ("kda", "detach") and kind == "notFound")
                if got[:opi] != mem[:opi]:
                    why = "results before the failing call differ: %r vs %r" % (got[:opi], mem[:opi])
                elif swallowed:
                    if got != mem:
                        why = "a USBError(%s) from %s must be swallowed, but results are %r instead of %r" % (kind, call, got, mem)
                else:
                    cls = fake_class_name(kind)
                    want = {"bulkRead": "err Other:UsbReadFailedError", "bulkWrite": "err Other:UsbWriteFailedError"}.get(call, "err Other:" + cls)
                    if got[opi] != want:
                        why = "USBError(%s) raised by %s during %s: the operation gave %s, expected %s" % (kind, call, scn["ops"][opi]["op"], got[opi], want)
                rep.signatures.add(("session-inject", call, kind, got[opi][:40]))
            if why:
                rep.prop_failures.append(dict(case=dict(session=scen.enc(scn), inject=[run["k"], kind]), why=why, signature=dict(kind="session-inject")))


def fake_class_name(kind):
    return "USBError" + kind[0].upper() + kind[1:] if kind != "io" else "USBErrorIO"


# ---- unit entry points --------------------------------------------------------------------------------------------
def transport_cases(rng, quick, budget):
    kinds_quick = lambda i: [["io", "timeout", "noDevice", "notFound", "pipe", "busy"][i % 6], "notFound" if i in (1, 2) else "timeout"]  # noqa: E731
    kinds_all = lambda i: ERR_KINDS  # noqa: E731
    cases = gen_grid(rng) + gen_inject(rng, kinds_quick if quick else kinds_all) + gen_lifecycle(rng)
    cases += gen_random(rng, int((90 if quick else 3000) * budget))
    return cases


def run(ctx):
    rng, rep = ctx.rng, ctx.report
    quick = ctx.tier == "quick"
    rep.rule = ("real UsbTransport / AdbDeviceUsb on a fake usb1 in a fresh subprocess. Transport cases: grid timeouts {None,0,0.001,0.5,2.25,10} x "
                "constructor default {None,0.5,9} x read size {1,24,512,2^20} with short/exact backend answers; a USBError injected at every call index of a "
                "connect/read/write/read/close script (quick: 2 kinds per index, thorough: all 13); life-cycle (use before connect / after close, double close, "
                "reconnect, settings without IN or OUT, several endpoints); random op sequences over random scripts. Sessions: connect+shell+push+pull(+...) over "
                "AdbDeviceUsb vs AdbDevice(MemTransport). Non-trivial = at least one backend call was made; distinct by (endpoints, platform, default, per-op "
                "(kind, size, timeout, outcome, backend call names)).")
    probe = call_worker(dict(mode="probe"))
    rep.notes.append("probe: %s" % json.dumps(probe, sort_keys=True))
    if probe.get("default_timeout_s") != DEFAULT_TIMEOUT_S:
        rep.prop_failures.append(dict(case=dict(probe=probe), why="usb_transport.DEFAULT_TIMEOUT_S is %r, documented default is %r s" % (
            probe.get("default_timeout_s"), DEFAULT_TIMEOUT_S), signature=dict(kind="default-timeout")))
    cases = transport_cases(rng, quick, ctx.budget)
    for i in range(0, len(cases), 400):
        check_cases(ctx, cases[i:i + 400])
    nsess = int((10 if quick else 150) * ctx.budget)
    scns = [gen_session(rng) for _ in range(nsess)]
    for i in range(0, len(scns), 50):
        check_sessions(ctx, scns[i:i + 50])
    small = [gen_small_session(rng, close=(i == 0) or None) for i in range(2 if quick else 6)]
    check_session_inject(ctx, small, ["io", "timeout", "noDevice", "notFound", "pipe"] if quick else ERR_KINDS)
    rep.notes.append("%d transport cases, %d sessions; legacy `_open` path (not used by AdbDeviceUsb) is probed only: second _open on the same port path -> %s" % (
        len(cases), nsess, probe.get("open_second_same_port")))


def search(ctx, disagreements, proofs):
    before = len(ctx.report.prop_failures)
    cases = gen_inject(ctx.rng, lambda i: ERR_KINDS) + gen_lifecycle(ctx.rng) + gen_random(ctx.rng, int(600 * ctx.budget))
    for i in range(0, len(cases), 400):
        check_cases(ctx, cases[i:i + 400], compare=False)
        if len(ctx.report.prop_failures) > before:
            break
    if len(ctx.report.prop_failures) == before:
        check_sessions(ctx, [gen_session(ctx.rng) for _ in range(int(10 * ctx.budget))])
    fails = ctx.report.prop_failures[before:]
    return fails[0] if fails else None


def _fails(ctx, case):
    sub = type(ctx)(ctx.prop, ctx.tier, ctx.seed)
    sub.driver = ctx.driver
    if "session" in case and "inject" in case:
        import scen
        check_session_inject(sub, [scen.dec(case["session"])], [case["inject"][1]], only=case["inject"][0])
    elif "session" in case:
        import scen
        check_sessions(sub, [scen.dec(case["session"])])
    elif "probe" in case:
        return None
    else:
        check_cases(sub, [case], compare=False)
    return sub.report.prop_failures[0] if sub.report.prop_failures else None


def shrink(ctx, failure):
    case = failure["case"]
    if "ops" not in case:
        return failure
    best = failure
    changed = True
    while changed and len(case["ops"]) > 1:
        changed = False
        for i in range(len(case["ops"]) - 1, -1, -1):
            cand = dict(case, ops=case["ops"][:i] + case["ops"][i + 1:])
            f = _fails(ctx, cand)
            if f and f["signature"] == failure["signature"]:
                case, best, changed = cand, f, True
                break
    return best


def replay(ctx, payload):
    fl = payload.get("failure") or {}
    if "case" not in fl:
        print("nothing to replay: %s" % payload.get("kind"))
        return True
    f = _fails(ctx, fl["case"])
    if f:
        print("FAIL:", f["why"])
    return f is None
