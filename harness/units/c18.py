"""C18 -- TCP transports honour the transport contract on real sockets.

Real loopback sockets (127.0.0.1, ephemeral ports), BOTH transports (`TcpTransport`, and `TcpTransportAsync` under its own event
loop in the test thread).  Everything observed on a connection is recorded as ONE linear trace: the peer thread and the host
append their events to the same list under one lock, so the list order is a valid linearisation:

    co / cl            host connect / close
    pw:<hex>           appended by the peer BEFORE sendall(bytes)  (no byte can reach the host earlier)
    pd                 appended by the peer AFTER sendall returned (every byte of the earlier pw's has left the peer)
    pe                 appended by the peer before it shuts its sending side down
    rs:<n>             appended by the host before bulk_read(n, timeout)
    rd:<n>:<hex>       ... after it returned these bytes         rt:<n>  ... after it raised TcpTimeoutException
    wr:<len>:<k>       bulk_write of len bytes returned k

(a) the trace goes to the Lean acceptor `tcp accepts ...` (theorem C18_acceptor_sound says what acceptance means); a rejection
    is a property failure.  (b) an independent Python oracle: concatenated reads == the peer's stream, no read longer than
    requested, every timeout lasted at least `timeout - 20 ms`, write counts equal what the peer really received.
(c) whole device sessions (connect, shell, push 100 KB, pull, list, stat, close) through `AdbDeviceTcp` / `AdbDeviceTcpAsync`
    against a socket server running the device simulator, with small socket buffers, must give the same per-operation results
    and the same pulled bytes as the same scenario over the in-memory transport, and the server must have received a
    well-formed ADB message stream.

Wall-clock judgements use generous slack and anything that could be a scheduling artefact is measured a second time before it is
reported.
"""
import asyncio
import random
import select
import socket
import struct
import threading
import time

from common import hx

FRAGS = (1, 2, 100, 1460, 65536)
PAUSES = (0.0, 0.001, 0.03)
RSIZES = (1, 24, 4096, 1 << 20)
TIMEOUTS = (0.05, 0.2)
EARLY_SLACK = 0.02      # a timeout may not come earlier than timeout - 20 ms
LATE_SLACK = 1.0        # ... and (generously) not later than timeout + 1 s
TIMING_KINDS = ("late-timeout", "acceptor:prematureTimeout", "infra")
SIG = dict(kind="tcp-contract")


def exc_cls():
    from adb_shell.exceptions import TcpTimeoutException
    return TcpTimeoutException


# ---------------------------------------------------------------------------------------------------------------------
# plumbing: trace log, peer threads, the two transports behind one coroutine-shaped interface
# ---------------------------------------------------------------------------------------------------------------------
class TraceLog(object):
    def __init__(self):
        self.lock = threading.Lock()
        self.toks = []

    def add(self, tok):
        with self.lock:
            self.toks.append(tok)
            return time.monotonic()


class Peer(object):
    """A listening loopback socket plus ONE thread serving `nconn` accepted connections with handler(conn, k)."""

    def __init__(self, handler, nconn=1, bufsize=None):
        self.handler, self.nconn = handler, nconn
        self.lsock = socket.socket(socket.AF_INET, socket.SOCK_STREAM)
        self.lsock.setsockopt(socket.SOL_SOCKET, socket.SO_REUSEADDR, 1)
        if bufsize:
            # set on the listening socket so that accepted sockets inherit it before the handshake
            self.lsock.setsockopt(socket.SOL_SOCKET, socket.SO_RCVBUF, bufsize)
            self.lsock.setsockopt(socket.SOL_SOCKET, socket.SO_SNDBUF, bufsize)
        self.lsock.bind(("127.0.0.1", 0))
        self.lsock.listen(4)
        self.lsock.settimeout(10.0)
        self.port = self.lsock.getsockname()[1]
        self.error = None
        self.thread = threading.Thread(target=self._main, name="c18-peer", daemon=True)
        self.thread.start()

    def _main(self):
        try:
            for k in range(self.nconn):
                conn, _ = self.lsock.accept()
                conn.settimeout(15.0)
                try:
                    self.handler(conn, k)
                finally:
                    conn.close()
        except Exception as exc:  # noqa
            self.error = exc

    def finish(self, timeout=25.0):
        self.thread.join(timeout)
        alive = self.thread.is_alive()
        self.lsock.close()
        return not alive


def drain_until_eof(conn, limit_s=10.0):
    """Read until the host closes (or limit): closing a socket with unread input would send a RST."""
    buf = bytearray()
    end = time.monotonic() + limit_s
    while time.monotonic() < end:
        try:
            conn.settimeout(max(0.05, end - time.monotonic()))
            d = conn.recv(65536)
        except socket.timeout:
            break
        except OSError:
            break
        if not d:
            break
        buf += d
    return bytes(buf)


class SyncIO(object):
    kind = "sync"

    def __init__(self, port, bufsize=None):
        from adb_shell.transport.tcp_transport import TcpTransport
        self.t = TcpTransport("127.0.0.1", port)
        self.bufsize = bufsize

    async def connect(self, t):
        self.t.connect(t)
        if self.bufsize:
            self.t._connection.setsockopt(socket.SOL_SOCKET, socket.SO_SNDBUF, self.bufsize)
            self.t._connection.setsockopt(socket.SOL_SOCKET, socket.SO_RCVBUF, self.bufsize)

    async def read(self, n, t):
        return self.t.bulk_read(n, t)

    async def write(self, data, t):
        return self.t.bulk_write(data, t)

    async def close(self):
        self.t.close()

    async def sleep(self, s):
        time.sleep(s)

    def connected(self):
        return self.t._connection is not None


class AsyncIO(object):
    kind = "async"

    def __init__(self, port, bufsize=None):
        from adb_shell.transport.tcp_transport_async import TcpTransportAsync
        self.t = TcpTransportAsync("127.0.0.1", port)
        self.bufsize = bufsize

    async def connect(self, t):
        await self.t.connect(t)
        if self.bufsize:
            sock = self.t._writer.get_extra_info("socket")
            sock.setsockopt(socket.SOL_SOCKET, socket.SO_SNDBUF, self.bufsize)
            sock.setsockopt(socket.SOL_SOCKET, socket.SO_RCVBUF, self.bufsize)

    async def read(self, n, t):
        return await self.t.bulk_read(n, t)

    async def write(self, data, t):
        return await self.t.bulk_write(data, t)

    async def close(self):
        await self.t.close()

    async def sleep(self, s):
        await asyncio.sleep(s)

    def connected(self):
        return self.t._writer is not None


def make_io(kind, port, bufsize=None):
    return SyncIO(port, bufsize) if kind == "sync" else AsyncIO(port, bufsize)


class HostStuck(RuntimeError):
    """the host procedure made no progress for DRIVE_LIMIT_S seconds of wall-clock time (a blocking call without its timeout, a busy loop)"""


DRIVE_LIMIT_S = 45


def drive(kind, coro):
    """Run the host procedure: the sync transport never suspends, so one `send` finishes it; the async one gets its own loop.
    A wall-clock alarm (main thread) turns a procedure that is stuck -- in a blocking recv, or spinning without yielding -- into an exception."""
    import signal
    armed = threading.current_thread() is threading.main_thread()
    if armed:
        def on_alarm(signum, frame):
            raise HostStuck("no result after %d s: the transport call neither returned nor raised its timeout" % DRIVE_LIMIT_S)
        old = signal.signal(signal.SIGALRM, on_alarm)
        signal.setitimer(signal.ITIMER_REAL, DRIVE_LIMIT_S)
    try:
        return _drive(kind, coro)
    finally:
        if armed:
            signal.setitimer(signal.ITIMER_REAL, 0)
            signal.signal(signal.SIGALRM, old)


def _drive(kind, coro):
    if kind == "sync":
        try:
            coro.send(None)
        except StopIteration as stop:
            return stop.value
        coro.close()
        raise RuntimeError("the synchronous host procedure suspended")
    loop = asyncio.new_event_loop()
    try:
        return loop.run_until_complete(coro)
    finally:
        try:
            loop.run_until_complete(loop.shutdown_asyncgens())
            loop.run_until_complete(loop.shutdown_default_executor())
        except Exception:  # noqa
            pass
        loop.close()


def ask_acceptor(ctx, toks):
    """-> None when accepted, else 'index reason token'."""
    r = ctx.driver.ask("tcp accepts " + " ".join(toks))
    if r == "ok 1":
        return None
    return r


def summarize(problems):
    """distinct messages, first few"""
    seen = []
    for p in problems:
        if p["why"] not in seen:
            seen.append(p["why"])
    extra = " (+%d more)" % (len(seen) - 4) if len(seen) > 4 else ""
    return ("; ".join(seen[:4]) + extra)[:900]


def problem(kind, why, **kw):
    d = dict(kind=kind, why=why)
    d.update(kw)
    return d


# ---------------------------------------------------------------------------------------------------------------------
# (1) fragmentation traces
# ---------------------------------------------------------------------------------------------------------------------
def make_plan(seed, kind, frag, pause, rsize, timeout, stall, ending, conn_t, lmax):
    """Everything about one trace that is chosen in advance (JSON-able; the byte stream is regenerated from the seed)."""
    rng = random.Random(seed)
    lmax0 = lmax
    if rsize == 1:
        lmax = min(lmax, 3000)
    elif rsize == 24:
        lmax = min(lmax, 60000)
    sizes, pauses, total, tpause = [], [], 0, 0.0
    while total < lmax and len(sizes) < 2500:
        f = rng.choice(FRAGS) if frag == "mix" else frag
        p = rng.choice(PAUSES) if pause == "mix" else pause
        if tpause + p > 0.25:
            if pause != "mix":
                break
            p = 0.0
        f = min(f, lmax - total)
        sizes.append(f)
        pauses.append(p)
        total += f
        tpause += p + (0.0002 if p else 0.0)
    if not sizes:
        sizes, pauses, total = [min(frag if frag != "mix" else 100, lmax)], [0.0], min(frag if frag != "mix" else 100, lmax)
    stall_at = None
    if stall and len(sizes) > 1:
        stall_at = rng.randrange(1, len(sizes))
        pauses[stall_at] = timeout + 0.06
    return dict(seed=seed, transport=kind, frag=frag, pause=pause, rsize=rsize, timeout=timeout, stall=bool(stall), stall_at=stall_at,
                ending=ending, conn_t=conn_t, sizes=sizes, pauses=pauses, length=total, lmax=lmax0, hello=rng.choice([0, 0, 5, 700]))


def run_stream(ctx, plan):
    """One connection: the peer writes the stream as planned, the host reads it back.  -> (toks, obs, problems)"""
    Timeout = exc_cls()
    rng = random.Random(plan["seed"] ^ 0x5EED)
    stream = random.Random(plan["seed"]).randbytes(plan["length"])
    hello = bytes(range(256)) * 3
    hello = hello[:plan["hello"]]
    log = TraceLog()
    done_evt = threading.Event()
    box = {}

    def handler(conn, k):
        off = 0
        for size, pause in zip(plan["sizes"], plan["pauses"]):
            if pause:
                time.sleep(pause)
            chunk = stream[off:off + size]
            off += size
            log.add("pw:" + chunk.hex())
            conn.sendall(chunk)
            log.add("pd")
        done_evt.wait(40.0)
        if plan["ending"] == "eof":
            log.add("pe")
            conn.shutdown(socket.SHUT_WR)
        box["host_bytes"] = drain_until_eof(conn)

    peer = Peer(handler)
    io = make_io(plan["transport"], peer.port)
    obs = dict(got=bytearray(), reads=0, short=0, timeouts=[], eof=False, counts=[], errors=[], final_timeout=None)
    problems = []
    timeout = plan["timeout"]

    async def host():
        deadline = time.monotonic() + 30.0 + plan["length"] / 20000.0
        log.add("co")
        await io.connect(plan["conn_t"])
        if hello:
            k = await io.write(hello, 1.0)
            log.add("wr:%d:%s" % (len(hello), k))
            obs["counts"].append((len(hello), k))
        got = obs["got"]
        while len(got) < plan["length"]:
            if time.monotonic() > deadline:
                problems.append(problem("loss", "only %d of %d bytes arrived within the deadline" % (len(got), plan["length"])))
                break
            n = rng.choice(RSIZES) if plan["rsize"] == "mix" else plan["rsize"]
            t0 = log.add("rs:%d" % n)
            try:
                data = await io.read(n, timeout)
            except Timeout:
                t1 = log.add("rt:%d" % n)
                obs["timeouts"].append(t1 - t0)
                continue
            log.add("rd:%d:%s" % (n, hx(data)))
            obs["reads"] += 1
            if len(data) > n:
                problems.append(problem("too-long", "bulk_read(%d) returned %d bytes" % (n, len(data))))
            if len(data) < n:
                obs["short"] += 1
            if not data:
                problems.append(problem("early-eof", "bulk_read returned b'' after %d of %d bytes although the peer has not closed" % (len(got), plan["length"])))
                break
            got += data
        done_evt.set()
        if plan["ending"] == "eof":
            # the peer now closes its side: reads end in timeouts until b'' (EOF) shows up, never in more data
            end = time.monotonic() + 5.0
            while time.monotonic() < end:
                t0 = log.add("rs:24")
                try:
                    data = await io.read(24, timeout)
                except Timeout:
                    t1 = log.add("rt:24")
                    obs["timeouts"].append(t1 - t0)
                    continue
                log.add("rd:24:%s" % hx(data))
                if data:
                    got += data
                else:
                    obs["eof"] = True
                    break
            if not obs["eof"]:
                problems.append(problem("infra", "EOF not seen within 5 s after the peer shut down"))
        else:
            # nothing left to read: the read must raise the timeout
            t0 = log.add("rs:24")
            try:
                data = await io.read(24, timeout)
                log.add("rd:24:%s" % hx(data))
                got += data
                problems.append(problem("no-timeout", "bulk_read on an idle connection returned %r instead of raising TcpTimeoutException" % (bytes(data[:16]),)))
            except Timeout:
                t1 = log.add("rt:24")
                obs["timeouts"].append(t1 - t0)
                obs["final_timeout"] = t1 - t0
        await io.close()
        log.add("cl")
        await io.close()
        log.add("cl")
        if io.connected():
            problems.append(problem("close", "the transport still holds a connection after close()"))

    try:
        drive(plan["transport"], host())
    except Exception as exc:  # noqa
        problems.append(problem("exception", "host procedure raised %s: %s" % (type(exc).__name__, exc)))
        done_evt.set()
        try:
            drive(plan["transport"], io.close())
        except Exception:  # noqa
            pass
    if not peer.finish():
        problems.append(problem("infra", "peer thread did not finish"))
    if peer.error is not None:
        problems.append(problem("infra", "peer thread raised %r" % (peer.error,)))
    # ---- the independent oracle ----
    got = bytes(obs["got"])
    if got != stream and not any(p["kind"] in ("loss", "early-eof", "exception") for p in problems):
        i = next((j for j in range(min(len(got), len(stream))) if got[j] != stream[j]), min(len(got), len(stream)))
        problems.append(problem("stream-differs", "concatenated reads (%d bytes) differ from the peer's stream (%d bytes) at offset %d" % (len(got), len(stream), i)))
    for d in obs["timeouts"]:
        if d < timeout - EARLY_SLACK:
            problems.append(problem("early-timeout", "TcpTimeoutException after %.4f s with timeout %.3f s" % (d, timeout)))
        elif d > timeout + LATE_SLACK:
            problems.append(problem("late-timeout", "TcpTimeoutException only after %.4f s with timeout %.3f s" % (d, timeout)))
    for ln, k in obs["counts"]:
        hb = box.get("host_bytes")
        if not isinstance(k, int) or k < 1 or k > ln:
            problems.append(problem("bad-count", "bulk_write of %d bytes returned %r" % (ln, k)))
        elif hb is not None and hb != hello[:k]:
            problems.append(problem("untruthful-count", "bulk_write returned %d but the peer received %d bytes" % (k, len(hb))))
    return log.toks, obs, problems


def check_stream(ctx, plan, record=True):
    """Run a planned trace, ask the acceptor, evaluate the oracle; timing-suspicious verdicts are measured a second time."""
    rep = ctx.report
    for attempt in (0, 1):
        toks, obs, problems = run_stream(ctx, plan)
        verdict = ask_acceptor(ctx, toks)
        if verdict is not None:
            reason = verdict.split()[3] if len(verdict.split()) > 3 else verdict
            problems.append(problem("acceptor:" + reason, "the Lean acceptor rejects the observed trace: " + verdict))
        if not problems or attempt == 1 or not all(p["kind"] in TIMING_KINDS for p in problems):
            break
        rep.count("remeasured", "stream")
    if record:
        rep.evaluations += 1
        rep.traces_validated += 1
        nt = len(obs["timeouts"])
        rep.count("transport", plan["transport"])
        rep.count("fragment", plan["frag"])
        rep.count("pause", plan["pause"])
        rep.count("read_size", plan["rsize"])
        rep.count("timeout", plan["timeout"])
        rep.count("ending", plan["ending"])
        rep.count("timeouts_in_trace", "0" if nt == 0 else "1" if nt == 1 else "2+")
        rep.count("short_reads", "yes" if obs["short"] else "no")
        if obs["reads"] >= 1 and (obs["short"] or nt):
            rep.signatures.add((plan["transport"], plan["frag"], plan["pause"], plan["rsize"], plan["timeout"], plan["stall"], plan["ending"], min(nt, 2)))
        rep.sample("%s: %d bytes in %d writes (frag %s, pause %s%s) -> %d reads of %s (%d short), %d timeouts @%.2fs, ending %s: %s" % (
            plan["transport"], plan["length"], len(plan["sizes"]), plan["frag"], plan["pause"], ", stall" if plan["stall"] else "", obs["reads"],
            plan["rsize"], obs["short"], nt, plan["timeout"], plan["ending"], "accepted" if verdict is None else verdict))
    if problems:
        small = dict(plan)
        small.pop("sizes")
        small.pop("pauses")
        return dict(case=dict(test="stream", plan=small), why=summarize(problems),
                    kinds=[p["kind"] for p in problems], signature=SIG)
    return None


def plans_for(ctx, n, lmax):
    """n planned traces per transport; every listed value of every parameter occurs (cyclic fill, then shuffled)."""
    rng = ctx.rng

    def spread(values):
        vs = [values[i % len(values)] for i in range(n)]
        rng.shuffle(vs)
        return vs
    out = []
    for kind in ("sync", "async"):
        fr, pa, rs = spread(FRAGS + ("mix",)), spread(PAUSES + ("mix",)), spread(RSIZES + ("mix",))
        to, st, en, ct = spread(TIMEOUTS), spread((0, 0, 1)), spread(("timeout", "eof")), spread((1.0, 1.0, None))
        for i in range(n):
            out.append(make_plan(rng.getrandbits(40), kind, fr[i], pa[i], rs[i], to[i], st[i], en[i], ct[i], lmax))
    return out


def replan(small):
    return make_plan(small["seed"], small["transport"], small["frag"], small["pause"], small["rsize"], small["timeout"], small["stall"],
                     small["ending"], small["conn_t"], small["lmax"])


# ---------------------------------------------------------------------------------------------------------------------
# (2) idle connection, close twice, reconnect
# ---------------------------------------------------------------------------------------------------------------------
def check_poll(ctx, kind):
    """Bytes the peer has already sent are returned by a read with transport_timeout_s = 0 (a poll): a zero timeout bounds the WAIT, it is not a
    licence to lose or ignore what has arrived; the same for both transports (C16: they deliver the same bytes)."""
    Timeout = exc_cls()
    blob = bytes((i * 5 + 1) % 256 for i in range(300))
    done = threading.Event()

    def handler(conn, k):
        conn.sendall(blob)
        done.wait(20.0)
        drain_until_eof(conn)

    peer = Peer(handler)
    io = make_io(kind, peer.port)
    problems = []
    res = {}

    async def host():
        await io.connect(1.0)
        first = await io.read(4, 1.0)          # proves the data has arrived (and, for the async transport, is being buffered)
        await io.sleep(0.3)
        got = bytearray(first)
        for _ in range(200):
            if len(got) >= len(blob):
                break
            try:
                data = await io.read(64, 0)
            except Timeout:
                res["timeout_at"] = len(got)
                break
            if not data:
                break
            got += data
        res["got"] = bytes(got)
        done.set()
        await io.close()

    try:
        drive(kind, host())
    except Exception as exc:  # noqa
        problems.append(problem("exception", "host procedure raised %s: %s" % (type(exc).__name__, exc)))
        done.set()
        try:
            drive(kind, io.close())
        except Exception:  # noqa
            pass
    if not peer.finish():
        problems.append(problem("infra", "peer thread did not finish"))
    if "timeout_at" in res:
        problems.append(problem("poll-lost-data", "bulk_read(64, transport_timeout_s=0) raised TcpTimeoutException after %d of %d bytes although the peer had sent all of them 0.3 s earlier" % (res["timeout_at"], len(blob))))
    elif "got" in res and res["got"] != blob:
        problems.append(problem("stream-differs", "polling reads returned %d bytes, the peer sent %d" % (len(res["got"]), len(blob))))
    rep = ctx.report
    rep.evaluations += 1
    rep.count("kind", "poll")
    rep.count("transport", kind)
    if problems:
        return dict(case=dict(test="poll", transport=kind), why=summarize(problems), signature=dict(kind=problems[0]["kind"]), no_shrink=True)
    return None


def check_idle(ctx, kind, timeout):
    """Nothing to read -> TcpTimeoutException, not before (about) the timeout; data written afterwards arrives intact."""
    Timeout = exc_cls()
    late = bytes((i * 7 + 3) % 256 for i in range(5000))
    for attempt in (0, 1):
        log = TraceLog()
        go = threading.Event()
        done = threading.Event()

        def handler(conn, k):
            go.wait(20.0)
            log.add("pw:" + late.hex())
            conn.sendall(late)
            log.add("pd")
            done.wait(20.0)
            drain_until_eof(conn)

        peer = Peer(handler)
        io = make_io(kind, peer.port)
        problems = []
        res = {}

        async def host():
            log.add("co")
            await io.connect(1.0)
            t0 = log.add("rs:24")
            try:
                data = await io.read(24, timeout)
                log.add("rd:24:%s" % hx(data))
                problems.append(problem("no-timeout", "bulk_read on an idle connection returned %r instead of raising TcpTimeoutException" % (bytes(data[:16]),)))
            except Timeout:
                t1 = log.add("rt:24")
                res["elapsed"] = t1 - t0
            go.set()
            got = bytearray()
            end = time.monotonic() + 10.0
            while len(got) < len(late) and time.monotonic() < end:
                log.add("rs:4096")
                try:
                    data = await io.read(4096, timeout)
                except Timeout:
                    log.add("rt:4096")
                    continue
                log.add("rd:4096:%s" % hx(data))
                if not data:
                    break
                got += data
            res["got"] = bytes(got)
            done.set()
            await io.close()
            log.add("cl")

        try:
            drive(kind, host())
        except Exception as exc:  # noqa
            problems.append(problem("exception", "host procedure raised %s: %s" % (type(exc).__name__, exc)))
            go.set()
            done.set()
            try:
                drive(kind, io.close())
            except Exception:  # noqa
                pass
        if not peer.finish():
            problems.append(problem("infra", "peer thread did not finish"))
        el = res.get("elapsed")
        if el is not None and el < timeout - EARLY_SLACK:
            problems.append(problem("early-timeout", "TcpTimeoutException after %.4f s with timeout %.3f s" % (el, timeout)))
        if el is not None and el > timeout + LATE_SLACK:
            problems.append(problem("late-timeout", "TcpTimeoutException only after %.4f s with timeout %.3f s" % (el, timeout)))
        if "got" in res and res["got"] != late:
            problems.append(problem("stream-differs", "after a timeout only %d of %d later bytes arrived intact" % (len(res["got"]), len(late))))
        verdict = ask_acceptor(ctx, log.toks)
        if verdict is not None:
            problems.append(problem("acceptor:" + (verdict.split() + ["?"] * 4)[3], "the Lean acceptor rejects the observed trace: " + verdict))
        if not problems or not all(p["kind"] in TIMING_KINDS for p in problems):
            break
        ctx.report.count("remeasured", "idle")
    rep = ctx.report
    rep.evaluations += 1
    rep.traces_validated += 1
    rep.count("idle_test", "%s/%.2f" % (kind, timeout))
    if el is not None:
        rep.signatures.add(("idle", kind, timeout))
        rep.sample("%s idle read, timeout %.2f s: TcpTimeoutException after %.3f s; %d later bytes intact" % (kind, timeout, el, len(res.get("got", b""))))
    if problems:
        return dict(case=dict(test="idle", transport=kind, timeout=timeout), why=summarize(problems),
                    kinds=[p["kind"] for p in problems], signature=SIG)
    return None


def check_reconnect(ctx, kind):
    """close(); close() must not raise; close(); connect() must give a working transport (round trip through an echo peer)."""
    Timeout = exc_cls()
    log = TraceLog()

    def handler(conn, k):
        # echo until the host closes; on the FIRST connection the peer also sends a tail the host never asks for:
        # bytes of an old connection must not show up on the next one
        tail_sent = False
        while True:
            try:
                d = conn.recv(65536)
            except OSError:
                break
            if not d:
                break
            if k == 0 and not tail_sent:
                d = d + b"STALE-TAIL-OF-THE-FIRST-CONNECTION"
                tail_sent = True
            log.add("pw:" + d.hex())
            conn.sendall(d)
            log.add("pd")

    peer = Peer(handler, nconn=2)
    io = make_io(kind, peer.port)
    problems = []

    async def round_trip(msg):
        off = 0
        while off < len(msg):
            k = await io.write(msg[off:], 1.0)
            log.add("wr:%d:%s" % (len(msg) - off, k))
            if not isinstance(k, int) or k < 1:
                problems.append(problem("bad-count", "bulk_write returned %r" % (k,)))
                return
            off += k
        got = bytearray()
        end = time.monotonic() + 5.0
        while len(got) < len(msg) and time.monotonic() < end:
            want = min(4096, len(msg) - len(got))       # never ask for more than the echo: the tail stays unread
            log.add("rs:%d" % want)
            try:
                data = await io.read(want, 0.2)
            except Timeout:
                log.add("rt:%d" % want)
                continue
            log.add("rd:%d:%s" % (want, hx(data)))
            if not data:
                break
            got += data
        if bytes(got) != msg:
            problems.append(problem("stream-differs", "echo round trip returned %d of %d bytes" % (len(got), len(msg))))

    async def host():
        await io.close()          # never connected: close is a no-op
        log.add("cl")
        log.add("co")
        await io.connect(1.0)
        await round_trip(b"first connection " * 40)
        await io.close()
        log.add("cl")
        await io.close()
        log.add("cl")
        if io.connected():
            problems.append(problem("close", "the transport still holds a connection after close()"))
        log.add("co")
        await io.connect(1.0)
        if not io.connected():
            problems.append(problem("reconnect", "no connection after close(); connect()"))
        await round_trip(b"second connection " * 300)
        await io.close()
        log.add("cl")
        await io.close()
        log.add("cl")

    try:
        drive(kind, host())
    except Exception as exc:  # noqa
        problems.append(problem("exception", "close/close/connect raised %s: %s" % (type(exc).__name__, exc)))
        try:
            drive(kind, io.close())
        except Exception:  # noqa
            pass
        # let the peer's second accept end
        try:
            s = socket.create_connection(("127.0.0.1", peer.port), timeout=1.0)
            s.close()
        except OSError:
            pass
    if not peer.finish():
        problems.append(problem("infra", "peer thread did not finish"))
    verdict = ask_acceptor(ctx, log.toks)
    if verdict is not None:
        problems.append(problem("acceptor", "the Lean acceptor rejects the observed trace: " + verdict))
    rep = ctx.report
    rep.evaluations += 1
    rep.traces_validated += 1
    rep.count("reconnect_test", kind)
    if not problems:
        rep.signatures.add(("reconnect", kind))
    if problems:
        return dict(case=dict(test="reconnect", transport=kind), why=summarize(problems),
                    kinds=[p["kind"] for p in problems], signature=SIG)
    return None


def check_reset(ctx, kind):
    """The peer aborts the connection (TCP RST).  Whatever the reads report, close() must complete without raising, a second close()
    too, and connect() must then give a working transport (C18: close is idempotent and a closed transport can connect again;
    C12: any transport failure leaves the object recoverable)."""
    import struct as _struct
    Timeout = exc_cls()

    def handler(conn, k):
        if k == 0:
            conn.sendall(b"hello")
            time.sleep(0.05)
            conn.setsockopt(socket.SOL_SOCKET, socket.SO_LINGER, _struct.pack("ii", 1, 0))   # close() now sends RST
        else:
            d = conn.recv(100)
            conn.sendall(d)

    peer = Peer(handler, nconn=2)
    io = make_io(kind, peer.port)
    problems = []

    async def host():
        await io.connect(1.0)
        got = await io.read(5, 1.0)
        if got != b"hello":
            problems.append(problem("stream-differs", "read %r before the reset" % (got,)))
        await io.sleep(0.15)
        try:
            await io.write(b"x" * 10, 0.5)          # provoke / observe the reset
            await io.sleep(0.05)
            await io.read(10, 0.2)
        except Timeout:
            pass
        except OSError:
            pass
        for attempt in (1, 2):
            try:
                await io.close()
            except Exception as exc:  # noqa
                problems.append(problem("close-raises", "close() #%d after a connection reset raised %s: %s" % (attempt, type(exc).__name__, exc)))
        if io.connected():
            problems.append(problem("close", "the transport still holds a connection after close() following a reset"))
        try:
            await io.connect(1.0)
            await io.write(b"ping", 1.0)
            back = await io.read(4, 1.0)
            if back != b"ping":
                problems.append(problem("reconnect", "after the reset, reconnect round trip returned %r" % (back,)))
            await io.close()
        except Exception as exc:  # noqa
            problems.append(problem("reconnect", "connect() after a reset + close() raised %s: %s" % (type(exc).__name__, exc)))

    try:
        drive(kind, host())
    except Exception as exc:  # noqa
        problems.append(problem("exception", "reset scenario raised %s: %s" % (type(exc).__name__, exc)))
    # make sure the peer's second accept ends
    try:
        s2 = socket.create_connection(("127.0.0.1", peer.port), timeout=0.5)
        s2.close()
    except OSError:
        pass
    peer.finish(timeout=5.0)
    rep = ctx.report
    rep.evaluations += 1
    rep.count("reset_test", kind)
    if not problems:
        rep.signatures.add(("reset", kind))
    if problems:
        return dict(case=dict(test="reset", transport=kind), why=summarize(problems), kinds=[p["kind"] for p in problems], signature=SIG)
    return None


# ---------------------------------------------------------------------------------------------------------------------
# (3) bulk_write against a slow reader with small socket buffers
# ---------------------------------------------------------------------------------------------------------------------
def check_write(ctx, kind, size=1 << 20, bufsize=8192):
    """The count returned by bulk_write must be the number of bytes the peer really receives for that call."""
    Timeout = exc_cls()
    data = random.Random(size ^ 0xC18).randbytes(size)
    log = TraceLog()
    box = dict(n=0, buf=bytearray())
    start = threading.Event()

    def handler(conn, k):
        start.wait(20.0)
        conn.settimeout(10.0)
        while True:
            try:
                d = conn.recv(16384)
            except OSError:
                break
            if not d:
                break
            box["buf"] += d
            box["n"] = len(box["buf"])
            time.sleep(0.0003)

    peer = Peer(handler, bufsize=bufsize)
    io = make_io(kind, peer.port, bufsize=bufsize)
    problems = []
    info = dict(calls=0, short=0, first=None, timeouts=0)

    async def host():
        log.add("co")
        await io.connect(2.0)
        if kind == "sync":
            # first call while the peer is not reading at all: whatever fits is accepted, the count must say how much
            k = await io.write(data, 2.0)
            log.add("wr:%d:%s" % (len(data), k))
            info["calls"], info["first"] = 1, k
            if not isinstance(k, int) or k < 1 or k > len(data):
                problems.append(problem("bad-count", "bulk_write of %d bytes returned %r" % (len(data), k)))
                return
            if k < len(data):
                info["short"] += 1
            start.set()
            end = time.monotonic() + 10.0
            while box["n"] < k and time.monotonic() < end:
                await io.sleep(0.005)
            await io.sleep(0.15)          # nothing more may trickle in: the call has returned
            if box["n"] != k or bytes(box["buf"]) != data[:k]:
                problems.append(problem("untruthful-count", "bulk_write returned %d but the peer received %d bytes for that call" % (k, box["n"])))
                return
            off = k
            end = time.monotonic() + 30.0
            while off < len(data) and time.monotonic() < end:
                try:
                    k = await io.write(data[off:], 2.0)
                except Timeout:
                    info["timeouts"] += 1
                    continue
                log.add("wr:%d:%s" % (len(data) - off, k))
                info["calls"] += 1
                if not isinstance(k, int) or k < 1 or k > len(data) - off:
                    problems.append(problem("bad-count", "bulk_write of %d bytes returned %r" % (len(data) - off, k)))
                    return
                if k < len(data) - off:
                    info["short"] += 1
                off += k
            info["sent"] = off
        else:
            start.set()
            k = await io.write(data, 10.0)
            log.add("wr:%d:%s" % (len(data), k))
            info["calls"], info["first"], info["sent"] = 1, k, k
            if k != len(data):
                problems.append(problem("bad-count", "async bulk_write of %d bytes returned %r" % (len(data), k)))
        await io.close()
        log.add("cl")

    try:
        drive(kind, host())
    except Exception as exc:  # noqa
        problems.append(problem("exception", "host procedure raised %s: %s" % (type(exc).__name__, exc)))
    start.set()
    try:
        drive(kind, io.close())
    except Exception:  # noqa
        pass
    if not peer.finish():
        problems.append(problem("infra", "peer thread did not finish"))
    if not problems and "sent" in info:
        if box["n"] != info["sent"] or bytes(box["buf"]) != data[:info["sent"]]:
            problems.append(problem("untruthful-count", "bulk_write counts add up to %d but the peer received %d bytes (content %s)" % (
                info["sent"], box["n"], "equal prefix" if bytes(box["buf"]) == data[:box["n"]] else "differs")))
    verdict = ask_acceptor(ctx, log.toks)
    if verdict is not None:
        problems.append(problem("acceptor", "the Lean acceptor rejects the observed trace: " + verdict))
    rep = ctx.report
    rep.evaluations += 1
    rep.traces_validated += 1
    rep.count("write_test", "%s: first call accepted %s of %d; %d calls, %d short, %d timeouts" % (kind, info["first"], size, info["calls"], info["short"], info["timeouts"]))
    if not problems:
        rep.signatures.add(("write", kind, size, bool(info["short"])))
    if problems:
        return dict(case=dict(test="write", transport=kind, size=size, bufsize=bufsize), why=summarize(problems),
                    kinds=[p["kind"] for p in problems], signature=SIG)
    return None


def observe_async_write_timeout(ctx, size=1 << 20, bufsize=8192):
    """Information only: what does 'Sending data ... timed out ... No data was sent' mean for the async transport?"""
    Timeout = exc_cls()
    data = bytes(size)
    box = dict(n=0)
    start = threading.Event()

    def handler(conn, k):
        start.wait(20.0)
        box["n"] = len(drain_until_eof(conn, 5.0))

    peer = Peer(handler, bufsize=bufsize)
    io = make_io("async", peer.port, bufsize=bufsize)
    out = {}

    async def host():
        await io.connect(2.0)
        try:
            out["ret"] = await io.write(data, 0.05)
        except Timeout as exc:
            out["exc"] = str(exc)
        start.set()
        await io.sleep(0.4)
        await io.close()

    try:
        drive("async", host())
    except Exception as exc:  # noqa
        out["err"] = repr(exc)
    start.set()
    peer.finish()
    if "exc" in out:
        ctx.report.notes.append("observation (not judged): TcpTransportAsync.bulk_write(1 MiB, 0.05 s) against a peer that is not reading raised "
                                "TcpTimeoutException(%r) yet the peer afterwards received %d bytes: writer.write() queues the data before the drain is "
                                "awaited, so 'No data was sent' does not hold for the async transport" % (out["exc"][-40:], box["n"]))
    else:
        ctx.report.notes.append("observation: async bulk_write with a 0.05 s timeout against a stalled peer: %r" % (out,))


# ---------------------------------------------------------------------------------------------------------------------
# (4) whole device sessions: loopback + device simulator  vs  in-memory transport
# ---------------------------------------------------------------------------------------------------------------------
class SimServer(object):
    """select loop around SimDevice: host bytes -> sim.feed, sim.drain() -> socket; never blocks in either direction."""

    def __init__(self, simcfg, bufsize):
        from sim_device import SimDevice
        self.sim = SimDevice(simcfg)
        self.received = bytearray()
        self.sent = 0
        self.error = None
        self.stop = False
        self.lsock = socket.socket(socket.AF_INET, socket.SOCK_STREAM)
        self.lsock.setsockopt(socket.SOL_SOCKET, socket.SO_REUSEADDR, 1)
        if bufsize:
            self.lsock.setsockopt(socket.SOL_SOCKET, socket.SO_RCVBUF, bufsize)
            self.lsock.setsockopt(socket.SOL_SOCKET, socket.SO_SNDBUF, bufsize)
        self.lsock.bind(("127.0.0.1", 0))
        self.lsock.listen(2)
        self.lsock.settimeout(10.0)
        self.port = self.lsock.getsockname()[1]
        self.thread = threading.Thread(target=self._main, name="c18-simserver", daemon=True)
        self.thread.start()

    def _main(self):
        try:
            conn, _ = self.lsock.accept()
        except Exception as exc:  # noqa
            self.error = exc
            return
        try:
            conn.setblocking(False)
            out = bytearray()
            end = time.monotonic() + 120.0
            while not self.stop and time.monotonic() < end:
                r, w, _ = select.select([conn], [conn] if out else [], [], 0.05)
                if r:
                    try:
                        d = conn.recv(65536)
                    except BlockingIOError:
                        d = None
                    except OSError:
                        break
                    if d is not None:
                        if not d:
                            break
                        self.received += d
                        self.sim.feed(d)
                        for raw in self.sim.drain():
                            out += raw
                if w and out:
                    try:
                        k = conn.send(bytes(out[:65536]))
                    except BlockingIOError:
                        k = 0
                    except OSError:
                        break
                    del out[:k]
                    self.sent += k
        except Exception as exc:  # noqa
            self.error = exc
        finally:
            conn.close()

    def finish(self, timeout=20.0):
        self.stop = True
        self.thread.join(timeout)
        alive = self.thread.is_alive()
        self.lsock.close()
        return not alive


class _NoLink(object):
    """What session.Runner.run_op expects of its link, for a transport that is not the in-memory one."""
    cur = None

    def __init__(self):
        self.events = []
        self.used = []

    def total_peer(self):
        return b""


def make_tcp_runner(scn, impl, port, bufsize):
    import adb_shell.adb_device as sync_mod
    import adb_shell.adb_device_async as async_mod
    import session
    from transports import Clock

    class TcpRunner(session.Runner):
        def __init__(self):   # noqa -- deliberately not calling Runner.__init__ (that one builds the in-memory device)
            self.scn, self.impl = scn, impl
            self.clock = Clock(0)
            self.link = _NoLink()
            self.mod = sync_mod if impl == "sync" else async_mod
            self.mod.time = time            # real time for real sockets
            self.tmp = None
            self.loop = None
            dtt = session.secs(scn.get("dtt"))
            if impl == "sync":
                self.dev = sync_mod.AdbDeviceTcp("127.0.0.1", port, default_transport_timeout_s=dtt, banner=scn.get("banner", b"verif"))
                tr = self.dev._io_manager._transport
                orig = tr.connect

                def connect(t):
                    orig(t)
                    tr._connection.setsockopt(socket.SOL_SOCKET, socket.SO_SNDBUF, bufsize)
                    tr._connection.setsockopt(socket.SOL_SOCKET, socket.SO_RCVBUF, bufsize)
                tr.connect = connect
            else:
                self.loop = asyncio.new_event_loop()
                self.dev = async_mod.AdbDeviceTcpAsync("127.0.0.1", port, default_transport_timeout_s=dtt, banner=scn.get("banner", b"verif"))
                tr = self.dev._io_manager._transport
                orig = tr.connect

                async def aconnect(t):
                    await orig(t)
                    sock = tr._writer.get_extra_info("socket")
                    sock.setsockopt(socket.SOL_SOCKET, socket.SO_SNDBUF, bufsize)
                    sock.setsockopt(socket.SOL_SOCKET, socket.SO_RCVBUF, bufsize)
                tr.connect = aconnect
    return TcpRunner()


def session_scn(seed, variant):
    rng = random.Random(seed)
    pushed = rng.randbytes(100 * 1024)
    pulled = rng.randbytes([70001, 150000][variant % 2])
    ents = [(("file%d.bin" % i).encode(), 33188 + i, rng.randrange(1 << 32), rng.randrange(1 << 32)) for i in range([3, 40][variant % 2])]
    sim = dict(maxdata=[4096, 262144][variant % 2], shell={b"c0": [b"hello ", b"w\xc3\xb6rld\n" * 500, b"done"]},
               fs={b"/sdcard/pull.bin": pulled, b"/sdcard": ("dir", ents)}, stat={b"/sdcard/pull.bin": (33188, len(pulled), 7)},
               data_chunk=[65536, 1000][variant % 2], default_chunks=[])
    ops = [dict(op="connect"), dict(op="shell", cmd=b"c0"),
           dict(op="push", src=("bytesio", 0), path=b"/sdcard/pushed.bin", mode=33272, mtime=1234567),
           dict(op="pull", path=b"/sdcard/pull.bin", dest="bytesio"), dict(op="list", path=b"/sdcard"),
           dict(op="stat", path=b"/sdcard/pull.bin"), dict(op="close")]
    return dict(envs=[dict(sim=sim, dt=1)], ops=ops, files={0: pushed}, dtt=5 * 1024), pushed, pulled


def parse_adb_stream(raw):
    """Independent well-formedness check of the host's byte stream: -> (number of messages, bytes left over or error)."""
    n, off = 0, 0
    while off < len(raw):
        if len(raw) - off < 24:
            return n, "%d trailing bytes" % (len(raw) - off)
        cmd, a0, a1, ln, ck, magic = struct.unpack("<6I", raw[off:off + 24])
        if struct.pack("<I", cmd) not in (b"SYNC", b"CNXN", b"AUTH", b"OPEN", b"OKAY", b"CLSE", b"WRTE"):
            return n, "unknown command at offset %d" % off
        if magic != cmd ^ 0xFFFFFFFF:
            return n, "bad magic at offset %d" % off
        if len(raw) - off - 24 < ln:
            return n, "truncated payload at offset %d" % off
        if sum(raw[off + 24:off + 24 + ln]) & 0xFFFFFFFF != ck:
            return n, "bad checksum at offset %d" % off
        off += 24 + ln
        n += 1
    return n, None


def check_session(ctx, impl, seed, variant, bufsize=4096):
    import adb_shell.adb_device as sync_mod
    import adb_shell.adb_device_async as async_mod
    import session
    rep = ctx.report
    scn, pushed, pulled = session_scn(seed, variant)
    problems = []
    try:
        mem = session.Runner(scn, impl).run()
    finally:
        sync_mod.time = time
        async_mod.time = time
    server = SimServer(scn["envs"][0]["sim"], bufsize)
    tcp = None
    try:
        tcp = make_tcp_runner(scn, impl, server.port, bufsize).run()
    except Exception as exc:  # noqa
        problems.append(problem("exception", "session over loopback raised %s: %s" % (type(exc).__name__, exc)))
    if not server.finish():
        problems.append(problem("infra", "simulator server thread did not finish"))
    if server.error is not None:
        problems.append(problem("infra", "simulator server raised %r" % (server.error,)))
    if tcp is not None:
        for i, (op, a, b) in enumerate(zip(scn["ops"], mem, tcp)):
            rep.count("session_op", "%s %s" % (op["op"], "ok" if b["res"].startswith("ok") else b["res"][:40]))
            if a["res"] != b["res"]:
                problems.append(problem("session-differs", "op %d (%s): in-memory result %s, loopback result %s" % (i, op["op"], a["res"][:80], b["res"][:80])))
            if a["sink"] != b["sink"]:
                problems.append(problem("session-differs", "op %d (%s): pulled bytes differ (in-memory %d hex chars, loopback %d)" % (i, op["op"], len(a["sink"]), len(b["sink"]))))
        # sanity of the scenario itself (so that 'equal' is not 'equally broken')
        if not all(o["res"].startswith("ok") for o in mem):
            problems.append(problem("infra", "the reference in-memory session did not succeed: %r" % ([o["res"][:40] for o in mem],)))
        if tcp[3]["sink"] != hx(pulled):
            problems.append(problem("session-differs", "the pulled bytes are not the device's file"))
        got = server.sim.files_received.get(b"/sdcard/pushed.bin")
        if got is None or got[2] != pushed:
            problems.append(problem("session-differs", "the file the device received differs from the pushed 100 KB"))
        raw = bytes(server.received)
        nmsg, err = parse_adb_stream(raw)
        if err:
            problems.append(problem("malformed", "bytes received by the server are not a well-formed ADB message stream: " + err))
        reply = ctx.driver.ask("codec parse " + hx(raw))
        if " rest=0" not in reply:
            problems.append(problem("malformed", "model parser on the server's input: " + reply[:120]))
        mem_peer = "".join("" if o["peer"] == "-" else o["peer"] for o in mem)
        if mem_peer != raw.hex():
            rep.disagreements.append(dict(unit="c18-session", case=dict(test="session", impl=impl, seed=seed, variant=variant),
                                          impl="loopback host stream: %d bytes" % len(raw), model="in-memory host stream: %d bytes" % (len(mem_peer) // 2)))
        rep.count("session_host_messages", nmsg)
    rep.evaluations += 1
    rep.traces_validated += 1
    rep.count("session", "%s/variant%d" % (impl, variant % 2))
    if not problems:
        rep.signatures.add(("session", impl, variant % 2))
        rep.sample("%s session over loopback (maxdata %d, %d-byte socket buffers): %d ops equal to in-memory; server got %d bytes, sent %d" % (
            impl, scn["envs"][0]["sim"]["maxdata"], bufsize, len(scn["ops"]), len(server.received), server.sent))
    if problems:
        return dict(case=dict(test="session", impl=impl, seed=seed, variant=variant), why=summarize(problems),
                    kinds=[p["kind"] for p in problems], signature=SIG)
    return None



def _adb_msg(cmd, a0, a1, data=b""):
    c = struct.unpack("<I", cmd)[0]
    return struct.pack("<6I", c, a0, a1, len(data), sum(data) & 0xFFFFFFFF, c ^ 0xFFFFFFFF) + data


class TrickleServer(object):
    """A device that answers CNXN and OPEN at once and then lets ONE WRTE packet trickle in: `step` bytes every `gap` seconds (C11's
    'bytes trickling too slowly'): each fragment arrives well inside the transport timeout, the packet as a whole not inside read_timeout_s."""

    def __init__(self, payload_len, step, gap, mode="trickle"):
        self.payload_len, self.step, self.gap, self.mode = payload_len, step, gap, mode
        self.error = None
        self.stop = False
        self.lsock = socket.socket(socket.AF_INET, socket.SOCK_STREAM)
        self.lsock.setsockopt(socket.SOL_SOCKET, socket.SO_REUSEADDR, 1)
        self.lsock.bind(("127.0.0.1", 0))
        self.lsock.listen(1)
        self.lsock.settimeout(10.0)
        self.port = self.lsock.getsockname()[1]
        self.thread = threading.Thread(target=self._main, name="c18-trickle", daemon=True)
        self.thread.start()

    def _read_msg(self, conn):
        buf = b""
        while len(buf) < 24:
            d = conn.recv(24 - len(buf))
            if not d:
                return None
            buf += d
        cmd, a0, a1, ln, _, _ = struct.unpack("<6I", buf)
        data = b""
        while len(data) < ln:
            d = conn.recv(ln - len(data))
            if not d:
                return None
            data += d
        return struct.pack("<I", cmd), a0, a1, data

    def _main(self):
        try:
            conn, _ = self.lsock.accept()
        except Exception as exc:  # noqa
            self.error = exc
            return
        try:
            conn.settimeout(10.0)
            conn.setsockopt(socket.IPPROTO_TCP, socket.TCP_NODELAY, 1)
            m = self._read_msg(conn)
            if m is None or m[0] != b"CNXN":
                return
            conn.sendall(_adb_msg(b"CNXN", 0x01000000, 4096, b"device::trickle\0"))
            m = self._read_msg(conn)
            if m is None or m[0] != b"OPEN":
                return
            local = m[1]
            if self.mode == "eof_open":
                return                      # orderly end of stream instead of the answer to OPEN (adbd restarting)
            conn.sendall(_adb_msg(b"OKAY", 77, local))
            raw = _adb_msg(b"WRTE", 77, local, bytes((i * 7) & 0xFF for i in range(self.payload_len)))
            if self.mode == "eof_mid":
                conn.sendall(raw[:24 + self.payload_len // 2])   # ... or in the middle of a packet
                return
            i = 0
            while i < len(raw) and not self.stop:
                conn.sendall(raw[i:i + self.step])
                i += self.step
                time.sleep(self.gap)
            if not self.stop:
                # a host that (wrongly) waited for the whole packet gets a regular end of stream
                conn.sendall(_adb_msg(b"CLSE", 77, local))
                conn.settimeout(3.0)
                while conn.recv(4096):
                    pass
        except Exception as exc:  # noqa  (the host gives up and closes: expected)
            if not isinstance(exc, (BrokenPipeError, ConnectionResetError, socket.timeout, OSError)):
                self.error = exc
        finally:
            try:
                conn.close()
            except Exception:  # noqa
                pass
            self.lsock.close()


def check_trickle_session(ctx, impl, tt=0.2, rt=0.5, payload_len=120, step=1, gap=0.05, mode="trickle"):
    """C11 on a REAL socket, through the real TcpTransport / TcpTransportAsync: a stream operation whose packet trickles in more slowly than
    read_timeout_s allows must fail with a timeout kind within the bound proved for the model (R + 2(R + max(D, tau)) per wait, one wait for
    the OPEN's OKAY having succeeded), and must not return the data."""
    import adb_shell.adb_device as sync_mod
    import adb_shell.adb_device_async as async_mod
    from adb_shell import exceptions
    rep = ctx.report
    sync_mod.time = time
    async_mod.time = time
    server = TrickleServer(payload_len, step, gap, mode)
    total_trickle = (24 + payload_len) / float(step) * gap
    bound = rt + 2 * (rt + tt) + LATE_SLACK
    hang_after = bound + 6.0
    t0 = time.monotonic()
    res = None
    try:
        if impl == "sync":
            dev = sync_mod.AdbDeviceTcp("127.0.0.1", server.port, default_transport_timeout_s=2.0)
            dev.connect(auth_timeout_s=2.0, read_timeout_s=2.0)
            t0 = time.monotonic()
            box = {}

            def call():
                try:
                    box["res"] = ("ok", dev.shell("x", transport_timeout_s=tt, read_timeout_s=rt, decode=False))
                except BaseException as exc:  # noqa
                    box["res"] = ("err", exc)
            th = threading.Thread(target=call, name="c18-stalled-op", daemon=True)
            th.start()
            th.join(hang_after)
            el = time.monotonic() - t0
            if th.is_alive():
                res = ("hang", None)     # the thread is abandoned (daemon); it may keep spinning until the process ends
            else:
                res = box["res"]
                try:
                    dev.close()
                except Exception:  # noqa
                    pass
        else:
            async def go():
                dev = async_mod.AdbDeviceTcpAsync("127.0.0.1", server.port, default_transport_timeout_s=2.0)
                await dev.connect(auth_timeout_s=2.0, read_timeout_s=2.0)
                t1 = time.monotonic()
                try:
                    r = ("ok", await dev.shell("x", transport_timeout_s=tt, read_timeout_s=rt, decode=False))
                except BaseException as exc:  # noqa
                    r = ("err", exc)
                e = time.monotonic() - t1
                try:
                    await dev.close()
                except Exception:  # noqa
                    pass
                return r, e
            loop = asyncio.new_event_loop()
            try:
                try:
                    res, el = loop.run_until_complete(asyncio.wait_for(go(), hang_after + 4.0))
                except asyncio.TimeoutError:
                    res, el = ("hang", None), time.monotonic() - t0
            finally:
                loop.close()
    except BaseException as exc:  # noqa
        res, el = ("err-setup", exc), time.monotonic() - t0
    server.stop = True
    server.thread.join(5)
    rep.evaluations += 1
    rep.count("trickle_session", "%s %s %s" % (impl, mode, res[0] if res[0] != "err" else type(res[1]).__name__))
    case = dict(test="trickle", impl=impl, tt=tt, rt=rt, payload_len=payload_len, step=step, gap=gap, mode=mode)
    what = {"trickle": "whose packet trickles in 1 byte / %.0f ms" % (gap * 1000), "eof_open": "that ends the stream instead of answering OPEN",
            "eof_mid": "that ends the stream in the middle of a packet"}[mode]
    if res[0] == "hang":
        return dict(case=case, why="%s shell on a device %s was still blocked after %.1f s (bound for one wait %.2f s; read_timeout_s=%.2f, transport_timeout_s=%.2f): no timeout was raised" % (
            impl, what, el, bound, rt, tt), kinds=["hang"], signature=SIG)
    if res[0] == "err-setup":
        return dict(case=case, why="trickle session over loopback: connect failed: %r" % (res[1],), kinds=["infra"], signature=SIG)
    timeout_kinds = (exceptions.AdbTimeoutError, exceptions.TcpTimeoutException)
    if res[0] == "ok":
        return dict(case=case, why="%s shell returned %d bytes after %.2f s although its packet trickled in over %.1f s (read_timeout_s=%.2f, transport_timeout_s=%.2f): "
                    "no timeout was raised" % (impl, len(res[1]), el, total_trickle, rt, tt), kinds=["no-timeout"], signature=SIG)
    if not isinstance(res[1], timeout_kinds):
        return dict(case=case, why="%s shell on a trickling device raised %s, not a timeout kind" % (impl, type(res[1]).__name__), kinds=["wrong-exception"], signature=SIG)
    if el > bound:
        return dict(case=case, why="%s shell on a trickling device gave up after %.2f s; the bound for one wait is %.2f s (read_timeout_s=%.2f, transport_timeout_s=%.2f)" % (
            impl, el, bound, rt, tt), kinds=["late"], signature=SIG)
    rep.signatures.add(("trickle", impl, mode))
    rep.sample("%s shell over loopback, device %s: %s after %.2f s (bound %.2f s)" % (impl, what, type(res[1]).__name__, el, bound))
    return None


# ---------------------------------------------------------------------------------------------------------------------
# unit interface
# ---------------------------------------------------------------------------------------------------------------------
def leftover_threads():
    return [t.name for t in threading.enumerate() if t.name.startswith("c18-")]


def run(ctx):
    rep = ctx.report
    quick = ctx.tier == "quick"
    rep.rule = ("real loopback connections. Stream traces: per transport, peer writes a seeded stream in fragments {1,2,100,1460,65536,mix} with pauses "
                "{0,1ms,30ms,mix} (+ one stall longer than the timeout in a third of them), host reads sizes {1,24,4096,2^20,mix} with timeouts {0.05,0.2}, "
                "ending in an idle-read timeout or the peer's EOF, close twice. Non-trivial = at least one short read or timeout; distinct by (transport, fragment, pause, "
                "read size, timeout, stall, ending, #timeouts capped at 2). Plus idle/reconnect/1 MiB-write tests per transport and whole sessions (variant x transport).")
    fails = []

    def note(f):
        if f:
            fails.append(f)
            rep.prop_failures.append(f)

    n = max(2, int((20 if quick else 60) * ctx.budget))
    for plan in plans_for(ctx, n, 131072 if quick else (1 << 20)):
        note(check_stream(ctx, plan))
        if len(fails) > 10:
            break
    for kind in ("sync", "async"):
        for timeout in TIMEOUTS:
            note(check_idle(ctx, kind, timeout))
        note(check_reconnect(ctx, kind))
        note(check_reset(ctx, kind))
        note(check_poll(ctx, kind))
        note(check_write(ctx, kind, 1 << 20 if quick else 5 << 20))
        for mode in ("trickle", "eof_open", "eof_mid"):
            note(check_trickle_session(ctx, kind, mode=mode))
    observe_async_write_timeout(ctx)
    nsess = 2 if quick else 6
    for v in range(nsess):
        for impl in ("sync", "async"):
            note(check_session(ctx, impl, ctx.rng.getrandbits(32), v))
    left = leftover_threads()
    if left:
        rep.notes.append("threads still alive at the end: %r" % (left,))
    rep.notes.append("all wall-clock judgements: timeout not earlier than t-%.0f ms, not later than t+%.1f s; timing-only verdicts are re-measured once" % (EARLY_SLACK * 1000, LATE_SLACK))


def search(ctx, disagreements, proofs):
    for plan in plans_for(ctx, max(2, int(5 * ctx.budget)), 65536):
        f = check_stream(ctx, plan)
        if f:
            return f
    for kind in ("sync", "async"):
        for f in (check_idle(ctx, kind, 0.05), check_reconnect(ctx, kind), check_write(ctx, kind)):
            if f:
                return f
    return None


def replay(ctx, payload):
    fl = payload.get("failure") or {}
    case = fl.get("case")
    if not case:
        print("nothing to replay: %s" % payload.get("kind"))
        return True
    test = case.get("test")
    if test == "stream":
        f = check_stream(ctx, replan(case["plan"]))
    elif test == "idle":
        f = check_idle(ctx, case["transport"], case["timeout"])
    elif test == "reconnect":
        f = check_reconnect(ctx, case["transport"])
    elif test == "reset":
        f = check_reset(ctx, case["transport"])
    elif test == "poll":
        f = check_poll(ctx, case["transport"])
    elif test == "write":
        f = check_write(ctx, case["transport"], case.get("size", 1 << 20), case.get("bufsize", 8192))
    elif test == "session":
        f = check_session(ctx, case["impl"], case["seed"], case["variant"])
    elif test == "trickle":
        f = check_trickle_session(ctx, case["impl"], case["tt"], case["rt"], case["payload_len"], case["step"], case["gap"], case.get("mode", "trickle"))
    else:
        print("unknown case %r" % (case,))
        return True
    if f:
        print("FAIL:", f["why"])
    return f is None
