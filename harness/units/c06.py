"""C06 -- concurrent streams are isolated: no cross-talk, loss, duplication or deadlock (K1 is a known finding)."""
from units import conc


def run(ctx):
    ctx.report.rule = ("2-3 real threads, and separately 2-3 asyncio tasks, each running the real _read_until_close on its own stream of ONE AdbDevice(Async) "
                       "under a baton scheduler (one runs at a time; control changes at every lock acquisition outside the transport-lock section); the wire "
                       "carries the streams' WRTE/CLSE packets interleaved in a seeded order, ids from {1,2,3,7,2^32-1,random}; the observed sequence of atomic "
                       "sections is replayed through the Lean interleaving model and per-reader deliveries / the lost list are compared; oracle: every reader "
                       "gets exactly its own payloads in order and completes, no deadlock. The K1 witness schedule runs first. Non-trivial = some payload "
                       "delivered and at least two readers took steps; distinct by (mode, schedule prefix, ids).")
    conc.run_c06(ctx)
    conc.conc_sessions(ctx)


def search(ctx, disagreements, proofs):
    before = len(ctx.report.prop_failures)
    conc.run_c06(ctx)
    conc.conc_sessions(ctx)
    fails = [f for f in ctx.report.prop_failures[before:] if f["signature"]["kind"] != "lost-clse-no-entry"]
    return fails[0] if fails else None


def replay(ctx, payload):
    fl = payload.get("failure") or {}
    if (fl.get("case") or {}).get("kind") == "conc-sessions":
        return conc.replay_conc_sessions(ctx, fl)
    return conc.replay_c06(ctx, payload)
