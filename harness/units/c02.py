"""C02 -- every packet the host emits is a well-formed ADB message.

Correspondence: adb_message.AdbMessage.pack / unpack / checksum  vs  Adb.Msg.pack? / Adb.unpack / Adb.checksum.
Property oracle (Lean, evaluated on the implementation's bytes): Adb.parseStrict must split header+payload into exactly
the one message that was built (known command, magic = complement, length, checksum), and unpack(pack) = fields.
Session-level part: the outbound byte stream of whole API sessions is parsed by the same oracle (see units/session.py).
"""
import struct

from common import hx

IDS = ["AUTH", "CLSE", "CNXN", "OKAY", "OPEN", "SYNC", "WRTE"]
EDGE = [0, 1, 2, 255, 256, 65535, 65536, 2 ** 31 - 1, 2 ** 31, 2 ** 32 - 2, 2 ** 32 - 1]


def _cls(n):
    if n in (0, 1):
        return str(n)
    if n >= 2 ** 32:
        return ">=2^32"
    if n < 0:
        return "<0"
    return "2^%d" % n.bit_length()


def gen_cases(ctx):
    rng = ctx.rng
    quick = ctx.tier == "quick"
    n = int((1500 if quick else 12000) * ctx.budget)
    sizes = [0, 1, 2, 3, 23, 24, 25, 255, 256, 257, 4095, 4096, 65535, 65536]
    if not quick:
        sizes += [65537, 262144, 1 << 20]
    cases = []
    # systematic part: every command x edge args x a few sizes
    for cmd in IDS:
        for a in EDGE:
            cases.append((cmd, a, EDGE[(EDGE.index(a) * 7 + 3) % len(EDGE)], b"", "bytes"))
        for s in sizes:
            fill = rng.choice([b"\x00", b"\xff", None])
            data = (fill * s) if fill else bytes(rng.getrandbits(8) for _ in range(min(s, 70000)))
            cases.append((cmd, rng.choice(EDGE), rng.choice(EDGE), data, rng.choice(["bytes", "bytearray"])))
    # payloads whose byte sum crosses 2^24 (all-0xFF of >= 65794 bytes): checksum mask matters only above 2^32, which needs
    # >= 16 MiB -- out of range for the API (maxdata <= 1 MiB); the theorem covers it, the sample covers sums up to 2^28
    if not quick:
        cases.append(("WRTE", 1, 2, b"\xff" * (1 << 20), "bytes"))
    # out-of-range arguments: struct.error on both sides
    for bad in (2 ** 32, 2 ** 32 + 5, 2 ** 40, -1):
        cases.append(("OKAY", bad, 1, b"", "bytes"))
        cases.append(("OKAY", 1, bad, b"x", "bytes"))
    while len(cases) < n:
        cmd = rng.choice(IDS)
        a0 = rng.choice(EDGE) if rng.random() < 0.4 else rng.getrandbits(32)
        a1 = rng.choice(EDGE) if rng.random() < 0.4 else rng.getrandbits(32)
        ln = rng.choice(sizes[:10]) if rng.random() < 0.5 else rng.randrange(0, 600)
        data = bytes(rng.getrandbits(8) for _ in range(ln))
        cases.append((cmd, a0, a1, data, rng.choice(["bytes", "bytearray"])))
    return cases


def run_case_impl(case):
    from adb_shell import constants
    from adb_shell.adb_message import AdbMessage, checksum, unpack
    cmd, a0, a1, data, typ = case
    d = bytearray(data) if typ == "bytearray" else bytes(data)
    try:
        msg = AdbMessage(cmd.encode(), a0, a1, d)
        hdr = msg.pack()
    except struct.error:
        return dict(res="err StructError")
    out = dict(res="ok", hdr=bytes(hdr), sum=checksum(d), magic=msg.magic, wire=msg.command)
    try:
        out["unpacked"] = tuple(unpack(hdr))
    except ValueError:
        out["unpacked"] = "ValueError"
    return out


def check_cases(ctx, cases):
    rep = ctx.report
    lines = []
    impls = []
    for case in cases:
        cmd, a0, a1, data, typ = case
        impl = run_case_impl(case)
        impls.append(impl)
        if a0 < 0 or a1 < 0:
            lines.append(None)   # the model's Nat has no negatives; Python rejects them like >= 2^32
        else:
            lines.append("codec pack %s %d %d %s" % (cmd, a0, a1, hx(data)))
    replies = ctx.driver.ask_many([l for l in lines if l])
    it = iter(replies)
    parse_lines, parse_idx = [], []
    for i, (case, impl, line) in enumerate(zip(cases, impls, lines)):
        cmd, a0, a1, data, typ = case
        rep.evaluations += 1
        rep.count("cmd", cmd)
        rep.count("payload_len", _cls(len(data)))
        rep.count("arg_class", _cls(a0))
        rep.count("container", typ)
        model = next(it) if line else "err StructError"
        if impl["res"] != "ok":
            rep.count("outcome", "StructError")
            if model != impl["res"]:
                rep.disagreements.append(dict(unit="codec.pack", case=[cmd, a0, a1, hx(data), typ], impl=impl["res"], model=model))
            continue
        rep.count("outcome", "ok")
        expect = "ok %s sum=%d magic=%d wire=%d" % (hx(impl["hdr"]), impl["sum"], impl["magic"], impl["wire"])
        if model != expect:
            rep.disagreements.append(dict(unit="codec.pack", case=[cmd, a0, a1, hx(data), typ], impl=expect[:200], model=model[:200]))
        # property oracle, part 1 (round trip through the implementation's own unpack)
        want = (impl["wire"], a0, a1, len(data), sum(data) % 2 ** 32)
        if impl["unpacked"] != want:
            rep.prop_failures.append(dict(case=["pack", cmd, a0, a1, hx(data), typ], why="unpack(pack(m)) = %r, expected %r" % (impl["unpacked"], want),
                                          signature=dict(kind="roundtrip")))
        parse_lines.append("codec parse %s" % hx(impl["hdr"] + bytes(data)))
        parse_idx.append(i)
        if len(data) > 0 or a0 or a1:
            rep.signatures.add((cmd, _cls(a0), _cls(a1), _cls(len(data)), sum(data) > 2 ** 16))
        if len(data) < 40:
            rep.sample("pack(%s, %d, %d, %s) -> %s" % (cmd, a0, a1, hx(data), hx(impl["hdr"])))
    # property oracle, part 2: the Lean strict parser on the implementation's bytes
    for i, reply in zip(parse_idx, ctx.driver.ask_many(parse_lines)):
        cmd, a0, a1, data, typ = cases[i]
        want = "ok n=1 rest=0 %s:%d:%d:%d" % (cmd, a0, a1, len(data))
        rep.traces_validated += 1
        if reply != want:
            rep.prop_failures.append(dict(case=["pack", cmd, a0, a1, hx(data), typ], why="emitted bytes do not parse as the one well-formed message: %s (wanted %s)" % (reply[:120], want),
                                          signature=dict(kind="malformed-emission")))


def check_unpack(ctx):
    """unpack / checksum on arbitrary input: correspondence only (no property clause beyond the round trip)."""
    from adb_shell.adb_message import checksum, unpack
    rng, rep = ctx.rng, ctx.report
    n = int((400 if ctx.tier == "quick" else 4000) * ctx.budget)
    blobs = []
    for _ in range(n):
        ln = 24 if rng.random() < 0.8 else rng.choice([0, 1, 23, 25, 48])
        blobs.append(bytes(rng.getrandbits(8) for _ in range(ln)))
    replies = ctx.driver.ask_many(["codec unpack %s" % hx(b) for b in blobs] + ["codec checksum %s" % hx(b) for b in blobs])
    for b, r in zip(blobs, replies[:n]):
        rep.evaluations += 1
        try:
            got = "ok %d %d %d %d %d" % tuple(unpack(b))
        except ValueError:
            got = "err ValueError"
        rep.count("unpack_outcome", got.split()[0] + ("" if got.startswith("ok") else " ValueError"))
        if got != r:
            rep.disagreements.append(dict(unit="codec.unpack", case=hx(b), impl=got, model=r))
    for b, r in zip(blobs, replies[n:]):
        rep.evaluations += 1
        for conv in (bytes, bytearray):
            got = "ok %d" % checksum(conv(b))
            if got != r:
                rep.disagreements.append(dict(unit="codec.checksum", case=hx(b), impl=got, model=r))


def check_huge_sums(ctx):
    """Payloads whose byte sum reaches 2^32 (>= 16 843 009 bytes of 0xFF; the OPEN payload of a very long command is not bounded by
    maxdata).  Oracle only (independent arithmetic): the model's theorem covers all sums; shipping 32 MB of hex to the driver per case
    is left to the thorough tier."""
    from adb_shell.adb_message import AdbMessage, checksum
    rep = ctx.report
    for n in (16843009, 16843010, 16843009 + 4096):
        data = b"\xff" * n
        want = (255 * n) % (1 << 32)
        rep.evaluations += 1
        rep.count("payload_len", ">=2^24")
        for conv in (bytes, bytearray):
            got = checksum(conv(data))
            if got != want:
                rep.prop_failures.append(dict(case=["huge", n, conv.__name__], why="checksum of %d bytes of 0xFF is %d, byte sum mod 2^32 is %d" % (n, got, want),
                                              signature=dict(kind="checksum-mod")))
        hdr = AdbMessage(b"OPEN", 1, 0, data).pack()
        field = int.from_bytes(hdr[16:20], "little")
        if field != want or int.from_bytes(hdr[12:16], "little") != n:
            rep.prop_failures.append(dict(case=["huge", n, "pack"], why="packed header announces length %d checksum %d; payload has %d bytes, byte sum mod 2^32 = %d" % (
                int.from_bytes(hdr[12:16], "little"), field, n, want), signature=dict(kind="checksum-mod")))
        rep.signatures.add(("huge", n))
        if ctx.tier == "thorough" and n == 16843009:
            r = ctx.driver.ask("codec checksum " + data.hex())
            if r != "ok %d" % want:
                rep.disagreements.append(dict(unit="codec.checksum", case="0xFF x %d" % n, impl=want, model=r))


def run(ctx):
    ctx.report.rule = ("AdbMessage.pack/unpack/checksum driven directly: all 7 commands x edge 32-bit arguments x payload sizes "
                       "{0..65536 (thorough: 1 MiB)} as bytes and bytearray, out-of-range arguments, random headers for unpack; plus the outbound "
                       "byte stream of API sessions. Non-trivial = non-empty payload or non-zero argument; distinct by (command, arg bit-length classes, "
                       "payload-length class, byte-sum class).")
    check_cases(ctx, gen_cases(ctx))
    check_unpack(ctx)
    check_huge_sums(ctx)
    # API level: the outbound byte stream of whole sessions (every operation kind, short writes included) through the Lean parser
    import oracles
    import scen
    from units import sesscheck
    n = int((40 if ctx.tier == "quick" else 800) * ctx.budget)
    scns = [ctx.rng.choice([scen.gen_mixed, scen.gen_push, scen.gen_handshake, scen.gen_short_writes, scen.gen_fail, scen.gen_slow])(ctx.rng) for _ in range(n)]
    # slow devices with whole-command limits expiring at every point of an exchange (also inside a message being written)
    scns += [scen.gen_slow(ctx.rng) for _ in range(n)]
    sesscheck.check_scenarios(ctx, scns, (oracles.o_c02,), "api-streams")
    # a message cut in the middle by a write-side failure over a short-writing transport, then a new connection: every connection's byte stream is whole messages
    from units import c12
    fs = []
    for _ in range(max(2, n // 8)):
        fs += c12.gen_faulted_short(ctx.rng)
    sesscheck.check_scenarios(ctx, fs, (oracles.o_c02, oracles.o_locks), "fault-short")
    # concurrent senders: header and payload of one message must not be separated by another thread's/task's message
    from units import conc
    conc.conc_sessions(ctx, int((20 if ctx.tier == "quick" else 300) * ctx.budget))
    # two AdbDevice objects sending at once over short-writing transports: state shared between objects is not covered by per-device locks
    conc.conc_two_devices(ctx, int((20 if ctx.tier == "quick" else 300) * ctx.budget))


def search(ctx, disagreements, proofs):
    """After a broken proof/correspondence: more cases, oracle only."""
    before = len(ctx.report.prop_failures)
    check_cases(ctx, gen_cases(ctx))
    if len(ctx.report.prop_failures) == before:
        import oracles
        import scen
        from units import sesscheck
        scns = [ctx.rng.choice([scen.gen_mixed, scen.gen_push, scen.gen_handshake, scen.gen_short_writes])(ctx.rng) for _ in range(int(60 * ctx.budget))]
        sesscheck.check_scenarios(ctx, scns, (oracles.o_c02,), "api-streams")
    if len(ctx.report.prop_failures) == before:
        import oracles
        from units import c12, sesscheck
        fs = []
        for _ in range(max(4, int(6 * ctx.budget))):
            fs += c12.gen_faulted_short(ctx.rng)
        sesscheck.check_scenarios(ctx, fs, (oracles.o_c02, oracles.o_locks), "fault-short")
    if len(ctx.report.prop_failures) == before:
        from units import conc
        conc.conc_sessions(ctx, int(30 * ctx.budget))
        conc.conc_two_devices(ctx, int(20 * ctx.budget))
    fails = ctx.report.prop_failures[before:]
    return fails[0] if fails else None


def shrink(ctx, failure):
    case = failure.get("case")
    if failure.get("no_shrink") or (case and not isinstance(case, dict) and case[0] == "huge"):
        return failure
    if isinstance(case, dict):
        import oracles
        from units import sesscheck
        return sesscheck.shrink(ctx, failure, (oracles.o_c02,))
    if not case or case[0] != "pack":
        return failure
    from common import unhx
    _, cmd, a0, a1, hexd, typ = case
    data = unhx(hexd)

    def fails(c):
        sub = type(ctx)(ctx.prop, ctx.tier, ctx.seed)
        sub.driver = ctx.driver
        check_cases(sub, [c])
        return bool(sub.report.prop_failures)
    best = (cmd, a0, a1, data, typ)
    for cand_data in (b"", data[:1], data[: len(data) // 2]):
        c = (cmd, a0, a1, cand_data, typ)
        if len(cand_data) < len(best[3]) and fails(c):
            best = c
    for a in (0, 1):
        c = (best[0], a, best[2], best[3], best[4])
        if fails(c):
            best = c
            break
    failure = dict(failure)
    failure["case"] = ["pack", best[0], best[1], best[2], hx(best[3]), best[4]]
    return failure


def replay(ctx, payload):
    from common import unhx
    fl = payload.get("failure") or {}
    case = fl.get("case")
    if isinstance(case, dict):
        import oracles
        from units import sesscheck
        if case.get("kind") == "conc-sessions":
            from units import conc
            return conc.replay_conc_sessions(ctx, fl)
        if case.get("kind") == "conc-two-devices":
            from units import conc
            return conc.replay_conc_two_devices(ctx, fl)
        return sesscheck.replay(ctx, payload, (oracles.o_c02,))
    if case and case[0] == "huge":
        before = len(ctx.report.prop_failures)
        check_huge_sums(ctx)
        for f in ctx.report.prop_failures[before:]:
            print("FAIL:", f["why"])
        return len(ctx.report.prop_failures) == before
    if not case or case[0] != "pack":
        print("nothing to replay: %s" % payload.get("kind"))
        return True
    _, cmd, a0, a1, hexd, typ = case
    check_cases(ctx, [(cmd, a0, a1, unhx(hexd), typ)])
    for f in ctx.report.prop_failures:
        print("FAIL:", f["why"])
    return not ctx.report.prop_failures
