"""Shared machinery of the session-based units: run scenarios on AdbDevice and AdbDeviceAsync and on the Lean model,
compare observables (correspondence), evaluate oracles on the implementation runs (property), shrink, replay."""
import copy
import traceback

import oracles
import scen
import session
from common import hx


def signature(scn, obs):
    sig = []
    for op, o in zip(scn["ops"], obs):
        r = o["res"]
        cls = r.split(":")[0] if r.startswith("err") else "ok"
        size = len(o["peer"]) // 2 if o["peer"] != "-" else 0
        sig.append((op["op"], cls, size.bit_length(), len(o["ev"]) > 2))
    return tuple(sig)


def nontrivial(scn, obs):
    return any((o["res"].startswith("ok") and o["peer"] != "-") or (o["res"].startswith("err") and "AdbConnectionError" not in o["res"]) for o in obs)


def run_one(ctx, scn, impls=("sync", "async"), oracle_fns=(), compare=True, detail=False):
    """Returns (prop_failures, disagreements, obs_by_impl)."""
    pfs, dis, by_impl = [], [], {}
    for impl in impls:
        try:
            impl_obs, model_obs, runner = session.run_scenario(ctx.driver, copy.deepcopy(scn), impl, detail)
        except Exception as exc:  # harness problem: report loudly as a disagreement with the traceback
            dis.append(dict(unit="session", impl=impl, why="harness exception %r" % (exc,), tb=traceback.format_exc()[-1500:]))
            continue
        by_impl[impl] = impl_obs
        if compare:
            for i, (a, b) in enumerate(zip(impl_obs, model_obs)):
                d = session.compare_op(a, b)
                if d:
                    dis.append(dict(unit="session", impl=impl, op=i, opname=scn["ops"][i]["op"], diffs=d))
                    break
        for fn in oracle_fns:
            try:
                if fn in (oracles.o_c02, oracles.o_lean_c01, oracles.o_lean_sync, oracles.o_lean_c07, oracles.o_lean_c04):
                    fl = fn(scn, impl_obs, runner, ctx.driver)
                else:
                    fl = fn(scn, impl_obs, runner)
            except Exception as exc:
                dis.append(dict(unit="oracle", impl=impl, why="oracle %s raised %r" % (fn.__name__, exc), tb=traceback.format_exc()[-1500:]))
                continue
            for f in fl:
                f = dict(f, impl=impl, oracle=fn.__name__)
                pfs.append(f)
    if "sync" in by_impl and "async" in by_impl:
        for i, (a, b) in enumerate(zip(by_impl["sync"], by_impl["async"])):
            d = session.compare_op(a, b)
            if d:
                pfs_or_dis = dict(unit="twins", op=i, opname=scn["ops"][i]["op"], diffs=d, why="AdbDevice and AdbDeviceAsync differ on %s: %r" % (scn["ops"][i]["op"], d[:2]))
                dis.append(pfs_or_dis)
                break
    return pfs, dis, by_impl


def check_scenarios(ctx, scns, oracle_fns, family, impls=("sync", "async"), twins_are_property=False):
    rep = ctx.report
    for scn in scns:
        pfs, dis, by_impl = run_one(ctx, scn, impls, oracle_fns, compare=not scn.get("oracle_only") and not ctx.searching)
        rep.evaluations += len(by_impl)
        rep.traces_validated += len(by_impl)
        rep.count("family", family)
        obs = by_impl.get("sync") or by_impl.get("async") or []
        for op, o in zip(scn["ops"], obs):
            rep.count("op", op["op"])
            r = o["res"]
            rep.count("outcome", r.split(":")[0].split(" ")[1] if r.startswith("err") else "ok")
        if obs and nontrivial(scn, obs):
            rep.signatures.add((family,) + signature(scn, obs))
        if obs and len(rep.samples) < 5 and nontrivial(scn, obs):
            rep.sample(dict(family=family, ops=[session.op_line(op)[8:140] for op in scn["ops"]], results=[o["res"][:80] for o in obs]))
        for f in pfs:
            rep.prop_failures.append(dict(f, case=scen.enc(scn), family=family, signature=dict(kind=f.get("oracle", "oracle"))))
        for d in dis:
            if twins_are_property and d.get("unit") == "twins":
                rep.prop_failures.append(dict(d, case=scen.enc(scn), family=family, signature=dict(kind="twins-differ")))
            else:
                rep.disagreements.append(dict(d, case=scen.enc(scn), family=family))
        if len(rep.prop_failures) > 10 or (len(rep.disagreements) > 10 and not ctx.searching):
            break


def shrink(ctx, failure, oracle_fns, twins_are_property=False):
    """Drop ops (never the first connect) while some oracle still fails."""
    scn = scen.dec(failure["case"])

    def fails(s):
        try:
            pfs, dis, _ = run_one(ctx, s, ("sync", "async"), oracle_fns, compare=False)
        except Exception:
            return None
        if twins_are_property:
            pfs = pfs + [d for d in dis if d.get("unit") == "twins"]
        return pfs[0] if pfs else None
    best = fails(scn)
    if not best:
        return failure
    changed = True
    while changed and len(scn["ops"]) > 1:
        changed = False
        for i in range(len(scn["ops"]) - 1, -1, -1):
            if scn["ops"][i]["op"] == "connect" and i == 0:
                continue
            cand = copy.deepcopy(scn)
            del cand["ops"][i]
            f = fails(cand)
            if f:
                scn, best, changed = cand, f, True
                break
    for env in scn["envs"]:
        cand = copy.deepcopy(scn)
        for e in cand["envs"]:
            e["frags"] = []
            e["sim"]["stray"] = []
        f = fails(cand)
        if f:
            scn, best = cand, f
        break
    out = dict(best, case=scen.enc(scn), family=failure.get("family"), signature=failure.get("signature"),
               ops=[session.op_line(op)[8:200] for op in scn["ops"]])
    return out


def replay(ctx, payload, oracle_fns, twins_are_property=False):
    fl = payload.get("failure") or {}
    if "case" not in fl:
        print("nothing to replay: %s" % payload.get("kind"))
        return True
    scn = scen.dec(fl["case"])
    pfs, dis, by_impl = run_one(ctx, scn, ("sync", "async"), oracle_fns, compare=True)
    if twins_are_property:
        pfs = pfs + [d for d in dis if d.get("unit") == "twins"]
    for impl, obs in by_impl.items():
        for op, o in zip(scn["ops"], obs):
            print("  %s %-16s %s" % (impl, op["op"], o["res"][:100]))
    for f in pfs:
        print("FAIL:", f.get("why"))
    return not pfs
