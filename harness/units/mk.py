"""Factory for the session-based property units."""
import copy

import oracles
import scen
from units import sesscheck


class Unit(object):
    def __init__(self, families, oracle_fns, rule, quick_n, thorough_n, twins_are_property=False, extra_run=None):
        self.families = families          # list of (name, generator(rng) -> scenario or list of scenarios, weight)
        self.oracle_fns = tuple(oracle_fns)
        self.rule = rule
        self.quick_n, self.thorough_n = quick_n, thorough_n
        self.twins = twins_are_property
        self.extra_run = extra_run

    def batch(self, ctx, n):
        total_w = sum(w for _, _, w in self.families)
        for name, gen, w in self.families:
            k = max(1, int(n * w / total_w))
            scns = []
            for _ in range(k):
                s = gen(ctx.rng)
                scns += s if isinstance(s, list) else [s]
            sesscheck.check_scenarios(ctx, scns, self.oracle_fns, name, twins_are_property=self.twins)

    def run(self, ctx):
        ctx.report.rule = self.rule
        n = int((self.quick_n if ctx.tier == "quick" else self.thorough_n) * ctx.budget)
        self.batch(ctx, n)
        if self.extra_run:
            self.extra_run(ctx)

    def search(self, ctx, disagreements, proofs):
        before = len(ctx.report.prop_failures)
        self.batch(ctx, int(self.quick_n * ctx.budget))
        if self.extra_run:
            self.extra_run(ctx)
        fails = ctx.report.prop_failures[before:]
        return fails[0] if fails else None

    def shrink(self, ctx, failure):
        if failure.get("no_shrink"):
            return failure
        return sesscheck.shrink(ctx, failure, self.oracle_fns, self.twins)

    def replay(self, ctx, payload):
        fl = payload.get("failure") or {}
        if fl.get("replay_with"):
            return REPLAYERS[fl["replay_with"]](ctx, fl)
        return sesscheck.replay(ctx, payload, self.oracle_fns, self.twins)

    def export(self, g):
        g["run"], g["search"], g["shrink"], g["replay"] = self.run, self.search, self.shrink, self.replay


REPLAYERS = {}
COMMON = (oracles.o_locks, oracles.o_c14, oracles.o_healthy)


def metamorphic(ctx, scns_groups, family, fields, why, oracle_name):
    """Each group is [baseline, variant, ...]: every variant must give the same `fields` as the baseline (on both twins)."""
    import session
    rep = ctx.report
    for group in scns_groups:
        base = None
        for gi, scn in enumerate(group):
            for impl in ("sync", "async"):
                try:
                    impl_obs, model_obs, runner = session.run_scenario(ctx.driver, copy.deepcopy(scn), impl)
                except Exception as exc:
                    rep.disagreements.append(dict(unit="session", why="harness exception %r" % (exc,), case=scen.enc(scn)))
                    continue
                rep.evaluations += 1
                rep.traces_validated += 1
                rep.count("family", family)
                for i, (a, b) in enumerate(zip(impl_obs, model_obs)):
                    d = session.compare_op(a, b)
                    if d:
                        rep.disagreements.append(dict(unit="session", impl=impl, op=i, opname=scn["ops"][i]["op"], diffs=d, case=scen.enc(scn), family=family))
                        break
                if base is None:
                    base = impl_obs
                    rep.signatures.add((family,) + sesscheck.signature(scn, impl_obs))
                else:
                    d = oracles.same_results(base, impl_obs, fields)
                    if d:
                        rep.prop_failures.append(dict(op=d[0], impl=impl, why="%s: op %d field %s: baseline %s, variant %d %s" % (why, d[0], d[1], d[2], gi, d[3]),
                                                      case=scen.enc(scn), baseline=scen.enc(group[0]), family=family, oracle=oracle_name,
                                                      signature=dict(kind=oracle_name), no_shrink=True, replay_with=oracle_name, fields=list(fields)))
        if len(rep.prop_failures) > 10 or (len(rep.disagreements) > 10 and not ctx.searching):
            break


def _replay_meta(ctx, fl):
    import session
    base, var = scen.dec(fl["baseline"]), scen.dec(fl["case"])
    ok = True
    for impl in ("sync", "async"):
        a, _, _ = session.run_scenario(ctx.driver, copy.deepcopy(base), impl)
        b, _, _ = session.run_scenario(ctx.driver, copy.deepcopy(var), impl)
        d = oracles.same_results(a, b, tuple(fl.get("fields", ("res", "peer", "sink"))))
        if d:
            print("FAIL (%s): op %d field %s: baseline %s, variant %s" % (impl, d[0], d[1], d[2], d[3]))
            ok = False
    return ok


REPLAYERS["frag-independence"] = _replay_meta
REPLAYERS["callback-irrelevance"] = _replay_meta


def _replay_conc_sessions(ctx, fl):
    from units import conc
    return conc.replay_conc_sessions(ctx, fl)


REPLAYERS["conc-sessions"] = _replay_conc_sessions


def _replay_conc_two_devices(ctx, fl):
    from units import conc
    return conc.replay_conc_two_devices(ctx, fl)


REPLAYERS["conc-two-devices"] = _replay_conc_two_devices
