"""C15 -- every message reaches the peer completely."""
import oracles, scen
from units.mk import Unit, COMMON


def tcp_part(ctx):
    """C15 names it explicitly: a large push over real TCP with a transport timeout and small socket buffers arrives intact, and the
    count bulk_write reports is the number of bytes the peer really gets for that call (the loop in _send relies on it)."""
    from units import c18
    for kind in ("sync", "async"):
        f = c18.check_write(ctx, kind, 1 << 20)
        if f:
            ctx.report.prop_failures.append(dict(f, no_shrink=True, replay_with="c18"))
    for impl in ("sync", "async"):
        f = c18.check_session(ctx, impl, ctx.rng.getrandbits(32), 0)
        if f:
            ctx.report.prop_failures.append(dict(f, no_shrink=True, replay_with="c18"))


def _replay_c18(ctx, fl):
    from units import c18
    return c18.replay(ctx, dict(failure=fl))


from units import mk as _mk
_mk.REPLAYERS["c18"] = _replay_c18
Unit([("shortwrite", scen.gen_short_writes, 1)], (oracles.o_c02, oracles.o_c07, oracles.o_c01, oracles.o_c05, oracles.o_c04) + COMMON,
     "every scenario family over transports that accept {1 byte, 1..25 bytes, a header split k/24-k, random, everything-but-report-None} per write call; "
     "the bytes the peer received must parse as whole well-formed messages (Lean parser) and carry exact file contents/results. Non-trivial/distinct as for C01.",
     120, 3000, extra_run=tcp_part).export(globals())
