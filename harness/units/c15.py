"""C15 -- every message reaches the peer completely."""
import oracles, scen
from units.mk import Unit, COMMON


def tcp_part(ctx):
    """C15 names it explicitly: a large push over real TCP with a transport timeout and small socket buffers arrives intact, and the
    count bulk_write reports is the number of bytes the peer really gets for that call (the loop in _send relies on it)."""
    from units import c18
    for kind in ("sync", "async"):
        f = c18.check_write(ctx, kind, 1 << 20)
        if f:
            ctx.report.prop_failures.append(dict(f, no_shrink=True, replay_with="c18"))
    for impl in ("sync", "async"):
        f = c18.check_session(ctx, impl, ctx.rng.getrandbits(32), 0)
        if f:
            ctx.report.prop_failures.append(dict(f, no_shrink=True, replay_with="c18"))


def usb_part(ctx):
    """the same over the USB transport (fake usb1 backend in a subprocess): write cases with short / failing backend writes, and sessions"""
    from units import c20
    rep = ctx.report
    before = len(rep.prop_failures)
    cases = [c for c in c20.gen_grid(ctx.rng) + c20.gen_lifecycle(ctx.rng) + c20.gen_random(ctx.rng, int(40 * ctx.budget)) if any((op[0] if isinstance(op, (list, tuple)) else None) == "write" for op in c.get("ops", []))]
    for i in range(0, len(cases), 400):
        c20.check_cases(ctx, cases[i:i + 400])
    c20.check_sessions(ctx, [c20.gen_session(ctx.rng) for _ in range(max(2, int(4 * ctx.budget)))])
    for f in rep.prop_failures[before:]:
        f["no_shrink"] = True
        f["replay_with"] = "c20"


def _replay_c20(ctx, fl):
    from units import c20
    return c20.replay(ctx, dict(failure=fl))


def _replay_c18(ctx, fl):
    from units import c18
    return c18.replay(ctx, dict(failure=fl))


from units import mk as _mk
_mk.REPLAYERS["c18"] = _replay_c18
_mk.REPLAYERS["c20"] = _replay_c20


def _extra(ctx):
    tcp_part(ctx)
    usb_part(ctx)
Unit([("shortwrite", scen.gen_short_writes, 1)], (oracles.o_c02, oracles.o_c07, oracles.o_c01, oracles.o_c05, oracles.o_c04) + COMMON,
     "every scenario family over transports that accept {1 byte, 1..25 bytes, a header split k/24-k, random, everything-but-report-None} per write call; "
     "the bytes the peer received must parse as whole well-formed messages (Lean parser) and carry exact file contents/results. Non-trivial/distinct as for C01.",
     120, 3000, extra_run=_extra).export(globals())
