"""C15 -- every message reaches the peer completely."""
import oracles, scen
from units.mk import Unit, COMMON
Unit([("shortwrite", scen.gen_short_writes, 1)], (oracles.o_c02, oracles.o_c07, oracles.o_c01, oracles.o_c05, oracles.o_c04) + COMMON,
     "every scenario family over transports that accept {1 byte, 1..25 bytes, a header split k/24-k, random, everything-but-report-None} per write call; "
     "the bytes the peer received must parse as whole well-formed messages (Lean parser) and carry exact file contents/results. Non-trivial/distinct as for C01.",
     120, 3000).export(globals())
