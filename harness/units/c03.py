"""C03 -- inbound packets are reassembled and validated independent of read fragmentation."""
import oracles, scen
from units.mk import Unit, COMMON, metamorphic


def frag_groups(ctx):
    n = int((25 if ctx.tier == "quick" else 400) * ctx.budget)
    groups = []
    for _ in range(n):
        base = ctx.rng.choice([scen.gen_shell, scen.gen_sync_read, scen.gen_mixed, scen.gen_handshake, scen.gen_push])(ctx.rng)
        for op in base["ops"]:
            if op["op"] == "push" and op.get("mtime", 0) == 0:
                op["mtime"] = 1234567      # mtime=0 means "current time", which legitimately depends on how many reads were needed
        groups.append(scen.refragment(ctx.rng, base))
    metamorphic(ctx, groups, "refragment", ("res", "peer", "sink", "avail", "maxdata", "lid", "ev"),
                "the same device byte stream under a different read fragmentation gave a different result", "frag-independence")
    # several readers on one connection: every packet is still reassembled from ITS OWN bytes (a reader's header/payload reads must not interleave
    # with another reader's), whichever thread/task took it off the transport
    from units import conc
    conc.conc_sessions(ctx, int((30 if ctx.tier == "quick" else 400) * ctx.budget))


def _faulted(rng):
    # a packet cut in the middle by a transport failure, then a new connection (with or without close() in between): the new connection's packets are
    # reassembled from ITS bytes only
    from units import c12
    return c12.gen_faulted(rng)


Unit([("corrupt", scen.gen_corrupt, 4), ("shell", scen.gen_shell, 2), ("sync", scen.gen_sync_read, 2), ("fragslow", scen.gen_frag_slow, 2), ("fault", _faulted, 1)],
     (oracles.o_c03_overrequest, oracles.o_c03_corrupt, oracles.o_c01, oracles.o_c08, oracles.o_c09, oracles.o_c12_after_reconnect) + COMMON,
     "every base session is run under 6 read fragmentations (unfragmented, 1-byte, header split at a random offset 1..23, random 1..60, with empty reads, "
     "{23,24,25,4096}) and must give identical results/bytes sent (metamorphic); the fake transport flags any bulk_read asking for more than remains of "
     "the current packet; single packets get a wrong checksum or an unknown command word and must be rejected. Non-trivial/distinct as for C01.",
     120, 3000, extra_run=frag_groups).export(globals())
