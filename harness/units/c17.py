"""C17 -- key material is what adbd expects: signatures verify, the public key blob is correct.

Real code driven: adb_shell.auth.keygen.keygen / write_public_keyfile / get_user_info and the three shipped signer classes
(PythonRSASigner, CryptographySigner, PycryptodomeAuthSigner), each loading the key pair back from disk through its own loader.

Keys: fresh ones from keygen() (OS randomness -- NOT reproducible from the seed; a failing case therefore carries the private
key PEM so that it can be replayed) plus keys built deterministically from ctx.rng (own Miller-Rabin prime search, PEM written
with `cryptography`, `.pub` written by the implementation's write_public_keyfile).

Property oracle (independent of the Lean model), per (key, token, signer):
  * the signature verifies with cryptography's public_key.verify(sig, token, PKCS1v15(), Prehashed(SHA1()))
  * sig^e mod n, as 256 big-endian bytes, is 00 01 FF*218 00 <SHA-1 DigestInfo prefix> token   (what adbd's RSA_verify checks)
  * all three signers return the same bytes; GetPublicKey() returns the .pub content
and per key:
  * .pub == base64(524 bytes) + get_user_info(); struct fields: words = 64, n0inv*n = -1 (mod 2^32), rr = 2^4096 mod n,
    modulus and exponent are those of the private key; comment is ' ' user '@' host
  * p*q = n, e*d = 1 mod (p-1) and mod (q-1), n has 2048 bits, p and q pass Miller-Rabin
Correspondence with the model (driver word `keys`): Keys.sign == each signer's bytes, Keys.pubFile == the .pub file,
Keys.decodeBlob == struct.unpack, Keys.verify agrees with cryptography on the genuine and on a bit-flipped signature,
Keys.userInfo == get_user_info() under patched os.getlogin / socket.gethostname (fall-backs included), `keys check` == Python.
"""
import base64
import hashlib
import os
import shutil
import socket
import struct
import tempfile

from common import hx

SHA1_PREFIX = bytes.fromhex("3021300906052b0e03021a05000414")
SMALL_PRIMES = [3, 5, 7, 11, 13, 17, 19, 23, 29, 31, 37, 41, 43, 47, 53, 59, 61, 67, 71, 73, 79, 83, 89, 97, 101, 103, 107, 109, 113]
SIGNER_NAMES = ["PythonRSASigner", "CryptographySigner", "PycryptodomeAuthSigner"]


def load_signer(name, path):
    if name == "PythonRSASigner":
        from adb_shell.auth.sign_pythonrsa import PythonRSASigner
        return PythonRSASigner.FromRSAKeyPath(path)
    if name == "CryptographySigner":
        from adb_shell.auth.sign_cryptography import CryptographySigner
        return CryptographySigner(path)
    if name == "PycryptodomeAuthSigner":
        from adb_shell.auth.sign_pycryptodome import PycryptodomeAuthSigner
        return PycryptodomeAuthSigner(path)
    raise ValueError(name)


def as_bytes(x):
    return x.encode() if isinstance(x, str) else bytes(x)


# ---------------------------------------------------------------- independent arithmetic oracle

def miller_rabin(n, rng, rounds=8):
    if n < 2:
        return False
    for sp in [2] + SMALL_PRIMES:
        if n % sp == 0:
            return n == sp
    d, s = n - 1, 0
    while d % 2 == 0:
        d //= 2
        s += 1
    for _ in range(rounds):
        a = rng.randrange(2, n - 1)
        x = pow(a, d, n)
        if x in (1, n - 1):
            continue
        for _ in range(s - 1):
            x = pow(x, 2, n)
            if x == n - 1:
                break
        else:
            return False
    return True


def gen_prime(rng, bits, e):
    while True:
        c = rng.getrandbits(bits) | (1 << (bits - 1)) | (1 << (bits - 2)) | 1
        if any(c % sp == 0 for sp in SMALL_PRIMES) or (c - 1) % e == 0:
            continue
        if miller_rabin(c, rng, 6):
            return c


def seeded_key_pem(rng, d_kind):
    """A 2048-bit key from the seeded rng; d is e^-1 modulo phi(n) or modulo lcm(p-1, q-1)."""
    from cryptography.hazmat.primitives import serialization
    from cryptography.hazmat.primitives.asymmetric import rsa
    import math
    e = 65537
    p = gen_prime(rng, 1024, e)
    q = gen_prime(rng, 1024, e)
    while q == p:
        q = gen_prime(rng, 1024, e)
    phi = (p - 1) * (q - 1)
    lam = phi // math.gcd(p - 1, q - 1)
    d = pow(e, -1, phi if d_kind == "phi" else lam)
    nums = rsa.RSAPrivateNumbers(p, q, d, d % (p - 1), d % (q - 1), pow(q, -1, p), rsa.RSAPublicNumbers(e, p * q))
    key = nums.private_key()
    return key.private_bytes(encoding=serialization.Encoding.PEM, format=serialization.PrivateFormat.PKCS8,
                             encryption_algorithm=serialization.NoEncryption())


def numbers_of(pem):
    from cryptography.hazmat.primitives import serialization
    key = serialization.load_pem_private_key(pem, password=None)
    k = key.private_numbers()
    return key, dict(n=k.public_numbers.n, e=k.public_numbers.e, d=k.d, p=k.p, q=k.q)


def expected_em(token):
    return b"\x00\x01" + b"\xff" * (256 - 3 - len(SHA1_PREFIX) - len(token)) + b"\x00" + SHA1_PREFIX + token


def oracle_signature(key, nums, token, sig):
    """None if `sig` is THE signature adbd expects for `token`, else the reason."""
    from cryptography.exceptions import InvalidSignature
    from cryptography.hazmat.primitives import hashes
    from cryptography.hazmat.primitives.asymmetric import padding, utils
    if not isinstance(sig, (bytes, bytearray)):
        return "Sign returned %s, not bytes" % type(sig).__name__
    sig = bytes(sig)
    if len(sig) != 256:
        return "signature has %d bytes, not 256" % len(sig)
    try:
        key.public_key().verify(sig, token, padding.PKCS1v15(), utils.Prehashed(hashes.SHA1()))
    except InvalidSignature:
        return "signature does not verify as RSASSA-PKCS1-v1_5 over the token taken as a SHA-1 digest (cryptography: InvalidSignature)"
    s = int.from_bytes(sig, "big")
    if s >= nums["n"]:
        return "signature representative is not below the modulus"
    if pow(s, nums["e"], nums["n"]).to_bytes(256, "big") != expected_em(token):
        return "sig^e mod n is not 00 01 FF.. 00 <SHA-1 DigestInfo> token"
    return None


def oracle_pubfile(nums, pub, comment):
    """None if the .pub content is what adbd expects, else the reason."""
    n, e = nums["n"], nums["e"]
    if not pub.endswith(comment) or not comment:
        return "the .pub file does not end with get_user_info() = %r" % comment
    if not (comment[:1] == b" " and b"@" in comment[1:] and comment[1:2] != b"@" and not comment.endswith(b"@")):
        return "comment %r is not ' user@host'" % comment
    b64 = pub[: len(pub) - len(comment)]
    try:
        blob = base64.b64decode(b64, validate=True)
    except Exception as exc:  # noqa
        return "the key part of the .pub file is not valid base64 (%s)" % exc
    if base64.b64encode(blob) != b64:
        return "the key part of the .pub file is not canonical base64"
    if len(blob) != 524:
        return "the public key blob has %d bytes, not 524" % len(blob)
    words, n0inv, mod_le, rr_le, exp = struct.unpack("<LL256s256sL", blob)
    if words != 64:
        return "modulus_size_words = %d, not 64" % words
    if int.from_bytes(mod_le, "little") != n:
        return "modulus field is not the private key's modulus (little-endian)"
    if exp != e:
        return "exponent field %d is not the private key's exponent %d" % (exp, e)
    if (n0inv * n) % (1 << 32) != (1 << 32) - 1:
        return "n0inv * n is not -1 modulo 2^32"
    if int.from_bytes(rr_le, "little") != pow(2, 4096, n):
        return "rr is not 2^4096 mod n (little-endian)"
    return None


def oracle_key(nums, rng):
    n, e, d, p, q = (nums[k] for k in "nedpq")
    if p * q != n:
        return "p*q != n"
    if p == q:
        return "p = q"
    if n.bit_length() != 2048:
        return "modulus has %d bits, not 2048" % n.bit_length()
    if (e * d) % (p - 1) != 1 or (e * d) % (q - 1) != 1:
        return "e*d is not 1 modulo p-1 and q-1"
    if not (miller_rabin(p, rng) and miller_rabin(q, rng)):
        return "a factor of the modulus is composite"
    return None


# ---------------------------------------------------------------- one key, all checks

def fail(rep, pem, token, signer, why, kind):
    rep.prop_failures.append(dict(case=dict(pem=pem.decode(), token=None if token is None else token.hex(), signer=signer),
                                  why=why, signature=dict(kind=kind)))


def check_key(ctx, path, origin, tokens, signers=None, do_pub=True):
    """`path` holds a private key PEM and `path + '.pub'` as written by the implementation. Returns #prop failures added."""
    from adb_shell.auth import keygen
    rep, drv = ctx.report, ctx.driver
    before = len(rep.prop_failures)
    with open(path, "rb") as f:
        pem = f.read()
    with open(path + ".pub", "rb") as f:
        pub = f.read()
    key, nums = numbers_of(pem)
    n, e, d, p, q = (nums[k] for k in "nedpq")
    keyid = hashlib.sha1(("%x" % n).encode()).hexdigest()[:10]
    rep.count("key_origin", origin)
    rep.count("modulus_bits", n.bit_length())
    comment = keygen.get_user_info().encode()

    if do_pub:
        rep.evaluations += 1
        why = oracle_key(nums, ctx.rng)
        if why:
            fail(rep, pem, None, None, "generated key is not a valid 2048-bit RSA key: " + why, "invalid-key")
        ck = drv.ask("keys check n=%x e=%x d=%x p=%x q=%x" % (n, e, d, p, q))
        want = "ok pq=%d ed=%d bits=%d odd=%d" % (p * q == n, (e * d) % (p - 1) == 1 % (p - 1) and (e * d) % (q - 1) == 1 % (q - 1),
                                                 n.bit_length(), n % 2)
        rep.traces_validated += 1
        if ck != want:
            rep.disagreements.append(dict(unit="keys-check", case=dict(pem=pem.decode()), impl=want, model=ck))
        # the .pub file
        why = oracle_pubfile(nums, pub, comment)
        if why:
            fail(rep, pem, None, None, ".pub file: " + why, "pubfile")
        m = drv.ask("keys pubfile n=%x e=%x comment=%s" % (n, e, hx(comment)))
        rep.traces_validated += 1
        if m != "ok " + hx(pub):
            rep.disagreements.append(dict(unit="keys-pubfile", case=dict(pem=pem.decode(), token=None, signer=None),
                                          impl=pub.decode("latin-1"), model=m[:200]))
        elif len(rep.samples) < 2:
            rep.sample("key %s (%s): .pub = %s...%s == model pubFile (%d bytes)" % (keyid, origin, pub[:24].decode("latin-1"),
                                                                                   pub[-16:].decode("latin-1"), len(pub)))
        # the blob read back by the model's decoder vs struct.unpack
        try:
            blob = base64.b64decode(pub[: len(pub) - len(comment)] if pub.endswith(comment) else pub.split(b" ")[0])
            if len(blob) == 524:
                w, ni, ml, rl, ex = struct.unpack("<LL256s256sL", blob)
                want = "ok words=%d n0inv=%x n=%x rr=%x e=%x" % (w, ni, int.from_bytes(ml, "little"), int.from_bytes(rl, "little"), ex)
                got = drv.ask("keys decode blob=%s" % hx(blob))
                rep.traces_validated += 1
                if got != want and w == 64:
                    rep.disagreements.append(dict(unit="keys-decode", case=dict(pem=pem.decode()), impl=want[:200], model=got[:200]))
        except Exception:  # noqa  (already reported by the oracle)
            pass

    # signatures
    names = signers or SIGNER_NAMES
    loaded = {}
    for name in names:
        try:
            loaded[name] = load_signer(name, path)
        except Exception as exc:  # noqa
            fail(rep, pem, None, name, "%s cannot load the key pair written by keygen: %s: %s" % (name, type(exc).__name__, exc), "signer-load")
    for name, sg in loaded.items():
        if do_pub:
            rep.evaluations += 1
            try:
                gp = sg.GetPublicKey()
                if gp is None or as_bytes(gp) != pub:
                    fail(rep, pem, None, name, "%s.GetPublicKey() is not the content of the .pub file" % name, "getpublickey")
            except Exception as exc:  # noqa
                fail(rep, pem, None, name, "%s.GetPublicKey() raised %s" % (name, type(exc).__name__), "getpublickey")
    model_sigs = drv.ask_many(["keys sign n=%x d=%x tok=%s" % (n, d, hx(tok)) for _, tok in tokens])
    for (tclass, tok), msig in zip(tokens, model_sigs):
        sigs = {}
        for name, sg in loaded.items():
            rep.evaluations += 1
            rep.count("token_class", tclass)
            rep.count("signer", name)
            try:
                sig = sg.Sign(tok)
            except Exception as exc:  # noqa
                fail(rep, pem, tok, name, "%s.Sign raised %s: %s" % (name, type(exc).__name__, exc), "sign-raises")
                continue
            why = oracle_signature(key, nums, tok, sig)
            if why:
                fail(rep, pem, tok, name, "%s.Sign(%s): %s" % (name, tok.hex(), why), "bad-signature")
            sigs[name] = bytes(sig) if isinstance(sig, (bytes, bytearray)) else None
            rep.signatures.add((keyid, tok.hex(), name))
            rep.traces_validated += 1
            if sigs[name] is None or msig != "ok " + hx(sigs[name]):
                rep.disagreements.append(dict(unit="keys-sign", case=dict(pem=pem.decode(), token=tok.hex(), signer=name),
                                              impl=hx(sigs[name] or b""), model=msig))
        vals = set(sigs.values())
        if len(vals) > 1:
            good = [nm for nm in sigs if sigs[nm] is not None and oracle_signature(key, nums, tok, sigs[nm]) is None]
            odd = [nm for nm in sigs if nm not in good] or list(sigs)[1:]
            if not any(f["case"]["token"] == tok.hex() and f["case"]["signer"] in odd for f in rep.prop_failures[before:]):
                fail(rep, pem, tok, odd[0], "the signers are not interchangeable: %s differs from %s on token %s" % (odd[0], good[:1] or "the others", tok.hex()),
                     "signers-differ")
        # the model's verifier against cryptography's on a genuine and on a damaged signature (one signer's output suffices)
        ref = next((s for s in sigs.values() if s), None)
        if ref is not None and tclass in ("random0", "zero", "ones"):
            bit = ctx.rng.randrange(2048)
            bad = (int.from_bytes(ref, "big") ^ (1 << bit)).to_bytes(256, "big")
            rs = drv.ask_many(["keys verify n=%x e=%x tok=%s sig=%s" % (n, e, hx(tok), hx(ref)),
                               "keys verify n=%x e=%x tok=%s sig=%s" % (n, e, hx(tok), hx(bad))])
            want = ["ok %d" % (oracle_signature(key, nums, tok, ref) is None), "ok %d" % (oracle_signature(key, nums, tok, bad) is None)]
            rep.traces_validated += 2
            rep.count("verify_outcomes", "/".join(want))
            if rs != want:
                rep.disagreements.append(dict(unit="keys-verify", case=dict(pem=pem.decode(), token=tok.hex(), flipped_bit=bit), impl=want, model=rs))
        if len(rep.samples) < 5 and ref is not None and len(vals) == 1:
            rep.sample("key %s token %s (%s): %d signers agree with model sign: %s..." % (keyid, tok.hex(), tclass, len(sigs), ref.hex()[:32]))
    return len(rep.prop_failures) - before


def leading_zero_tokens(path, rng, tries):
    """Tokens whose signature under this key starts with a 0x00 byte (1 in 256): fixed-length encoding of the signature matters."""
    from cryptography.hazmat.primitives import hashes, serialization
    from cryptography.hazmat.primitives.asymmetric import padding, utils
    with open(path, "rb") as f:
        key = serialization.load_pem_private_key(f.read(), password=None)
    out = []
    for _ in range(tries):
        tok = bytes(rng.getrandbits(8) for _ in range(20))
        sig = key.sign(tok, padding.PKCS1v15(), utils.Prehashed(hashes.SHA1()))
        if sig[0] == 0:
            out.append(("sig-leading-zero", tok))
            if len(out) >= 2:
                break
    return out


def make_tokens(rng):
    toks = [("random%d" % i, bytes(rng.getrandbits(8) for _ in range(20))) for i in range(3)]
    toks.append(("zero", b"\x00" * 20))
    toks.append(("ones", b"\xff" * 20))
    return toks


def check_user_info(ctx):
    """get_user_info() under patched environments against Keys.userInfo (empty name = 'unknown' fall-back)."""
    from unittest import mock
    from adb_shell.auth import keygen
    rep = ctx.report

    def raiser(exc):
        def f():
            raise exc
        return f
    envs = [("login+host", lambda: "alice", "box", b"alice", b"box"),
            ("login raises OSError", raiser(OSError(25, "Inappropriate ioctl for device")), "box", b"", b"box"),
            ("login raises FileNotFoundError", raiser(FileNotFoundError(2, "No such file")), "h.example.org", b"", b"h.example.org"),
            ("empty login", lambda: "", "box", b"", b"box"),
            ("empty host", lambda: "bob", "", b"bob", b""),
            ("both empty", lambda: "", "", b"", b""),
            ("non-ASCII login", lambda: "jos\u00e9", "box", "jos\u00e9".encode("utf8"), b"box"),
            ("non-ASCII host", lambda: "bob", "b\u00fcro-pc", b"bob", "b\u00fcro-pc".encode("utf8"))]
    # and the real environment, with the harness's own os.getlogin / gethostname
    try:
        real_user = os.getlogin()
    except OSError:
        real_user = ""
    real = keygen.get_user_info().encode()
    rows = [("real environment", real, real_user.encode(), socket.gethostname().encode())]
    for label, login, host, mu, mh in envs:
        with mock.patch.object(keygen.os, "getlogin", login), mock.patch.object(keygen.socket, "gethostname", lambda host=host: host):
            rows.append((label, keygen.get_user_info().encode(), mu, mh))
    # the comment must also make it into the .pub file for such names (keygen writes it with the default UTF-8 codec)
    tmpd = tempfile.mkdtemp(prefix="c17u_")
    try:
        for label, login, host, mu, mh in envs[-2:]:
            with mock.patch.object(keygen.os, "getlogin", login), mock.patch.object(keygen.socket, "gethostname", lambda host=host: host):
                path = os.path.join(tmpd, "k_" + str(len(os.listdir(tmpd))))
                try:
                    keygen.keygen(path)
                    with open(path + ".pub", "rb") as f:
                        pub = f.read()
                    tail = pub[700:]
                    want = b" " + (mu or b"unknown") + b"@" + (mh or b"unknown")
                    if tail != want:
                        rep.prop_failures.append(dict(case=dict(pem=None, token=None, signer=None, env=label), why="public key file comment is %r, expected %r" % (tail, want), signature=dict(kind="user-info")))
                except Exception as exc:  # noqa
                    rep.prop_failures.append(dict(case=dict(pem=None, token=None, signer=None, env=label), why="keygen() with %s raised %s: %s" % (label, type(exc).__name__, exc), signature=dict(kind="user-info")))
    finally:
        shutil.rmtree(tmpd, ignore_errors=True)
    for label, got, mu, mh in rows:
        rep.evaluations += 1
        rep.traces_validated += 1
        rep.count("user_info_env", label)
        want_user = mu or b"unknown"
        want_host = mh or b"unknown"
        if got != b" " + want_user + b"@" + want_host:
            rep.prop_failures.append(dict(case=dict(pem=None, token=None, signer=None, env=label),
                                          why="get_user_info() = %r, expected ' ' user '@' host with 'unknown' fall-backs = %r" % (got, b" " + want_user + b"@" + want_host),
                                          signature=dict(kind="user-info")))
        m = ctx.driver.ask("keys userinfo user=%s host=%s" % (hx(mu), hx(mh)))
        if m != "ok " + hx(got):
            rep.disagreements.append(dict(unit="keys-userinfo", case=dict(env=label), impl=got.decode("latin-1"), model=m))


def concurrent_sign(ctx, n=None, only=None):
    """Two threads sign different tokens at the same time (two devices authenticating at once), control changing hands at every source line
    of the signer's module: each must get the signature it would get alone.  Module-level state of a signer is what this exercises."""
    import sys
    import threading
    import sched
    rep = ctx.report
    total = 1 if only is not None else (n if n is not None else int((6 if ctx.tier == "quick" else 60) * ctx.budget))
    tmp = tempfile.mkdtemp(prefix="c17c_")
    try:
        cdir = os.path.join(os.path.dirname(os.path.dirname(os.path.abspath(__file__))), "corpus", "keys")
        path = os.path.join(tmp, "k")
        shutil.copy(os.path.join(cdir, sorted(os.listdir(cdir))[0]), path)
        from adb_shell.auth import keygen
        keygen.write_public_keyfile(path, path + ".pub")
        for k in range(total):
            for name in ([only["signer"]] if only else SIGNER_NAMES):
                toks = [bytes.fromhex(t) for t in only["tokens"]] if only else [bytes(ctx.rng.getrandbits(8) for _ in range(20)) for _ in range(2)]
                shared = only["shared"] if only else ctx.rng.random() < 0.5
                signers = [load_signer(name, path)] * 2 if shared else [load_signer(name, path), load_signer(name, path)]
                alone = [as_bytes(signers[i].Sign(toks[i])) for i in range(2)]
                mod = sys.modules[type(signers[0]).__module__]
                baton = sched.Baton(ctx.rng, fixed=only.get("order") if only else None)
                tracer = sched.line_tracer(baton, set(), files=(mod.__file__,))
                res = [None, None]

                def worker(i):
                    sys.settrace(tracer)
                    try:
                        res[i] = ("ok", as_bytes(signers[i].Sign(toks[i])))
                    except Exception as exc:  # noqa
                        res[i] = ("err", "%s: %s" % (type(exc).__name__, exc))
                    finally:
                        sys.settrace(None)
                threads = baton.spawn([lambda i=i: worker(i) for i in range(2)])
                try:
                    baton.drive()
                except sched.Deadlock as exc:
                    res = [("err", "deadlock " + str(exc))] * 2
                for t in threads:
                    t.join(timeout=2.0)
                rep.evaluations += 1
                rep.count("concurrent_sign", name)
                for i in range(2):
                    if res[i] != ("ok", alone[i]):
                        rep.prop_failures.append(dict(case=dict(pem=None, token=None, signer=name, concurrent=dict(signer=name, tokens=[t.hex() for t in toks], shared=bool(shared), order=list(baton.picks))),
                                                      why="%s: two threads signing at once: thread %d got %s, alone it gets the PKCS#1 signature %s.." % (
                                                          name, i, (res[i][1][:60] if res[i] and res[i][0] == "err" else "a different signature"), alone[i][:8].hex()),
                                                      signature=dict(kind="concurrent-sign")))
                        break
            if len(rep.prop_failures) > 3:
                break
    finally:
        shutil.rmtree(tmp, ignore_errors=True)


def run_keys(ctx, n_fresh, n_seeded, stop_on_failure=False):
    from adb_shell.auth import keygen
    rep = ctx.report
    tmp = tempfile.mkdtemp(prefix="c17_")
    try:
        # keys kept because of a rare arithmetic shape (Montgomery rr with a zero top byte: about 1 key in 256; small n0inv)
        cdir = os.path.join(os.path.dirname(os.path.dirname(os.path.abspath(__file__))), "corpus", "keys")
        for ci, name in enumerate(sorted(os.listdir(cdir)) if os.path.isdir(cdir) else []):
            path = os.path.join(tmp, "corpus%d" % ci)
            shutil.copy(os.path.join(cdir, name), path)
            keygen.write_public_keyfile(path, path + ".pub")
            check_key(ctx, path, "corpus/" + name, make_tokens(ctx.rng)[:2])
        for i in range(n_fresh + n_seeded):
            # key files are called all sorts of things; the signers look for `<path>.pub` whatever the name
            path = os.path.join(tmp, ["device%d.key", "adbkey%d", "adbkey%d.pem", "a.b%d.c", "key%d"][i % 5] % i)
            if i < n_fresh:
                keygen.keygen(path)
                origin = "keygen()"
                rep.evaluations += 1
                if not os.path.exists(path + ".pub"):
                    rep.prop_failures.append(dict(case=dict(pem=None, token=None, signer=None, keyfile=os.path.basename(path)),
                                                  why="keygen(%r) did not write %r, the file every signer reads the public key from (directory now holds %r)" % (
                                                      os.path.basename(path), os.path.basename(path) + ".pub", sorted(os.listdir(tmp))),
                                                  signature=dict(kind="pubfile-missing")))
                    continue
            else:
                kind = "phi" if (i - n_fresh) % 2 == 0 else "lambda"
                with open(path, "wb") as f:
                    f.write(seeded_key_pem(ctx.rng, kind))
                keygen.write_public_keyfile(path, path + ".pub")
                origin = "seeded/d mod " + kind
            toks = make_tokens(ctx.rng)
            if i == 0:
                toks += leading_zero_tokens(path, ctx.rng, 1500 if ctx.tier == "quick" else 6000)
            added = check_key(ctx, path, origin, toks)
            if i == 0 and not added:
                # key rotation: generate AGAIN at the same path (and once more through another spelling of it) in the same process;
                # the .pub must belong to the NEW private key
                for respell in (path, os.path.join(os.path.dirname(path), ".", os.path.basename(path))):
                    keygen.keygen(respell)
                    added += check_key(ctx, path, "keygen() again at the same path", make_tokens(ctx.rng)[:1])
            if added and stop_on_failure:
                break
            if len(rep.prop_failures) > 20:
                break
    finally:
        shutil.rmtree(tmp, ignore_errors=True)


def run(ctx):
    rep = ctx.report
    quick = ctx.tier == "quick"
    n_fresh = max(1, int((2 if quick else 12) * ctx.budget))
    n_seeded = max(1, int((1 if quick else 4) * ctx.budget))
    rep.rule = ("keys: %d fresh from adb_shell.auth.keygen.keygen() (OS randomness) + %d built from the seeded rng (d = e^-1 mod phi / mod lcm alternating, "
                ".pub written by write_public_keyfile); tokens per key: 3 random 20-byte, all-zero, all-0xFF; every shipped signer class loads the pair from "
                "disk and signs every token. distinct_nontrivial = number of distinct (key, token, signer) triples whose signature was compared "
                "byte-for-byte with the model and judged by the independent oracle." % (n_fresh, n_seeded))
    check_user_info(ctx)
    run_keys(ctx, n_fresh, n_seeded)
    concurrent_sign(ctx)
    rep.notes.append("keys from keygen() are not reproducible from the seed (cryptography uses the OS RNG); tokens, seeded keys and bit flips are. "
                     "A failing case carries the private key PEM, token and signer name, so `--replay` is exact.")


def search(ctx, disagreements, proofs):
    before = len(ctx.report.prop_failures)
    run_keys(ctx, max(1, int(2 * ctx.budget)), max(1, int(1 * ctx.budget)), stop_on_failure=True)
    if len(ctx.report.prop_failures) == before:
        concurrent_sign(ctx)
    fails = ctx.report.prop_failures[before:]
    return fails[0] if fails else None


def _replay_case(ctx, case):
    """Re-run one recorded case on a sub-context; returns the list of property failures."""
    from adb_shell.auth import keygen
    sub = type(ctx)(ctx.prop, ctx.tier, ctx.seed)
    sub.driver = ctx.driver
    if case.get("concurrent"):
        concurrent_sign(sub, only=case["concurrent"])
        return sub.report.prop_failures, sub.report.disagreements
    if case.get("keyfile"):
        tmp = tempfile.mkdtemp(prefix="c17r_")
        try:
            path = os.path.join(tmp, case["keyfile"])
            keygen.keygen(path)
            if not os.path.exists(path + ".pub"):
                sub.report.prop_failures.append(dict(case=case, why="keygen(%r) did not write %r (directory holds %r)" % (case["keyfile"], case["keyfile"] + ".pub", sorted(os.listdir(tmp))),
                                                     signature=dict(kind="pubfile-missing")))
        finally:
            shutil.rmtree(tmp, ignore_errors=True)
        return sub.report.prop_failures, sub.report.disagreements
    if not case.get("pem"):
        check_user_info(sub)
        return sub.report.prop_failures, sub.report.disagreements
    tmp = tempfile.mkdtemp(prefix="c17r_")
    try:
        path = os.path.join(tmp, "key")
        with open(path, "wb") as f:
            f.write(case["pem"].encode())
        keygen.write_public_keyfile(path, path + ".pub")
        tokens = [("replayed", bytes.fromhex(case["token"]))] if case.get("token") else []
        signers = [case["signer"]] if case.get("signer") and case.get("token") else None
        if signers and case.get("signer") in SIGNER_NAMES:
            # a "signers differ" verdict needs the others for comparison
            signers = [case["signer"]] + [s for s in SIGNER_NAMES if s != case["signer"]]
        check_key(sub, path, "replay", tokens, signers=signers, do_pub=not case.get("token"))
    finally:
        shutil.rmtree(tmp, ignore_errors=True)
    return sub.report.prop_failures, sub.report.disagreements


def replay(ctx, payload):
    fl = payload.get("failure") or {}
    case = fl.get("case")
    if not isinstance(case, dict):
        print("nothing to replay: %s" % payload.get("kind"))
        return True
    fails, dis = _replay_case(ctx, case)
    if case.get("token") and case.get("signer"):
        fails = [f for f in fails if f["case"].get("signer") == case["signer"]] or fails
    for f in fails[:5]:
        print("FAIL:", f["why"])
    for d in dis[:3]:
        print("model differs (%s): impl=%s model=%s" % (d.get("unit"), str(d.get("impl"))[:80], str(d.get("model"))[:80]))
    return not fails
