"""C10 -- device-side sync failures surface as the documented exception."""
import oracles, scen
from units.mk import Unit, COMMON


def _conc(ctx):
    from units import conc
    conc.conc_sessions(ctx, int((40 if ctx.tier == "quick" else 600) * ctx.budget))

Unit([("fail", scen.gen_fail, 1)], (oracles.o_c10, oracles.o_c10_expect) + COMMON,
     "FAIL for RECV immediately / after k DATA records; FAIL status for SEND at the end and overtaking the OKAY of the first WRTE (F5 ordering), for "
     "pushes needing 1..5 WRTEs; reason strings empty / 1 KiB / invalid UTF-8; FAIL record split across WRTEs; invalid known records at each point of "
     "pull/push/stat/list. Non-trivial/distinct as for C01.", 200, 4000, extra_run=_conc).export(globals())
