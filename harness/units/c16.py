"""C16 -- the async API is behaviourally identical to the sync API."""
import oracles, scen
from units.mk import Unit, COMMON


def _conc(ctx):
    from units import conc
    conc.conc_sessions(ctx, int((20 if ctx.tier == "quick" else 300) * ctx.budget))
    # "likewise TcpTransportAsync and TcpTransport deliver the same bytes": the same stream / write / poll procedures on real loopback sockets
    from units import c18
    rep = ctx.report
    before = len(rep.prop_failures)
    for plan in c18.plans_for(ctx, max(2, int(6 * ctx.budget)), 65536):
        f = c18.check_stream(ctx, plan)
        if f:
            rep.prop_failures.append(f)
    for kind in ("sync", "async"):
        for f in (c18.check_write(ctx, kind, 1 << 20), c18.check_poll(ctx, kind)):
            if f:
                rep.prop_failures.append(f)
    for f in rep.prop_failures[before:]:
        f["no_shrink"] = True
        f["replay_with"] = "c18"


def _replay_c18(ctx, fl):
    from units import c18
    return c18.replay(ctx, dict(failure=fl))


from units import mk as _mk
_mk.REPLAYERS["c18"] = _replay_c18


Unit([("shell", scen.gen_shell, 2), ("sync", scen.gen_sync_read, 2), ("push", scen.gen_push, 1), ("handshake", scen.gen_handshake, 2), ("mixed", scen.gen_mixed, 2), ("reconnect", scen.gen_reconnect_push, 1), ("slow", scen.gen_slow, 1), ("noclose", scen.gen_noclose, 1),
      ("fail", scen.gen_fail, 2), ("stall", scen.gen_stall, 2), ("shortwrite", scen.gen_short_writes, 1), ("corrupt", scen.gen_corrupt, 1), ("guards", scen.gen_guards, 1)],
     COMMON,
     "every scenario family is executed through AdbDevice and AdbDeviceAsync on identical scripted transports; the two implementations' observables (bytes "
     "sent, values, exception kinds, state, callbacks, virtual time) are compared DIRECTLY with each other as well as with the one model. "
     "Non-trivial/distinct as for C01.", 300, 6000, twins_are_property=True, extra_run=_conc).export(globals())
