"""C04 -- per-stream protocol conformance."""
import oracles, scen
from units.mk import Unit, COMMON


def _conc(ctx):
    from units import conc
    conc.conc_sessions(ctx, int((20 if ctx.tier == "quick" else 300) * ctx.budget))


Unit([("shell", scen.gen_shell, 2), ("sync", scen.gen_sync_read, 2), ("push", scen.gen_push, 2), ("mixed", scen.gen_mixed, 2), ("fail", scen.gen_fail, 1), ("noclose", scen.gen_noclose, 1), ("slow", scen.gen_slow, 2)],
     (oracles.o_c04, oracles.o_lean_c04, oracles.o_c04_okays, oracles.o_c04_close_answered) + COMMON,
     "all eight stream operations against a simulator that stalls like adbd until it is owed nothing; the ordered host/device packet log of every "
     "connection is run through the per-stream protocol monitor (OPEN shape and freshness, ids on every later packet, one OKAY per delivered WRTE and "
     "none otherwise, stop-and-wait on host WRTEs, CLSE answered/sent once, silence after CLSE). Non-trivial/distinct as for C01.", 160, 4000, extra_run=_conc).export(globals())
