"""A fake `usb1` (python-libusb1) module for C20.

`install()` puts a module object named `usb1` into sys.modules; it must be called BEFORE anything imports
`adb_shell.transport.usb_transport` (adb_shell.adb_device caches `UsbTransport = None` when that import fails), which is
why the C20 unit only ever uses it inside a fresh subprocess (harness/usb_worker.py).

It provides exactly what usb_transport.py touches:
  USBContext (open, getDeviceIterator(skip_on_error=...), getDeviceList(skip_on_error=...), close)
  device objects  (iterSettings, getBusNumber, getPortNumberList, getDeviceAddress, getSerialNumber, open)
  settings        (getClass/getSubClass/getProtocol, getNumber, iterEndpoints)
  endpoints       (getAddress, getMaxPacketSize)
  handles         (kernelDriverActive, detachKernelDriver, claimInterface, releaseInterface, bulkRead, bulkWrite, close)
  USBError and the libusb error subclasses, ENDPOINT_DIR_MASK / USB_ENDPOINT_DIR_MASK / ENDPOINT_IN / ENDPOINT_OUT, CLASS_VENDOR_SPEC

Every call that reaches "libusb" (device.open, getSerialNumber and every handle method) goes through a *backend* which
records it in `backend.log` as a tuple and decides the result:
  ScriptBackend  -- the i-th call gets the i-th entry of a script: ("ok", bytes, n) or ("err", kind); an exhausted script
                    answers ("ok", b"", 0).  This is the Python twin of `Adb.Usb.Backend` in lean/AdbModel/Usb.lean.
  SimBackend     -- bulk transfers are wired to a transports.Link (device simulator), libusb-style errors on timeouts.
Descriptor reads (iterSettings, getNumber, iterEndpoints, getAddress, ...) are recorded separately in `backend.desc`.
"""
import sys
import types

ERR_KINDS = ["io", "invalidParam", "access", "noDevice", "notFound", "busy", "timeout", "overflow", "pipe", "interrupted",
             "noMem", "notSupported", "other"]
_ERR_CLASS_NAMES = {"io": "USBErrorIO", "invalidParam": "USBErrorInvalidParam", "access": "USBErrorAccess", "noDevice": "USBErrorNoDevice",
                    "notFound": "USBErrorNotFound", "busy": "USBErrorBusy", "timeout": "USBErrorTimeout", "overflow": "USBErrorOverflow",
                    "pipe": "USBErrorPipe", "interrupted": "USBErrorInterrupted", "noMem": "USBErrorNoMem",
                    "notSupported": "USBErrorNotSupported", "other": "USBErrorOther"}
_ERR_VALUES = {"io": -1, "invalidParam": -2, "access": -3, "noDevice": -4, "notFound": -5, "busy": -6, "timeout": -7, "overflow": -8,
               "pipe": -9, "interrupted": -10, "noMem": -11, "notSupported": -12, "other": -99}


class USBError(Exception):
    value = None

    def __init__(self, value=None):
        Exception.__init__(self)
        if value is not None:
            self.value = value

    def __str__(self):
        return "%s [%s]" % (type(self).__name__, self.value)


def _mk_errors():
    out = {}
    for kind, name in _ERR_CLASS_NAMES.items():
        attrs = {"value": _ERR_VALUES[kind], "kind": kind}
        if kind == "timeout":
            def __init__(self, received=b""):
                USBError.__init__(self)
                self.received = received
            attrs["__init__"] = __init__
        out[name] = type(name, (USBError,), attrs)
    return out


ERRORS = _mk_errors()


def error_for(kind, received=b""):
    if kind == "timeout" and received:
        # python-libusb1: a transfer that times out after part of the data arrived reports those bytes in `received`
        return ERRORS[_ERR_CLASS_NAMES[kind]](bytearray(received))
    return ERRORS[_ERR_CLASS_NAMES[kind]]()


def kind_of(exc):
    """'io', 'timeout', ... for a fake USBError instance, else None"""
    return getattr(exc, "kind", None) if isinstance(exc, USBError) else None


# ---- backends -----------------------------------------------------------------------------------------------
class ScriptBackend(object):
    def __init__(self, script):
        self.script = [tuple(e) for e in script]
        self.log = []          # calls in order, as tuples
        self.results = []      # per call: ("ok", value) / ("err", kind)
        self.desc = []         # descriptor reads (not modelled)
        self.opened = 0
        self.armed = True      # unarmed: getSerialNumber answers without logging or consuming the script (device discovery)

    def _next(self):
        if self.script:
            return self.script.pop(0)
        return ("ok", b"", 0)

    def call(self, call):
        self.log.append(call)
        ent = self._next()
        if ent[0] == "err":
            self.results.append(("err", ent[1]))
            raise error_for(ent[1], ent[2] if len(ent) > 2 else b"")
        name = call[0]
        bs, n = bytes(ent[1]), int(ent[2])
        if name == "open":
            self.opened += 1
            val = FakeHandle(self.opened, self)
            self.results.append(("ok", self.opened))
            return val
        if name == "kda":
            val = bool(n)
        elif name == "bulkRead":
            val = bytearray(bs)       # python-libusb1 > 1.6 returns a bytearray
        elif name == "bulkWrite":
            val = n
        elif name == "serial":
            val = "FAKE%04d" % n
        else:
            val = None
        self.results.append(("ok", bytes(val) if isinstance(val, bytearray) else val))
        return val


class SimBackend(object):
    """Bulk transfers go to a transports.Link; every other call succeeds.  Errors are libusb-shaped."""

    def __init__(self, link):
        self.link = link
        self.log = []
        self.results = []
        self.desc = []
        self.opened = 0
        self.armed = True
        self.kda = False
        self.fail_at = None     # (call index, kind): that one call raises a USBError instead of being carried out
        self.fired = None       # (op index, call name) once it has
        self.cur_op = None

    @staticmethod
    def _tt(ms):
        # Link works in ticks of 2^-10 s; ms -> the same instant for every value the sessions use (multiples of 125/128 ms .. whole seconds)
        return (ms * 1024 // 1000) / 1024.0

    def call(self, call):
        from adb_shell import exceptions as ex
        import transports
        self.log.append((call[0],) + tuple(len(x) if isinstance(x, (bytes, bytearray)) else x for x in call[1:]))
        name = call[0]
        if self.fail_at is not None and len(self.log) - 1 == self.fail_at[0]:
            self.fired = (self.cur_op, name)
            raise error_for(self.fail_at[1])
        try:
            if name == "open":
                self.link.connect(None)
                self.opened += 1
                return FakeHandle(self.opened, self)
            if name == "hclose":
                self.link.close()
                return None
            if name == "kda":
                return self.kda
            if name == "bulkRead":
                return bytearray(self.link.bulk_read(call[3], self._tt(call[4])))
            if name == "bulkWrite":
                return self.link.bulk_write(bytes(call[3]), self._tt(call[4]))
            if name == "serial":
                return "SIM0001"
            return None
        except ex.TcpTimeoutException:
            raise error_for("timeout")
        except transports.SimTransportError:
            raise error_for("noDevice")


# ---- libusb objects ------------------------------------------------------------------------------------------
class FakeEndpoint(object):
    def __init__(self, address, backend, max_packet=512):
        self.address, self.backend, self.max_packet = address, backend, max_packet

    def getAddress(self):
        self.backend.desc.append(("getAddress", self.address))
        return self.address

    def getMaxPacketSize(self):
        self.backend.desc.append(("getMaxPacketSize", self.address))
        return self.max_packet


class FakeSetting(object):
    def __init__(self, number, eps, backend, cls=0xFF, sub=0x42, proto=0x01):
        self.number, self.eps, self.backend = number, list(eps), backend
        self.cls, self.sub, self.proto = cls, sub, proto

    def getClass(self):
        return self.cls

    def getSubClass(self):
        return self.sub

    def getProtocol(self):
        return self.proto

    def getNumber(self):
        self.backend.desc.append(("getNumber", self.number))
        return self.number

    def iterEndpoints(self):
        self.backend.desc.append(("iterEndpoints", self.number))
        for a in self.eps:
            yield FakeEndpoint(a, self.backend)


class FakeDevice(object):
    def __init__(self, backend, settings, bus=1, ports=(2,), address=5):
        self.backend, self.settings = backend, list(settings)
        self.bus, self.ports, self.address = bus, list(ports), address

    def iterSettings(self):
        self.backend.desc.append(("iterSettings",))
        return iter(self.settings)

    def getBusNumber(self):
        return self.bus

    def getPortNumberList(self):
        return list(self.ports)

    def getDeviceAddress(self):
        return self.address

    def getSerialNumber(self):
        if not self.backend.armed:
            return getattr(self, "serial", "FAKE0000")
        return self.backend.call(("serial",))

    def open(self):
        return self.backend.call(("open",))


class FakeHandle(object):
    def __init__(self, hid, backend):
        self.hid, self.backend = hid, backend

    def kernelDriverActive(self, interface):
        return self.backend.call(("kda", self.hid, interface))

    def detachKernelDriver(self, interface):
        return self.backend.call(("detach", self.hid, interface))

    def claimInterface(self, interface):
        return self.backend.call(("claim", self.hid, interface))

    def releaseInterface(self, interface):
        return self.backend.call(("release", self.hid, interface))

    def bulkRead(self, endpoint, length, timeout=0):
        return self.backend.call(("bulkRead", self.hid, endpoint, length, timeout))

    def bulkWrite(self, endpoint, data, timeout=0):
        return self.backend.call(("bulkWrite", self.hid, endpoint, bytes(data), timeout))

    def close(self):
        return self.backend.call(("hclose", self.hid))


#: what `USBContext.getDeviceIterator` yields; the worker fills it before asking adb_shell to find a device
DEVICES = []


class USBContext(object):
    def open(self):
        return self

    def close(self):
        pass

    def __enter__(self):
        return self

    def __exit__(self, *a):
        pass

    def getDeviceIterator(self, skip_on_error=False):
        for d in list(DEVICES):
            yield d

    def getDeviceList(self, skip_on_error=False):
        return list(DEVICES)


def install():
    """Create the module object and register it as `usb1`."""
    mod = types.ModuleType("usb1")
    mod.__dict__.update(ERRORS)
    mod.USBError = USBError
    mod.USBContext = USBContext
    mod.ENDPOINT_DIR_MASK = 0x80
    mod.USB_ENDPOINT_DIR_MASK = 0x80
    mod.ENDPOINT_IN = 0x80
    mod.ENDPOINT_OUT = 0x00
    mod.CLASS_VENDOR_SPEC = 0xFF
    mod.__fake__ = True
    sys.modules["usb1"] = mod
    return mod
