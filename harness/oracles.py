"""Property oracles evaluated on the IMPLEMENTATION's observed run, against the simulator's ground truth
(what it wrote per stream, which files it holds, what it received).  Used to decide whether a broken proof or a
correspondence disagreement is a real violation, and as a standing self-consistency check on every run."""
import struct

from common import hx, unhx


def next_id(c):
    return 1 if c + 1 == 2 ** 32 else c + 1


def lids_of_op(prev_lid, lid):
    out = []
    c = prev_lid
    for _ in range(64):
        if c == lid:
            break
        c = next_id(c)
        out.append(c)
    return out


def res_ok(o):
    return o["res"].startswith("ok ")


def res_val(o):
    return o["res"][3:]


def py_decode(b):
    return bytes(b).decode("utf8", "backslashreplace")


def sim_of(runner, o):
    i = o.get("conn")
    if i is None or i < 0 or i >= len(runner.link.used):
        return None
    return runner.link.used[i].sim


def parse_host_sync(sim, local):
    """Concatenate the host's WRTE payloads on a stream and split into sync records [(id, arg_or_len, data)]."""
    raw = b"".join(d for (who, cmd, a0, a1, d) in sim.log if who == "host" and cmd == b"WRTE" and a0 == local)
    recs = []
    i = 0
    while i + 8 <= len(raw):
        rid = raw[i:i + 4]
        n = struct.unpack("<I", raw[i + 4:i + 8])[0]
        if rid == b"DONE" or rid == b"QUIT":
            recs.append((rid, n, b""))
            i += 8
        else:
            recs.append((rid, n, raw[i + 8:i + 8 + n]))
            i += 8 + n
    return recs, raw


# ---------------------------------------------------------------------------------------------------------------
def o_c01(scn, obs, runner):
    """shell/exec_out/streaming_shell/root results are exactly what the device wrote on that stream."""
    fails = []
    prev = scn.get("preset", {}).get("lid", 0)
    for i, (op, o) in enumerate(zip(scn["ops"], obs)):
        k = op["op"]
        if "UnicodeDecodeError" in o["res"]:
            fails.append(dict(op=i, why="%s raised a decode error" % k))
        if k in ("shell", "exec_out", "streaming_shell", "root") and res_ok(o):
            sim = sim_of(runner, o)
            lids = lids_of_op(prev, o["lid"])
            if sim is not None and len(lids) == 1 and lids[0] in sim.streams:
                wrote = sim.streams[lids[0]].wrote
                whole = b"".join(wrote)
                if k == "root":
                    want = "none"
                elif k == "streaming_shell":
                    items = [w for w in wrote]
                    want = "items:[" + ",".join(("str:" + hx(py_decode(w).encode("utf8"))) if op.get("decode", True) else ("bytes:" + hx(w)) for w in items) + "]"
                elif op.get("decode", True):
                    want = "str:" + hx(py_decode(whole).encode("utf8"))
                else:
                    want = "bytes:" + hx(whole)
                if res_val(o) != want:
                    fails.append(dict(op=i, why="%s returned %s but the device wrote %s on stream %d" % (k, res_val(o)[:120], want[:120], lids[0])))
        prev = o["lid"]
    return fails


def o_c02(scn, obs, runner, driver):
    """everything the peer received parses as well-formed ADB messages (Lean parser on the implementation's bytes)."""
    fails = []
    lines, idx = [], []
    for i, o in enumerate(obs):
        if o["peer"] != "-" and res_ok(o):
            lines.append("codec parse " + o["peer"])
            idx.append(i)
    for i, r in zip(idx, driver.ask_many(lines)):
        if " rest=0" not in r:
            fails.append(dict(op=i, why="bytes sent during a successful %s do not parse as whole well-formed messages: %s" % (scn["ops"][i]["op"], r[:100])))
    # whatever the operations' outcomes: on a connection without write-side faults the peer must never have received a complete
    # frame that is not a well-formed message (wrong magic / unknown command / checksum): bytes were duplicated, lost or reordered
    for ci, c in enumerate(runner.link.used):
        told = any(o.get("conn") == ci and o["res"] in ("err TransportTimeout", "err TransportError", "err AdbTimeoutError") for o in obs)
        if c.env.get("olate") and told:
            continue      # a write reported the transport's timeout error to the caller: later traffic on that connection is the caller's risk
        if c.sim.malformed is not None and not any(f[0] == "out" for f in c.env.get("faults", [])):
            fails.append(dict(op=None, why="connection %d: the peer received a frame that is not a well-formed ADB message (header words %r)" % (ci, c.sim.malformed)))
    return fails


def o_c03_overrequest(scn, obs, runner):
    fails = []
    for ci, c in enumerate(runner.link.used):
        if c.faults or c.env.get("faults"):
            continue      # a transport failure in the middle of a packet leaves the reader out of frame sync for the rest of that connection (e.g. pull's clean-up
                          # still reads on it): "more than remain in the current packet" is then not defined; the NEXT connection is judged again
        if c.over_request:
            fails.append(dict(op=None, why="bulk_read asked for more bytes than remain in the current packet %d time(s) on connection %d" % (c.over_request, ci)))
    return fails


def o_locks(scn, obs, runner):
    return [dict(op=i, why="%d internal lock(s) left held after %s" % (o["locks"], scn["ops"][i]["op"])) for i, o in enumerate(obs) if o["locks"] != 0]


def o_c13(scn, obs, runner):
    """not connected => AdbConnectionError, empty path => DevicePathInvalidError, nothing sent, no local file; `available` truthful."""
    fails = []
    avail = bool(scn.get("preset", {}).get("avail", 0))

    def touched_sink(o):
        # a real destination path must not even have been created; a BytesIO must still be empty
        return o["sink"] != "N" if o.get("sink_kind") == "file" else o["sink"] not in ("N", "-")
    for i, (op, o) in enumerate(zip(scn["ops"], obs)):
        k = op["op"]
        if k == "connect":
            avail = res_ok(o)
        elif k == "close":
            avail = False
            if op.get("transport_close_raises") and not o["res"].startswith("err"):
                pass
        elif k == "ss_defer":
            if o["res"] != "ok none" or o["peer"] != "-":
                fails.append(dict(op=i, why="obtaining the streaming_shell generator (not iterating it) gave %s and sent %s" % (o["res"], o["peer"][:40])))
        else:
            empty_path = k in ("list", "stat", "pull", "push") and op.get("path") == b""
            if empty_path:
                if o["res"] != "err DevicePathInvalidError" or o["peer"] != "-" or touched_sink(o) or "tconnect" in o["ev"]:
                    fails.append(dict(op=i, why="%s with an empty device path: %s, sent %s, sink %s" % (k, o["res"], o["peer"][:40], o["sink"][:20])))
            elif not avail:
                if o["res"] != "err AdbConnectionError" or o["peer"] != "-" or touched_sink(o):
                    fails.append(dict(op=i, why="%s on an unconnected device: %s, sent %s, sink %s" % (k, o["res"], o["peer"][:40], o["sink"][:20])))
        if bool(o["avail"]) != avail:
            fails.append(dict(op=i, why="available=%s after %s but the connection history says %s" % (bool(o["avail"]), k, avail)))
    return fails


def o_c14(scn, obs, runner):
    fails = []
    for ci, c in enumerate(runner.link.used):
        live = {}
        for who, cmd, a0, a1, d in c.sim.log:
            if who == "host" and cmd == b"OPEN":
                if not (1 <= a0 <= 2 ** 32 - 1):
                    fails.append(dict(op=None, why="OPEN with local id %d" % a0))
                if live.get(a0):
                    fails.append(dict(op=None, why="OPEN reuses local id %d while that stream is still open" % a0))
                live[a0] = True
            elif who == "host" and cmd == b"CLSE":
                live[a0] = False
    return fails


def o_c07(scn, obs, runner):
    """push: the device's filesystem holds exactly the source bytes; chunk and payload bounds; callback sums."""
    fails = []
    files, dirs = scn.get("files", {}), scn.get("dirs", {})
    for i, (op, o) in enumerate(zip(scn["ops"], obs)):
        if op["op"] != "push" or not res_ok(o):
            continue
        sim = sim_of(runner, o)
        if sim is None:
            continue
        kind, fid = op["src"]
        targets = [(op["path"], files[fid])] if kind != "dir" else [(op["path"] + b"/" + n, files[c]) for n, c in dirs[fid]]
        for path, content in targets:
            got = sim.files_received.get(path)
            if got is None:
                fails.append(dict(op=i, why="push returned normally but the device never received %r" % path))
                continue
            mode, mtime, data = got
            if data != content:
                fails.append(dict(op=i, why="device file %r has %d bytes (first diff at %s), source has %d" % (
                    path, len(data), next((j for j in range(min(len(data), len(content))) if data[j] != content[j]), "len"), len(content))))
            if mode != int(op.get("mode", 33272)):
                fails.append(dict(op=i, why="mode %d sent, %d requested" % (mode, op.get("mode", 33272))))
            want_mtime = op.get("mtime", 0)
            if want_mtime != 0 and mtime != want_mtime:
                fails.append(dict(op=i, why="mtime %d sent, %d requested" % (mtime, want_mtime)))
            if want_mtime == 0 and not (0 < mtime <= o["now"] // 1024):
                fails.append(dict(op=i, why="mtime 0 requested; %d sent, current time %d" % (mtime, o["now"] // 1024)))
        maxdata = sim.cfg.get("maxdata", 4096)
        for who, cmd, a0, a1, d in sim.log:
            if who == "host" and cmd == b"WRTE" and len(d) > maxdata:
                fails.append(dict(op=i, why="WRTE payload of %d bytes exceeds the device's maxdata %d" % (len(d), maxdata)))
        for l in set(a0 for who, cmd, a0, a1, d in sim.log if who == "host" and cmd == b"OPEN" and d.startswith(b"sync:")):
            recs, _ = parse_host_sync(sim, l)
            for rid, n, data in recs:
                if rid == b"DATA" and (n > 65536 or n == 0 or n != len(data)):
                    fails.append(dict(op=i, why="DATA chunk of %d bytes (payload %d)" % (n, len(data))))
        if op.get("cb", "none") != "none":
            calls = [e for e in o["ev"].strip("[]").split(",") if e.startswith("cb:")]
            for path, content in targets:
                mine = [c.split(":") for c in calls if unhx(c.split(":")[1]) == path]
                s = sum(int(c[2]) for c in mine)
                if s != len(content) or any(int(c[3]) != len(content) for c in mine):
                    fails.append(dict(op=i, why="progress callback for %r saw byte counts summing to %d with totals %r; file size %d" % (
                        path, s, sorted(set(int(c[3]) for c in mine)), len(content))))
    return fails


def fs_content(ent):
    if isinstance(ent, tuple) and ent[0] == "chunks":
        return b"".join(ent[1])
    if isinstance(ent, (bytes, bytearray)):
        return bytes(ent)
    return None


def stream_closed_by_host(sim, local):
    return any(who == "host" and cmd == b"CLSE" and a0 == local for who, cmd, a0, a1, d in sim.log)


def o_c08(scn, obs, runner):
    fails = []
    prev = scn.get("preset", {}).get("lid", 0)
    for i, (op, o) in enumerate(zip(scn["ops"], obs)):
        if op["op"] == "pull" and res_ok(o):
            sim = sim_of(runner, o)
            content = fs_content(sim.cfg.get("fs", {}).get(op["path"])) if sim else None
            if content is not None:
                got = unhx(o["sink"]) if o["sink"] != "N" else None
                if got != content:
                    fails.append(dict(op=i, why="pull wrote %s bytes, the device file has %d" % ("no" if got is None else len(got), len(content))))
                if op.get("cb", "none") != "none":
                    calls = [e.split(":") for e in o["ev"].strip("[]").split(",") if e.startswith("cb:")]
                    if sum(int(c[2]) for c in calls) != len(content):
                        fails.append(dict(op=i, why="pull progress callback saw %d bytes in total, file size %d" % (sum(int(c[2]) for c in calls), len(content))))
                lids = lids_of_op(prev, o["lid"])
                for l in lids:
                    if sim and l in sim.streams and not stream_closed_by_host(sim, l):
                        fails.append(dict(op=i, why="pull returned without closing stream %d" % l))
        prev = o["lid"]
    return fails


def o_c09(scn, obs, runner):
    fails = []
    prev = scn.get("preset", {}).get("lid", 0)
    for i, (op, o) in enumerate(zip(scn["ops"], obs)):
        sim = sim_of(runner, o)
        if op["op"] == "list" and res_ok(o) and sim:
            ent = sim.cfg.get("fs", {}).get(op["path"])
            if isinstance(ent, tuple) and ent[0] == "dir":
                want = "listing:[" + ",".join("%s:%d:%d:%d" % (hx(n), m, s, t) for n, m, s, t in ent[1]) + "]"
                if res_val(o) != want:
                    fails.append(dict(op=i, why="list returned %s, device sent %s" % (res_val(o)[:150], want[:150])))
        if op["op"] == "stat" and res_ok(o) and sim:
            ent = sim.cfg.get("stat", {}).get(op["path"])
            if isinstance(ent, tuple) and len(ent) == 3 and ent[0] != "raw":
                want = "stat:%d:%d:%d" % ent
                if res_val(o) != want:
                    fails.append(dict(op=i, why="stat returned %s, device sent %s" % (res_val(o), want)))
        if op["op"] in ("list", "stat") and res_ok(o) and sim:
            for l in lids_of_op(prev, o["lid"]):
                if l in sim.streams and not stream_closed_by_host(sim, l):
                    fails.append(dict(op=i, why="%s returned without closing stream %d" % (op["op"], l)))
        prev = o["lid"]
    return fails


def o_c05(scn, obs, runner):
    """handshake: first message, success iff final CNXN, signatures in key order over the latest token, pubkey last, callback once."""
    from adb_shell import constants
    fails = []
    ci = -1
    for i, (op, o) in enumerate(zip(scn["ops"], obs)):
        if op["op"] != "connect":
            continue
        if "tconnect" not in o["ev"]:
            continue
        ci += 1
        if ci >= len(runner.link.used):
            break
        c = runner.link.used[ci]
        if c.cfail:
            if res_ok(o) or o["avail"]:
                fails.append(dict(op=i, why="connect() reported success although the transport could not connect"))
            continue
        sim = c.sim
        host = [(cmd, a0, a1, d) for who, cmd, a0, a1, d in sim.log if who == "host"]
        dev = [(cmd, a0, a1, d) for who, cmd, a0, a1, d in sim.log if who == "dev"]
        # restrict to the handshake: host packets up to the first OPEN
        hs = []
        for p in host:
            if p[0] == b"OPEN":
                break
            hs.append(p)
        banner = scn.get("banner", b"verif")
        if o["res"] in ("err TransportTimeout", "err TransportError", "err AdbTimeoutError") and (c.env.get("olate") or ((c.env.get("faults") or c.env.get("ozeros")) and not hs)):
            continue        # the transport itself failed during the handshake (late-timeout writes / before one whole message was out): C12/C15's subject
        if not hs or hs[0] != (b"CNXN", constants.VERSION, constants.MAX_ADB_DATA, b"host::" + banner + b"\0"):
            fails.append(dict(op=i, why="first message is %r" % (hs[:1],)))
            continue
        keys = op.get("keys", [])
        sigs = [p for p in hs if p[0] == b"AUTH" and p[1] == constants.AUTH_SIGNATURE]
        pubs = [p for p in hs if p[0] == b"AUTH" and p[1] == constants.AUTH_RSAPUBLICKEY]
        tokens = sim.tokens
        for j, s in enumerate(sigs):
            if j >= len(keys) or j >= len(tokens) or s[3] != b"SIG" + bytes([keys[j]]) + tokens[j]:
                fails.append(dict(op=i, why="signature %d is not key %d over the most recent token" % (j, j)))
        if len(sigs) > len(keys):
            fails.append(dict(op=i, why="%d signatures sent with %d keys" % (len(sigs), len(keys))))
        auth = sim.cfg.get("auth")
        acc = auth.get("accept") if auth else None
        if acc is not None and acc < len(keys) and len(sigs) > acc + 1:
            fails.append(dict(op=i, why="kept signing after signature %d was accepted" % acc))
        if pubs:
            if len(pubs) > 1 or len(sigs) != len(keys) or not keys or pubs[0][3] != b"PUB" + bytes([keys[0]]) + b"\0":
                fails.append(dict(op=i, why="public key offer %r after %d/%d signatures" % (pubs, len(sigs), len(keys))))
        # the wait after the public key lasts up to the AUTH timeout: a silent device is given up on no earlier than that
        if pubs and o["res"] == "err TransportTimeout" and dev and dev[-1][0] == b"AUTH":
            at = op.get("at", 10240)
            prev_now = obs[i - 1]["now"] if i > 0 else scn.get("now", 1 << 40)
            if at is not None and at > 0 and o["now"] - prev_now < at:
                fails.append(dict(op=i, why="after offering the public key connect() gave up after %d ticks; the auth timeout is %d" % (o["now"] - prev_now, at)))
        ncb = o["ev"].count("cbauth")
        want_cb = 1 if (pubs and op.get("cb")) else 0
        if ncb != want_cb:
            fails.append(dict(op=i, why="auth callback invoked %d times, expected %d" % (ncb, want_cb)))
        # success iff the device finally answered CNXN (and the host consumed it)
        dev_cnxn = [p for p in dev if p[0] == b"CNXN"]
        if res_ok(o):
            if not dev_cnxn:
                fails.append(dict(op=i, why="connect() succeeded but the device never sent CNXN"))
            elif o["maxdata"] != dev_cnxn[-1][2]:
                fails.append(dict(op=i, why="maxdata %d adopted, device announced %d" % (o["maxdata"], dev_cnxn[-1][2])))
            if not o["avail"]:
                fails.append(dict(op=i, why="connect() returned True but available is False"))
        else:
            if o["avail"]:
                fails.append(dict(op=i, why="connect() raised %s but the device is marked available" % o["res"]))
            if auth and not keys and dev and dev[0][0] == b"AUTH" and o["res"] != "err DeviceAuthError":
                fails.append(dict(op=i, why="challenged without keys: %s" % o["res"]))
    return fails


def o_c10(scn, obs, runner):
    fails = []
    for i, (op, o) in enumerate(zip(scn["ops"], obs)):
        sim = sim_of(runner, o)
        if sim is None:
            continue
        if op["op"] == "pull":
            ent = sim.cfg.get("fs", {}).get(op["path"])
            if isinstance(ent, tuple) and ent[0] == "fail":
                want = "err AdbCommandFailureException:" + hx(py_decode(ent[1]).encode("utf8"))
                if o["res"] != want and op.get("expect_fail_surface", True):
                    fails.append(dict(op=i, why="device answered RECV with FAIL %r; pull: %s" % (ent[1][:40], o["res"][:100])))
        if op["op"] == "push" and op["src"][0] != "dir":
            pr = sim.cfg.get("push_result")
            if pr and pr[0] == "fail" and op.get("expect_fail_surface", True):
                want = "err PushFailedError:" + hx(pr[1])
                if o["res"] != want:
                    fails.append(dict(op=i, why="device reported sync FAIL %r (%s); push: %s" % (pr[1][:40], pr[2], o["res"][:100])))
    return fails


# ---------------------------------------------------------------------------------------------------------------
def host_view_log(c):
    """The packet sequence as the HOST experiences it: a host packet counts when its last byte was accepted by the transport, a device
    packet when its last byte was returned by a read (reconstructed from the transport call log)."""
    inbound = b"".join(raw for need, raw in c.segs)
    outbound = bytes(c.peer_got)
    log = []
    ipos = opos = 0          # bytes consumed so far
    inext = onext = 0        # start offset of the packet being completed

    def frame_end(buf, start):
        if start + 24 > len(buf):
            return None
        return start + 24 + int.from_bytes(buf[start + 12:start + 16], "little")
    for call in c.calls:
        if call[0] == "r" and isinstance(call[2], int):
            ipos += call[2]
            while True:
                e = frame_end(inbound, inext)
                if e is None or e > ipos:
                    break
                h = inbound[inext:inext + 24]
                log.append(("dev", bytes(h[0:4]), int.from_bytes(h[4:8], "little"), int.from_bytes(h[8:12], "little"), inbound[inext + 24:e]))
                inext = e
        elif call[0] == "w" and isinstance(call[2], int):
            opos += call[2]
            while True:
                e = frame_end(outbound, onext)
                if e is None or e > opos:
                    break
                h = outbound[onext:onext + 24]
                log.append(("host", bytes(h[0:4]), int.from_bytes(h[4:8], "little"), int.from_bytes(h[8:12], "little"), outbound[onext + 24:e]))
                onext = e
    return log


def o_c04(scn, obs, runner):
    """Per-stream protocol monitor over the ordered packet log, from the DEVICE's viewpoint (arrival order at the simulator) and from the
    HOST's viewpoint (a device packet counts only once the host has read it)."""
    fails = []
    for ci, c in enumerate(runner.link.used):
        clean = not c.env.get("faults") and not c.env.get("olate") and getattr(c.sim, "corrupted", None) is None
        views = [("device view", c.sim.log)] + ([("host view", host_view_log(c))] if clean else [])
        for view, plog in views:
            fails += ["%s: %s" % (view, f) for f in _monitor(plog)]
    return [dict(op=None, why=f) for f in fails]


def _monitor(plog):
    fails = []
    if True:
        streams = {}          # local id -> state dict
        used_ids = set()
        for who, cmd, a0, a1, d in plog:
            if who == "host":
                if cmd == b"OPEN":
                    if a0 == 0 or a0 >= 2 ** 32 or a1 != 0 or not d.endswith(b"\0"):
                        fails.append("OPEN(%d,%d,%r) malformed" % (a0, a1, d[-4:]))
                    if a0 in streams and not streams[a0]["done"]:
                        fails.append("OPEN reuses live local id %d" % a0)
                    streams[a0] = dict(remote=None, owed=0, host_wrte_inflight=False, host_closed=False, dev_closed=False, done=False, okays_to_answer=0)
                elif cmd in (b"OKAY", b"WRTE", b"CLSE"):
                    st = streams.get(a0)
                    if st is None:
                        fails.append("%s on unknown stream %d" % (cmd.decode(), a0))
                        continue
                    if st["remote"] is not None and a1 != st["remote"]:
                        fails.append("%s carries remote id %d, the device announced %d" % (cmd.decode(), a1, st["remote"]))
                    if st["host_closed"]:
                        fails.append("%s sent on stream %d after its CLOSE" % (cmd.decode(), a0))
                    if cmd == b"OKAY":
                        if st["owed"] <= 0:
                            fails.append("spurious OKAY on stream %d" % a0)
                        st["owed"] -= 1
                    elif cmd == b"WRTE":
                        if st["host_wrte_inflight"]:
                            fails.append("second WRTE on stream %d before the previous one was acknowledged" % a0)
                        st["host_wrte_inflight"] = True
                    else:
                        st["host_closed"] = True
                        if st["dev_closed"]:
                            st["done"] = True
            else:
                if cmd in (b"OKAY", b"WRTE", b"CLSE"):
                    st = streams.get(a1)
                    if st is None:
                        continue          # foreign traffic
                    if cmd == b"OKAY":
                        if st["remote"] is None:
                            st["remote"] = a0
                        st["host_wrte_inflight"] = False
                    elif cmd == b"WRTE":
                        st["owed"] += 1
                    else:
                        st["dev_closed"] = True
                        if st["host_closed"]:
                            st["done"] = True
    return fails


def o_lean_c04(scn, obs, runner, driver):
    """C04 by Lean: the same packet logs (device view, and host view on clean links) through `Adb.Monitor.check` -- the monitor the theorems of
    C04Monitor.lean are about.  Any violation it reports is a property failure; a verdict that differs from the Python monitor's is reported too
    (the two monitors check each other on every run)."""
    fails = []
    cmds = (b"OPEN", b"OKAY", b"WRTE", b"CLSE", b"CNXN", b"AUTH", b"SYNC")
    for ci, c in enumerate(runner.link.used):
        if c.sim.cfg.get("zero_local"):
            continue
        clean = not c.env.get("faults") and not c.env.get("olate") and getattr(c.sim, "corrupted", None) is None
        views = [("device view", c.sim.log)] + ([("host view", host_view_log(c))] if clean else [])
        for view, plog in views:
            evs = []
            for who, cmd, a0, a1, d in plog:
                if cmd not in cmds:
                    continue
                evs.append("%s,%s,%d,%d,%s" % ("h" if who == "host" else "d", cmd.decode(), a0, a1, (hx(d[-1:]) if cmd == b"OPEN" and d else "-")))
            if not evs:
                continue
            r = driver.ask("monitor " + ";".join(evs))
            lean = [] if r == "ok" else r.split(",")
            py = _monitor([p for p in plog if p[1] in cmds])
            if lean:
                fails.append(dict(op=None, why="%s of connection %d: Adb.Monitor.check reports %s" % (view, ci, ",".join(lean[:4]))))
            elif len(lean) != len(py):
                fails.append(dict(op=None, why="%s of connection %d: the Lean monitor accepts, the Python monitor reports %r" % (view, ci, py[:2])))
    return fails


def o_c04_close_answered(scn, obs, runner):
    """A device CLOSE that a shell-type operation read off the transport for its own, established stream is answered with a CLOSE (clean
    links only; the operation's reader expects exactly WRTE or CLSE once the stream is open, so a consumed CLSE is one it was waiting for)."""
    fails = []
    prev_lid = scn.get("preset", {}).get("lid", 0)
    prev_in = {}
    for i, (op, o) in enumerate(zip(scn["ops"], obs)):
        lids = set(lids_of_op(prev_lid, o["lid"]))
        prev_lid = o["lid"]
        ci = o.get("conn", -1)
        lo = prev_in.get(ci, 0) if op["op"] != "connect" else 0
        hi = o.get("inoff", 0)
        prev_in[ci] = hi
        if op["op"] not in ("shell", "exec_out", "streaming_shell", "root") or o["res"] == "err Hang" or not (0 <= ci < len(runner.link.used)):
            continue
        c = runner.link.used[ci]
        if c.env.get("faults") or c.env.get("ofrags") or getattr(c.sim, "corrupted", None) is not None or c.sim.malformed is not None:
            continue
        opened = set()
        for cmd, a0, a1 in _packets_in(c, lo, hi):
            if a1 not in lids:
                continue
            if cmd == b"OKAY":
                opened.add(a1)
            elif cmd == b"CLSE" and a1 in opened:
                st = c.sim.streams.get(a1)
                if st is not None and (a0 == st.remote or a0 == 0) and not any(w == "host" and k == b"CLSE" and x0 == a1 for w, k, x0, x1, d in c.sim.log):
                    fails.append(dict(op=i, why="%s read the device's CLOSE of its stream %d and never answered it (result %s)" % (op["op"], a1, o["res"][:40])))
    return fails


def o_c04_okays(scn, obs, runner):
    """each device WRITE delivered to the caller is acknowledged with exactly one OKAY (checked when every op succeeded)."""
    fails = []
    if not all(res_ok(o) for o in obs) or scn.get("failkind") == "trailing":
        return fails      # (trailing: the device writes on after the transfer ended; those WRTEs are not delivered, so the counts differ by design)
    for c in runner.link.used:
        per = {}
        for who, cmd, a0, a1, d in c.sim.log:
            if who == "dev" and cmd == b"WRTE" and a1 in c.sim.streams and c.sim.streams[a1].remote == a0:
                per.setdefault(a1, [0, 0])[0] += 1
            if who == "host" and cmd == b"OKAY":
                per.setdefault(a0, [0, 0])[1] += 1
        for l, (w, k) in per.items():
            if w != k:
                fails.append(dict(op=None, why="stream %d: device sent %d WRTE, host acknowledged %d" % (l, w, k)))
    return fails


TIMEOUT_KINDS = ("err AdbTimeoutError", "err TransportTimeout")


def _packets_in(c, lo, hi):
    """Device packets whose last byte lies in the inbound byte range (lo, hi] of connection c: [(cmd, a0, a1)]."""
    stream = b"".join(raw for need, raw in c.segs)
    out, i = [], 0
    while i + 24 <= len(stream):
        ln = int.from_bytes(stream[i + 12:i + 16], "little")
        end = i + 24 + ln
        if lo < end <= hi:
            out.append((bytes(stream[i:i + 4]), int.from_bytes(stream[i + 4:i + 8], "little"), int.from_bytes(stream[i + 8:i + 12], "little")))
        if end > hi:
            break
        i = end
    return out


TOTAL_OPS = ("shell", "exec_out", "root", "reboot")     # the operations that take a whole-command limit `timeout_s` (a "t" on any other op is ignored by the runner)


def o_c11(scn, obs, runner):
    """Every wait is bounded (theorem C11_ioRead_bound: R + 2(R + max(D, tau)) whatever traffic arrives); an operation performs one
    wait per packet DELIVERED to it (its own streams' packets / handshake packets) plus one failing wait plus its close handshake.
    Foreign or unexpected traffic must not extend the time.  Never a hang."""
    fails = []
    prev_now = scn.get("now", 1 << 40)
    prev_lid = scn.get("preset", {}).get("lid", 0)
    prev_in = {}
    for i, (op, o) in enumerate(zip(scn["ops"], obs)):
        elapsed = o["now"] - prev_now
        prev_now = o["now"]
        lids = set(lids_of_op(prev_lid, o["lid"]))
        prev_lid = o["lid"]
        ci = o.get("conn", -1)
        lo = prev_in.get(ci, 0) if op["op"] != "connect" else 0
        hi = o.get("inoff", 0)
        prev_in[ci] = hi
        rt, tt, t = op.get("rt", 10240), op.get("tt"), (op.get("t") if op["op"] in TOTAL_OPS else None)
        if tt is None:
            tt = scn.get("dtt")
        if rt is None or rt < 0 or (tt is not None and tt < 0) or (t is not None and t < 0):
            continue      # no bound claimed for None/negative configurations (only agreement with the model)
        if o["res"] == "err Hang":
            fails.append(dict(op=i, why="%s blocked forever (tt=%s rt=%s)" % (op["op"], tt, rt)))
            continue
        eff_rt = rt if t is None else min(rt, t)
        eff_tt = eff_rt if tt is None else min(tt, eff_rt)
        if op["op"] == "connect":
            eff_tt = max(eff_tt, op.get("at", 10240) or 0)
        if op["op"] == "pull" and op.get("cb", "none") != "none":
            pass
        if not (0 <= ci < len(runner.link.used)):
            continue
        c = runner.link.used[ci]
        D = max(int(c.env.get("dt", 1)), 1)
        pk = _packets_in(c, lo, hi)
        mine = [p for p in pk if p[0] in (b"CNXN", b"AUTH") or p[2] in lids or p[2] == 0]
        writes = sum(1 for call in c.calls if call[0] == "w")     # sends cost D each; count all on this connection (loose but traffic-independent)
        per_wait = eff_rt + 2 * (eff_rt + max(D, eff_tt))
        bound = (len(mine) + 3) * per_wait + (t or 0) + min(writes, 40 + 4 * len(mine)) * D + 8 * D
        if elapsed > bound:
            fails.append(dict(op=i, why="%s took %d ticks; %d packets were delivered to it, so at most %d waits of <= %d ticks each are justified (bound %d; rt=%s tt=%s t=%s, call cost %d)" % (
                op["op"], elapsed, len(mine), len(mine) + 3, per_wait, bound, rt, tt, t, D)))
    return fails


def _frame_touches(c):
    """[(start, end, [(t_call_begin, t_call_end), ...])] for every inbound packet: the read calls that returned bytes of it."""
    stream = b"".join(raw for need, raw in c.segs)
    frames, i = [], 0
    while i + 24 <= len(stream):
        e = i + 24 + int.from_bytes(stream[i + 12:i + 16], "little")
        frames.append((i, e, []))
        i = e
    pos, fi = 0, 0
    D = int(c.env.get("dt", 1))
    for call in c.calls:
        if call[0] != "r" or not isinstance(call[2], int) or call[2] == 0 or len(call) < 4:
            continue
        lo, hi, now = pos, pos + call[2], call[3]
        pos = hi
        while fi < len(frames) and frames[fi][1] <= lo:
            fi += 1
        j = fi
        while j < len(frames) and frames[j][0] < hi:
            frames[j][2].append((now - D, now))
            j += 1
    return [f for f in frames if f[2]]


def o_c11_packet(scn, obs, runner):
    """The wait for ONE packet is bounded (theorem C11_ioRead_bound): within one operation, from the first byte of a packet to its last byte
    (or to the last byte the operation got before giving up) never more than R + 2(R + max(D, tau)) passes, however the bytes trickle."""
    fails = []
    tables = {}
    prev_now = scn.get("now", 1 << 40)
    for i, (op, o) in enumerate(zip(scn["ops"], obs)):
        t_lo, t_hi = prev_now, o["now"]
        prev_now = o["now"]
        ci = o.get("conn", -1)
        rt, tt, t = op.get("rt", 10240), op.get("tt"), (op.get("t") if op["op"] in TOTAL_OPS else None)
        if tt is None:
            tt = scn.get("dtt")
        if rt is None or rt < 0 or (tt is not None and tt < 0) or (t is not None and t < 0) or o["res"] == "err Hang" or not (0 <= ci < len(runner.link.used)):
            continue
        c = runner.link.used[ci]
        if ci not in tables:
            tables[ci] = _frame_touches(c)
        D = max(int(c.env.get("dt", 1)), 1)
        eff_rt = rt if t is None else min(rt, t)
        eff_tt = eff_rt if tt is None else min(tt, eff_rt)
        if op["op"] == "connect":
            eff_tt = max(eff_tt, op.get("at", 10240) or 0)
            eff_rt = max(eff_rt, op.get("at", 10240) or 0)
        per_wait = eff_rt + 2 * (eff_rt + max(D, eff_tt))
        if op["op"] in ("pull", "push", "stat", "list"):
            per_wait *= 3       # after a failed wait these close their stream, which waits again (possibly on the same half-read packet)
        for st, en, touches in tables[ci]:
            mine = [(a, b) for a, b in touches if t_lo <= a and b <= t_hi]
            if mine and mine[-1][1] - mine[0][0] > per_wait:
                fails.append(dict(op=i, why="%s kept waiting %d ticks for the bytes of ONE packet (offsets %d..%d; a single wait is bounded by %d; rt=%s tt=%s t=%s, call cost %d)" % (
                    op["op"], mine[-1][1] - mine[0][0], st, en, per_wait, rt, tt, t, D)))
                break
    return fails


def o_c11_total(scn, obs, runner):
    """Whole-command limit: shell / exec_out / root with timeout_s = t end within t plus ONE more iteration of the stream loop (the limit is
    checked after every iteration) plus the OPEN exchange, however much traffic the device keeps sending on the stream.  The bound is the one
    PROVED for the model (C11Api.lean, `C11_shell_total`)."""
    fails = []
    prev_now = scn.get("now", 1 << 40)
    for i, (op, o) in enumerate(zip(scn["ops"], obs)):
        elapsed = o["now"] - prev_now
        prev_now = o["now"]
        rt, tt, t = op.get("rt", 10240), op.get("tt"), (op.get("t") if op["op"] in TOTAL_OPS else None)
        if tt is None:
            tt = scn.get("dtt")
        if op["op"] not in ("shell", "exec_out", "root") or t is None or t < 0 or rt is None or rt < 0 or (tt is not None and tt < 0):
            continue
        ci = o.get("conn", -1)
        if o["res"] == "err Hang" or not (0 <= ci < len(runner.link.used)):
            continue
        D = max(int(runner.link.used[ci].env.get("dt", 1)), 1)
        eff_rt = min(rt, t)
        eff_tt = eff_rt if tt is None else min(tt, eff_rt)
        per_wait = eff_rt + 2 * (eff_rt + max(D, eff_tt))
        bound = t + 2 * per_wait + 3 * (eff_rt + max(D, eff_tt))      # theorem C11_shell_total: T + (2S + W) + (W + S), S = R + max(D, tau)
        if elapsed > bound:
            fails.append(dict(op=i, why="%s with timeout_s = %d ticks took %d ticks (> %d = limit + the OPEN exchange + one more packet wait; rt=%s tt=%s, call cost %d)" % (
                op["op"], t, elapsed, bound, rt, tt, D)))
    return fails


def o_c11_stalled_outcome(scn, obs, runner):
    """ops that never got what they waited for must end in a timeout kind (or, for pull, the error met while closing)."""
    fails = []
    if scn.get("stall") not in ("silent",):
        return fails
    for i, (op, o) in enumerate(zip(scn["ops"], obs)):
        if res_ok(o):
            continue
        if i > 0 and any(not res_ok(p) for p in obs[:i]):
            break     # only the FIRST failing operation is the one that met the silence with a clean stream
        if o["res"] in TIMEOUT_KINDS or o["res"].startswith("err AdbConnectionError"):
            continue
        if op["op"] == "pull":
            continue      # C11: "pull may instead report the error met while closing its stream afterwards" (any kind: the stream can be out of frame sync by then)
        if op.get("rt") is None or (op.get("rt") or 0) < 0 or (op.get("tt") is not None and op.get("tt") < 0):
            continue
        fails.append(dict(op=i, why="silent device: %s ended with %s instead of a timeout error" % (op["op"], o["res"][:60])))
    return fails


def o_c10_expect(scn, obs, runner):
    fails = []
    for env in scn["envs"]:
        exp = env["sim"].get("expect")
        if not exp:
            continue
        kind, msg = exp
        idx = [i for i, op in enumerate(scn["ops"]) if op["op"] in ("pull", "push", "stat", "list")]
        if not idx:
            continue
        o = obs[idx[-1]]
        want = "err " + kind + ((":" + hx(py_decode(msg).encode("utf8"))) if msg is not None else "")
        if o["res"] != want:
            fails.append(dict(op=idx[-1], why="%s: device sent an invalid/FAIL record (%s); result %s, expected %s" % (scn["ops"][idx[-1]]["op"], scn.get("failkind"), o["res"][:80], want[:80])))
    return fails


def o_c03_corrupt(scn, obs, runner):
    fails = []
    for ci, c in enumerate(runner.link.used):
        cor = getattr(c.sim, "corrupted", None)
        if not cor:
            continue
        stream = b"".join(raw for need, raw in c.segs)
        pos = stream.find(cor["raw"])
        end = pos + len(cor["raw"]) if pos >= 0 else None
        kinds = [o["res"] for o in obs if o.get("conn") == ci]
        if cor["kind"] == "sum" and cor["nonempty"]:
            if c.in_off >= (end or 1 << 60) and "err InvalidChecksumError" not in kinds:
                fails.append(dict(op=None, why="a packet with a wrong checksum was consumed without InvalidChecksumError (results: %r)" % kinds))
        if cor["kind"] == "sum" and not cor["nonempty"] and "err InvalidChecksumError" in kinds:
            # only a NON-EMPTY payload can fail to match its checksum; a payload-less packet is exactly what the device sent whatever the field holds
            fails.append(dict(op=None, why="a packet WITHOUT payload (%s) was rejected with InvalidChecksumError because of its data_check field (results: %r)" % (cor["cmd"].decode(), kinds)))
        if cor["kind"] == "cmd":
            hdr_end = pos + 24 if pos >= 0 else None
            if c.in_off >= (hdr_end or 1 << 60) and "err InvalidCommandError" not in kinds:
                fails.append(dict(op=None, why="a packet with an unknown command word was consumed without InvalidCommandError (results: %r)" % kinds))
    return fails


def same_results(a_obs, b_obs, fields=("res", "peer", "sink", "avail", "maxdata", "lid")):
    for i, (a, b) in enumerate(zip(a_obs, b_obs)):
        for f in fields:
            x, y = a.get(f), b.get(f)
            if f == "sink":
                x = "-" if x == "N" else x
                y = "-" if y == "N" else y
            if x != y:
                return i, f, str(x)[:100], str(y)[:100]
    return None


def o_healthy(scn, obs, runner):
    """Against a healthy, conforming device (no faults, no stall, no corruption, no device-side failure, default timeouts) every
    operation on a connected device must return normally: an exception there means the library mishandled a legal device behaviour
    (some chunking, packetisation, id value, ordering).  The specific property oracles then say what the result must be."""
    if not scn.get("healthy"):
        return []
    fails = []
    avail = bool(scn.get("preset", {}).get("avail", 0))
    for i, (op, o) in enumerate(zip(scn["ops"], obs)):
        k = op["op"]
        if k == "connect":
            avail = res_ok(o)
        if k == "close":
            avail = False
        if not res_ok(o):
            if k not in ("connect", "close") and (not avail or op.get("path") == b""):
                continue
            fails.append(dict(op=i, why="healthy device, legal behaviour, but %s raised %s" % (k, o["res"][:80])))
            break
    return fails


def o_c12_after_reconnect(scn, obs, runner):
    """C12: after a failed session, connect() to a healthy device succeeds and every operation then behaves correctly: the operations
    replayed after the reconnect run against a healthy device and must all return normally (their values are judged by the result oracles)."""
    if "n_before" not in scn:
        return []
    fails = []
    n = scn["n_before"]
    tail = list(zip(scn["ops"], obs))[n:]
    started = False
    for j, (op, o) in enumerate(tail):
        i = n + j
        if op["op"] == "connect":
            started = True
            if not res_ok(o):
                fails.append(dict(op=i, why="connect() to a healthy device after the broken session: %s" % o["res"][:80]))
                break
            continue
        if op["op"] == "close" or not started:
            if op["op"] == "close" and not res_ok(o):
                fails.append(dict(op=i, why="close() after the broken session raised %s" % o["res"][:80]))
            continue
        if not res_ok(o):
            fails.append(dict(op=i, why="after reconnecting to a healthy device, %s raised %s (state from the broken session leaked into the new one)" % (op["op"], o["res"][:80])))
            break
    return fails


# ---------------------------------------------------------------------------------------------------------------
# Oracles evaluated BY LEAN: the executable specification functions of AdbModel/Spec.lean (proved equal to the functions the
# theorems are stated against: C01_spec_*, C07_spec_*, C08_spec_*) applied to what the implementation was observed to receive / send.
# ---------------------------------------------------------------------------------------------------------------
def _packets_full(c, lo, hi):
    """Device packets whose last byte lies in the inbound byte range (lo, hi]: [(cmd, a0, a1, data)]."""
    stream = b"".join(raw for need, raw in c.segs)
    out, i = [], 0
    while i + 24 <= len(stream):
        ln = int.from_bytes(stream[i + 12:i + 16], "little")
        end = i + 24 + ln
        if lo < end <= hi:
            out.append((bytes(stream[i:i + 4]), int.from_bytes(stream[i + 4:i + 8], "little"), int.from_bytes(stream[i + 8:i + 12], "little"), bytes(stream[i + 24:end])))
        if end > hi:
            break
        i = end
    return out


def _op_ranges(scn, obs):
    """per op: (conn index, inbound offset before, after, local ids allocated by the op, store length before)"""
    out = []
    prev_in, prev_lid, prev_store = {}, scn.get("preset", {}).get("lid", 0), 0
    for op, o in zip(scn["ops"], obs):
        ci = o.get("conn", -1)
        lo = 0 if op["op"] == "connect" else prev_in.get(ci, 0)
        hi = o.get("inoff", 0)
        out.append((ci, lo, hi, lids_of_op(prev_lid, o["lid"]), prev_store))
        prev_in[ci] = hi
        prev_lid = o["lid"]
        prev_store = o.get("storelen", 0)
    return out


KNOWN_CMDS = (b"AUTH", b"CLSE", b"CNXN", b"OKAY", b"OPEN", b"SYNC", b"WRTE")


def o_lean_c01(scn, obs, runner, driver):
    """C01 by the Lean reference semantics `Spec.streamItems` on the device packets the implementation consumed during the call."""
    fails, lines, idx = [], [], []
    for i, ((op, o), (ci, lo, hi, lids, store0)) in enumerate(zip(zip(scn["ops"], obs), _op_ranges(scn, obs))):
        if op["op"] not in ("shell", "exec_out", "streaming_shell") or not res_ok(o) or len(lids) != 1 or store0 != 0:
            continue
        if not (0 <= ci < len(runner.link.used)):
            continue
        pk = _packets_full(runner.link.used[ci], lo, hi)
        if any(p[0] not in KNOWN_CMDS for p in pk):
            continue
        lines.append("spec streamitems lid=%d pkts=%s" % (lids[0], ",".join("%s:%d:%d:%s" % (p[0].decode(), p[1], p[2], hx(p[3])) for p in pk) or "-"))
        idx.append(i)
    for i, r in zip(idx, driver.ask_many(lines)):
        op, o = scn["ops"][i], obs[i]
        if not r.startswith("ok items=["):
            fails.append(dict(op=i, why="%s returned normally but the Lean reference semantics finds no complete OKAY…CLSE conversation in the packets consumed (%s)" % (op["op"], r[:60])))
            continue
        items = [unhx(x) for x in r.split("items=[")[1].split("]")[0].split(",") if x]
        if op["op"] == "streaming_shell":
            want = "items:[" + ",".join(("str:" + hx(py_decode(w).encode("utf8"))) if op.get("decode", True) else ("bytes:" + hx(w)) for w in items) + "]"
        elif op.get("decode", True):
            want = "str:" + hx(py_decode(b"".join(items)).encode("utf8"))
        else:
            want = "bytes:" + hx(b"".join(items))
        if res_val(o) != want:
            fails.append(dict(op=i, why="%s returned %s; Lean's Spec.streamItems on the consumed device packets gives %s" % (op["op"], res_val(o)[:100], want[:100])))
    return fails


def _reassembled(pk, lid):
    return b"".join(p[3] for p in pk if p[0] == b"WRTE" and p[2] == lid)


def o_lean_sync(scn, obs, runner, driver):
    """C08/C09 by the Lean reference parser `Spec.records` on the reassembled WRTE payloads of the call's stream."""
    fails, lines, idx = [], [], []
    for i, ((op, o), (ci, lo, hi, lids, store0)) in enumerate(zip(zip(scn["ops"], obs), _op_ranges(scn, obs))):
        if op["op"] not in ("pull", "list", "stat") or not res_ok(o) or not lids or store0 != 0 or not (0 <= ci < len(runner.link.used)):
            continue
        if runner.link.used[ci].faults or runner.link.used[ci].env.get("faults"):
            continue      # on a connection with an injected transport failure the id bookkeeping below (which stream carried the reply) is not reliable;
                          # the simulator-ground-truth oracles (o_c08 / o_c09) judge those runs
        pk = _packets_full(runner.link.used[ci], lo, hi)
        lid = lids[-1] if not (op["op"] == "pull" and op.get("cb", "none") != "none") else lids[0]   # with a callback the stat stream is opened second
        fmt = op["op"]
        stop = "STAT" if fmt == "stat" else "DONE"
        lines.append("spec records fmt=%s stop=%s bytes=%s" % (fmt, stop, hx(_reassembled(pk, lid))))
        idx.append(i)
    for i, r in zip(idx, driver.ask_many(lines)):
        op, o = scn["ops"][i], obs[i]
        recs = [x.split(":") for x in r[3:].split("|") if x]
        if op["op"] == "pull":
            if not recs or recs[-1][0] != "DONE" or any(x[0] != "DATA" for x in recs[:-1]):
                fails.append(dict(op=i, why="pull returned normally; Lean's reference parser reads the reply as %s" % [x[0] for x in recs][:8]))
                continue
            want = hx(b"".join(unhx(x[2]) for x in recs[:-1]))
            got = o["sink"] if o["sink"] != "N" else "-"
            if got != want:
                fails.append(dict(op=i, why="pull wrote %d bytes; Lean's reference parser finds %d bytes of DATA before DONE" % (len(unhx(got)), len(unhx(want)))))
        elif op["op"] == "list":
            if not recs or recs[-1][0] != "DONE" or any(x[0] != "DENT" for x in recs[:-1]):
                fails.append(dict(op=i, why="list returned normally; Lean's reference parser reads the reply as %s" % [x[0] for x in recs][:8]))
                continue
            want = "listing:[" + ",".join("%s:%s" % (x[2], ":".join(x[1].split("/"))) for x in recs[:-1]) + "]"
            if res_val(o) != want:
                fails.append(dict(op=i, why="list returned %s; Lean's reference parser gives %s" % (res_val(o)[:120], want[:120])))
        else:
            if len(recs) != 1 or recs[0][0] != "STAT":
                fails.append(dict(op=i, why="stat returned normally; Lean's reference parser reads the reply as %s" % [x[0] for x in recs][:4]))
                continue
            want = "stat:" + ":".join(recs[0][1].split("/"))
            if res_val(o) != want:
                fails.append(dict(op=i, why="stat returned %s; Lean's reference parser gives %s" % (res_val(o), want)))
    return fails


def o_lean_c07(scn, obs, runner, driver):
    """C07 by Lean: the DATA chunk lengths the implementation sent must be `Spec.chunksOf (maxChunkSize maxdata) content`."""
    fails = []
    files = scn.get("files", {})
    for i, (op, o) in enumerate(zip(scn["ops"], obs)):
        if op["op"] != "push" or not res_ok(o) or op["src"][0] == "dir":
            continue
        sim = sim_of(runner, o)
        if sim is None:
            continue
        content = files[op["src"][1]]
        k = int(driver.ask("spec maxchunk %d" % o["maxdata"]).split()[1])
        want = [int(x) for x in driver.ask("spec chunks k=%d bytes=%s" % (k, hx(content)))[3:].split(",") if x]
        # DATA chunk lengths on the LAST sync stream whose SEND names this path
        got = None
        for l in sorted(set(a0 for who, cmd, a0, a1, d in sim.log if who == "host" and cmd == b"OPEN" and d.startswith(b"sync:"))):
            recs, _ = parse_host_sync(sim, l)
            if recs and recs[0][0] == b"SEND" and recs[0][2].rpartition(b",")[0] == op["path"]:
                got = [n for rid, n, data in recs if rid == b"DATA"]
        if got is not None and got != want:
            fails.append(dict(op=i, why="push sent DATA chunks of lengths %r…; Lean's Spec.chunksOf(%d) of the %d-byte content gives %r…" % (got[:6], k, len(content), want[:6])))
    return fails
