#!/usr/bin/env python
"""./check.sh Cxx quick|thorough|--replay <file>

Decision protocol (DESIGN.md section 4):
  1. regenerate Generated/*.lean from the current source, build model + driver (failure = infrastructure, exit 2)
  2. build the property's theorems against the regenerated facts and audit their axioms
  3. run the property's correspondence unit on the real code and the model; evaluate the property oracle on the
     implementation's observations
  4. exit 0 iff proofs check, correspondence holds and the oracle is satisfied everywhere (known findings are printed)
     otherwise search for a concrete failing input; report VIOLATION with it, or with `no-failing-input-found`.
"""
import importlib
import json
import os
import random
import sys
import time
import traceback

sys.path.insert(0, os.path.dirname(os.path.abspath(__file__)))
import common
from common import InfraError, Report


SRC_GROUPS = {"C05": ["loops"], "C04": ["stream"], "C03": ["loops", "packet"], "C15": ["loops"], "C02": ["message", "packet"], "C07": ["fsinfo", "device", "stream"], "C08": ["stream"], "C10": ["stream"], "C11": ["txn", "loops"], "C14": ["device"], "C16": ["device"], "C17": ["keys"], "C19": ["store", "txn"], "C06": ["route", "store"]}


class Ctx(object):
    def __init__(self, prop, tier, seed):
        self.prop, self.tier, self.seed = prop, tier, seed
        self.rng = random.Random("%s/%s/%s" % (prop, tier, seed))
        self.report = Report(prop, tier, seed)
        self.driver = None
        self.searching = False
        self.budget = float(os.environ.get("VERIF_BUDGET", "1"))   # multiplier for case counts (search raises it; VERIF_BUDGET for soak runs)

    def new_driver(self):
        return common.Driver()


def match_known(prop, failure, known):
    """Return the known-finding entry whose signature matches this failure, if any."""
    for k in known:
        if k.get("property") != prop or k.get("status") != "known":
            continue
        sig = k.get("signature", {})
        if sig and all(failure.get("signature", {}).get(key) == val for key, val in sig.items()):
            return k
    return None


def main(argv):
    if len(argv) < 3:
        print(__doc__)
        return 2
    prop = argv[1]
    mode = argv[2]
    seed = int(os.environ.get("VERIF_SEED", "1"))
    t0 = time.time()
    if mode == "--gen":
        with common.BuildLock():
            print(common.gen_and_build_model())
        return 0
    unit = importlib.import_module("units." + prop.lower())
    if mode == "--replay":
        with common.BuildLock():
            common.gen_and_build_model()
        with open(argv[3]) as f:
            payload = json.load(f)
        ctx = Ctx(prop, "quick", payload.get("seed", seed))
        ctx.driver = ctx.new_driver()
        ok = unit.replay(ctx, payload)
        print("replay: %s" % ("property holds on this input" if ok else "property FAILS on this input"))
        return 0 if ok else 1
    tier = mode
    if tier not in ("quick", "thorough"):
        print("tier must be quick or thorough")
        return 2
    ctx = Ctx(prop, tier, seed)
    try:
        import fingerprint
        changed_fns = fingerprint.changed(common.REPO, os.path.join(common.VERIF, "fingerprints.json"))
    except Exception:
        changed_fns = []
    if changed_fns:
        # search guidance only: the source differs from the tree the model was written against -> look harder
        ctx.budget = max(ctx.budget, 3.0)
        ctx.report.notes.append("modelled functions that differ from the recorded fingerprints (budget x3): %s" % ", ".join(changed_fns[:12]))
    try:
        with common.BuildLock():
            gen_info = common.gen_and_build_model()
            proofs = common.build_proofs(prop)
            if tier == "thorough" and proofs["ok"]:
                rc, out = common.sh(["lake", "env", "leanchecker"] + ["AdbProofs.Properties." + m for m in proofs["modules"]], cwd=common.LEAN_DIR, timeout=3600)
                proofs["leanchecker"] = "ok" if rc == 0 else out[-2000:]
                if rc != 0:
                    proofs["ok"] = False
                    proofs["broken"].append("leanchecker rejected AdbProofs.Properties." + prop)
        ctx.driver = ctx.new_driver()
        unit.run(ctx)
        if prop in SRC_GROUPS:
            # properties whose model functions are tied to the source by refinement theorems over the GENERATED translation (Generated/Src.lean):
            # validate the translator itself by executing the generated definitions next to the real Python functions
            from units import srccheck
            srccheck.check(ctx, SRC_GROUPS[prop])
    except InfraError as exc:
        print("INFRASTRUCTURE FAILURE: %s" % exc)
        return 2
    rep = ctx.report
    known = common.load_known_findings().get("findings", [])
    # known-finding witnesses: each unit reports them in rep.known (witness still fails the property and agrees with the model)
    fresh_failures = []
    for fl in rep.prop_failures:
        k = match_known(prop, fl, known)
        if k:
            line = "KNOWN-FINDING: property=%s %s" % (prop, k["what"])
            if line not in rep.known:
                rep.known.append(line)
        else:
            fresh_failures.append(fl)
    violation_line = None
    replay_path = None
    if fresh_failures:
        fl = fresh_failures[0]
        if hasattr(unit, "shrink"):
            try:
                fl = unit.shrink(ctx, fl)
            except Exception:
                traceback.print_exc()
        replay_path = common.write_replay(prop, seed, dict(kind="failing-input", property=prop, seed=seed, failure=fl,
                                                           proofs_ok=proofs["ok"], broken=proofs["broken"]))
        violation_line = "VIOLATION property=%s replay=%s" % (prop, replay_path)
    elif rep.disagreements or not proofs["ok"]:
        # a proof obligation or the correspondence broke: search for a concrete failing input
        ctx.searching = True
        ctx.budget = max(ctx.budget, 1.0) * (4.0 if tier == "quick" else 10.0)
        found = None
        if hasattr(unit, "search"):
            try:
                found = unit.search(ctx, rep.disagreements, proofs)
            except InfraError as exc:
                print("INFRASTRUCTURE FAILURE during search: %s" % exc)
                return 2
        if found and not match_known(prop, found, known):
            replay_path = common.write_replay(prop, seed, dict(kind="failing-input", property=prop, seed=seed, failure=found,
                                                               proofs_ok=proofs["ok"], broken=proofs["broken"],
                                                               disagreements=rep.disagreements[:3]))
            violation_line = "VIOLATION property=%s replay=%s" % (prop, replay_path)
        else:
            replay_path = common.write_replay(prop, seed, dict(
                kind="no-failing-input-found", property=prop, seed=seed,
                broken_theorems_or_build=proofs["broken"], proof_log_tail=proofs["log"][-3000:] if not proofs["ok"] else "",
                correspondence_disagreements=rep.disagreements[:5],
                note="the property is no longer shown to hold: a proof obligation or the model/code correspondence broke, "
                     "and the search found no concrete input on which the implementation violates the property"))
            violation_line = "VIOLATION property=%s replay=%s no-failing-input-found" % (prop, replay_path)
    for line in rep.known:
        print(line)
    wall = time.time() - t0
    common.write_evidence(rep, proofs, wall, 1 if violation_line else 0,
                          extra=dict(generated_from=gen_info, leanchecker=proofs.get("leanchecker")))
    print("%s %s seed=%s: theorems %d/%d, evaluations=%d distinct_nontrivial=%d disagreements=%d prop_failures=%d wall=%.1fs" % (
        prop, tier, seed, proofs["discharged"], proofs["obligations"], rep.evaluations, len(rep.signatures),
        len(rep.disagreements), len(fresh_failures), wall))
    if violation_line:
        if not proofs["ok"]:
            print("broken proof obligations: %s" % proofs["broken"][:5])
        print(violation_line)
        return 1
    return 0


if __name__ == "__main__":
    try:
        sys.exit(main(sys.argv))
    except InfraError as exc:
        print("INFRASTRUCTURE FAILURE: %s" % exc)
        sys.exit(2)
