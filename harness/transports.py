"""In-memory transports: the Python twin of Adb.bulkRead / bulkWrite / tClose / tConnect in lean/AdbModel/World.lean.

A `Link` holds the virtual clock and the list of connection environments of a scenario; each environment has a live
SimDevice behind it.  Everything the simulator emits is recorded as (needOut, bytes) segments for the model replay.
"""
import asyncio

from adb_shell.transport.base_transport import BaseTransport
from adb_shell.transport.base_transport_async import BaseTransportAsync
from adb_shell import exceptions

from sim_device import SimDevice


class SimHang(Exception):
    """The call would block forever (no timeout and nothing to read)."""


class SimTransportError(OSError):
    """connection reset / closed / connect failure"""


class Clock(object):
    """virtual time in ticks of 2^-10 s"""

    def __init__(self, now):
        self.now = int(now)

    def time(self):
        return self.now / 1024.0


def to_ticks(t):
    if t is None:
        return None
    v = t * 1024
    assert v == int(v), "timeouts must be multiples of 2^-10 s"
    return int(v)


class ConnEnv(object):
    def __init__(self, env):
        self.env = env
        self.sim = SimDevice(env.get("sim", {}))
        self.frags = list(env.get("frags", []))
        self.ofrags = list(env.get("ofrags", []))
        self.faults = [tuple(f) for f in env.get("faults", [])]   # (dir 'in'|'out', off, kind)
        self.dt = int(env.get("dt", 1))
        self.wnone = bool(env.get("wnone", False))
        self.cfail = bool(env.get("cfail", False))
        self.segs = []            # recorded: [needOut, bytes]  (complete history)
        self.pending = bytearray()  # readable bytes not yet consumed
        self.in_off = 0
        self.out_off = 0
        self.frag_left = None
        self.ofrag_left = None
        self.is_reset = False
        self.is_eof = False
        self.peer_got = bytearray()
        self.calls = []           # ('r', n, len(result)|exc, clock) / ('w', len(data), accepted|exc, clock); clock = virtual time when the entry was made
        self.over_request = 0     # reads asking for more than remains in the current inbound frame
        self._frame_left = 0      # bytes left of the current inbound frame (header or payload), for the C03 over-request flag
        self._frame_state = "hdr"
        self._hdr = bytearray()

    # ---- helpers ---------------------------------------------------------------------------------------
    def absorb_sim_output(self):
        for raw in self.sim.drain():
            if raw:
                self.segs.append([self.out_off, bytes(raw)])
                self.pending += raw

    def next_fault(self, side, off):
        for f in self.faults:
            if f[0] == side and f[1] == off:
                return f
        return None

    def fault_limit(self, side, off):
        ds = [f[1] - off for f in self.faults if f[0] == side and f[1] > off]
        return min(ds) if ds else None

    def _track_frames(self, n, got):
        """C03 side observation: did the host ask for more than remains of the current frame?"""
        if self._frame_left == 0:
            self._frame_left = 24
            self._frame_state = "hdr"
            self._hdr = bytearray()
        if n > self._frame_left and getattr(self, "track", True):
            self.over_request += 1
        for b in got:
            if self._frame_left == 0:
                self._frame_left = 24
                self._frame_state = "hdr"
                self._hdr = bytearray()
            if self._frame_state == "hdr":
                self._hdr.append(b)
            self._frame_left -= 1
            if self._frame_left == 0 and self._frame_state == "hdr":
                if bytes(self._hdr[0:4]) not in (b"AUTH", b"CLSE", b"CNXN", b"OKAY", b"OPEN", b"SYNC", b"WRTE"):
                    self.track = False     # the host rejects this header without reading its payload: frame sync is lost from here on
                ln = int.from_bytes(self._hdr[12:16], "little")
                if ln:
                    self._frame_left = ln
                    self._frame_state = "data"


class Link(object):
    """Shared by the transport object across connect()/close(): clock + environments."""

    def __init__(self, clock, envs):
        self.clock = clock
        self.future = [ConnEnv(e) for e in envs]
        self.used = []        # ConnEnv objects in the order they were connected
        self.cur = None
        self.events = []      # 'tclose' / 'tconnect'

    # -- the four transport operations, synchronous core ----------------------------------------------------
    def peek_cost(self, kind, tt):
        """Virtual time the next bulk_read ('r') / bulk_write ('w') with transport timeout `tt` will take (no side effects; mirrors the branches below)."""
        c = self.cur
        if c is None or c.is_reset:
            return 0
        wait = 0 if tt is None else max(to_ticks(tt), 0)
        if kind == "r":
            if c.is_eof:
                return c.dt
            f = c.next_fault("in", c.in_off)
            if f is not None:
                return wait if f[2] == "timeout" else (0 if f[2] == "reset" else c.dt)
            fl = c.frags[0] if (c.frag_left is None and c.frags) else c.frag_left
            if fl == 0:
                return c.dt
            return c.dt if c.pending else wait
        f = c.next_fault("out", c.out_off)
        if f is not None:
            return wait if f[2] == "timeout" else 0
        idx = getattr(c, "wcount", 0)
        if idx in c.env.get("ozeros", ()) and not c.wnone:
            return max(c.dt, 1)
        if idx in c.env.get("olate", ()) and tt is not None:
            return wait
        return c.dt

    def wait_timeout(self, tt):
        if tt is None:
            raise SimHang()
        t = to_ticks(tt)
        self.clock.now += t if t > 0 else 0
        raise exceptions.TcpTimeoutException("simulated transport timeout")

    def close(self):
        self.events.append("tclose")
        if getattr(self, "close_raises_once", False):
            self.close_raises_once = False
            raise SimTransportError("close failed")
        self.cur = None

    def connect(self, tt):
        self.events.append("tconnect")
        if not self.future:
            raise SimTransportError("no device to connect to")
        c = self.future.pop(0)
        self.used.append(c)
        if c.cfail:
            raise SimTransportError("connect failed")
        self.cur = c

    def bulk_read(self, n, tt):
        c = self.cur
        if c is None or c.is_reset:
            raise SimTransportError("closed or reset")
        if c.is_eof:
            self.clock.now += c.dt
            c.calls.append(("r", n, 0, self.clock.now))
            if len(c.calls) > 400000:
                raise SimHang()          # watchdog: an endless loop of empty reads in zero virtual time
            return b""
        f = c.next_fault("in", c.in_off)
        if f is not None:
            c.faults.remove(f)
            if f[2] == "timeout":
                c.calls.append(("r", n, "timeout", self.clock.now))
                self.wait_timeout(tt)
            elif f[2] == "reset":
                c.is_reset = True
                c.calls.append(("r", n, "reset", self.clock.now))
                raise SimTransportError("reset")
            else:
                c.is_eof = True
                self.clock.now += c.dt
                c.calls.append(("r", n, 0, self.clock.now))
                return b""
        if c.frag_left is None and c.frags:
            c.frag_left = c.frags.pop(0)
        if c.frag_left == 0:
            c.frag_left = None
            self.clock.now += c.dt
            c.calls.append(("r", n, 0, self.clock.now))
            c._track_frames(n, b"")
            return b""
        if not c.pending:
            c.calls.append(("r", n, "timeout", self.clock.now))
            c._track_frames(n, b"")
            self.wait_timeout(tt)
        k = min(n, len(c.pending))
        if c.frag_left is not None:
            k = min(k, c.frag_left)
        lim = c.fault_limit("in", c.in_off)
        if lim is not None:
            k = min(k, lim)
        if c.frag_left is not None:
            c.frag_left = None if c.frag_left - k == 0 else c.frag_left - k
        out = bytes(c.pending[:k])
        del c.pending[:k]
        c.in_off += k
        self.clock.now += c.dt
        c.calls.append(("r", n, k, self.clock.now))
        c._track_frames(n, out)
        return out

    def bulk_write(self, data, tt):
        c = self.cur
        data = bytes(data)
        if c is None or c.is_reset:
            raise SimTransportError("closed or reset")
        f = c.next_fault("out", c.out_off)
        if f is not None:
            c.faults.remove(f)
            if f[2] == "timeout":
                c.calls.append(("w", len(data), "timeout", self.clock.now))
                self.wait_timeout(tt)
            c.is_reset = True
            c.calls.append(("w", len(data), "reset", self.clock.now))
            raise SimTransportError("reset")
        lim = c.fault_limit("out", c.out_off)
        c.wcount = getattr(c, "wcount", 0) + 1
        if (c.wcount - 1) in c.env.get("ozeros", ()) and not c.wnone:
            # a write call that accepts nothing and says so (a full send buffer): legal for a transport, not expressible in the model
            self.clock.now += max(c.dt, 1)
            c.calls.append(("w", len(data), 0, self.clock.now))
            return 0
        if (c.wcount - 1) in c.env.get("olate", ()) and tt is not None:
            # the transport takes the data (it will reach the peer) but its completion signal comes too late: the transport's timeout error
            # is raised although everything was sent -- what TcpTransportAsync does when drain() outlasts the timeout
            c.peer_got += data
            c.out_off += len(data)
            c.calls.append(("w", len(data), "late-timeout", self.clock.now))
            c.sim.feed(data)
            c.absorb_sim_output()
            self.wait_timeout(tt)
        if c.wnone:
            k = len(data)
            ret = None
        else:
            if c.ofrag_left is None and c.ofrags:
                c.ofrag_left = max(c.ofrags.pop(0), 1)
            k = len(data)
            if c.ofrag_left is not None:
                k = min(k, c.ofrag_left)
            if lim is not None:
                k = min(k, lim)
            if c.ofrag_left is not None:
                c.ofrag_left = None if c.ofrag_left - k == 0 else c.ofrag_left - k
            ret = k
        c.peer_got += data[:k]
        c.out_off += k
        self.clock.now += c.dt
        c.calls.append(("w", len(data), k, self.clock.now))
        c.sim.feed(data[:k])
        c.absorb_sim_output()
        return ret

    def total_peer(self):
        return b"".join(bytes(c.peer_got) for c in self.used)


class MemTransport(BaseTransport):
    def __init__(self, link):
        self.link = link

    def close(self):
        self.link.close()

    def connect(self, transport_timeout_s):
        self.link.connect(transport_timeout_s)

    def bulk_read(self, numbytes, transport_timeout_s):
        return self.link.bulk_read(numbytes, transport_timeout_s)

    def bulk_write(self, data, transport_timeout_s):
        return self.link.bulk_write(data, transport_timeout_s)


class SimDeadlock(SimHang):
    """A lock that is already held was requested without a timeout by the only thread / task there is: the real code would block forever."""


class GuardLock(object):
    """threading.Lock for single-threaded sessions: a blocking acquire of a held lock raises instead of hanging the harness."""

    def __init__(self, name):
        import threading
        self.name = name
        self._l = threading.Lock()

    def locked(self):
        return self._l.locked()

    def acquire(self, blocking=True, timeout=-1):
        if self._l.locked():
            if not blocking or (timeout is not None and timeout >= 0):
                return False
            raise SimDeadlock("lock %s is still held" % self.name)
        return self._l.acquire(False)

    def release(self):
        self._l.release()

    def __enter__(self):
        self.acquire()
        return self

    def __exit__(self, *a):
        self._l.release()
        return False


class GuardAsyncLock(object):
    """asyncio.Lock counterpart of GuardLock for single-task sessions."""

    def __init__(self, name):
        self.name = name
        self._held = False

    def locked(self):
        return self._held

    async def acquire(self):
        if self._held:
            raise SimDeadlock("lock %s is still held" % self.name)
        self._held = True
        return True

    def release(self):
        if not self._held:
            raise RuntimeError("Lock is not acquired.")
        self._held = False

    async def __aenter__(self):
        await self.acquire()
        return None

    async def __aexit__(self, *a):
        self.release()
        return False


class MemTransportAsync(BaseTransportAsync):
    """`vsleep=True` (single-task sessions on a vloop.VLoop): the duration of every call is spent in `asyncio.sleep` BEFORE the call takes
    effect, and a transport-timeout wait is slept after it, so that a cancellation by the event loop (asyncio.wait_for and friends in the
    code under test) lands where it would with a real transport: the cancelled call has transferred nothing."""

    def __init__(self, link, vsleep=False):
        self.link = link
        self.vsleep = vsleep

    async def _timed(self, kind, *a):
        link = self.link
        fn = link.bulk_read if kind == "r" else link.bulk_write
        if not self.vsleep:
            return fn(*a)
        pred = link.peek_cost(kind, a[-1])
        if pred > 0:
            await asyncio.sleep(pred / 1024.0)       # the call's duration: nothing has happened yet if we are cancelled here
        try:
            return fn(*a)                            # charges its (same) cost on the clock again ...
        finally:
            link.clock.now -= pred                   # ... so take the part already slept back

    async def close(self):
        self.link.close()

    async def connect(self, transport_timeout_s):
        self.link.connect(transport_timeout_s)

    async def bulk_read(self, numbytes, transport_timeout_s):
        return await self._timed("r", numbytes, transport_timeout_s)

    async def bulk_write(self, data, transport_timeout_s):
        return await self._timed("w", data, transport_timeout_s)
