"""An asyncio event loop that runs on the harness's virtual clock.

`loop.time()` is the scenario clock (ticks of 2^-10 s).  When nothing is ready to run and timers are pending, the clock JUMPS to the earliest
timer instead of waiting for it in real time.  Together with a transport that spends its call durations in `asyncio.sleep` (MemTransportAsync
with `vsleep=True`) every asyncio-level timeout or cancellation the code under test may use (wait_for, timeout contexts, shielded tasks) is
exercised deterministically in virtual time -- the same time base the sync twin and the Lean model use."""
import asyncio
import heapq
import math


class VLoop(asyncio.SelectorEventLoop):
    def __init__(self, clock):
        super().__init__()
        self.vclock = clock
        self._clock_resolution = 1.0 / 8192

    def time(self):
        return self.vclock.now / 1024.0

    def _run_once(self):
        # drop cancelled timers at the head, then jump the clock to the earliest live timer if nothing else can run
        while self._scheduled and self._scheduled[0]._cancelled:
            self._timer_cancelled_count -= 1
            handle = heapq.heappop(self._scheduled)
            handle._scheduled = False
        if not self._ready and not self._stopping and self._scheduled:
            when = self._scheduled[0]._when
            ticks = int(math.ceil(when * 1024.0 - 1e-9))
            if ticks > self.vclock.now:
                self.vclock.now = ticks
        super()._run_once()
