"""A reactive adbd-like device simulator with adversary knobs.

It is only a SCENARIO GENERATOR: whatever it emits is recorded as `seg needOut=<host bytes received so far> <bytes>` lines,
and the Lean model replays exactly those bytes with the same causality, so the simulator's own logic is never trusted.
It also keeps ground truth (what it wrote per stream, what files it received) for reports.
"""
import struct

A_AUTH, A_CLSE, A_CNXN, A_OKAY, A_OPEN, A_SYNC, A_WRTE = (b"AUTH", b"CLSE", b"CNXN", b"OKAY", b"OPEN", b"SYNC", b"WRTE")
WIRE = {c: struct.unpack("<I", c)[0] for c in (A_AUTH, A_CLSE, A_CNXN, A_OKAY, A_OPEN, A_SYNC, A_WRTE)}
UNWIRE = {v: k for k, v in WIRE.items()}


def pkt(cmd, a0, a1, data=b"", bad_sum=False, bad_cmd=False):
    w = WIRE[cmd]
    if isinstance(bad_cmd, tuple):
        # ("trunc", announced_length, word): a de-synchronised / garbage header: unknown command word, a non-zero announced length and no
        # payload behind it
        w = struct.unpack("<I", bad_cmd[2])[0] if isinstance(bad_cmd[2], (bytes, bytearray)) else w ^ int(bad_cmd[2])
        return struct.pack("<6I", w, a0, a1, int(bad_cmd[1]), sum(data) & 0xFFFFFFFF, w ^ 0xFFFFFFFF)
    if bad_cmd:
        # True: flip one low bit; an int: XOR mask (e.g. a high bit, giving a non-ASCII command word); bytes: that very word
        if isinstance(bad_cmd, (bytes, bytearray)):
            w = struct.unpack("<I", bytes(bad_cmd))[0]
        else:
            w ^= 0x100 if bad_cmd is True else int(bad_cmd)
    s = sum(data) & 0xFFFFFFFF
    if bad_sum:
        # True: off by one; "zero": the field is 0; an int: that value
        if bad_sum is True:
            s = (s + 1) & 0xFFFFFFFF
        elif bad_sum == "zero":
            s = 0 if s != 0 else 1
        else:
            s = int(bad_sum) & 0xFFFFFFFF if (int(bad_sum) & 0xFFFFFFFF) != s else (s + 1) & 0xFFFFFFFF
    return struct.pack("<6I", w, a0, a1, len(data), s, w ^ 0xFFFFFFFF) + bytes(data)


def sync_rec(rid, *fields, data=b""):
    return rid + b"".join(struct.pack("<I", f) for f in fields) + data


class Stream(object):
    def __init__(self, local, remote, dest):
        self.local, self.remote, self.dest = local, remote, dest    # host's local id, device's id
        self.outq = []            # device payloads still to WRTE (stop-and-wait)
        self.waiting_okay = False
        self.close_after = False  # send CLSE when outq is drained
        self.closed = False
        self.sync_in = b""        # reassembled host sync bytes
        self.send_path = None
        self.send_data = b""
        self.wrote = []           # ground truth: payloads written on this stream


class SimDevice(object):
    """cfg keys (all optional):
      auth: None | dict(accept=<index of the signature that is accepted or None>, pubkey_ok=bool, nontoken_at=<challenge index or None>)
      maxdata: int announced in CNXN          banner: bytes
      remote_ids: list of ints handed out to successive OPENs (then counting up)
      shell: dict cmd_bytes -> list of payload chunks; default: derived from the command
      burst: bool  -- do not wait for the host's OKAY between device WRTEs
      fs: dict path(bytes) -> bytes content | ('dir', [(name, mode, size, mtime)]) | ('fail', msg) ; stat: dict path -> (mode,size,mtime)
      data_chunk: max DATA record size on RECV     wrte_split: list of sizes to split the sync reply stream into WRTE payloads
      push_result: None | ('fail', msg, when) with when in {'status','early'}   -- early: FAIL right after the first host WRTE, before its OKAY
      stray: list of (after_n_host_packets, raw packet bytes) injected before the reply to the n-th host packet
      silent_after: stop emitting anything after this many host packets
      no_okay_for_open: bool ; reply_cmd_to_open: alternative first reply
    """

    def __init__(self, cfg):
        self.cfg = cfg
        self.buf = b""
        self.out = []          # list of bytes chunks emitted since last drain
        self.streams = {}      # host local id -> Stream
        self.next_remote = 1
        self.remote_ids = list(cfg.get("remote_ids", []))
        self.n_host_pkts = 0
        self.challenges = 0
        self.sigs_seen = 0
        self.tokens = []
        self.files_received = {}   # path -> (mode, mtime, content)
        self.log = []              # (direction, cmd, a0, a1, data)
        self.malformed = None

    # --- plumbing -------------------------------------------------------------------------------------
    def emit(self, raw):
        self.out.append(bytes(raw))

    def send(self, cmd, a0, a1, data=b"", **kw):
        self.n_dev_pkts = getattr(self, "n_dev_pkts", 0) + 1
        cor = self.cfg.get("corrupt")
        if cor and cor[0] == self.n_dev_pkts:
            kw = dict(kw)
            if cor[1] == "sum":
                kw["bad_sum"] = cor[2] if len(cor) > 2 else True
            else:
                kw["bad_cmd"] = cor[2] if len(cor) > 2 else True
            self.corrupted = dict(kind=cor[1], cmd=cmd, nonempty=bool(data), index=self.n_dev_pkts)
        self.log.append(("dev", cmd, a0, a1, bytes(data)))
        raw = pkt(cmd, a0, a1, data, **kw)
        if cor and cor[0] == self.n_dev_pkts:
            self.corrupted["raw"] = raw
        self.emit(raw)

    def drain(self):
        out, self.out = self.out, []
        return out

    def feed(self, data):
        """Host bytes arrive; complete packets are processed."""
        self.buf += bytes(data)
        while len(self.buf) >= 24:
            w, a0, a1, ln, s, mg = struct.unpack("<6I", self.buf[:24])
            if len(self.buf) < 24 + ln:
                break
            payload = self.buf[24:24 + ln]
            self.buf = self.buf[24 + ln:]
            cmd = UNWIRE.get(w)
            if cmd is None or mg != w ^ 0xFFFFFFFF or (sum(payload) & 0xFFFFFFFF) != s:
                self.malformed = (w, a0, a1, ln)
                continue
            self.on_packet(cmd, a0, a1, payload)

    def on_packet(self, cmd, a0, a1, data):
        self.n_host_pkts += 1
        self.log.append(("host", cmd, a0, a1, bytes(data)))
        for after, raw in self.cfg.get("stray", []):
            if after == self.n_host_pkts:
                self.emit(raw)
        sa = self.cfg.get("silent_after")
        if sa is not None and self.n_host_pkts > sa:
            return
        if cmd == A_CNXN:
            self.on_cnxn()
        elif cmd == A_AUTH:
            self.on_auth(a0, data)
        elif cmd == A_OPEN:
            self.on_open(a0, data)
        elif cmd == A_OKAY:
            self.on_okay(a0, a1)
        elif cmd == A_WRTE:
            self.on_wrte(a0, a1, data)
        elif cmd == A_CLSE:
            self.on_clse(a0, a1)

    # --- connection -----------------------------------------------------------------------------------
    def token(self):
        t = bytes((self.challenges * 37 + i * 11 + 5) % 256 for i in range(20))
        self.tokens.append(t)
        return t

    def send_cnxn(self):
        self.send(A_CNXN, self.cfg.get("version", 0x01000000), self.cfg.get("maxdata", 4096), self.cfg.get("banner", b"device::sim"))

    def challenge(self):
        auth = self.cfg["auth"]
        if auth.get("nontoken_at") == self.challenges:
            self.challenges += 1
            self.send(A_AUTH, 2, 0, b"not-a-token")
        else:
            self.challenges += 1
            self.send(A_AUTH, 1, 0, self.token())

    def on_cnxn(self):
        if not self.cfg.get("auth"):
            self.send_cnxn()
        else:
            self.challenge()

    def on_auth(self, kind, data):
        auth = self.cfg.get("auth") or {}
        if kind == 2:      # signature
            idx = self.sigs_seen
            self.sigs_seen += 1
            if auth.get("accept") == idx:
                self.send_cnxn()
            else:
                self.challenge()
        elif kind == 3:    # public key
            reply = auth.get("pubkey_reply")
            if reply == "auth":              # adbd re-challenges while its confirmation dialog is open, and never connects
                self.challenge()
            elif reply == "auth_then_cnxn":
                self.challenge()
                self.send_cnxn()
            elif auth.get("pubkey_ok", True):
                self.send_cnxn()

    # --- streams --------------------------------------------------------------------------------------
    def alloc_remote(self, local):
        if self.remote_ids:
            r = self.remote_ids.pop(0)
            if r == "same":
                r = local
            elif isinstance(r, (tuple, list)) and r[0] == "rot":
                r = (local % int(r[1])) + 1       # the device's ids are a rotation of the host's: streams with MIRRORED id pairs exist side by side
            return r
        r = self.next_remote
        self.next_remote += 1
        return r

    def on_open(self, local, dest):
        remote = self.alloc_remote(local)
        st = Stream(local, remote, dest)
        self.streams[local] = st
        if self.cfg.get("no_okay_for_open"):
            return
        self.send(A_OKAY, remote, local)
        d = dest.rstrip(b"\0")
        if d.startswith(b"sync:"):
            return
        if d.startswith(b"reboot:"):
            return
        chunks = None
        svc, _, arg = d.partition(b":")
        if svc in (b"shell", b"exec", b"root"):
            chunks = self.cfg.get("shell", {}).get(arg)
            if chunks is None:
                chunks = self.cfg.get("default_chunks")
            if chunks is None:
                chunks = [b"out:" + arg] if arg else []
        if self.cfg.get("keepalive"):
            chunks = [b""] * int(self.cfg["keepalive"])      # a service that only ever sends empty writes (keep-alives)
        st.outq = [bytes(c) for c in (chunks or [])]
        st.close_after = not self.cfg.get("never_close") and arg not in self.cfg.get("never_close_cmds", ())   # a command that hangs after its output so far
        self.pump(st)

    def pump(self, st):
        """Send as much of the stream's output as flow control allows."""
        burst = self.cfg.get("burst", False)
        while st.outq and (burst or not st.waiting_okay):
            payload = st.outq.pop(0)
            st.wrote.append(payload)
            self.send(A_WRTE, st.remote, 0 if self.cfg.get("zero_local") else st.local, payload)   # zero_local: a device that leaves the host's id out (the case allow_zeros exists for)
            st.waiting_okay = True
        if not st.outq and st.close_after and (burst or not st.waiting_okay) and not st.closed:
            st.closed = True
            self.send(A_CLSE, st.remote, 0 if self.cfg.get("zero_local") else st.local)

    def on_okay(self, local, remote):
        st = self.streams.get(local)
        if st is None:
            return
        st.waiting_okay = False
        self.pump(st)

    def on_clse(self, local, remote):
        st = self.streams.get(local)
        if st is None:
            return
        if not st.closed:
            st.closed = True
            if not self.cfg.get("no_clse_reply"):
                # legacy devices answer a close with remote id 0
                self.send(A_CLSE, 0 if self.cfg.get("clse_zero_remote") else st.remote, st.local)

    def on_wrte(self, local, remote, data):
        st = self.streams.get(local)
        if st is None:
            return
        pr = self.cfg.get("push_result")
        early = pr and pr[0] == "fail" and pr[2] == "early" and not getattr(st, "early_done", False)
        if early:
            # the device reports the failure BEFORE acknowledging this WRTE (F5 ordering)
            st.early_done = True
            rec = sync_rec(b"FAIL", len(pr[1]), data=pr[1])
            split = self.cfg.get("wrte_split")
            pieces = [rec]
            if split:
                pieces, i2, k2 = [], 0, 0
                while i2 < len(rec):
                    n2 = max(1, split[k2 % len(split)])
                    pieces.append(rec[i2:i2 + n2])
                    i2 += n2
                    k2 += 1
            nb = self.cfg.get("early_before")      # how many pieces overtake the OKAY of the host's WRTE (default: all of them);
            if nb is None or self.cfg.get("burst"):   # the rest follows one by one as the host acknowledges (old adbd writes header and reason apart)
                nb = len(pieces)
            for piece in pieces[:max(1, nb)]:
                st.wrote.append(piece)
                self.send(A_WRTE, st.remote, st.local, piece)
            st.outq.extend(pieces[max(1, nb):])
            st.waiting_okay = True
            st.failed = True
        late_okay = self.cfg.get("okay_after_reply") and not getattr(st, "failed", False)
        if not self.cfg.get("no_okay_for_wrte") and not late_okay:
            self.send(A_OKAY, st.remote, st.local)
        if getattr(st, "failed", False):
            return
        st.sync_in += data
        self.process_sync(st)
        if late_okay and not self.cfg.get("no_okay_for_wrte"):
            # the device's replies race ahead of its acknowledgement of the host's WRTE
            self.send(A_OKAY, st.remote, st.local)

    def queue_sync_reply(self, st, raw):
        split = self.cfg.get("wrte_split")
        if not split:
            st.outq.append(raw)
        else:
            i = 0
            k = 0
            while i < len(raw):
                n = max(1, split[k % len(split)])
                st.outq.append(raw[i:i + n])
                i += n
                k += 1
        self.pump(st)

    def process_sync(self, st):
        fs = self.cfg.get("fs", {})
        while len(st.sync_in) >= 8:
            rid = st.sync_in[:4]
            n = struct.unpack("<I", st.sync_in[4:8])[0]
            if rid == b"DONE":
                st.sync_in = st.sync_in[8:]
                path, mode = st.send_path
                self.files_received[path] = (mode, n, st.send_data)
                pr = self.cfg.get("push_result")
                if pr and pr[0] == "fail":
                    self.queue_sync_reply(st, sync_rec(b"FAIL", len(pr[1]), data=pr[1]))
                elif pr and pr[0] == "raw":
                    self.queue_sync_reply(st, pr[1])
                else:
                    self.queue_sync_reply(st, sync_rec(b"OKAY", 0))
                st.send_path, st.send_data = None, b""
                continue
            if len(st.sync_in) < 8 + n:
                break
            arg = st.sync_in[8:8 + n]
            st.sync_in = st.sync_in[8 + n:]
            if rid == b"SEND":
                path, _, mode = arg.rpartition(b",")
                st.send_path = (path, int(mode))
                st.send_data = b""
            elif rid == b"DATA":
                st.send_data += arg
            elif rid == b"STAT":
                ent = self.cfg.get("stat", {}).get(arg)
                if isinstance(ent, tuple) and ent and ent[0] == "raw":
                    self.queue_sync_reply(st, ent[1])
                else:
                    mode, size, mtime = ent if ent else (0, 0, 0)
                    self.queue_sync_reply(st, sync_rec(b"STAT", mode, size, mtime))
            elif rid == b"LIST":
                ent = fs.get(arg)
                raw = b""
                if isinstance(ent, tuple) and ent[0] == "dir":
                    for name, mode, size, mtime in ent[1]:
                        raw += sync_rec(b"DENT", mode, size, mtime, len(name), data=name)
                    raw += sync_rec(b"DONE", 0, 0, 0, 0)
                elif isinstance(ent, tuple) and ent[0] == "raw":
                    raw = ent[1]
                else:
                    raw = sync_rec(b"DONE", 0, 0, 0, 0)
                self.queue_sync_reply(st, raw)
            elif rid == b"RECV":
                ent = fs.get(arg)
                if isinstance(ent, tuple) and ent[0] == "fail":
                    raw = sync_rec(b"FAIL", len(ent[1]), data=ent[1])
                elif isinstance(ent, tuple) and ent[0] == "raw":
                    raw = ent[1]
                elif isinstance(ent, tuple) and ent[0] == "chunks":
                    raw = b"".join(sync_rec(b"DATA", len(c), data=c) for c in ent[1]) + sync_rec(b"DONE", 0)
                elif ent is None:
                    raw = sync_rec(b"FAIL", 12, data=b"No such file")
                else:
                    ck = self.cfg.get("data_chunk", 65536)
                    raw = b"".join(sync_rec(b"DATA", len(ent[i:i + ck]), data=ent[i:i + ck]) for i in range(0, len(ent), ck)) + sync_rec(b"DONE", 0)
                self.queue_sync_reply(st, raw)
            elif rid == b"QUIT":
                pass
