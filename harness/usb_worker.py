"""C20 worker: runs in a FRESH subprocess (python usb_worker.py < request.json > reply.json).

It installs the fake `usb1` first, only then imports adb_shell, so `adb_shell.transport.usb_transport` and
`adb_shell.adb_device.AdbDeviceUsb` are the real code running on the fake libusb.

request: {"mode": "transport", "cases": [case, ...]}  -> {"results": [[op result, ...], ...]}
         {"mode": "session", "scns": [enc(scn), ...]} -> {"results": [{"obs": [...], "backend": {...}}, ...]}
         {"mode": "probe"}                              -> facts about the module (informational, see units/c20.py)
"""
import json
import os
import sys
import warnings

HERE = os.path.dirname(os.path.abspath(__file__))
if HERE not in sys.path:
    sys.path.insert(0, HERE)
REPO = os.environ.get("VERIF_REPO", "/repo")
if REPO not in sys.path:
    sys.path.insert(0, REPO)

import fake_usb1  # noqa: E402

fake_usb1.install()

from adb_shell import exceptions  # noqa: E402
from adb_shell.transport import usb_transport  # noqa: E402
import adb_shell.adb_device as sync_mod  # noqa: E402

assert sync_mod.UsbTransport is usb_transport.UsbTransport, "adb_shell.adb_device did not pick up the USB transport"


def jcall(call):
    return [x.hex() if isinstance(x, (bytes, bytearray)) else x for x in call]


def jres(r):
    kind, v = r
    if isinstance(v, (bytes, bytearray)):
        return [kind, "b", bytes(v).hex()]
    if isinstance(v, bool):
        return [kind, "f", int(v)]
    return [kind, "v", v]


def exc_name(exc):
    if isinstance(exc, fake_usb1.USBError):
        return "USBError:" + fake_usb1.kind_of(exc)
    return type(exc).__name__


def decoy_device():
    """a non-ADB device (mass storage class) that discovery must skip"""
    be = fake_usb1.ScriptBackend([])
    return fake_usb1.FakeDevice(be, [fake_usb1.FakeSetting(0, [0x82, 0x02], be, cls=0x08, sub=0x06, proto=0x50)], bus=1, ports=(1,), address=3)


def build_transport(case, be):
    setting = fake_usb1.FakeSetting(case["iface"], case["eps"], be)
    extra = [fake_usb1.FakeSetting(case["iface"] + 1, [0x85, 0x05], be, cls=0xFF, sub=0x00, proto=0x00)]
    dev = fake_usb1.FakeDevice(be, extra + [setting], bus=1, ports=(2, 4), address=7)
    dev.serial = "FAKE0000"
    dms = case.get("dms")
    via = case.get("via", "direct")
    if via == "direct":
        return usb_transport.UsbTransport(dev, setting, usb_info="verif", default_transport_timeout_s=dms), dev, setting
    be.armed = False
    fake_usb1.DEVICES[:] = [decoy_device(), dev]
    try:
        if via == "find_adb":
            t = usb_transport.UsbTransport.find_adb(default_transport_timeout_s=dms)
        elif via == "find_serial":
            t = usb_transport.UsbTransport.find_adb(serial="FAKE0000", default_transport_timeout_s=dms)
        elif via == "find_port":
            t = usb_transport.UsbTransport.find_adb(port_path=[1, 2, 4], default_transport_timeout_s=dms)
        else:
            raise ValueError(via)
    finally:
        fake_usb1.DEVICES[:] = []
        be.armed = True
    return t, dev, setting


def run_transport_case(case):
    script = [("ok", bytes.fromhex(e[1]), e[2]) if e[0] == "ok" else ("err", e[1], bytes.fromhex(e[2]) if len(e) > 2 else b"") for e in case["script"]]
    be = fake_usb1.ScriptBackend(script)
    usb_transport.platform.system = (lambda: "Windows") if case.get("win") else (lambda: "Linux")
    try:
        t, dev, setting = build_transport(case, be)
    except BaseException as exc:  # noqa
        if isinstance(exc, (KeyboardInterrupt, SystemExit)):
            raise
        return [dict(res="err ctor:" + exc_name(exc), calls=[], rets=[], state=dict(handle=None, iface=None, rep=None, wep=None, dts=None),
                     detail=dict(warnings=0), picked=False) for _ in case["ops"]]
    picked = (t._device is dev) and (t._setting is setting)
    out = []
    for op in case["ops"]:
        mark = len(be.log)
        detail = {}
        with warnings.catch_warnings(record=True) as wrn:
            warnings.simplefilter("always")
            try:
                if op[0] == "connect":
                    t.connect(*op[1:])
                    res = "ok"
                elif op[0] == "read":
                    v = t.bulk_read(op[1], op[2]) if len(op) > 2 else t.bulk_read(op[1])
                    detail["type"] = type(v).__name__
                    res = "ok " + (bytes(v).hex() or "-")
                elif op[0] == "write":
                    v = t.bulk_write(bytes.fromhex(op[1]), op[2]) if len(op) > 2 else t.bulk_write(bytes.fromhex(op[1]))
                    res = "ok %s" % (v,)
                elif op[0] == "close":
                    v = t.close()
                    res = "ok"
                elif op[0] == "timeout_ms":
                    res = "ok %s" % (t._timeout_ms(op[1]),)
                else:
                    raise ValueError("unknown op %r" % (op,))
            except BaseException as exc:  # noqa
                if isinstance(exc, (KeyboardInterrupt, SystemExit)):
                    raise
                res = "err " + exc_name(exc)
                detail["mro"] = [c.__name__ for c in type(exc).__mro__]
                ue = getattr(exc, "usb_error", None)
                if isinstance(exc, (exceptions.UsbReadFailedError, exceptions.UsbWriteFailedError)):
                    detail["usb_error"] = exc_name(ue) if ue is not None else None
                    detail["args1"] = exc_name(exc.args[1]) if len(exc.args) > 1 and exc.args[1] is not None else None
                    detail["str_ok"] = isinstance(str(exc), str)
            detail["warnings"] = len(wrn)
        h = t._transport
        out.append(dict(res=res, calls=[jcall(c) for c in be.log[mark:]], rets=[jres(r) for r in be.results[mark:]],
                        state=dict(handle=None if h is None else getattr(h, "hid", "?"), iface=t._interface_number, rep=t._read_endpoint,
                                   wep=t._write_endpoint, dts=t._default_transport_timeout_s),
                        detail=detail, picked=picked))
    return out


# ---- sessions -----------------------------------------------------------------------------------------------
def run_session(scn, fail_at=None):
    import session
    import scen

    scn = scen.dec(scn)

    class UsbRunner(session.Runner):
        def __init__(self, scn):
            session.Runner.__init__(self, scn, "sync")
            self.backend = fake_usb1.SimBackend(self.link)
            setting = fake_usb1.FakeSetting(1, [0x81, 0x01], self.backend)
            dev = fake_usb1.FakeDevice(self.backend, [setting], bus=2, ports=(1,), address=9)
            fake_usb1.DEVICES[:] = [decoy_device(), dev]
            try:
                self.dev = sync_mod.AdbDeviceUsb(default_transport_timeout_s=session.secs(scn.get("dtt")), banner=scn.get("banner", b"verif"))
            finally:
                fake_usb1.DEVICES[:] = []
            assert self.dev._io_manager._transport._device is dev and self.dev._io_manager._transport._setting is setting
            for k, v in scn.get("preset", {}).items():
                if k == "lid":
                    self.dev._local_id = v
                elif k == "maxdata":
                    self.dev._maxdata = v
                elif k == "avail":
                    self.dev._available = bool(v)

        def run_op(self, op):
            self.backend.cur_op = self.n_op = getattr(self, "n_op", -1) + 1
            return session.Runner.run_op(self, op)

    usb_transport.platform.system = lambda: "Linux"
    r = UsbRunner(scn)
    r.backend.fail_at = fail_at
    obs = r.run()
    log = r.backend.log
    summary = dict(
        n=len(log),
        names=sorted(set(c[0] for c in log)),
        read_eps=sorted(set(c[2] for c in log if c[0] == "bulkRead")),
        write_eps=sorted(set(c[2] for c in log if c[0] == "bulkWrite")),
        timeouts=sorted(set(c[4] for c in log if c[0] in ("bulkRead", "bulkWrite"))),
        head=[list(c) for c in log[:4]],
        tail=[list(c) for c in log[-3:]],
        n_reads=sum(1 for c in log if c[0] == "bulkRead"),
        n_writes=sum(1 for c in log if c[0] == "bulkWrite"),
        transport_type=type(r.dev._io_manager._transport).__name__,
        fired=list(r.backend.fired) if r.backend.fired else None,
    )
    return dict(obs=[dict(res=o["res"], sink=o["sink"], sink_kind=o["sink_kind"], avail=o["avail"]) for o in obs], backend=summary)


def probe():
    """Informational facts about code that is not on the AdbDeviceUsb path."""
    facts = {}
    # legacy `_open` path: second _open on the same port path calls old_transport.Close() (no such method)
    be = fake_usb1.ScriptBackend([])
    setting = fake_usb1.FakeSetting(1, [0x81, 0x01], be)
    dev = fake_usb1.FakeDevice(be, [setting])
    usb_transport.platform.system = lambda: "Linux"
    t1 = usb_transport.UsbTransport(dev, setting)
    t2 = usb_transport.UsbTransport(dev, setting)
    try:
        t1._open()
        facts["open_first"] = "ok"
    except BaseException as exc:  # noqa
        facts["open_first"] = "err " + exc_name(exc)
    try:
        t2._open()
        facts["open_second_same_port"] = "ok"
    except BaseException as exc:  # noqa
        facts["open_second_same_port"] = "err " + exc_name(exc) + ": " + str(exc)[:80]
    facts["default_timeout_s"] = usb_transport.DEFAULT_TIMEOUT_S
    facts["class_tuple"] = [usb_transport.CLASS, usb_transport.SUBCLASS, usb_transport.PROTOCOL]
    return facts


def main():
    req = json.load(sys.stdin)
    if req["mode"] == "transport":
        rep = dict(results=[run_transport_case(c) for c in req["cases"]])
    elif req["mode"] == "session":
        rep = dict(results=[run_session(s) for s in req["scns"]])
    elif req["mode"] == "session_inject":
        out = []
        for s in req["scns"]:
            base = run_session(s)
            kinds = req["kinds"]
            ks = [req["only"]] if req.get("only") is not None else range(base["backend"]["n"])
            runs = [dict(k=k, kind=kinds[k % len(kinds)], run=run_session(s, (k, kinds[k % len(kinds)]))) for k in ks]
            out.append(dict(base=base, runs=runs))
        rep = dict(results=out)
    elif req["mode"] == "probe":
        rep = dict(results=probe())
    else:
        raise ValueError(req["mode"])
    json.dump(rep, sys.stdout)


if __name__ == "__main__":
    main()
