"""Shared infrastructure: paths, Lean build/audit, driver pipe, evidence, violation reporting."""
import fcntl
import json
import os
import random
import re
import subprocess
import sys
import time

VERIF = os.path.dirname(os.path.dirname(os.path.abspath(__file__)))
REPO = os.environ.get("VERIF_REPO", "/repo")
LEAN_DIR = os.path.join(VERIF, "lean")
WORK = os.path.join(VERIF, ".work")
REPLAYS = os.path.join(VERIF, "replays")
EVIDENCE = os.environ.get("VERIF_EVIDENCE_DIR") or os.path.join(VERIF, "evidence")   # runs against scratch copies (tools/seeded.py) write elsewhere
DRIVER = os.path.join(LEAN_DIR, ".lake", "build", "bin", "adbdriver")
PY = sys.executable

ALLOWED_AXIOMS = {"propext", "Classical.choice", "Quot.sound"}
FORBIDDEN = re.compile(r"\b(sorry|admit|native_decide|bv_decide|implemented_by)\b|^\s*axiom\s|unsafe\s|maxHeartbeats\s+0\b")

if REPO not in sys.path:
    sys.path.insert(0, REPO)


class InfraError(Exception):
    """Something in the machinery itself failed (exit 2), not a verdict about the code."""


def sh(cmd, cwd=None, timeout=3600, env=None):
    p = subprocess.run(cmd, cwd=cwd, stdout=subprocess.PIPE, stderr=subprocess.STDOUT, text=True, timeout=timeout, env=env)
    return p.returncode, p.stdout


class BuildLock(object):
    def __enter__(self):
        os.makedirs(WORK, exist_ok=True)
        self.f = open(os.path.join(WORK, "build.lock"), "w")
        fcntl.flock(self.f, fcntl.LOCK_EX)
        return self

    def __exit__(self, *a):
        fcntl.flock(self.f, fcntl.LOCK_UN)
        self.f.close()


def strip_comments(text):
    """Remove Lean block and line comments (good enough for the forbidden-token audit)."""
    out = []
    i, depth, n = 0, 0, len(text)
    while i < n:
        if text.startswith("/-", i):
            depth += 1
            i += 2
        elif depth and text.startswith("-/", i):
            depth -= 1
            i += 2
        elif depth:
            if text[i] == "\n":
                out.append("\n")
            i += 1
        elif text.startswith("--", i):
            while i < n and text[i] != "\n":
                i += 1
        else:
            out.append(text[i])
            i += 1
    return "".join(out)


def grep_forbidden():
    hits = []
    for root, _, files in os.walk(LEAN_DIR):
        if ".lake" in root:
            continue
        for fn in files:
            if fn.endswith(".lean"):
                p = os.path.join(root, fn)
                with open(p) as f:
                    for ln, line in enumerate(strip_comments(f.read()).split("\n"), 1):
                        if FORBIDDEN.search(line):
                            hits.append("%s:%d: %s" % (os.path.relpath(p, VERIF), ln, line.strip()))
    return hits


def gen_and_build_model():
    """Regenerate Generated/*.lean from REPO and build the model + driver. Must succeed (else InfraError)."""
    env = dict(os.environ, VERIF_REPO=REPO)
    rc, out = sh([PY, os.path.join(VERIF, "harness", "gen.py")], env=env)
    if rc != 0:
        raise InfraError("gen.py failed:\n" + out)
    rc, out2 = sh(["lake", "build", "AdbModel", "adbdriver"], cwd=LEAN_DIR)
    if rc != 0:
        raise InfraError("model/driver build failed:\n" + out2[-4000:])
    return out.strip()


def property_modules(prop):
    """All property files of a property: AdbProofs/Properties/<prop>.lean and <prop><Suffix>.lean (e.g. C01Utf8, C11Txn)."""
    d = os.path.join(LEAN_DIR, "AdbProofs", "Properties")
    mods = []
    for fn in sorted(os.listdir(d)):
        if fn.endswith(".lean") and fn.startswith(prop) and (len(fn) == len(prop) + 5 or not fn[len(prop)].isdigit()):
            mods.append(fn[:-5])
    return mods


def property_theorems(prop):
    """(module, qualified theorem name) for every theorem stated in the property's files (the obligations)."""
    out = []
    for mod in property_modules(prop):
        path = os.path.join(LEAN_DIR, "AdbProofs", "Properties", mod + ".lean")
        with open(path) as f:
            text = strip_comments(f.read())
        # track the namespace in force at each theorem
        ns = []
        for line in text.split("\n"):
            m = re.match(r"^namespace\s+(\S+)", line)
            if m:
                ns.append(m.group(1))
                continue
            m = re.match(r"^end\s+(\S+)", line)
            if m and ns and ns[-1].split(".")[-1] == m.group(1).split(".")[-1]:
                ns.pop()
                continue
            m = re.match(r"^(?:protected\s+)?theorem\s+([A-Za-z0-9_'.]+)", line)
            if m:
                out.append((mod, ".".join(ns + [m.group(1)])))
    return out


def build_proofs(prop):
    """Build the property modules (kernel re-check against regenerated facts) and audit axioms.

    Returns dict(ok, obligations, discharged, axioms{thm: [...]}, log, broken[list of theorem names or module])."""
    mods = property_modules(prop)
    thms = property_theorems(prop)
    res = dict(ok=False, obligations=len(thms), discharged=0, axioms={}, log="", broken=[], modules=mods)
    if not mods or not thms:
        res["broken"] = ["no theorems stated for " + prop]
        return res
    rc, out = sh(["lake", "build"] + ["AdbProofs.Properties." + m for m in mods], cwd=LEAN_DIR, timeout=3600)
    res["log"] = out[-6000:]
    if rc != 0:
        errs = re.findall(r"error: (\S+?\.lean):(\d+):\d+: (.*)", out)
        res["broken"] = ["%s:%s %s" % e for e in errs[:10]] or ["build of %s failed" % mods]
        return res
    os.makedirs(WORK, exist_ok=True)
    audit = os.path.join(WORK, "Audit_%s_%d.lean" % (prop, os.getpid()))
    with open(audit, "w") as f:
        for m in mods:
            f.write("import AdbProofs.Properties.%s\n" % m)
        for _, t in thms:
            f.write("#print axioms %s\n" % t)
    rc, out = sh(["lake", "env", "lean", audit], cwd=LEAN_DIR)
    os.unlink(audit)
    if rc != 0:
        res["broken"] = ["audit failed: " + out[-2000:]]
        return res
    flat = re.sub(r"\s+", " ", out)
    for _, t in thms:
        m = re.search(r"'%s' depends on axioms: \[([^\]]*)\]" % re.escape(t), flat)
        if m:
            ax = [a.strip() for a in m.group(1).split(",") if a.strip()]
        elif re.search(r"'%s' does not depend on any axioms" % re.escape(t), flat):
            ax = []
        else:
            res["broken"].append("no axiom report for " + t)
            continue
        res["axioms"][t] = ax
        if set(ax) <= ALLOWED_AXIOMS:
            res["discharged"] += 1
        else:
            res["broken"].append("%s uses %s" % (t, sorted(set(ax) - ALLOWED_AXIOMS)))
    hits = grep_forbidden()
    if hits:
        res["broken"] += ["forbidden token: " + h for h in hits[:5]]
    res["ok"] = not res["broken"] and res["discharged"] == res["obligations"]
    return res


class Driver(object):
    """Pipe to the compiled Lean model driver: one request line, one reply line."""

    def __init__(self):
        self.p = subprocess.Popen([DRIVER], stdin=subprocess.PIPE, stdout=subprocess.PIPE, text=True, bufsize=1 << 16)
        self.n = 0

    def ask(self, line):
        self.p.stdin.write(line + "\n")
        self.p.stdin.flush()
        self.n += 1
        out = self.p.stdout.readline()
        if not out:
            raise InfraError("driver died on: " + line[:200])
        return out.rstrip("\n")

    def ask_many(self, lines):
        """Batch: a writer thread feeds the requests while this thread collects one reply per request."""
        if not lines:
            return []
        import threading

        def feed():
            try:
                for i in range(0, len(lines), 256):
                    self.p.stdin.write("\n".join(lines[i:i + 256]) + "\n")
                self.p.stdin.flush()
            except (BrokenPipeError, ValueError):
                pass
        t = threading.Thread(target=feed, daemon=True)
        t.start()
        # watchdog: the model must answer a batch within the budget, otherwise it is killed (InfraError, exit 2)
        budget = float(os.environ.get("VERIF_DRIVER_TIMEOUT", "300"))
        killer = threading.Timer(budget, self.p.kill)
        killer.daemon = True
        killer.start()
        outs = []
        try:
            for _ in lines:
                out = self.p.stdout.readline()
                if not out:
                    raise InfraError("driver died or exceeded %.0fs in a batch of %d lines (first: %s)" % (budget, len(lines), lines[0][:120]))
                outs.append(out.rstrip("\n"))
        finally:
            killer.cancel()
        t.join()
        self.n += len(lines)
        return outs

    def close(self):
        try:
            self.p.stdin.close()
            self.p.wait(timeout=10)
        except Exception:
            self.p.kill()


def hx(b):
    b = bytes(b)
    return b.hex() if b else "-"


def unhx(s):
    return b"" if s == "-" else bytes.fromhex(s)


class Report(object):
    """What a unit explored; filled by the unit, turned into evidence + exit code by cli."""

    def __init__(self, prop, tier, seed):
        self.prop, self.tier, self.seed = prop, tier, seed
        self.evaluations = 0
        self.signatures = set()       # distinct non-trivial case signatures
        self.samples = []
        self.dist = {}                # name -> {bucket: count}
        self.disagreements = []       # correspondence failures: dict(case=..., impl=..., model=...)
        self.prop_failures = []       # property oracle failures on the implementation: dict(case=..., why=...)
        self.known = []               # known-finding lines
        self.notes = []
        self.traces_validated = 0
        self.rule = ""
        self.exhaustive = False

    def count(self, name, bucket):
        d = self.dist.setdefault(name, {})
        d[str(bucket)] = d.get(str(bucket), 0) + 1

    def sample(self, s, cap=6):
        if len(self.samples) < cap:
            self.samples.append(s)


def load_known_findings():
    with open(os.path.join(VERIF, "known_findings.json")) as f:
        return json.load(f)


def write_replay(prop, seed, payload):
    os.makedirs(REPLAYS, exist_ok=True)
    path = os.path.join(REPLAYS, "%s-%s.json" % (prop, seed))
    with open(path, "w") as f:
        json.dump(payload, f, indent=1, default=str)
    return path


def write_evidence(report, proofs, wall_s, violations, extra=None):
    os.makedirs(EVIDENCE, exist_ok=True)
    cov = {
        "obligations": proofs["obligations"],
        "discharged": proofs["discharged"],
        "checker_cmd": "cd lean && lake build %s && lake env lean <generated file with #print axioms for each theorem>" % " ".join("AdbProofs.Properties." + m for m in proofs.get("modules", [report.prop]))
                       + ("; lake env leanchecker <the same modules>" if report.tier == "thorough" else ""),
        "trusted_base": [
            "Lean 4.33.0 kernel; axioms allowed in property theorems: propext, Classical.choice, Quot.sound (audited with #print axioms every run)",
            "harness/gen.py (facts regenerated from the current source: constants, lock nesting, guard prefixes, twin structure)",
            "harness/pytrans.py + lean/AdbModel/Py.lean (translation of the pure helpers' current source into Lean; the *Src* theorems prove it equal to the model; "
            "the translator is validated every run by executing the generated definitions next to the real functions, counted in distributions.srccheck_*)",
            "the differential correspondence harness (model = code is SAMPLED on the cases counted below, not proved)",
            "CPython, struct, threading/asyncio primitives, sockets, libusb, crypto libraries: modelled, not verified",
        ],
        "theorems": proofs["axioms"],
        "evaluations": report.evaluations,
        "distinct_nontrivial": len(report.signatures),
        "rule": report.rule,
        "traces_validated_against_impl": report.traces_validated,
        "samples": report.samples or ["(no sample recorded)"],
        "distributions": report.dist,
        "exhaustive": report.exhaustive,
        "correspondence_disagreements": len(report.disagreements),
        "property_failures_on_impl": len(report.prop_failures),
        "known_findings_reported": report.known,
        "notes": report.notes,
    }
    if extra:
        cov.update(extra)
    ev = {
        "property_id": report.prop,
        "tier": report.tier,
        "seed": int(report.seed),
        "level": "proof",
        "coverage": cov,
        "assumptions": [
            "model-to-code tie is a sampled differential correspondence plus regenerated facts; see DESIGN.md section 7",
        ],
        "wall_s": round(wall_s, 2),
        "violations": violations,
    }
    with open(os.path.join(EVIDENCE, report.prop + ".json"), "w") as f:
        json.dump(ev, f, indent=1, default=str)
