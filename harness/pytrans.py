#!/usr/bin/env python
"""Translator: the CURRENT source of adb_shell's pure helpers -> Lean definitions over AdbModel/Py.lean.

Output: lean/AdbModel/Generated/Src.lean (namespace Adb.Src), regenerated on every run by gen.py.
For every target function the Python AST is compiled to a Lean `do` block in the `Py.M` (= Except Py.Err) monad:

  * expressions are put in A-normal form (`let tN <- Py.op a b`), `and`/`or` keep their short-circuit meaning
    (the right operand is a separate `do` block whose value or exception is only used when the left does not decide),
  * statements are compiled in continuation-passing style: the code after an `if` is duplicated into both branches, so an
    early `return` needs no special treatment; `for` over a literal tuple is unrolled; generator expressions under
    `next(..., default)` become nested `Py.firstM` (lazy, first match), under `sum(...)` nested `Py.flatMapM`,
  * `self` is an explicit value: methods that assign/delete/mutate through `self` return `(result, self')`, pure ones return
    the result only; mutation is by path from a local root (`Py.setPath`), and code that would mutate through an alias
    (a local bound to a sub-object of self that is then mutated) is rejected,
  * anything outside the subset makes THAT function untranslatable: Src.lean then carries `def <name>_UNTRANSLATABLE` with
    the reason instead of the definition, so the refinement theorem of that function no longer builds (a broken proof
    obligation, handled by the decision protocol), and everything else still builds.

The translator is part of the trusted base; it is validated on every run by executing the generated definitions on sample
inputs (`lake env lean --run`) and comparing with what the real Python functions return (harness/units/srccheck.py).
"""
import ast
import os
import sys

REPO = os.environ.get("VERIF_REPO", "/repo")


class Unsupported(Exception):
    pass


def lean_str(s):
    out = []
    for ch in s:
        if ch == "\\":
            out.append("\\\\")
        elif ch == '"':
            out.append('\\"')
        elif 32 <= ord(ch) < 127:
            out.append(ch)
        elif ord(ch) <= 0xFFFF:
            out.append("\\u%04x" % ord(ch))
        else:
            raise Unsupported("string character outside the BMP")
    return '"' + "".join(out) + '"'


def lean_bytes(b):
    return "[" + ", ".join(str(x) for x in bytes(b)) + "]"


def lean_const(v):
    """Lean term of type Py.Val for a Python constant value."""
    if v is None:
        return "Val.none"
    if isinstance(v, bool):
        return "(Val.bool %s)" % ("true" if v else "false")
    if isinstance(v, int):
        return "(Val.int %s)" % (str(v) if v >= 0 else "(%d)" % v)
    if isinstance(v, (bytes, bytearray)):
        return "(Val.bytes %s)" % lean_bytes(v)
    if isinstance(v, str):
        return "(Val.str %s)" % lean_str(v)
    if isinstance(v, tuple):
        return "(Val.tuple [%s])" % ", ".join(lean_const(x) for x in v)
    if isinstance(v, dict):
        items = []
        for k, x in v.items():
            if isinstance(k, bool) or not isinstance(k, (int, bytes, str, type(None))):
                raise Unsupported("dict key %r" % (k,))
            if k is None:
                kk = "Key.none"
            elif isinstance(k, int):
                kk = "(Key.int %s)" % (str(k) if k >= 0 else "(%d)" % k)
            elif isinstance(k, bytes):
                kk = "(Key.bytes %s)" % lean_bytes(k)
            else:
                kk = "(Key.str %s)" % lean_str(k)
            items.append("(%s, %s)" % (kk, lean_const(x)))
        return "(Val.dict [%s])" % ", ".join(items)
    raise Unsupported("constant %r" % (v,))


EXC_MAP = {"ValueError": "valueError", "TypeError": "typeError", "KeyError": "keyError", "IndexError": "indexError", "AdbTimeoutError": "adbTimeout", "InvalidCommandError": "invalidCommand", "InvalidChecksumError": "invalidChecksum",
           "AdbCommandFailureException": "adbCommandFailure", "InvalidResponseError": "invalidResponse"}
CMP = {ast.Eq: "Py.eqV", ast.NotEq: "Py.neV", ast.Is: "Py.isV", ast.IsNot: "Py.isNotV", ast.In: "Py.inV", ast.NotIn: "Py.notInV",
       ast.Lt: "Py.ltV", ast.LtE: "Py.leV", ast.Gt: "Py.gtV", ast.GtE: "Py.geV"}
BIN = {ast.Add: "Py.add", ast.Sub: "Py.sub", ast.Mult: "Py.mul", ast.FloorDiv: "Py.floordiv", ast.Mod: "Py.mod", ast.BitAnd: "Py.bitand",
       ast.BitXor: "Py.bitxor", ast.BitOr: "Py.bitor", ast.RShift: "Py.shr", ast.LShift: "Py.shl", ast.Pow: "Py.pow"}
MUTATING_METHODS = {"put_nowait", "get_nowait", "put", "get", "append", "pop", "clear", "update", "extend", "remove", "insert", "popitem", "setdefault"}


def fn_name(cls, name):
    n = {"__init__": "init", "__contains__": "contains", "__len__": "len"}.get(name, name.strip("_"))
    return (cls.strip("_") + "_" if cls else "") + n


def const_fold(e):
    """int value of a constant expression (literals combined with ** * + - <<), else None"""
    if isinstance(e, ast.Constant) and isinstance(e.value, int) and not isinstance(e.value, bool):
        return e.value
    if isinstance(e, ast.BinOp):
        a, b = const_fold(e.left), const_fold(e.right)
        if a is None or b is None:
            return None
        if isinstance(e.op, ast.Pow) and 0 <= b <= 64:
            return a ** b
        if isinstance(e.op, ast.Mult):
            return a * b
        if isinstance(e.op, ast.Add):
            return a + b
        if isinstance(e.op, ast.Sub):
            return a - b
        if isinstance(e.op, ast.LShift) and 0 <= b <= 64:
            return a << b
    if isinstance(e, ast.UnaryOp) and isinstance(e.op, ast.USub):
        a = const_fold(e.operand)
        return None if a is None else -a
    return None


class Unit(object):
    """One translation unit: the functions of one module that are to be translated, with what they may refer to."""

    def __init__(self, consts, module=None):
        self.consts = consts          # python module object `constants`
        self.module = module          # the python module the functions live in (for module-level constants they refer to by bare name)
        self.used_consts = {}
        self.bad = set()              # functions that could not be translated
        self.fns = {}                 # lean name -> dict(cls, name, node, params, impure, is_prop)
        self.classes = {}             # class name -> {method name: lean name}, plus set of property names
        self.props = {}

    def add_function(self, cls, node, lean=None, params=None):
        lean = lean or fn_name(cls, node.name)
        is_prop = any(isinstance(d, ast.Name) and d.id == "property" for d in getattr(node, "decorator_list", []))
        ps = params if params is not None else [a.arg for a in node.args.args]
        defaults = {}
        if params is None:
            ds = node.args.defaults
            for a, d in zip(node.args.args[len(node.args.args) - len(ds):], ds):
                defaults[a.arg] = d
        self.fns[lean] = dict(cls=cls, name=node.name, node=node, params=ps, defaults=defaults, is_prop=is_prop, impure=False, body=node.body)
        if cls:
            self.classes.setdefault(cls, {})[node.name] = lean
            if is_prop:
                self.props.setdefault(cls, set()).add(node.name)
        else:
            self.classes.setdefault("", {})[node.name] = lean
        return lean

    # ---- purity: does a method change `self`? (assign / del / mutating call on a path rooted at self, or a call to an impure method)
    def compute_purity(self):
        changed = True
        while changed:
            changed = False
            for lean, f in self.fns.items():
                if f["impure"] or not f["cls"]:
                    continue
                if self._mutates_self(f):
                    f["impure"] = True
                    changed = True

    def _root_of(self, e):
        while isinstance(e, (ast.Attribute, ast.Subscript)):
            e = e.value
        return e.id if isinstance(e, ast.Name) else None

    def _mutates_self(self, f):
        for n in ast.walk(ast.Module(body=f["body"], type_ignores=[])):
            if isinstance(n, (ast.Assign, ast.AugAssign, ast.Delete)):
                tg = n.targets if isinstance(n, (ast.Assign, ast.Delete)) else [n.target]
                for t in tg:
                    for tt in (t.elts if isinstance(t, ast.Tuple) else [t]):
                        if isinstance(tt, (ast.Attribute, ast.Subscript)) and self._root_of(tt) == "self":
                            return True
            if isinstance(n, ast.Call) and isinstance(n.func, ast.Attribute):
                if isinstance(n.func.value, ast.Name) and n.func.value.id == "self":
                    callee = self.classes.get(f["cls"], {}).get(n.func.attr)
                    if callee and self.fns[callee]["impure"]:
                        return True
                elif n.func.attr in MUTATING_METHODS and self._root_of(n.func.value) == "self":
                    return True
        return False


class FnTr(object):
    def __init__(self, unit, lean):
        self.u = unit
        self.lean = lean
        self.f = unit.fns[lean]
        self.lines = []
        self.ind = 1
        self.n = 0
        self.locals = set(self.f["params"])
        self.aliases = set()          # locals bound to (parts of) mutable objects reachable from another root
        self.dead = []                # reasons of branches replaced by `throw Err.unsupported`
        self.live_paths = 0

    # ---- emission helpers
    def emit(self, s):
        self.lines.append("  " * self.ind + s)

    def fresh(self, p="t"):
        self.n += 1
        return "%s%d" % (p, self.n)

    def var(self, name):
        return "v_" + name

    def bind(self, rhs, pure=False):
        t = self.fresh()
        self.emit("let %s %s %s" % (t, ":=" if pure else "←", rhs))
        return t

    # ---- expressions -> atom
    def const_ref(self, name):
        if not hasattr(self.u.consts, name):
            raise Unsupported("constants.%s does not exist" % name)
        v = getattr(self.u.consts, name)
        if isinstance(v, float):
            raise Unsupported("float constant constants.%s" % name)
        self.u.used_consts[name] = lean_const(v)
        return "const_" + name

    def path_of(self, e):
        """(root variable name, [accessor lean terms]) for Name / Attribute / Subscript chains rooted at a local; accessors' keys are evaluated now"""
        accs = []
        cur = e
        chain = []
        while isinstance(cur, (ast.Attribute, ast.Subscript)):
            chain.append(cur)
            cur = cur.value
        if not isinstance(cur, ast.Name) or cur.id not in self.locals:
            raise Unsupported("path root %s" % ast.dump(cur)[:60])
        for c in reversed(chain):
            if isinstance(c, ast.Attribute):
                accs.append("Acc.attr %s" % lean_str(c.attr))
            else:
                if isinstance(c.slice, ast.Slice):
                    raise Unsupported("slice")
                k = self.expr(c.slice)
                accs.append("Acc.idx %s" % k)
        return cur.id, accs

    def expr(self, e):
        cf = const_fold(e)
        if cf is not None:
            return lean_const(cf)
        if isinstance(e, ast.Constant):
            if isinstance(e.value, float):
                raise Unsupported("float literal")
            return lean_const(e.value)
        if isinstance(e, ast.Name):
            if e.id in self.locals:
                return self.var(e.id)
            if self.u.module is not None and e.id.isupper() and hasattr(self.u.module, e.id):
                v = getattr(self.u.module, e.id)
                if isinstance(v, float):
                    raise Unsupported("float constant %s" % e.id)
                self.u.used_consts[e.id] = lean_const(v)
                return "const_" + e.id
            raise Unsupported("free name %s" % e.id)
        if isinstance(e, ast.Attribute):
            if isinstance(e.value, ast.Name) and e.value.id == "constants":
                return self.const_ref(e.attr)
            if isinstance(e.value, ast.Name) and e.value.id == "self" and e.attr in self.u.props.get(self.f["cls"], ()):
                callee = self.u.classes[self.f["cls"]][e.attr]
                if callee in self.u.bad:
                    raise Unsupported("uses %s, which is untranslatable" % callee)
                if self.u.fns[callee]["impure"]:
                    raise Unsupported("impure property")
                return self.bind("%s v_self" % callee)
            o = self.expr(e.value)
            return self.bind("Py.getAttr %s %s" % (o, lean_str(e.attr)))
        if isinstance(e, ast.Subscript):
            neg = const_fold(e.slice) if not isinstance(e.slice, ast.Slice) else None
            if neg is not None and neg < 0:
                return self.bind("Py.getItemNeg %s %d" % (self.expr(e.value), -neg))
            if isinstance(e.slice, ast.Slice) and e.slice.step is None and e.slice.lower is not None and const_fold(e.slice.lower) is not None and const_fold(e.slice.lower) >= 0 \
                    and (e.slice.upper is None or (const_fold(e.slice.upper) is not None and const_fold(e.slice.upper) < 0)) and getattr(self.u, "tuple_slices", False):
                k = 0 if e.slice.upper is None else -const_fold(e.slice.upper)
                return self.bind("Py.sliceTL %s %d %d" % (self.expr(e.value), const_fold(e.slice.lower), k))
            if isinstance(e.slice, ast.Slice):
                if e.slice.lower is not None and e.slice.upper is None and e.slice.step is None:
                    c = self.expr(e.value)
                    k = self.expr(e.slice.lower)
                    return self.bind("Py.sliceFrom %s %s" % (c, k))
                if e.slice.lower is None and e.slice.upper is not None and e.slice.step is None:
                    c = self.expr(e.value)
                    k = self.expr(e.slice.upper)
                    return self.bind("Py.sliceTo %s %s" % (c, k))
                raise Unsupported("slice")
            c = self.expr(e.value)
            k = self.expr(e.slice)
            return self.bind("Py.getItem %s %s" % (c, k))
        if isinstance(e, ast.Compare):
            if len(e.ops) != 1 or type(e.ops[0]) not in CMP:
                raise Unsupported("comparison chain / operator")
            a = self.expr(e.left)
            b = self.expr(e.comparators[0])
            return self.bind("%s %s %s" % (CMP[type(e.ops[0])], a, b))
        if isinstance(e, ast.BoolOp):
            return self.boolop(isinstance(e.op, ast.And), e.values)
        if isinstance(e, ast.UnaryOp):
            if isinstance(e.op, ast.Not):
                return self.bind("Py.not_ %s" % self.expr(e.operand))
            raise Unsupported("unary operator")
        if isinstance(e, ast.BinOp):
            if type(e.op) not in BIN:
                raise Unsupported("binary operator %s" % type(e.op).__name__)
            a = self.expr(e.left)
            b = self.expr(e.right)
            return self.bind("%s %s %s" % (BIN[type(e.op)], a, b))
        if isinstance(e, ast.IfExp):
            c = self.expr(e.test)
            t = self.fresh()
            self.emit("let %s ← (if (← Py.truthy %s) then (do" % (t, c))
            self.sub_block(e.body)
            self.emit("  ) else (do")
            self.sub_block(e.orelse)
            self.emit("  ))")
            return t
        if isinstance(e, ast.Tuple):
            return "(Val.tuple [%s])" % ", ".join(self.expr(x) for x in e.elts)
        if isinstance(e, ast.List):
            return "(Val.list [%s])" % ", ".join(self.expr(x) for x in e.elts)
        if isinstance(e, ast.Dict):
            if not e.keys:
                return "(Val.dict [])"
            cur = "(Val.dict [])"
            for k, v in zip(e.keys, e.values):
                if k is None:
                    raise Unsupported("dict unpacking")
                ka, va = self.expr(k), self.expr(v)
                cur = self.bind("Py.setAcc %s (Acc.idx %s) %s" % (cur, ka, va))
            return cur
        if isinstance(e, ast.Call):
            return self.call(e)
        raise Unsupported("expression %s" % type(e).__name__)

    def static_value(self, e):
        """python value of an expression that names a constant (constants.X / module-level NAME / literal), else None"""
        if isinstance(e, ast.Constant):
            return e.value
        if isinstance(e, ast.Attribute) and isinstance(e.value, ast.Name) and e.value.id == "constants":
            return getattr(self.u.consts, e.attr, None)
        if isinstance(e, ast.Name) and self.u.module is not None and e.id.isupper():
            return getattr(self.u.module, e.id, None)
        return None

    def sub_block(self, e):
        """a nested `do` block computing expression e (used for lazily used operands)"""
        self.ind += 2
        a = self.expr(e)
        self.emit("pure %s" % a)
        self.ind -= 2

    def boolop(self, is_and, values):
        a = self.expr(values[0])
        if len(values) == 1:
            return a
        t = self.fresh()
        self.emit("let %s ← %s %s (do" % (t, "Py.andV" if is_and else "Py.orV", a))
        self.ind += 2
        r = self.boolop(is_and, values[1:])
        self.emit("pure %s" % r)
        self.ind -= 2
        self.emit("  )")
        return t

    def gen_first(self, elt, gens):
        """nested Py.firstM for next((elt for ... if ...), default): atom of type Option Val"""
        g = gens[0]
        if g.is_async:
            raise Unsupported("async comprehension")
        lst = self.iter_list(g.iter)
        x = self.fresh("x")
        t = self.fresh()
        self.emit("let %s ← Py.firstM %s (fun %s => do" % (t, lst, x))
        self.ind += 2
        saved = set(self.locals)
        self.bind_target(g.target, x)
        self.comp_conds(g.ifs, "pure Option.none", lambda: self._first_inner(elt, gens[1:]))
        self.locals = saved
        self.ind -= 2
        self.emit("  )")
        return t

    def _first_inner(self, elt, rest):
        if rest:
            r = self.gen_first(elt, rest)
            self.emit("pure %s" % r)
        else:
            self.emit("pure (some %s)" % self.expr(elt))

    def gen_all(self, elt, gens):
        """nested Py.flatMapM for a fully consumed generator / list comprehension: atom of type List Val"""
        g = gens[0]
        if g.is_async:
            raise Unsupported("async comprehension")
        lst = self.iter_list(g.iter)
        x = self.fresh("x")
        t = self.fresh()
        self.emit("let %s ← Py.flatMapM %s (fun %s => do" % (t, lst, x))
        self.ind += 2
        saved = set(self.locals)
        self.bind_target(g.target, x)
        self.comp_conds(g.ifs, "pure []", lambda: self._all_inner(elt, gens[1:]))
        self.locals = saved
        self.ind -= 2
        self.emit("  )")
        return t

    def _all_inner(self, elt, rest):
        if rest:
            r = self.gen_all(elt, rest)
            self.emit("pure %s" % r)
        else:
            self.emit("pure [%s]" % self.expr(elt))

    def comp_conds(self, ifs, empty, k):
        if not ifs:
            k()
            return
        c = self.expr(ifs[0])
        self.emit("if (← Py.truthy %s) then" % c)
        self.ind += 1
        self.comp_conds(ifs[1:], empty, k)
        self.ind -= 1
        self.emit("else")
        self.ind += 1
        self.emit(empty)
        self.ind -= 1

    def iter_list(self, it):
        """atom of type List Val: the elements a `for` over expression `it` visits"""
        if isinstance(it, ast.Call) and isinstance(it.func, ast.Attribute) and it.func.attr in ("items", "values") and not it.args:
            o = self.expr(it.func.value)
            return self.bind("Py.%s %s" % (it.func.attr, o))
        return self.bind("Py.iter %s" % self.expr(it))

    def bind_target(self, target, atom):
        if isinstance(target, ast.Name):
            self.emit("let %s := %s" % (self.var(target.id), atom))
            self.locals.add(target.id)
            self.aliases.add(target.id)
        elif isinstance(target, ast.Tuple) and all(isinstance(x, ast.Name) for x in target.elts):
            u = self.bind("Py.unpackN %s %d" % (atom, len(target.elts)))
            for i, x in enumerate(target.elts):
                self.emit("let %s := Py.nth %s %d" % (self.var(x.id), u, i))
                self.locals.add(x.id)
                self.aliases.add(x.id)
        else:
            raise Unsupported("assignment target")

    def call(self, e):
        f = e.func
        if e.keywords:
            raise Unsupported("keyword arguments")
        if isinstance(f, ast.Name):
            name = f.id
            if name == "min" and len(e.args) == 2:
                return self.bind("Py.min2 %s %s" % (self.expr(e.args[0]), self.expr(e.args[1])))
            if name == "len" and len(e.args) == 1:
                return self.bind("Py.len_ %s" % self.expr(e.args[0]))
            if name == "bool" and len(e.args) == 1:
                return self.bind("Py.boolV %s" % self.expr(e.args[0]))
            if name == "ord" and len(e.args) == 1:
                return self.bind("Py.ord_ %s" % self.expr(e.args[0]))
            if name == "isinstance" and len(e.args) == 2 and isinstance(e.args[1], ast.Name):
                return self.bind("Py.isinstance %s %s" % (self.expr(e.args[0]), lean_str(e.args[1].id)))
            if name == "hasattr" and len(e.args) == 2 and isinstance(e.args[1], ast.Constant) and e.args[1].value == "to_bytes":
                return self.bind("Py.hasToBytes %s" % self.expr(e.args[0]))
            if name == "bytearray" and len(e.args) <= 1:
                if not e.args:
                    return "(Val.bytearray [])"
                return self.bind("Py.bytearrayOf %s" % self.expr(e.args[0]))
            if name == "Queue" and not e.args:
                return "(Val.queue [])"
            if name == "sum" and len(e.args) == 1:
                a = e.args[0]
                if isinstance(a, (ast.GeneratorExp, ast.ListComp)):
                    lst = self.gen_all(a.elt, a.generators)
                else:
                    lst = self.bind("Py.iter %s" % self.expr(a))
                return self.bind("Py.sum_ %s" % lst)
            if name == "next" and len(e.args) == 2 and isinstance(e.args[0], ast.GeneratorExp):
                d = self.expr(e.args[1])
                o = self.gen_first(e.args[0].elt, e.args[0].generators)
                return self.bind("Py.optD %s %s" % (o, d), pure=True)
            if name in getattr(self.u, "constructors", {}):
                lean_init, nparams, defaults = self.u.constructors[name]
                args = [self.expr(a) for a in e.args]
                if len(args) + len(defaults) < nparams or len(args) > nparams:
                    raise Unsupported("constructor arguments of %s" % name)
                args += [lean_const(d) for d in defaults[len(defaults) - (nparams - len(args)):]] if nparams > len(args) else []
                r = self.bind("%s (Py.newObj %s) %s" % (lean_init, lean_str(name), " ".join(args)))
                return "%s.2" % r
            if name in getattr(self.u, "external", {}) and name not in self.u.classes.get("", {}):
                args = [self.expr(a) for a in e.args]
                return self.bind("%s %s" % (self.u.external[name], " ".join(args)))
            callee = self.u.classes.get("", {}).get(name)
            if callee in self.u.bad:
                raise Unsupported("calls %s, which is untranslatable" % callee)
            if callee:
                args = [self.expr(a) for a in e.args]
                return self.bind("%s %s" % (callee, " ".join(args)))
            raise Unsupported("call of %s" % name)
        if isinstance(f, ast.Attribute):
            if isinstance(f.value, ast.Name) and f.value.id == "struct":
                if f.attr == "pack" and e.args:
                    fmt = self.expr(e.args[0])
                    args = [self.expr(a) for a in e.args[1:]]
                    fv = self.static_value(e.args[0])
                    simple = isinstance(fv, (bytes, str)) and __import__("re").fullmatch(r"<\d*I", fv.decode() if isinstance(fv, bytes) else fv)
                    return self.bind("%s %s [%s]" % ("Py.structPack" if simple or fv is None else "Py.structPackG", fmt, ", ".join(args)))
                if f.attr == "unpack" and len(e.args) == 2:
                    return self.bind("Py.structUnpack %s %s" % (self.expr(e.args[0]), self.expr(e.args[1])))
                if f.attr == "calcsize" and len(e.args) == 1:
                    return self.bind("Py.structCalcsize %s" % self.expr(e.args[0]))
                raise Unsupported("struct.%s" % f.attr)
            if isinstance(f.value, ast.Name) and f.value.id == "rsa" and f.attr == "_modinv" and len(e.args) == 2:
                return self.bind("Py.modinv %s %s" % (self.expr(e.args[0]), self.expr(e.args[1])))
            if f.attr == "to_bytes" and len(e.args) == 2:
                return self.bind("Py.intToBytes %s %s %s" % (self.expr(f.value), self.expr(e.args[0]), self.expr(e.args[1])))
            if isinstance(f.value, ast.Name) and f.value.id == "self" and f.attr in getattr(self.u, "self_methods", {}):
                args = [self.expr(a) for a in e.args]
                return self.bind("%s v_self %s" % (self.u.self_methods[f.attr], " ".join(args)))
            if isinstance(f.value, ast.Name) and f.value.id == "self":
                callee = self.u.classes.get(self.f["cls"], {}).get(f.attr)
                if callee is None:
                    raise Unsupported("self.%s is not a translated method" % f.attr)
                if callee in self.u.bad:
                    raise Unsupported("calls %s, which is untranslatable" % callee)
                cf = self.u.fns[callee]
                if cf["impure"]:
                    raise Unsupported("impure method self.%s used inside an expression" % f.attr)
                args = self.call_args(cf, e.args)
                return self.bind("%s v_self %s" % (callee, " ".join(args)))
            if isinstance(f.value, ast.Name) and (f.value.id, f.attr) in getattr(self.u, "typed_methods", {}):
                callee = self.u.typed_methods[(f.value.id, f.attr)]
                if callee not in getattr(self.u, "external_pure", ()):
                    raise Unsupported("%s.%s() is not available as a pure translated function" % (f.value.id, f.attr))
                return self.bind("%s %s %s" % (callee, self.expr(f.value), " ".join(self.expr(a) for a in e.args)))
            if isinstance(f.value, ast.Attribute) and (f.value.attr, f.attr) in getattr(self.u, "attr_pure_methods", {}):
                callee = self.u.attr_pure_methods[(f.value.attr, f.attr)]
                if callee not in getattr(self.u, "external_pure", ()):
                    raise Unsupported("%s is not available as a pure translated function" % callee)
                return self.bind("%s %s %s" % (callee, self.expr(f.value), " ".join(self.expr(a) for a in e.args)))
            if f.attr == "encode" and len(e.args) == 1 and const_fold_str(e.args[0]) in ("utf8", "utf-8"):
                return self.bind("Py.encodeUtf8 %s" % self.expr(f.value))
            if f.attr == "get" and len(e.args) == 1:
                return self.bind("Py.dictGet %s %s" % (self.expr(f.value), self.expr(e.args[0])))
            if f.attr == "pack" and not e.args and isinstance(f.value, ast.Name) and f.value.id == "msg":
                if "AdbMessage_pack" not in getattr(self.u, "external_pure", ()):
                    raise Unsupported("msg.pack() is not available as a pure translated function")
                return self.bind("AdbMessage_pack %s" % self.expr(f.value))
            if f.attr == "empty" and not e.args:
                return self.bind("Py.queueEmpty %s" % self.expr(f.value))
            raise Unsupported("method call .%s" % f.attr)
        raise Unsupported("call")

    def call_args(self, cf, args):
        ps = cf["params"][1:] if cf["cls"] else cf["params"]
        out = [self.expr(a) for a in args]
        for p in ps[len(args):]:
            if p not in cf["defaults"]:
                raise Unsupported("missing argument %s" % p)
            out.append(self.expr(cf["defaults"][p]))
        if len(out) != len(ps):
            raise Unsupported("argument count")
        return out

    # ---- statements (CPS)
    def ret(self, atom):
        if self.f["impure"]:
            self.emit("pure (%s, v_self)" % atom)
        else:
            self.emit("pure %s" % atom)

    def assign_name(self, name, atom):
        self.emit("let %s := %s" % (self.var(name), atom))
        self.locals.add(name)

    def store(self, target, atom):
        if isinstance(target, ast.Name):
            self.assign_name(target.id, atom)
            self.aliases.discard(target.id)
        elif isinstance(target, ast.Tuple) and all(isinstance(x, ast.Name) for x in target.elts):
            u = self.bind("Py.unpackN %s %d" % (atom, len(target.elts)))
            for i, x in enumerate(target.elts):
                self.assign_name(x.id, "Py.nth %s %d" % (u, i))
                self.aliases.discard(x.id)
        elif isinstance(target, ast.Tuple) and all(isinstance(x, (ast.Name, ast.Attribute)) for x in target.elts):
            u = self.bind("Py.unpackN %s %d" % (atom, len(target.elts)))
            for i, x in enumerate(target.elts):
                self.store(x, "(Py.nth %s %d)" % (u, i))
        elif isinstance(target, ast.Subscript) and isinstance(target.slice, ast.Slice):
            sl = target.slice
            if sl.step is not None or sl.lower is None or sl.upper is None:
                raise Unsupported("slice assignment form")
            cur = self.expr(target.value)
            lo = self.expr(sl.lower)
            hi = self.expr(sl.upper)
            nv = self.bind("Py.setSlice %s %s %s %s" % (cur, lo, hi, atom))
            self.store(target.value, nv)
        elif isinstance(target, (ast.Attribute, ast.Subscript)):
            root, accs = self.path_of(target)
            if root in self.aliases:
                raise Unsupported("mutation through alias %s" % root)
            self.emit("let %s ← Py.setPath %s [%s] %s" % (self.var(root), self.var(root), ", ".join(accs), atom))
        else:
            raise Unsupported("assignment target")

    def block(self, stmts, k):
        if not stmts:
            k()
            return
        s, rest = stmts[0], stmts[1:]
        saved_locals = None

        def cont():
            self.block(rest, k)

        if isinstance(s, ast.Return):
            self.ret(self.expr(s.value) if s.value is not None else "Val.none")
            return
        if isinstance(s, ast.Pass):
            cont()
            return
        if isinstance(s, ast.Expr) and isinstance(s.value, ast.Constant):
            cont()
            return
        if isinstance(s, ast.If):
            c = self.expr(s.test)
            self.emit("if (← Py.truthy %s) then" % c)
            saved_locals, saved_aliases = set(self.locals), set(self.aliases)
            self.ind += 1
            self.branch(s.body, cont)
            self.ind -= 1
            self.locals, self.aliases = set(saved_locals), set(saved_aliases)
            self.emit("else")
            self.ind += 1
            self.branch(s.orelse, cont)
            self.ind -= 1
            self.locals, self.aliases = saved_locals, saved_aliases
            return
        if isinstance(s, ast.Raise):
            exc = s.exc
            name = None
            if isinstance(exc, ast.Call) and isinstance(exc.func, ast.Name):
                name = exc.func.id
            elif isinstance(exc, ast.Call) and isinstance(exc.func, ast.Attribute) and isinstance(exc.func.value, ast.Name) and exc.func.value.id == "exceptions":
                name = exc.func.attr
            elif isinstance(exc, ast.Name):
                name = exc.id
            if name not in EXC_MAP:
                raise Unsupported("raise %s" % name)
            self.emit("throw Err.%s" % EXC_MAP[name])
            return
        if isinstance(s, ast.Assign) and len(s.targets) == 1 and isinstance(s.targets[0], ast.Name) and rest and isinstance(rest[0], ast.Raise) \
                and not any(isinstance(x, ast.Name) and x.id == s.targets[0].id for st in rest[1:] for x in ast.walk(st)):
            # a value that only feeds the message of the exception raised next is not computed (exception arguments are not modelled)
            cont()
            return
        if isinstance(s, ast.Assign):
            if len(s.targets) != 1:
                raise Unsupported("multiple assignment targets")
            tgt, val = s.targets[0], s.value
            if self.mut_call(val, tgt):
                cont()
                return
            atom = self.expr(val)
            # a local bound to a part of another object is an alias: it may be read, not mutated through
            if isinstance(tgt, ast.Name) and isinstance(val, (ast.Attribute, ast.Subscript, ast.Name)) \
                    and not (isinstance(val, ast.Name) and __import__("re").fullmatch(r"eff\d+", val.id)):      # an effect's result is a fresh value
                self.store(tgt, atom)
                self.aliases.add(tgt.id)
            else:
                self.store(tgt, atom)
            cont()
            return
        if isinstance(s, ast.AugAssign):
            if type(s.op) not in BIN:
                raise Unsupported("augmented operator")
            cur = self.expr(s.target)
            v = self.expr(s.value)
            r = self.bind("%s %s %s" % (BIN[type(s.op)], cur, v))
            self.store(s.target, r)
            cont()
            return
        if isinstance(s, ast.Delete):
            for t in s.targets:
                if not isinstance(t, ast.Subscript):
                    raise Unsupported("del of a non-subscript")
                root, accs = self.path_of(t)
                if root in self.aliases:
                    raise Unsupported("mutation through alias %s" % root)
                self.emit("let %s ← Py.delPath %s [%s]" % (self.var(root), self.var(root), ", ".join(accs)))
            cont()
            return
        if isinstance(s, ast.Expr):
            if self.mut_call(s.value, None):
                cont()
                return
            self.expr(s.value)
            cont()
            return
        if isinstance(s, ast.For):
            if s.orelse or not isinstance(s.iter, ast.Tuple):
                raise Unsupported("for loop over a non-literal")
            for n in ast.walk(ast.Module(body=s.body, type_ignores=[])):
                if isinstance(n, (ast.Break, ast.Continue)):
                    raise Unsupported("break/continue")
            elts = list(s.iter.elts)

            def iteration(i):
                if i == len(elts):
                    cont()
                    return
                a = self.expr(elts[i])
                self.store(s.target, a)
                self.block(s.body, lambda: iteration(i + 1))
            iteration(0)
            return
        if isinstance(s, ast.Try):
            if s.orelse or s.finalbody or len(s.handlers) != 1:
                raise Unsupported("try shape")
            h = s.handlers[0]
            ok = isinstance(h.type, ast.Attribute) and isinstance(h.type.value, ast.Name) and h.type.value.id == "struct" and h.type.attr == "error"
            if not ok:
                raise Unsupported("except clause")
            assigned = []
            for n in s.body:
                if not isinstance(n, ast.Assign) or len(n.targets) != 1:
                    raise Unsupported("try body")
                t = n.targets[0]
                for x in (t.elts if isinstance(t, ast.Tuple) else [t]):
                    if not isinstance(x, ast.Name):
                        raise Unsupported("try body target")
                    assigned.append(x.id)
            r = self.fresh("r")
            self.emit("let %s : Py.M (List Val) := (do" % r)
            self.ind += 2
            saved_locals = set(self.locals)
            self.block(s.body, lambda: self.emit("pure [%s]" % ", ".join(self.var(a) for a in assigned)))
            self.locals = saved_locals
            self.ind -= 2
            self.emit("  )")
            self.emit("match %s with" % r)
            ok_l = self.fresh("l")
            self.emit("| .ok %s =>" % ok_l)
            self.ind += 1
            for i, a in enumerate(assigned):
                self.assign_name(a, "Py.nth %s %d" % (ok_l, i))
            cont()
            self.ind -= 1
            self.locals = set(saved_locals)
            ev = self.fresh("e")
            self.emit("| .error %s =>" % ev)
            self.ind += 1
            self.emit("if %s = Err.structError then" % ev)
            self.ind += 1
            if h.name:
                self.locals.add(h.name)
                self.emit("let %s := Val.none" % self.var(h.name))
            self.block(h.body, cont)
            self.ind -= 1
            self.emit("else")
            self.ind += 1
            self.emit("throw %s" % ev)
            self.ind -= 2
            self.locals = saved_locals
            return
        if isinstance(s, ast.Global):
            raise Unsupported(" ".join(s.names))
        raise Unsupported("statement %s" % type(s).__name__)

    def branch(self, stmts, k):
        """one branch of an `if` (with the code after the `if`): a branch that leaves the subset becomes `throw Err.unsupported` -- the function then
        says 'unsupported' on the inputs that take it instead of being untranslatable as a whole (the theorems are about the other inputs).
        A function ALL of whose paths are unsupported is still reported as untranslatable (see translate)."""
        mark, n0 = len(self.lines), self.n
        try:
            self.block(stmts, k)
            self.live_paths += 1
        except Unsupported as exc:
            del self.lines[mark:]
            self.emit("throw Err.unsupported   -- outside the translated subset: %s" % str(exc).replace("\n", " ")[:120])
            self.dead.append(str(exc))

    def mut_call(self, val, tgt):
        """statement-level calls that change an object: impure self methods and queue put/get through a path. Returns True if handled."""
        if not (isinstance(val, ast.Call) and isinstance(val.func, ast.Attribute)):
            return False
        f = val.func
        if isinstance(f.value, ast.Name) and f.value.id == "self":
            callee = self.u.classes.get(self.f["cls"], {}).get(f.attr)
            if callee in self.u.bad:
                raise Unsupported("calls %s, which is untranslatable" % callee)
            if callee and self.u.fns[callee]["impure"]:
                if val.keywords:
                    raise Unsupported("keyword arguments")
                args = self.call_args(self.u.fns[callee], val.args)
                r = self.bind("%s v_self %s" % (callee, " ".join(args)))
                self.emit("let v_self := %s.2" % r)
                if tgt is not None:
                    self.store(tgt, "%s.1" % r)
                return True
            return False
        if isinstance(f.value, ast.Attribute) and (f.value.attr, f.attr) in getattr(self.u, "attr_methods", {}):
            # a method of another translated class called on an attribute: the attribute is replaced by the object the callee returns
            callee = self.u.attr_methods[(f.value.attr, f.attr)]
            if callee not in getattr(self.u, "external_ok", ()):
                raise Unsupported("%s is not available as a translated function" % callee)
            if val.keywords:
                raise Unsupported("keyword arguments")
            root, accs = self.path_of(f.value)
            if root in self.aliases:
                raise Unsupported("mutation through alias %s" % root)
            o = self.bind("Py.getPath %s [%s]" % (self.var(root), ", ".join(accs)))
            args = [self.expr(a) for a in val.args]
            r = self.bind("%s %s %s" % (callee, o, " ".join(args)))
            self.emit("let %s ← Py.setPath %s [%s] %s.2" % (self.var(root), self.var(root), ", ".join(accs), r))
            if tgt is not None:
                self.store(tgt, "%s.1" % r)
            return True
        if f.attr in ("put_nowait", "get_nowait"):
            if val.keywords:
                raise Unsupported("keyword arguments")
            root, accs = self.path_of(f.value)
            if root in self.aliases:
                raise Unsupported("mutation through alias %s" % root)
            q = self.bind("Py.getPath %s [%s]" % (self.var(root), ", ".join(accs)))
            if f.attr == "put_nowait":
                if len(val.args) != 1:
                    raise Unsupported("put_nowait arguments")
                x = self.expr(val.args[0])
                q2 = self.bind("Py.queuePut %s %s" % (q, x))
                self.emit("let %s ← Py.setPath %s [%s] %s" % (self.var(root), self.var(root), ", ".join(accs), q2))
                if tgt is not None:
                    self.store(tgt, "Val.none")
            else:
                if val.args:
                    raise Unsupported("get_nowait arguments")
                g = self.bind("Py.queueGet %s" % q)
                self.emit("let %s ← Py.setPath %s [%s] %s.2" % (self.var(root), self.var(root), ", ".join(accs), g))
                if tgt is not None:
                    self.store(tgt, "%s.1" % g)
            return True
        if f.attr == "get" and isinstance(f.value, ast.Attribute) and isinstance(f.value.value, ast.Name) and f.value.value.id == "constants":
            return False        # dict.get on a constant table: an expression
        if f.attr in MUTATING_METHODS:
            raise Unsupported("mutating method .%s" % f.attr)
        return False

    def translate(self):
        f = self.f
        params = " ".join(self.var(p) for p in f["params"])
        rty = "Py.M (Val × Val)" if f["impure"] else "Py.M Val"
        head = "def %s (%s : Val) : %s := do" % (self.lean, params, rty) if f["params"] else "def %s : %s := do" % (self.lean, rty)
        self.block(f["body"], lambda: self.ret("Val.none"))
        if self.dead and not any(l.strip().startswith("pure ") for l in self.lines):
            raise Unsupported("every path leaves the subset: " + "; ".join(self.dead[:3]))
        return [head] + self.lines


def strip_docstring(body):
    if body and isinstance(body[0], ast.Expr) and isinstance(getattr(body[0], "value", None), ast.Constant) and isinstance(body[0].value.value, str):
        return body[1:]
    return body


def find_class(tree, name):
    for n in tree.body:
        if isinstance(n, ast.ClassDef) and n.name == name:
            return n
    return None


def methods_of(cls_node):
    return [n for n in cls_node.body if isinstance(n, (ast.FunctionDef, ast.AsyncFunctionDef))]


def call_order(unit):
    """callees before callers"""
    order, seen = [], set()

    def visit(lean):
        if lean in seen:
            return
        seen.add(lean)
        f = unit.fns[lean]
        for n in ast.walk(ast.Module(body=f["body"], type_ignores=[])):
            callee = None
            if isinstance(n, ast.Call) and isinstance(n.func, ast.Attribute) and isinstance(n.func.value, ast.Name) and n.func.value.id == "self":
                callee = unit.classes.get(f["cls"], {}).get(n.func.attr)
            elif isinstance(n, ast.Call) and isinstance(n.func, ast.Name):
                callee = unit.classes.get("", {}).get(n.func.id)
            elif isinstance(n, ast.Attribute) and isinstance(n.value, ast.Name) and n.value.id == "self" and n.attr in unit.props.get(f["cls"], ()):
                callee = unit.classes[f["cls"]][n.attr]
            if callee and callee != lean:
                visit(callee)
        order.append(lean)
    for lean in list(unit.fns):
        visit(lean)
    return order


def alloc_id_snippet(open_fn):
    """the statements of `_open`'s `with self._local_id_lock:` block that only mention `self` (the counter update)"""
    for n in ast.walk(open_fn):
        if isinstance(n, (ast.With, ast.AsyncWith)) and any(isinstance(i.context_expr, ast.Attribute) and i.context_expr.attr == "_local_id_lock" for i in n.items):
            out = []
            for s in n.body:
                names = {x.id for x in ast.walk(s) if isinstance(x, ast.Name)}
                if names <= {"self"} and not any(isinstance(x, (ast.Call, ast.Await)) for x in ast.walk(s)):
                    out.append(s)
                else:
                    break
            # what follows must not touch the counter again inside the block
            for s in n.body[len(out):]:
                for x in ast.walk(s):
                    if isinstance(x, (ast.Assign, ast.AugAssign)):
                        for t in (x.targets if isinstance(x, ast.Assign) else [x.target]):
                            if isinstance(t, ast.Attribute) and t.attr == "_local_id":
                                return None
            return out or None
    return None


def read_route_snippet(read_fn):
    """what `_AdbIOManager.read` does with a packet it has just read from the device: the `if not adb_info.args_match(...)` statement and the statements after it in the same block
    (park it in the store / clear the stream on CLSE / return it when expected), as a function of the packet that also returns `self` (whose store it changes)"""
    import copy as _copy

    def is_route(st):
        t = st.test if isinstance(st, ast.If) else None
        return isinstance(t, ast.UnaryOp) and isinstance(t.op, ast.Not) and isinstance(t.operand, ast.Call) and isinstance(t.operand.func, ast.Attribute) and t.operand.func.attr == "args_match"
    for n in ast.walk(read_fn):
        body = getattr(n, "body", None)
        if isinstance(body, list):
            for i, st in enumerate(body):
                if is_route(st):
                    rw = _EffRewrite(set())
                    out = []
                    for x in _copy.deepcopy(body[i:]):
                        r = rw.visit(x)
                        out += r if isinstance(r, list) else [r]
                    rt = _ReturnWith(["self"])
                    out = [rt.visit(x) for x in out] + [ast.Return(value=ast.Tuple(elts=[ast.Constant(value=None), ast.Name(id="self", ctx=ast.Load())], ctx=ast.Load()))]
                    return out
    return None


def read_drain_snippets(read_fn):
    """the store-draining loops of `_AdbIOManager.read` -- `x = F; while x: <body>; x = F` (checked: the statement before the loop and the last statement of its body are the
    same assignment) -- each as ONE iteration `x = F; if x: <body>; return ('again', None), self` / `return ('empty', None), self`; a `return v` inside becomes `('return', v), self`"""
    import copy as _copy
    out = []
    for n in ast.walk(read_fn):
        body = getattr(n, "body", None)
        if not isinstance(body, list):
            continue
        for i, st in enumerate(body):
            if isinstance(st, ast.While) and i > 0 and isinstance(body[i - 1], ast.Assign) and isinstance(st.test, ast.Name) and not st.orelse and st.body \
                    and isinstance(st.body[-1], ast.Assign) and ast.dump(st.body[-1]) == ast.dump(body[i - 1]) \
                    and len(body[i - 1].targets) == 1 and isinstance(body[i - 1].targets[0], ast.Name) and body[i - 1].targets[0].id == st.test.id:
                rw = _EffRewrite(set())
                inner = []
                for x in _copy.deepcopy(st.body[:-1]):
                    r = rw.visit(x)
                    inner += r if isinstance(r, list) else [r]

                class _Tag(ast.NodeTransformer):
                    def visit_Return(self, node):
                        return ast.Return(value=ast.Tuple(elts=[ast.Tuple(elts=[ast.Constant(value="return"), node.value if node.value is not None else ast.Constant(value=None)], ctx=ast.Load()),
                                                                ast.Name(id="self", ctx=ast.Load())], ctx=ast.Load()))

                    def visit_FunctionDef(self, node):
                        return node
                inner = [_Tag().visit(x) for x in inner]
                if any(isinstance(x, (ast.Break, ast.Continue, ast.While, ast.For)) for y in inner for x in ast.walk(y)):
                    continue

                def tagged(t):
                    return ast.Return(value=ast.Tuple(elts=[ast.Tuple(elts=[ast.Constant(value=t), ast.Constant(value=None)], ctx=ast.Load()), ast.Name(id="self", ctx=ast.Load())], ctx=ast.Load()))
                out.append([_copy.deepcopy(body[i - 1]), ast.If(test=_copy.deepcopy(st.test), body=inner + [tagged("again")], orelse=[]), tagged("empty")])
    return out


class _LoopRewrite(ast.NodeTransformer):
    """Turns the body of a `while` loop into a function of the loop state and of the RESULTS of the effects it performs:
    `self._transport.bulk_read/bulk_write(...)` -> parameter eff0, eff1, ... (their argument tuples are kept), `time.time()` -> parameter `now`,
    `await x` -> x, logging statements dropped, `break` / `return v` / falling off the end -> `return ('break'|'return'|'continue', ...)`."""

    def __init__(self, carried, extra=()):
        self.effects = []      # (param name, method name, [arg ASTs])
        self.uses_now = False
        self.carried = carried
        self.extra = set(extra)   # further effects: self.<m>(...) / self.<obj>.<m>(...) by (dotted) name
        self.depth = 0

    def visit_Yield(self, node):
        self.generic_visit(node)
        name = "eff%d" % len(self.effects)
        self.effects.append((name, "yield", [node.value] if node.value is not None else []))
        return ast.Name(id=name, ctx=ast.Load())

    def visit_Await(self, node):
        return self.visit(node.value)

    def visit_Call(self, node):
        self.generic_visit(node)
        f = node.func
        if isinstance(f, ast.Attribute) and isinstance(f.value, ast.Attribute) and isinstance(f.value.value, ast.Name) and f.value.value.id == "self" \
                and f.value.attr == "_transport" and f.attr in ("bulk_read", "bulk_write"):
            name = "eff%d" % len(self.effects)
            self.effects.append((name, f.attr, list(node.args)))
            return ast.Name(id=name, ctx=ast.Load())
        en = _effect_name(node, self.extra) if self.extra else None
        if en is not None:
            name = "eff%d" % len(self.effects)
            kws = [ast.Tuple(elts=[ast.Constant(value=k.arg), k.value], ctx=ast.Load()) for k in node.keywords if k.arg]
            self.effects.append((name, en, list(node.args) + kws))
            return ast.Name(id=name, ctx=ast.Load())
        if isinstance(f, ast.Attribute) and isinstance(f.value, ast.Name) and f.value.id == "time" and f.attr == "time" and not node.args:
            self.uses_now = True
            return ast.Name(id="now", ctx=ast.Load())
        return node

    def visit_Expr(self, node):
        v = node.value
        if isinstance(v, ast.Await):
            v = v.value
        if isinstance(v, ast.Call) and isinstance(v.func, ast.Attribute) and isinstance(v.func.value, ast.Name) and v.func.value.id == "_LOGGER":
            return ast.Pass()
        self.generic_visit(node)
        return node

    def _tagged(self, tag, extra=None):
        elts = [ast.Constant(value=tag)] + ([extra] if extra is not None else []) + [ast.Name(id=v, ctx=ast.Load()) for v in self.carried]
        return ast.Return(value=ast.Tuple(elts=elts, ctx=ast.Load()))

    def visit_Break(self, node):
        return self._tagged("break")

    def visit_Continue(self, node):
        return self._tagged("continue")

    def visit_Return(self, node):
        self.generic_visit(node)
        return self._tagged("return", node.value if node.value is not None else ast.Constant(value=None))

    def visit_While(self, node):
        raise Unsupported("nested loop")

    def visit_For(self, node):
        raise Unsupported("nested loop")


def _mutated_roots(stmts):
    """names of local objects an attribute / item of which is assigned in these statements"""
    out = []
    for n in ast.walk(ast.Module(body=list(stmts), type_ignores=[])):
        if isinstance(n, (ast.Assign, ast.AugAssign)):
            for t in (n.targets if isinstance(n, ast.Assign) else [n.target]):
                for x in (t.elts if isinstance(t, ast.Tuple) else [t]):
                    if isinstance(x, (ast.Attribute, ast.Subscript)):
                        r = x
                        while isinstance(r, (ast.Attribute, ast.Subscript)):
                            r = r.value
                        if isinstance(r, ast.Name) and r.id not in out:
                            out.append(r.id)
    return out


class _ReturnWith(ast.NodeTransformer):
    def __init__(self, roots):
        self.roots = roots

    def visit_Return(self, node):
        v = node.value if node.value is not None else ast.Constant(value=None)
        return ast.Return(value=ast.Tuple(elts=[v] + [ast.Name(id=r, ctx=ast.Load()) for r in self.roots], ctx=ast.Load()))


def loop_method(fn_node, extra):
    """A method of the shape  <statements> ; while ...: <body> ; <statements>  as pure functions: `__pre` (effect-parameterised, with its request functions),
    the loop's `__cond` / `__iter` / request functions, and `__post` = the statements after the loop, returning (return value, objects it mutated)."""
    import copy as _copy
    body = strip_docstring(list(fn_node.body))
    idx = [i for i, st in enumerate(body) if isinstance(st, ast.While)]
    if len(idx) != 1:
        raise Unsupported("expected exactly one top-level while loop")
    i = idx[0]
    out = []
    params = [a.arg for a in fn_node.args.args if a.arg != "self"]

    def mk(name, ps, b):
        return ast.FunctionDef(name=name, args=ast.arguments(posonlyargs=[], args=[ast.arg(arg=p_) for p_ in ps], kwonlyargs=[], kw_defaults=[], defaults=[]), body=b, decorator_list=[])
    if body[:i]:
        pre = mk(fn_node.name + "__pre", ["self"] + params, _copy.deepcopy(body[:i]))
        main, argfns, _ = effect_function(pre, extra)
        out.append(("pre_fn", main))
        out += [(a.name.split("__")[-1].replace("eff", "pre_eff"), a) for a in argfns]
    cond, it, effs, info = loop_iteration(mk(fn_node.name, ["self"] + params, [body[i]]), extra)
    out += [("cond", cond), ("iter", it)] + [(e.name.split("__")[-1], e) for e in effs]
    if body[i + 1:]:
        post_body = _copy.deepcopy(body[i + 1:])
        roots = [r for r in _mutated_roots(post_body) if r != "self"]
        if roots:
            post_body = [_ReturnWith(roots).visit(st) for st in post_body]
            if not isinstance(post_body[-1], ast.Return):
                post_body.append(ast.Return(value=ast.Tuple(elts=[ast.Constant(value=None)] + [ast.Name(id=r, ctx=ast.Load()) for r in roots], ctx=ast.Load())))
        free = []
        for n in ast.walk(ast.Module(body=post_body, type_ignores=[])):
            if isinstance(n, ast.Name) and isinstance(n.ctx, ast.Load) and n.id not in free and n.id in params + info["state"] + info["carried"]:
                free.append(n.id)
        out.append(("post", mk(fn_node.name + "__post", sorted(free), post_body)))
    return out


def loop_iteration(fn_node, extra=()):
    """(cond function node, iteration function node, [effect-args function nodes], info) for a method whose body contains exactly one `while` loop at top level."""
    body = strip_docstring(list(fn_node.body))
    loops = [st for st in body if isinstance(st, ast.While)]
    if len(loops) != 1 or loops[0].orelse:
        raise Unsupported("expected exactly one top-level while loop")
    loop = loops[0]
    assigned = []
    for n in ast.walk(ast.Module(body=loop.body, type_ignores=[])):
        if isinstance(n, (ast.Assign, ast.AugAssign)):
            for t in (n.targets if isinstance(n, ast.Assign) else [n.target]):
                for x in (t.elts if isinstance(t, ast.Tuple) else [t]):
                    if isinstance(x, ast.Name) and x.id not in assigned:
                        assigned.append(x.id)
    for r in _mutated_roots(loop.body):
        if r not in assigned and r != "self":
            assigned.append(r)
    import copy as _copy
    rw = _LoopRewrite(sorted(assigned), extra)
    new_body = [rw.visit(_copy.deepcopy(st)) for st in loop.body]
    new_body = [st for st in new_body if st is not None]
    new_body.append(rw._tagged("continue"))
    # free variables of the loop (read before being assigned in an iteration): parameters of the iteration function
    reads = []
    eff_arg_exprs = [ast.Expr(value=a) for _, _, args in rw.effects for a in args]
    for n in ast.walk(ast.Module(body=[ast.Expr(value=loop.test)] + new_body + eff_arg_exprs, type_ignores=[])):
        if isinstance(n, ast.Name) and isinstance(n.ctx, ast.Load) and n.id not in reads:
            reads.append(n.id)
    eff_names = [e[0] for e in rw.effects]
    state = sorted(v for v in reads if v not in eff_names and v != "now" and v not in ("True", "False", "None") and not v.isupper()
                   and v not in ("len", "bytes", "bytearray", "min", "exceptions", "constants", "AdbMessage", "_AdbTransactionInfo", "_FileSyncTransactionInfo"))
    params = state + eff_names + (["now"] if rw.uses_now else [])

    def mk(name, ps, b):
        return ast.FunctionDef(name=name, args=ast.arguments(posonlyargs=[], args=[ast.arg(arg=p) for p in ps], kwonlyargs=[], kw_defaults=[], defaults=[]), body=b, decorator_list=[])
    cond = mk(fn_node.name + "__cond", state, [ast.Return(value=_copy.deepcopy(loop.test))])
    it = mk(fn_node.name + "__iter", params, new_body)
    effs = []
    if len(rw.effects) <= 1 and not extra:
        for name, meth, args in rw.effects:
            effs.append(mk("%s__%s_args" % (fn_node.name, name), state, [ast.Return(value=ast.Tuple(elts=[ast.Constant(value=meth)] + [_copy.deepcopy(a) for a in args], ctx=ast.Load()))]))
    else:
        for k in range(len(rw.effects)):
            effs.append(mk("%s__eff%d_args" % (fn_node.name, k), state + eff_names[:k] + (["now"] if rw.uses_now else []), _cut_at(_copy.deepcopy(new_body), k, rw.effects)))
    return cond, it, effs, dict(state=state, carried=sorted(assigned), effects=[(n, m) for n, m, _ in rw.effects])


def _effect_name(node, names):
    """'_write_all' for self._write_all(...), '_io_manager.send' for self._io_manager.send(...) when that dotted name is in `names`, else None"""
    if isinstance(node, ast.Await):
        node = node.value
    if not (isinstance(node, ast.Call) and isinstance(node.func, ast.Attribute)):
        return None
    f = node.func
    if isinstance(f.value, ast.Name) and f.value.id == "self" and f.attr in names:
        return f.attr
    if isinstance(f.value, ast.Attribute) and isinstance(f.value.value, ast.Name) and f.value.value.id == "self" and (f.value.attr + "." + f.attr) in names:
        return f.value.attr + "." + f.attr
    return None


def _is_self_call(node, names):
    return _effect_name(node, names) is not None


class _EffRewrite(ast.NodeTransformer):
    """replaces the k-th call `self.<effect>(...)` (in source order) by the parameter `eff<k>`; awaits erased, logging dropped"""

    def __init__(self, names, rebinds=None):
        self.names = names
        self.effects = []     # (param, method, [arg ASTs])
        self.rebinds = rebinds or {}   # effect name -> index of the argument whose state AFTER the effect is the effect's result

    def visit_Await(self, node):
        return self.visit(node.value)

    def visit_Call(self, node):
        self.generic_visit(node)
        en = _effect_name(node, self.names)
        if en is not None:
            name = "eff%d" % len(self.effects)
            kws = [ast.Tuple(elts=[ast.Constant(value=k.arg), k.value], ctx=ast.Load()) for k in node.keywords if k.arg]
            self.effects.append((name, en, list(node.args) + kws))
            return ast.Name(id=name, ctx=ast.Load())
        return node

    def visit_Yield(self, node):
        self.generic_visit(node)
        name = "eff%d" % len(self.effects)
        self.effects.append((name, "yield", [node.value] if node.value is not None else []))
        return ast.Name(id=name, ctx=ast.Load())

    def visit_With(self, node):
        # `with self.<lock>:` -- the lock discipline is covered by the generated lock facts; here only the body matters
        self.generic_visit(node)
        if all(isinstance(i.context_expr, ast.Attribute) and i.context_expr.attr.endswith("_lock") and i.optional_vars is None for i in node.items):
            return node.body
        return node

    visit_AsyncWith = visit_With

    def visit_Expr(self, node):
        v = node.value.value if isinstance(node.value, ast.Await) else node.value
        if isinstance(v, ast.Call) and isinstance(v.func, ast.Attribute) and isinstance(v.func.value, ast.Name) and v.func.value.id == "_LOGGER":
            return ast.Pass()
        en = _effect_name(v, self.names) if isinstance(v, ast.Call) else None
        if en in self.rebinds and isinstance(v.args[self.rebinds[en]], ast.Name):
            tgt = v.args[self.rebinds[en]].id
            self.generic_visit(node)
            return ast.Assign(targets=[ast.Name(id=tgt, ctx=ast.Store())], value=node.value, lineno=0)
        self.generic_visit(node)
        return node


def _contains_name(node, name):
    return any(isinstance(x, ast.Name) and x.id == name for x in ast.walk(node))


def _cut_at(block, k, effects):
    """the block up to the statement that USES eff<k>: that statement becomes `return ('request', method, args...)`; in an `if`, both branches are cut"""
    target = "eff%d" % k
    later = ["eff%d" % j for j in range(k + 1, len(effects))]
    out = []
    for st in block:
        if isinstance(st, ast.If) and (_contains_name(ast.Module(body=st.body + st.orelse, type_ignores=[]), target) or any(_contains_name(st, l) for l in later)) \
                and not _contains_name(st.test, target):
            out.append(ast.If(test=st.test, body=_cut_at(st.body, k, effects) or [ast.Pass()], orelse=_cut_at(st.orelse, k, effects)))
            continue
        if _contains_name(st, target):
            name, meth, args = effects[k]
            out.append(ast.Return(value=ast.Tuple(elts=[ast.Constant(value="request"), ast.Constant(value=meth)] + args, ctx=ast.Load())))
            return out
        if any(_contains_name(st, l) for l in later):
            out.append(ast.Global(names=["a later effect is requested first"]))
            return out
        out.append(st)
    return out


def const_fold_str(e):
    return e.value if isinstance(e, ast.Constant) and isinstance(e.value, str) else None


class _ReturnWith(ast.NodeTransformer):
    """`return X` -> `return (X, p1, ...)`: the method mutates its arguments p1..., the pure function returns their final state"""

    def __init__(self, ps):
        self.ps = ps

    def visit_Return(self, node):
        return ast.Return(value=ast.Tuple(elts=[node.value if node.value is not None else ast.Constant(value=None)] + [ast.Name(id=p_, ctx=ast.Load()) for p_ in self.ps], ctx=ast.Load()))

    def visit_FunctionDef(self, node):
        return node


def effect_function(fn_node, effect_names, wrap_result=True, rebinds=None, out_params=()):
    """A method that performs effects through `self.<effect_names>(...)` as pure functions: `<fn>__fn(params, eff0, eff1, ...)` = the method with the effects'
    RESULTS as parameters, and `<fn>__eff<k>_args(params, eff0..eff<k-1>)` = ('request', method, args...) of the k-th effect when the method gets that far
    (otherwise whatever the method returns/raises before)."""
    import copy as _copy
    body = strip_docstring(list(_copy.deepcopy(fn_node.body)))
    rw = _EffRewrite(effect_names, rebinds)
    new_body = []
    for st in body:
        r = rw.visit(st)
        new_body += r if isinstance(r, list) else [r]
    if out_params:
        rt = _ReturnWith(list(out_params))
        new_body = [rt.visit(st) for st in new_body] + [ast.Return(value=ast.Tuple(elts=[ast.Constant(value=None)] + [ast.Name(id=p_, ctx=ast.Load()) for p_ in out_params], ctx=ast.Load()))]
    params = [a.arg for a in fn_node.args.args if a.arg != "self"]
    uses_self = any(isinstance(x, ast.Name) and x.id == "self" for st in new_body for x in ast.walk(st))
    if uses_self:
        params = ["self"] + params
    effs = [e[0] for e in rw.effects]

    def mk(name, ps, b):
        return ast.FunctionDef(name=name, args=ast.arguments(posonlyargs=[], args=[ast.arg(arg=p_) for p_ in ps], kwonlyargs=[], kw_defaults=[], defaults=[]), body=b, decorator_list=[])
    main = mk(fn_node.name + "__fn", params + effs, new_body)
    argfns = []
    for k in range(len(rw.effects)):
        argfns.append(mk("%s__eff%d_args" % (fn_node.name, k), params + effs[:k], _cut_at(_copy.deepcopy(new_body), k, rw.effects)))
    return main, argfns, dict(effects=[(n, m) for n, m, _ in rw.effects], params=params)


def build_units(repo):
    sys.path.insert(0, repo)
    import importlib
    consts = importlib.import_module("adb_shell.constants")
    units = []
    # ---- hidden_helpers.py
    with open(os.path.join(repo, "adb_shell", "hidden_helpers.py")) as f:
        hh = ast.parse(f.read())
    u = Unit(consts)
    for cls in ("_AdbTransactionInfo", "_FileSyncTransactionInfo", "_AdbPacketStore"):
        c = find_class(hh, cls)
        if c is None:
            continue
        for m in methods_of(c):
            m.body = strip_docstring(m.body)
            u.add_function(cls, m)
    units.append(("hidden_helpers.py", u))
    # ---- adb_message.py
    with open(os.path.join(repo, "adb_shell", "adb_message.py")) as f:
        am = ast.parse(f.read())
    u = Unit(consts)
    for n in am.body:
        if isinstance(n, ast.FunctionDef) and n.name in ("checksum", "unpack"):
            n.body = strip_docstring(n.body)
            u.add_function("", n)
    c = find_class(am, "AdbMessage")
    if c is not None:
        for m in methods_of(c):
            m.body = strip_docstring(m.body)
            u.add_function("AdbMessage", m)
    units.append(("adb_message.py", u))
    # ---- auth/keygen.py: _to_bytes and the arithmetic of encode_pubkey (everything after the key file has been read)
    try:
        kg_mod = importlib.import_module("adb_shell.auth.keygen")
        with open(os.path.join(repo, "adb_shell", "auth", "keygen.py")) as f:
            kg = ast.parse(f.read())
        u = Unit(consts, module=kg_mod)
        for n in kg.body:
            if isinstance(n, ast.FunctionDef) and n.name == "_to_bytes":
                n.body = strip_docstring(n.body)
                u.add_function("", n, lean="keygen_to_bytes")
                u.classes[""]["_to_bytes"] = "keygen_to_bytes"
            if isinstance(n, ast.FunctionDef) and n.name == "encode_pubkey":
                body = strip_docstring(n.body)
                tail = None
                for i, st in enumerate(body):
                    if isinstance(st, ast.With) and any(isinstance(x, ast.Name) and x.id == "key" and isinstance(x.ctx, ast.Store) for x in ast.walk(st)):
                        tail = body[i + 1:]
                node = ast.FunctionDef(name="encode_pubkey_arith", args=ast.arguments(posonlyargs=[], args=[ast.arg(arg="key")], kwonlyargs=[], kw_defaults=[], defaults=[]),
                                       body=tail if tail else [ast.Global(names=["arithmetic_part_of_encode_pubkey_not_found"])], decorator_list=[])
                u.add_function("", node, lean="keygen_encode_pubkey_arith")
        units.append(("auth/keygen.py", u))
    except Exception as exc:  # noqa  (cryptography missing, file moved ...): the C17Src theorems then have no subject
        u = Unit(consts)
        node = ast.FunctionDef(name="encode_pubkey_arith", args=ast.arguments(posonlyargs=[], args=[], kwonlyargs=[], kw_defaults=[], defaults=[]),
                               body=[ast.Global(names=["keygen_module_unavailable_%s" % type(exc).__name__])], decorator_list=[])
        u.add_function("", node, lean="keygen_encode_pubkey_arith")
        units.append(("auth/keygen.py", u))
    # ---- adb_device.py / adb_device_async.py: max_chunk_size and the id allocation inside _open
    for fname, cls in (("adb_device.py", "AdbDevice"), ("adb_device_async.py", "AdbDeviceAsync")):
        with open(os.path.join(repo, "adb_shell", fname)) as f:
            tree = ast.parse(f.read())
        u = Unit(consts)
        u.external = {"unpack": "unpack", "checksum": "checksum"}      # module-level functions of adb_message.py, translated in its unit (same namespace)
        for mgr in ("_AdbIOManager", "_AdbIOManagerAsync"):
            mc = find_class(tree, mgr)
            if mc is None:
                continue
            for m in methods_of(mc):
                if m.name == "_read_expected_packet_from_device":
                    tag = "%s_%s" % (cls, m.name.strip("_"))
                    try:
                        cond, it, effs, info = loop_iteration(m, {"_read_packet_from_device"})
                        for node, suffix in [(cond, "cond"), (it, "iter")] + [(e, e.name.split("__")[-1]) for e in effs]:
                            u.add_function("", node, lean="%s_%s" % (tag, suffix), params=[a.arg for a in node.args.args])
                    except Unsupported as exc:
                        node = ast.FunctionDef(name=tag + "_iter", args=ast.arguments(posonlyargs=[], args=[], kwonlyargs=[], kw_defaults=[], defaults=[]),
                                               body=[ast.Global(names=["loop_not_extractable: %s" % str(exc)[:80].replace(" ", "_")])], decorator_list=[])
                        u.add_function("", node, lean=tag + "_iter", params=[])
                if m.name == "read":
                    u.typed_methods = dict(getattr(u, "typed_methods", {}))
                    u.typed_methods[("adb_info", "args_match")] = "AdbTransactionInfo_args_match"
                    u.attr_methods = {("_packet_store", "put"): "AdbPacketStore_put", ("_packet_store", "clear"): "AdbPacketStore_clear"}
                    snip = read_route_snippet(m)
                    node = ast.FunctionDef(name="read__route", args=ast.arguments(posonlyargs=[], args=[ast.arg(arg=a) for a in ("self", "expected_cmds", "adb_info", "allow_zeros", "cmd", "arg0", "arg1", "data")],
                                                                              kwonlyargs=[], kw_defaults=[], defaults=[]),
                                           body=snip if snip else [ast.Global(names=["routing_block_not_found"])], decorator_list=[])
                    u.add_function("", node, lean="%s_io_read_route" % cls, params=[a.arg for a in node.args.args])
                    u.attr_methods[("_packet_store", "get")] = "AdbPacketStore_get"
                    u.attr_pure_methods = {("_packet_store", "find"): "AdbPacketStore_find", ("_packet_store", "find_allow_zeros"): "AdbPacketStore_find_allow_zeros"}
                    drains = read_drain_snippets(m)
                    for k in range(2):
                        node = ast.FunctionDef(name="read__drain%d" % k, args=ast.arguments(posonlyargs=[], args=[ast.arg(arg=a) for a in ("self", "expected_cmds", "adb_info", "allow_zeros")],
                                                                                     kwonlyargs=[], kw_defaults=[], defaults=[]),
                                               body=drains[k] if len(drains) == 2 else [ast.Global(names=["expected_two_store_draining_loops_found_%d" % len(drains)])], decorator_list=[])
                        u.add_function("", node, lean="%s_io_read_drain%d" % (cls, k), params=[a.arg for a in node.args.args])
                if m.name in ("_read_packet_from_device", "_send"):
                    tag = "%s_%s" % (cls, m.name.strip("_"))
                    try:
                        main, argfns, info = effect_function(m, {"_read_bytes_from_device"} if m.name == "_read_packet_from_device" else {"_write_all"})
                        for node, suffix in [(main, "fn")] + [(a, a.name.split("__")[-1]) for a in argfns]:
                            u.add_function("", node, lean="%s_%s" % (tag, suffix), params=[a.arg for a in node.args.args])
                    except Unsupported as exc:
                        node = ast.FunctionDef(name=tag + "_fn", args=ast.arguments(posonlyargs=[], args=[], kwonlyargs=[], kw_defaults=[], defaults=[]),
                                               body=[ast.Global(names=["not_extractable: %s" % str(exc)[:80].replace(" ", "_")])], decorator_list=[])
                        u.add_function("", node, lean=tag + "_fn", params=[])
                if m.name in ("_read_bytes_from_device", "_write_all"):
                    tag = "%s_%s" % (cls, m.name.strip("_"))
                    try:
                        cond, it, effs, info = loop_iteration(m)
                        for node, suffix in [(cond, "cond"), (it, "iter")] + [(e, e.name.split("__")[-1]) for e in effs]:
                            u.add_function("", node, lean="%s_%s" % (tag, suffix), params=[a.arg for a in node.args.args])
                        u.loop_info = getattr(u, "loop_info", {})
                        u.loop_info[tag] = info
                    except Unsupported as exc:
                        node = ast.FunctionDef(name=tag + "_iter", args=ast.arguments(posonlyargs=[], args=[], kwonlyargs=[], kw_defaults=[], defaults=[]),
                                               body=[ast.Global(names=["loop_not_extractable: %s" % str(exc)[:80].replace(" ", "_")])], decorator_list=[])
                        u.add_function("", node, lean=tag + "_iter", params=[])
        u.constructors = {"AdbMessage": ("AdbMessage_init", 4, [b""]), "_AdbTransactionInfo": ("AdbTransactionInfo_init", 5, [])}
        u.self_methods = {"_get_transport_timeout_s": "%s_get_transport_timeout_s" % cls}
        dc = find_class(tree, cls)
        STREAM_EFFECTS = {"_io_manager.send", "_io_manager.read", "_read_until", "_okay", "_clse"}
        if dc is not None:
            for m in methods_of(dc):
                if m.name == "_get_transport_timeout_s":
                    m.body = strip_docstring(m.body)
                    u.add_function("", m, lean="%s_get_transport_timeout_s" % cls, params=[a.arg for a in m.args.args])
            for m in methods_of(dc):
                tag = "%s_%s" % (cls, m.name.strip("_"))
                try:
                    if m.name in ("_okay", "_clse", "_read_until", "_open"):
                        main, argfns, info = effect_function(m, STREAM_EFFECTS)
                        for node, suffix in [(main, "fn")] + [(a, a.name.split("__")[-1]) for a in argfns]:
                            u.add_function("", node, lean="%s_%s" % (tag, suffix), params=[a.arg for a in node.args.args])
                    elif m.name == "_filesync_read":
                        u.tuple_slices = True
                        try:
                            main, argfns, info = effect_function(m, {"_filesync_flush", "_filesync_read_buffered"})
                            for node, suffix in [(main, "fn")] + [(a, a.name.split("__")[-1]) for a in argfns]:
                                u.add_function("", node, lean="%s_%s" % (tag, suffix), params=[a.arg for a in node.args.args])
                        finally:
                            pass
                    elif m.name == "_filesync_send":
                        # `_filesync_flush(adb_info, filesync_info)` mutates filesync_info: the effect's result IS filesync_info afterwards
                        u.typed_methods = dict(getattr(u, "typed_methods", {}))
                        u.typed_methods[("filesync_info", "can_add_to_send_buffer")] = "FileSyncTransactionInfo_can_add_to_send_buffer"
                        main, argfns, info = effect_function(m, {"_filesync_flush"}, rebinds={"_filesync_flush": 1}, out_params=["filesync_info"])
                        for node, suffix in [(main, "fn")] + [(a, a.name.split("__")[-1]) for a in argfns]:
                            u.add_function("", node, lean="%s_%s" % (tag, suffix), params=[a.arg for a in node.args.args])
                    elif m.name in ("_filesync_read_buffered", "_filesync_flush"):
                        for suffix, node in loop_method(m, STREAM_EFFECTS):
                            u.add_function("", node, lean="%s_%s" % (tag, suffix), params=[a.arg for a in node.args.args])
                    elif m.name == "_filesync_read_until":
                        cond, it, effs, info = loop_iteration(m, {"_filesync_read"})
                        for node, suffix in [(cond, "cond"), (it, "iter")] + [(e, e.name.split("__")[-1]) for e in effs]:
                            u.add_function("", node, lean="%s_%s" % (tag, suffix), params=[a.arg for a in node.args.args])
                    elif m.name == "_read_until_close":
                        cond, it, effs, info = loop_iteration(m, STREAM_EFFECTS)
                        for node, suffix in [(cond, "cond"), (it, "iter")] + [(e, e.name.split("__")[-1]) for e in effs]:
                            u.add_function("", node, lean="%s_%s" % (tag, suffix), params=[a.arg for a in node.args.args])
                except Unsupported as exc:
                    node = ast.FunctionDef(name=tag + "_fn", args=ast.arguments(posonlyargs=[], args=[], kwonlyargs=[], kw_defaults=[], defaults=[]),
                                           body=[ast.Global(names=["not_extractable: %s" % str(exc)[:80].replace(" ", "_")])], decorator_list=[])
                    u.add_function("", node, lean=tag + "_fn", params=[])
        c = find_class(tree, cls)
        if c is not None:
            for m in methods_of(c):
                if m.name == "max_chunk_size":
                    m.body = strip_docstring(m.body)
                    u.add_function(cls, m)
                if m.name == "_open":
                    snip = alloc_id_snippet(m)
                    node = ast.FunctionDef(name="_open_alloc_id", args=ast.arguments(posonlyargs=[], args=[ast.arg(arg="self")], kwonlyargs=[], kw_defaults=[], defaults=[]),
                                           body=snip if snip else [ast.Global(names=["id_allocation_block_not_found"])], decorator_list=[])
                    u.add_function(cls, node)
        units.append((fname, u))
    return units


def generate(repo=REPO, skip=()):
    L = ["/- GENERATED by harness/pytrans.py from the current source of adb_shell (hidden_helpers.py, adb_message.py, adb_device*.py) -- do not edit. -/",
         "import AdbModel.Py", "namespace Adb.Src", "open Adb.Py", ""]
    status = {}
    consts_emitted = set()
    pure_ok = set()
    for fname, u in build_units(repo):
        u.compute_purity()
        u.external_pure = set(pure_ok)
        u.external_ok = {k for k, v in status.items() if v == "ok"}
        if hasattr(u, "external"):
            u.external = {k: v for k, v in u.external.items() if v in pure_ok}
        L.append("/-! ### %s -/" % fname)
        bodies = []
        for lean in call_order(u):
            f = u.fns[lean]
            try:
                if lean in skip:
                    raise Unsupported("the generated definition did not typecheck")
                tr = FnTr(u, lean)
                lines = tr.translate()
                bodies.append("/-- `%s%s` (%s) -/\n%s\n" % ((f["cls"] + ".") if f["cls"] else "", f["name"], "returns (result, self')" if f["impure"] else "pure", "\n".join(lines)))
                status[lean] = "ok"
                if not f["impure"]:
                    pure_ok.add(lean)
            except Unsupported as exc:
                bodies.append("/-- `%s%s` is outside the translated subset: %s -/\ndef %s_UNTRANSLATABLE : String := %s\n" % (
                    (f["cls"] + ".") if f["cls"] else "", f["name"], str(exc).replace("-/", "- /"), lean, lean_str(str(exc))))
                status[lean] = "untranslatable: %s" % exc
                u.bad.add(lean)
        for name, term in u.used_consts.items():
            if name not in consts_emitted:
                L.append("def const_%s : Val := %s" % (name, term))
                consts_emitted.add(name)
        L.append("")
        L.extend(bodies)
    L.append("end Adb.Src")
    return "\n".join(L) + "\n", status


if __name__ == "__main__":
    text, status = generate()
    sys.stdout.write(text)
    for k, v in status.items():
        sys.stderr.write("%s: %s\n" % (k, v))
