#!/bin/bash
# tools/harmless.sh : behaviour-preserving rewrites of translated functions must NOT raise an alarm (regression test of the refinement proofs' robustness).
# Runs the checks that own refinement theorems over the rewritten functions against a scratch copy of /repo with each patch applied.
cd "$(dirname "$0")/.."
rc=0
run() { # patch, props...
  p="$1"; shift
  for prop in "$@"; do
    out=$(VERIF_EVIDENCE_DIR=/tmp/harmless_ev tools/with_mutant.sh "mutants/harmless/$p" ./check.sh "$prop" quick 2>&1 | grep -E "quick seed|VIOLATION|broken proof")
    echo "$p $prop: $out"
    echo "$out" | grep -q VIOLATION && rc=1
  done
}
run rewrite_pure_helpers.patch C07 C11 C14 C16 C19
run rewrite_io_loops.patch C03 C15 C11
run rewrite_stream_packet.patch C04 C03
run rewrite_filesync_send.patch C07
./check.sh C02 --gen > /dev/null
exit $rc
