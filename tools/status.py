#!/usr/bin/env python3
"""Prints the markdown tables for DESIGN.md section 0.4 (theorems per property) and 0.5 (seeded changes and who catches them)."""
import glob, json, os, sys
sys.path.insert(0, os.path.join(os.path.dirname(os.path.dirname(os.path.abspath(__file__))), "harness"))
import common
import io
_real_stdout = sys.stdout
if "--write" in sys.argv:
    sys.stdout = io.StringIO()
print("| property | property files | theorems | claimed |")
print("|---|---|---|---|")
man = json.load(open(os.path.join(common.VERIF, "MANIFEST.json")))
claimed = {c["property_id"] for c in man["checks"]}
for i in range(1, 21):
    p = "C%02d" % i
    mods = common.property_modules(p)
    th = common.property_theorems(p)
    print("| %s | %s | %d | %s |" % (p, ", ".join(mods) or "-", len(th), "yes" if p in claimed else "no"))
print()
print("| seeded change | breaks | what it is / needs | detected by (quick tier, seed 1) |")
print("|---|---|---|---|")
for d in sorted(glob.glob(os.path.join(common.VERIF, "seeded", "*"))):
    mp = os.path.join(d, "meta.json")
    if not os.path.exists(mp):
        continue
    m = json.load(open(mp))
    det = m.get("detection", {})
    parts = []
    for p, r in sorted(det.items()):
        if r.get("exit") == 1:
            parts.append("**%s**: %s" % (p, "failing input (%s)" % (r.get("why") or "")[:70].replace("|", "/") if r.get("kind") == "failing-input" else "no-failing-input-found"))
        elif r.get("exit") == 0:
            parts.append("%s: not detected" % p)
        else:
            parts.append("%s: exit %s" % (p, r.get("exit")))
    print("| %s | %s | %s — needs: %s | %s |" % (os.path.basename(d), m.get("property"), (m.get("summary") or "")[:110].replace("|", "/"), (m.get("needs") or "")[:90].replace("|", "/"), "; ".join(parts) or "not run yet"))

if "--write" in sys.argv:
    text = sys.stdout.getvalue()
    sys.stdout = _real_stdout
    t1, t2 = text.split("\n\n", 1)
    dp = os.path.join(common.VERIF, "DESIGN.md")
    d = open(dp).read()

    def put(d, begin, end, body):
        a = d.index(begin)
        a = d.index("\n", a) + 1
        b = d.index(end)
        return d[:a] + body.strip("\n") + "\n" + d[b:]
    d = put(d, "<!-- THEOREM-TABLE-BEGIN", "<!-- THEOREM-TABLE-END", t1)
    d = put(d, "<!-- SEEDED-TABLE-BEGIN", "<!-- SEEDED-TABLE-END", t2)
    open(dp, "w").write(d)
    print("DESIGN.md tables rewritten: %d theorem rows, %d seeded rows" % (t1.count("\n| C"), t2.count("\n| C")))
