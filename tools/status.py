#!/usr/bin/env python3
"""Prints the markdown tables for DESIGN.md section 0.4 (theorems per property) and 0.5 (seeded changes and who catches them)."""
import glob, json, os, sys
sys.path.insert(0, os.path.join(os.path.dirname(os.path.dirname(os.path.abspath(__file__))), "harness"))
import common
print("| property | property files | theorems | claimed |")
print("|---|---|---|---|")
man = json.load(open(os.path.join(common.VERIF, "MANIFEST.json")))
claimed = {c["property_id"] for c in man["checks"]}
for i in range(1, 21):
    p = "C%02d" % i
    mods = common.property_modules(p)
    th = common.property_theorems(p)
    print("| %s | %s | %d | %s |" % (p, ", ".join(mods) or "-", len(th), "yes" if p in claimed else "no"))
print()
print("| seeded change | breaks | what it is / needs | detected by (quick tier, seed 1) |")
print("|---|---|---|---|")
for d in sorted(glob.glob(os.path.join(common.VERIF, "seeded", "*"))):
    mp = os.path.join(d, "meta.json")
    if not os.path.exists(mp):
        continue
    m = json.load(open(mp))
    det = m.get("detection", {})
    parts = []
    for p, r in sorted(det.items()):
        if r.get("exit") == 1:
            parts.append("**%s**: %s" % (p, "failing input (%s)" % (r.get("why") or "")[:70].replace("|", "/") if r.get("kind") == "failing-input" else "no-failing-input-found"))
        elif r.get("exit") == 0:
            parts.append("%s: not detected" % p)
        else:
            parts.append("%s: exit %s" % (p, r.get("exit")))
    print("| %s | %s | %s — needs: %s | %s |" % (os.path.basename(d), m.get("property"), (m.get("summary") or "")[:110].replace("|", "/"), (m.get("needs") or "")[:90].replace("|", "/"), "; ".join(parts) or "not run yet"))
