#!/bin/bash
# tools/with_mutant.sh <patch-file> <command...> : run a command against a scratch copy of /repo with the patch applied
set -e
PATCH="$(realpath "$1")"; shift
D=$(mktemp -d /tmp/mutrepo.XXXXXX)
trap 'rm -rf "$D"' EXIT
git -C /repo worktree prune
rsync -a --exclude .git /repo/ "$D"/
( cd "$D" && patch -p1 -s < "$PATCH" )
set +e
VERIF_REPO="$D" "$@"
rc=$?
echo "[with_mutant] exit=$rc"
exit $rc
