#!/venv/bin/python
"""tools/debug_scn.py <scenario.json> [sync|async] : run one scenario on the implementation and the model, show both with traces."""
import json, sys
sys.path.insert(0, '/verif/harness'); sys.path.insert(0, __import__('os').environ.get('VERIF_REPO', '/repo'))
import common, session, scen
scn = scen.dec(json.load(open(sys.argv[1])))
impl = sys.argv[2] if len(sys.argv) > 2 else 'sync'
drv = common.Driver()
io, mo, r = session.run_scenario(drv, scn, impl, detail=True)
print({k: v for k, v in scn.items() if k not in ('ops', 'files', 'envs')})
for e in scn['envs']:
    print('env', {k: (v if k != 'sim' else {a: (b if len(repr(b)) < 200 else repr(b)[:200]) for a, b in v.items()}) for k, v in e.items() if k != 'frags'}, 'frags', e.get('frags', [])[:30])
for op, a, b in zip(scn['ops'], io, mo):
    print('OP', session.op_line(op)[:200])
    print('  impl ', {k: (str(v)[:100]) for k, v in a.items()})
    print('  model', {k: (str(v)[:100]) for k, v in b.items() if k != 'trace'})
    print('  diff ', session.compare_op(a, b))
    print('  trace', (b.get('trace') or '')[:3000])
for ci, c in enumerate(r.link.used):
    print('conn', ci, 'segs', [(s[0], s[1][:4], len(s[1])) for s in c.segs][:60])
    print('   calls', c.calls[:80])
