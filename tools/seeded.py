#!/usr/bin/env python3
"""Seeded-change bookkeeping.
  seeded.py import <src_dir> <id>      copy patch.diff / demo / meta.json of a sub-agent's change into /verif/seeded/<id>/
  seeded.py verify <id>                in a scratch copy of /repo: suite passes with the patch; demo fails with it and passes without
  seeded.py run <id> [Cxx ...]         run the quick check(s) (default: the property in meta.json) against the patched scratch copy
Everything happens in /tmp/seed_<id>_* scratch copies that are removed afterwards; /repo itself is never touched."""
import glob
import json
import os
import shutil
import subprocess
import sys
import tempfile

VERIF = os.path.dirname(os.path.dirname(os.path.abspath(__file__)))
SEEDED = os.path.join(VERIF, "seeded")


def sh(cmd, cwd=None, env=None, timeout=1800):
    p = subprocess.run(cmd, cwd=cwd, env=env, stdout=subprocess.PIPE, stderr=subprocess.STDOUT, text=True, timeout=timeout, shell=isinstance(cmd, str))
    return p.returncode, p.stdout


def scratch(sid, patched):
    d = tempfile.mkdtemp(prefix="seed_%s_" % sid, dir="/tmp")
    sh("rsync -a --exclude .git --exclude out --exclude NOWHERE /repo/ %s/" % d)
    if patched:
        rc, out = sh(["patch", "-p1", "-s", "-i", os.path.join(SEEDED, sid, "patch.diff")], cwd=d)
        if rc != 0:
            shutil.rmtree(d)
            raise SystemExit("patch does not apply: " + out)
    return d


def demo_of(sid):
    c = [f for f in glob.glob(os.path.join(SEEDED, sid, "*.py"))]
    return c[0] if c else None


def run_demo(sid, d):
    demo = demo_of(sid)
    dst = os.path.join(d, "out_demo")
    os.makedirs(dst, exist_ok=True)
    shutil.copy(demo, dst)
    name = os.path.basename(demo)
    env = dict(os.environ, PYTHONPATH=d, PYTHONDONTWRITEBYTECODE="1")
    if name.startswith("test_"):
        return sh(["/venv/bin/python", "-m", "pytest", "-q", "-p", "no:cacheprovider", "-x", os.path.join("out_demo", name)], cwd=d, env=env, timeout=600)
    return sh(["/venv/bin/python", os.path.join("out_demo", name)], cwd=d, env=env, timeout=600)


def cmd_import(src, sid):
    dst = os.path.join(SEEDED, sid)
    os.makedirs(dst, exist_ok=True)
    for f in os.listdir(src):
        if f.endswith((".diff", ".py", ".json")):
            shutil.copy(os.path.join(src, f), dst)
    print("imported", sid, os.listdir(dst))


def cmd_verify(sid):
    meta_p = os.path.join(SEEDED, sid, "meta.json")
    meta = json.load(open(meta_p))
    res = {}
    d = scratch(sid, True)
    try:
        rc, out = sh(["/venv/bin/python", "-m", "pytest", "-q", "-p", "no:cacheprovider", "tests"], cwd=d, env=dict(os.environ, PYTHONPATH=d), timeout=900)
        res["suite_with_patch"] = out.strip().split("\n")[-1]
        res["suite_passes"] = rc == 0
        rc, out = run_demo(sid, d)
        res["demo_fails_with_patch"] = rc != 0
        res["demo_with_patch_tail"] = out.strip().split("\n")[-1][:200]
    finally:
        shutil.rmtree(d, ignore_errors=True)
    d = scratch(sid, False)
    try:
        rc, out = run_demo(sid, d)
        res["demo_passes_without_patch"] = rc == 0
        res["demo_without_patch_tail"] = out.strip().split("\n")[-1][:200]
    finally:
        shutil.rmtree(d, ignore_errors=True)
    meta["confirmed"] = res
    meta["confirmed_ok"] = bool(res["suite_passes"] and res["demo_fails_with_patch"] and res["demo_passes_without_patch"])
    json.dump(meta, open(meta_p, "w"), indent=1)
    print(sid, "confirmed_ok=%s" % meta["confirmed_ok"], res)
    return meta["confirmed_ok"]


def cmd_run(sid, props):
    meta_p = os.path.join(SEEDED, sid, "meta.json")
    meta = json.load(open(meta_p))
    props = props or [meta["property"]]
    d = scratch(sid, True)
    det = meta.setdefault("detection", {})
    try:
        for p in props:
            env = dict(os.environ, VERIF_REPO=d, VERIF_SEED=os.environ.get("VERIF_SEED", "1"), VERIF_EVIDENCE_DIR=os.path.join(d, "_evidence"))
            rc, out = sh([os.path.join(VERIF, "check.sh"), p, "quick"], cwd=VERIF, env=env, timeout=3000)
            lines = [l for l in out.split("\n") if l.startswith("VIOLATION") or l.startswith("INFRA") or " quick seed=" in l]
            det[p] = dict(exit=rc, lines=lines[-3:])
            rp = os.path.join(VERIF, "replays", "%s-%s.json" % (p, env["VERIF_SEED"]))
            if rc == 1 and os.path.exists(rp):
                r = json.load(open(rp))
                f = r.get("failure") or {}
                det[p]["kind"] = r.get("kind")
                det[p]["why"] = (f.get("why") or str(r.get("broken_theorems_or_build") or r.get("correspondence_disagreements"))[:300])[:300]
            print(sid, p, "exit=%d" % rc, det[p].get("kind"), (det[p].get("why") or "")[:160])
    finally:
        shutil.rmtree(d, ignore_errors=True)
        # restore generated facts for the real tree
        sh([os.path.join(VERIF, "check.sh"), "C02", "--gen"], cwd=VERIF)
    json.dump(meta, open(meta_p, "w"), indent=1)


if __name__ == "__main__":
    a = sys.argv[1:]
    if a[0] == "import":
        cmd_import(a[1], a[2])
    elif a[0] == "verify":
        sys.exit(0 if cmd_verify(a[1]) else 1)
    elif a[0] == "run":
        cmd_run(a[1], a[2:])
