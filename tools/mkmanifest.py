#!/usr/bin/env python3
"""Writes MANIFEST.json from the table below (kept as a script so the file stays valid and consistent)."""
import json, os
HERE = os.path.dirname(os.path.dirname(os.path.abspath(__file__)))
TB = ("Trusted: Lean 4.33.0 kernel (axioms propext, Classical.choice, Quot.sound only; audited each run), harness/gen.py, and the "
      "differential correspondence harness; model = code is established on the sampled cases and regenerated facts, not proved. "
      "CPython/struct/threading/asyncio/sockets/libusb/crypto libraries are modelled, not verified.")
CLAIMED = {
 "C02": dict(text="Lean theorems over the message codec model: header layout, length 24, unpack(pack)=fields for every command, every 32-bit argument and every payload, magic = complement, wire tables equal the generated constants, and the strict parser recovers exactly the emitted messages from any concatenation. Tie: constants regenerated from source; AdbMessage.pack/unpack/checksum compared with the model on thousands of cases; the Lean parser is run on the implementation's emitted bytes.",
             technique="Lean 4 theorems (round-trip law, induction over message lists) + differential correspondence", ref="6/C02"),
}
PENDING = {}
ALL = ["C%02d" % i for i in range(1, 21)]

def main():
    checks = []
    for pid in ALL:
        if pid in CLAIMED:
            c = CLAIMED[pid]
            checks.append(dict(property_id=pid, quick_cmd="./check.sh %s quick" % pid, thorough_cmd="./check.sh %s thorough" % pid,
                               evidence_file="evidence/%s.json" % pid, replay_cmd_template="./check.sh %s --replay {path}" % pid,
                               engine="lean-model", level_claimed=dict(category="proof", text=c["text"], design_ref="DESIGN.md section " + c["ref"]),
                               level_note=c.get("note", "") + TB, technique=c["technique"]))
    na = [dict(property_id=pid, reason=PENDING.get(pid, "check not built yet in this round; the design (DESIGN.md section 6) applies, nothing is claimed until its theorems and correspondence unit exist"))
          for pid in ALL if pid not in CLAIMED]
    m = dict(version=1,
             setup_cmd="cd lean && lake build AdbModel adbdriver AdbProofs",
             hooks=dict(guard="ADB_SHELL_VERIF", enable="no source hooks are needed: all observation points are substituted from outside (fake transports, time, Lock, sys.modules['usb1'])",
                        baseline_off_cmd="cd /repo && /venv/bin/python -m pytest -ra -q -p no:cacheprovider --timeout=900 --continue-on-collection-errors",
                        source_commits=["b28e365", "7450df8", "67c86ea", "8c606b7", "c460e81"], add_only=True),
             engines=[dict(name="lean-model", path="lean/", serves_properties=sorted(CLAIMED), kind_free_text="hand-written executable Lean 4 model + property theorems; compiled driver; Python differential harness (harness/)")],
             checks=checks,
             notes="source_commits are the five unguarded `fix:` commits (F1-F5, see known_findings.json and DESIGN.md section 5); there are no guarded hooks.",
             not_applicable=na)
    with open(os.path.join(HERE, "MANIFEST.json"), "w") as f:
        json.dump(m, f, indent=1)
    print("claimed:", sorted(CLAIMED), "unclaimed:", len(na))

main()
