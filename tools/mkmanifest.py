#!/usr/bin/env python3
"""Writes MANIFEST.json from the table below (kept as a script so the file stays valid and consistent)."""
import json, os
HERE = os.path.dirname(os.path.dirname(os.path.abspath(__file__)))
TB = ("Trusted: Lean 4.33.0 kernel (axioms propext, Classical.choice, Quot.sound only; audited each run), harness/gen.py, and the "
      "differential correspondence harness; model = code is established on the sampled cases and regenerated facts, not proved. "
      "CPython/struct/threading/asyncio/sockets/libusb/crypto libraries are modelled, not verified.")
CLAIMED = {
 "C02": dict(text="Lean theorems over the message codec model: header layout, length 24, unpack(pack)=fields for every command, every 32-bit argument and every payload, magic = complement, wire tables equal the generated constants, and the strict parser recovers exactly the emitted messages from any concatenation. Tie: constants regenerated from source; AdbMessage.pack/unpack/checksum compared with the model on thousands of cases; the Lean parser is run on the implementation's emitted bytes.",
             technique="Lean 4 theorems (round-trip law, induction over message lists) + differential correspondence", ref="6/C02"),
 "C03": dict(text="Lean theorems about the byte-stream reader for EVERY scripted transport (any fragmentation, empty reads, faults, timing): a normal return of _read_bytes yields exactly the next n bytes, every bulk_read asks for exactly the bytes still missing, _read_packet returns exactly the next packet and only with a known command and (non-empty payload) a matching checksum, two worlds with the same device byte stream deliver the same packet. Tie: sessions on AdbDevice and AdbDeviceAsync under 6 fragmentations must equal the unfragmented run and the model; corrupted packets; an over-request flag in the fake transport.",
             technique="Lean 4 theorems (induction on loop fuel over a scripted-transport world) + metamorphic/differential correspondence", ref="6/C03"),
 "C12": dict(text="Lean theorems: every public operation (and every history of operations), in every world with arbitrary fault scripts and whatever its outcome, leaves the set of held locks unchanged (proved through a frame predicate established for each of ~60 model functions); close() always completes on an idle object and leaves it unavailable with an empty store and a closed transport; connect() begins by closing the transport and emptying the store. Tie: a fault at a random inbound/outbound offset of a session touching every operation, then close, reconnect and replay, on both twins, compared with the model and judged by result oracles.",
             technique="Lean 4 theorems (frame/invariant by structural induction over the model) + fault-injection correspondence", ref="6/C12", note="'returns the correct result' after reconnect rests on the exactness theorems of the other properties and on the sampled correspondence. "),
 "C13": dict(text="Lean theorems: the guard table generated from both source files is complete (availability check everywhere, path check first) and equal for the twins; on an unavailable device every stream operation returns AdbConnectionError with the world UNCHANGED (no transport call, no byte, no file, no id); an empty path gives DevicePathInvalidError with the world unchanged; stream operations never change `available`; `available` over any history equals the specification. Tie: exhaustive op sequences up to length 2 (thorough 3) over 18 step kinds on both twins plus random ones.",
             technique="Lean 4 theorems (decision logic over a generated guard table; invariant over histories) + exhaustive short-sequence correspondence", ref="6/C13"),
 "C15": dict(text="Lean theorems about the write loop for EVERY acceptance script: one bulk_write appends exactly the accepted prefix to what the peer has; _write_all returning normally means the peer has every byte, any other outcome leaves a clean prefix; _send delivers exactly header+payload or raises; progress under a healthy transport. Tie: all scenario families over short-writing transports (1 byte, header splits, random, None-returning) on both twins; the Lean parser on the peer's bytes; file-content oracles. Real-socket part: see C18.",
             technique="Lean 4 theorems (induction on loop fuel) + differential correspondence over short-write transports", ref="6/C15", note="kernel socket buffers are exercised only by the C18 loopback runs. "),
 "C16": dict(text="One model for both implementations: determinism of the model and the step from 'both correspond' to 'they agree' are stated in Lean, plus generated structural twin facts (guards, lock nesting, calls under locks). The deciding work is the correspondence: every scenario family runs through AdbDevice and AdbDeviceAsync and the two are compared directly with each other and with the model.",
             technique="Lean 4 (determinism + generated twin facts) with differential correspondence of both twins against one model", ref="6/C16", note="agreement is as strong as the sampled correspondence of each twin. "),
 "C19": dict(text="Lean refinement proof: the nested insertion-ordered dict model transcribed from _AdbPacketStore refines an abstract map (arg0,arg1) -> FIFO queue for put/get/clear/clear_all over histories of any length; find and find_allow_zeros are sound and complete against the set of pending pairs for every wildcard pattern; len counts pending pairs. Tie: the real store is driven with all op sequences up to length 3 over a small alphabet and long random ones; wildcard choices are validated against the specification, everything else compared exactly.",
             technique="Lean 4 refinement proof (invariant + simulation over histories) + exhaustive/random differential correspondence", ref="6/C19"),
}
PENDING = {}
ALL = ["C%02d" % i for i in range(1, 21)]

def main():
    checks = []
    for pid in ALL:
        if pid in CLAIMED:
            c = CLAIMED[pid]
            checks.append(dict(property_id=pid, quick_cmd="./check.sh %s quick" % pid, thorough_cmd="./check.sh %s thorough" % pid,
                               evidence_file="evidence/%s.json" % pid, replay_cmd_template="./check.sh %s --replay {path}" % pid,
                               engine="lean-model", level_claimed=dict(category="proof", text=c["text"], design_ref="DESIGN.md section " + c["ref"]),
                               level_note=c.get("note", "") + TB, technique=c["technique"]))
    na = [dict(property_id=pid, reason=PENDING.get(pid, "check not built yet in this round; the design (DESIGN.md section 6) applies, nothing is claimed until its theorems and correspondence unit exist"))
          for pid in ALL if pid not in CLAIMED]
    m = dict(version=1,
             setup_cmd="cd lean && lake build AdbModel adbdriver AdbProofs",
             hooks=dict(guard="ADB_SHELL_VERIF", enable="no source hooks are needed: all observation points are substituted from outside (fake transports, time, Lock, sys.modules['usb1'])",
                        baseline_off_cmd="cd /repo && /venv/bin/python -m pytest -ra -q -p no:cacheprovider --timeout=900 --continue-on-collection-errors",
                        source_commits=[], add_only=True),
             engines=[dict(name="lean-model", path="lean/", serves_properties=sorted(CLAIMED), kind_free_text="hand-written executable Lean 4 model + property theorems; compiled driver; Python differential harness (harness/)")],
             checks=checks,
             notes="There are no guarded source hooks (hooks.source_commits is empty). /repo carries seven unguarded `fix:` commits for genuine defects F1-F7 (b28e365, 7450df8, 67c86ea, 8c606b7, c460e81, 2e4e5be, 42f477e), recorded as `fixed` in known_findings.json and described in DESIGN.md section 5; K1 (C06) is a known finding.",
             not_applicable=na)
    with open(os.path.join(HERE, "MANIFEST.json"), "w") as f:
        json.dump(m, f, indent=1)
    print("claimed:", sorted(CLAIMED), "unclaimed:", len(na))

main()
