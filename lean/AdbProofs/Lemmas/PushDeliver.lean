import AdbProofs.Lemmas.PushSpecs
/-
  What the read side hands to its caller: `_AdbIOManager.read` returns exactly the one packet it
  records as delivered, and its command is an expected one.  Used for the receive-buffer half of
  the flush law of C07 (device WRTEs that arrive before the OKAY are kept, in order).
-/
namespace Adb.Push
open Adb

/-- anything but a `deliver` -/
def QNoDeliv : TEv → Prop
  | .deliver _ => False
  | _ => True

theorem QNoDeliv.house : House QNoDeliv := by
  intro e h; cases e <;> first | trivial | exact Bool.noConfusion h
theorem QNoDeliv.txAll : TxAll QNoDeliv := fun _ => trivial
theorem QNoDeliv.delivered {evs : List TEv} (h : ∀ e ∈ evs, QNoDeliv e) : delivered evs = [] :=
  delivered_eq_nil fun _ hm => h _ hm

theorem withLock_ok_trace {α} {l : Nat} {body : M α} {w w' : World} {a : α} (h : withLock l body w = (.ok a, w')) :
    ∃ w0 w1, w0.trace = w.trace ∧ w0.fuel = w.fuel ∧ body w0 = (.ok a, w1) ∧ w'.trace = w1.trace := by
  obtain ⟨w1, h1, rfl⟩ := withLock_ok_inv h
  exact ⟨{ w with locks := l :: w.locks }, w1, rfl, rfl, h1, rfl⟩

theorem ite_jp {β} (c : Prop) [Decidable c] (x : M Unit) (k : Unit → M β) :
    (if c then x >>= k else k ()) = ((if c then x else pure ()) >>= k) := by
  split <;> rfl

theorem drainLoop_ok {ex : List Cmd} {t : Txn} {az : Bool} : ∀ {fuel : Nat} {w w' : World} {r : Option Pkt},
    drainLoop ex t az fuel w = (.ok r, w') →
    ∃ evs, w'.trace = evs ++ w.trace ∧ delivered evs = r.toList ∧ ∀ p, r = some p → ex.contains p.cmd = true := by
  intro fuel
  induction fuel with
  | zero => intro w w' r h; simp [drainLoop] at h
  | succ f ih =>
    intro w w' r h
    unfold drainLoop at h
    obtain ⟨o, w1, h1, h2⟩ := bind_ok_inv h
    simp only [storeFind, Prod.mk.injEq, Except.ok.injEq] at h1
    obtain ⟨-, rfl⟩ := h1
    cases o with
    | none =>
      simp only [pure_run, Prod.mk.injEq, Except.ok.injEq] at h2
      obtain ⟨rfl, rfl⟩ := h2
      exact ⟨[], rfl, rfl, by simp⟩
    | some k =>
      dsimp only at h2
      obtain ⟨p, w2, h3, h4⟩ := bind_ok_inv h2
      have ht2 : w2.trace = w.trace := by
        have := (Tr_storeGet (Q := QNone) k).silent w
        rwa [h3] at this
      split at h4
      · next hc =>
        simp only [bind_run, emit_run, pure_run, Prod.mk.injEq, Except.ok.injEq] at h4
        obtain ⟨rfl, rfl⟩ := h4
        exact ⟨[.deliver p], by simp [ht2], rfl, by simpa using hc⟩
      · simp only [bind_run, emit_run] at h4
        obtain ⟨e, he, hd, hx⟩ := ih h4
        refine ⟨e ++ [.unstore p], by simp [he, ht2], ?_, hx⟩
        rw [delivered_append, hd]; rfl

/-- the part of one `read` iteration after a packet came from the transport -/
def readIterTail (expected : List Cmd) (t : Txn) (allowZeros : Bool) (p : Pkt) : M (Option Pkt) :=
  if !t.argsMatch p.arg0 p.arg1 allowZeros then do
    withLock lockStore (storePut p)
    pure none
  else do
    if p.cmd = Cmd.CLSE then withLock lockStore (storeClear p.arg0 p.arg1)
    if expected.contains p.cmd then do emit (.deliver p); pure (some p)
    else do emit (.drop p); pure none

theorem readIterTail_ok {ex : List Cmd} {t : Txn} {az : Bool} {p : Pkt} {w w' : World} {r : Option Pkt}
    (h : readIterTail ex t az p w = (.ok r, w')) :
    ∃ evs, w'.trace = evs ++ w.trace ∧ delivered evs = r.toList ∧ ∀ q, r = some q → ex.contains q.cmd = true := by
  unfold readIterTail at h
  split at h
  · obtain ⟨u, w1, h1, h2⟩ := bind_ok_inv h
    simp only [pure_run, Prod.mk.injEq, Except.ok.injEq] at h2
    obtain ⟨rfl, rfl⟩ := h2
    obtain ⟨e, he, hq⟩ := (Tr_withLock lockStore (Tr_storePut QNoDeliv.house p)).step h1
    exact ⟨e, he, QNoDeliv.delivered hq, by simp⟩
  · dsimp only at h
    rw [ite_jp] at h
    obtain ⟨u, w1, h1, h2⟩ := bind_ok_inv h
    obtain ⟨e, he, hq⟩ := (Tr_ite (c := p.cmd = Cmd.CLSE) (Tr_withLock lockStore (Tr_storeClear (Q := QNoDeliv) p.arg0 p.arg1))
      (Tr_pure ())).step h1
    split at h2
    · next hc =>
      simp only [bind_run, emit_run, pure_run, Prod.mk.injEq, Except.ok.injEq] at h2
      obtain ⟨rfl, rfl⟩ := h2
      refine ⟨[.deliver p] ++ e, by simp [he], ?_, by simpa using hc⟩
      rw [delivered_append, QNoDeliv.delivered hq]; rfl
    · simp only [bind_run, emit_run, pure_run, Prod.mk.injEq, Except.ok.injEq] at h2
      obtain ⟨rfl, rfl⟩ := h2
      refine ⟨[.drop p] ++ e, by simp [he], ?_, by simp⟩
      rw [delivered_append, QNoDeliv.delivered hq]; rfl

theorem readIter_ok {ex : List Cmd} {t : Txn} {az : Bool} {w w' : World} {r : Option Pkt}
    (h : readIter ex t az w = (.ok r, w')) :
    ∃ evs, w'.trace = evs ++ w.trace ∧ delivered evs = r.toList ∧ ∀ q, r = some q → ex.contains q.cmd = true := by
  unfold readIter at h
  obtain ⟨w0, w1, ht0, -, h1, ht1⟩ := withLock_ok_trace h
  rw [get_bind_run] at h1
  obtain ⟨o, w2, h2, h3⟩ := bind_ok_inv h1
  obtain ⟨w3, w4, ht3, -, h4, ht4⟩ := withLock_ok_trace h2
  obtain ⟨e1, he1, hd1, hx1⟩ := drainLoop_ok h4
  cases o with
  | some p =>
    simp only [pure_run, Prod.mk.injEq, Except.ok.injEq] at h3
    obtain ⟨rfl, rfl⟩ := h3
    exact ⟨e1, by rw [ht1, ht4, he1, ht3, ht0], hd1, hx1⟩
  | none =>
    dsimp only at h3
    obtain ⟨p, w5, h5, h6⟩ := bind_ok_inv h3
    obtain ⟨e2, he2, hq2⟩ := (Tr_readPacket QNoDeliv.house t).step h5
    obtain ⟨e3, he3, hd3, hx3⟩ := readIterTail_ok (ex := ex) (t := t) (az := az) (p := p) h6
    refine ⟨e3 ++ (e2 ++ e1), by rw [ht1, he3, he2, ht4, he1, ht3, ht0]; simp, ?_, hx3⟩
    rw [delivered_append, delivered_append, hd1, QNoDeliv.delivered hq2, hd3]; rfl

theorem readLoop_ok {ex : List Cmd} {t : Txn} {az : Bool} {start : Int} : ∀ {fuel : Nat} {w w' : World} {p : Pkt},
    readLoop ex t az start fuel w = (.ok p, w') →
    ∃ evs, w'.trace = evs ++ w.trace ∧ delivered evs = [p] ∧ ex.contains p.cmd = true := by
  intro fuel
  induction fuel with
  | zero => intro w w' p h; simp [readLoop] at h
  | succ f ih =>
    intro w w' p h
    unfold readLoop at h
    obtain ⟨o, w1, h1, h2⟩ := bind_ok_inv h
    obtain ⟨e1, he1, hd1, hx1⟩ := readIter_ok h1
    cases o with
    | some q =>
      simp only [pure_run, Prod.mk.injEq, Except.ok.injEq] at h2
      obtain ⟨rfl, rfl⟩ := h2
      exact ⟨e1, he1, hd1, hx1 _ rfl⟩
    | none =>
      dsimp only at h2
      obtain ⟨b, w2, h3, h4⟩ := bind_ok_inv h2
      have ht2 : w2.trace = w1.trace := by
        have := (Tr_elapsedGt (Q := QNone) start t.rt).silent w1
        rwa [h3] at this
      split at h4
      · simp [bind_run] at h4
      · obtain ⟨e2, he2, hd2, hx2⟩ := ih h4
        refine ⟨e2 ++ e1, by rw [he2, ht2, he1, List.append_assoc], ?_, hx2⟩
        rw [delivered_append, hd1, hd2]; rfl

/-- `_AdbIOManager.read` returns exactly the packet it records as delivered, and its command was expected -/
theorem ioRead_ok {ex : List Cmd} {t : Txn} {az : Bool} {w w' : World} {p : Pkt}
    (h : ioRead ex t az w = (.ok p, w')) :
    ∃ evs, w'.trace = evs ++ w.trace ∧ delivered evs = [p] ∧ ex.contains p.cmd = true := by
  unfold ioRead at h
  rw [get_bind_run] at h
  obtain ⟨o, w1, h1, h2⟩ := bind_ok_inv h
  obtain ⟨w3, w4, ht3, -, h4, ht4⟩ := withLock_ok_trace h1
  obtain ⟨e1, he1, hd1, hx1⟩ := drainLoop_ok h4
  cases o with
  | some q =>
    simp only [pure_run, Prod.mk.injEq, Except.ok.injEq] at h2
    obtain ⟨rfl, rfl⟩ := h2
    exact ⟨e1, by rw [ht4, he1, ht3], hd1, hx1 _ rfl⟩
  | none =>
    dsimp only at h2
    obtain ⟨s, w2, h5, h6⟩ := bind_ok_inv h2
    simp only [now_run, Prod.mk.injEq, Except.ok.injEq] at h5
    obtain ⟨rfl, rfl⟩ := h5
    obtain ⟨e2, he2, hd2, hx2⟩ := readLoop_ok h6
    refine ⟨e2 ++ e1, by rw [he2, ht4, he1, ht3, List.append_assoc], ?_, hx2⟩
    rw [delivered_append, hd1, hd2]; rfl

/-- `_read_until`: the returned `(cmd, data)` are those of the one packet delivered (an expected one) -/
theorem readUntil_ok {ex : List Cmd} {t : Txn} {w w' : World} {c : Cmd} {d : Bytes}
    (h : readUntil ex t w = (.ok (c, d), w')) :
    ∃ evs p, w'.trace = evs ++ w.trace ∧ delivered evs = [p] ∧ p.cmd = c ∧ p.data = d ∧ ex.contains c = true := by
  unfold readUntil at h
  obtain ⟨p, w1, h1, h2⟩ := bind_ok_inv h
  obtain ⟨e1, he1, hd1, hx1⟩ := ioRead_ok h1
  dsimp only at h2
  rw [ite_jp] at h2
  obtain ⟨u, w2, h3, h4⟩ := bind_ok_inv h2
  simp only [pure_run, Prod.mk.injEq, Except.ok.injEq] at h4
  obtain ⟨⟨rfl, rfl⟩, rfl⟩ := h4
  obtain ⟨e2, he2, hq2⟩ := (Tr_ite (c := p.cmd = Cmd.WRTE) (Tr_okay (Q := QNoDeliv) (fun m _ => QNoDeliv.txAll m) t) (Tr_pure ())).step h3
  refine ⟨e2 ++ e1, p, by rw [he2, he1, List.append_assoc], ?_, rfl, rfl, hx1⟩
  rw [delivered_append, hd1, QNoDeliv.delivered hq2]; rfl

/-- the flush loop appends to the receive buffer exactly the payloads of the WRTE packets it was handed -/
theorem fsFlushLoop_recv {t : Txn} : ∀ {fuel : Nat} {fi fi' : FsInfo} {w w' : World},
    fsFlushLoop t fuel fi w = (.ok fi', w') →
    ∃ evs, w'.trace = evs ++ w.trace ∧ fi'.recvBuf = fi.recvBuf ++ deliveredWrteData evs := by
  intro fuel
  induction fuel with
  | zero => intro fi fi' w w' h; simp [fsFlushLoop] at h
  | succ f ih =>
    intro fi fi' w w' h
    unfold fsFlushLoop at h
    obtain ⟨⟨cmd, data⟩, w1, h1, h2⟩ := bind_ok_inv h
    obtain ⟨e1, p, he1, hd1, rfl, rfl, hx⟩ := readUntil_ok h1
    dsimp only at h2
    split at h2
    · next hc =>
      simp only [pure_run, Prod.mk.injEq, Except.ok.injEq] at h2
      obtain ⟨rfl, rfl⟩ := h2
      refine ⟨e1, he1, ?_⟩
      simp [deliveredWrteData, hd1, hc]
    · next hc =>
      obtain ⟨e2, he2, hr2⟩ := ih h2
      refine ⟨e2 ++ e1, by rw [he2, he1, List.append_assoc], ?_⟩
      have hw : p.cmd = Cmd.WRTE := by
        simp only [List.contains_cons, List.contains_nil, Bool.or_false, Bool.or_eq_true, beq_iff_eq] at hx
        rcases hx with hx | hx
        · exact absurd hx hc
        · exact hx
      rw [hr2, deliveredWrteData_append]
      simp [deliveredWrteData, hd1, hw, List.append_assoc]


/-- `_filesync_flush`: the receive buffer grows by exactly the device's WRTE payloads read while waiting for OKAY -/
theorem fsFlush_recv {t : Txn} {fi fi' : FsInfo} {w w' : World} {evs : List TEv}
    (h : fsFlush t fi w = (.ok fi', w')) (hev : w'.trace = evs ++ w.trace) :
    fi'.recvBuf = fi.recvBuf ++ deliveredWrteData evs := by
  unfold fsFlush at h
  obtain ⟨u, w1, h1, h2⟩ := bind_ok_inv h
  have ht1 := ioSend_ok_trace h1
  rw [get_bind_run] at h2
  obtain ⟨e2, he2, hr⟩ := fsFlushLoop_recv h2
  have hevs : evs = e2 ++ [TEv.tx ⟨.WRTE, t.localId.getD 0, t.remoteId.getD 0, fi.sendBuf⟩] :=
    evs_split (e1 := [_]) ht1 he2 hev
  subst hevs
  rw [hr, deliveredWrteData_append]
  simp [deliveredWrteData]

end Adb.Push
