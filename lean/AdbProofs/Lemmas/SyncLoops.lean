import AdbProofs.Lemmas.SyncRead
/-
  The loops built on `_filesync_read`: `_pull` (DATA records until DONE), `list` (DENT records until
  DONE) and the status read of `_push`, against the reference parser (C08, C09, C10).
-/
namespace Adb.SR
open Adb Adb.Push

/-- a `DATA` record of the pull format with payload `d` -/
def dataRec (d : Bytes) : SyncRec := ⟨.DATA, [], some d⟩

/-- the `list` result entry of a `DENT` record -/
def entryOf (r : SyncRec) : Bytes × Nat × Nat × Nat :=
  (r.data.getD [], r.fields.getD 0 0, r.fields.getD 1 0, r.fields.getD 2 0)

theorem fsRead_step {ex : List SyncId} {t : Txn} {fi fi1 : FsInfo} {w w1 : World} {r : SyncRec}
    (h1 : fsRead ex t fi w = (.ok (r, fi1), w1)) :
    ∃ e1, w1.trace = e1 ++ w.trace ∧ progressCalls e1 = [] ∧
      parse fi.fmt (fi.recvBuf ++ deliveredWrteData e1) = .record r fi1.recvBuf ∧ r.id ∈ ex ∧
      fi1.fmt = fi.fmt ∧ fi1.maxdata = fi.maxdata ∧ fi1.sendBuf = [] ∧ w1.sink = w.sink := by
  obtain ⟨e1, he1, hq⟩ := (Tr_fsRead QNoProg.house QNoProg.deliv QNoProg.txAll ex t fi).step h1
  obtain ⟨hp, hid, hf, hm, hs⟩ := fsRead_ok_parse h1 he1
  exact ⟨e1, he1, QNoProg.progressCalls hq, hp, hid, hf, hm, hs, (Sk_fsRead ex t fi).of_run h1⟩

theorem dwd_progress (cb : CbMode) (p : Bytes) (n tot : Nat) :
    deliveredWrteData (if cb = CbMode.none then [] else [TEv.cbProgress p n tot]) = [] := by
  split <;> rfl

theorem progressCalls_cb (cb : CbMode) (p : Bytes) (n tot : Nat) :
    progressCalls (if cb = CbMode.none then [] else [TEv.cbProgress p n tot]) =
      if cb = CbMode.none then [] else [(p, n, tot)] := by
  split <;> rfl

/-- a record of the pull format that is not `STAT` has no fields and carries data -/
theorem pull_rec_shape {bs rest : Bytes} {r : SyncRec} (h : parse .pull bs = .record r rest) (hid : r.id = SyncId.DATA) :
    ∃ d, r = dataRec d := by
  obtain ⟨-, h2⟩ := parse_shape h
  obtain ⟨hl, d, hd, -, -⟩ := h2 (by rw [hid]; decide)
  refine ⟨d, ?_⟩
  obtain ⟨id, fields, data⟩ := r
  simp only at hid hl hd
  have : fields = [] := List.eq_nil_of_length_eq_zero (by rw [hl]; decide)
  subst this hid hd
  rfl

/-- `_pull`, normal return: the reassembled stream is DATA records then one DONE; the destination
    received exactly the DATA payloads, in order; the callback saw exactly their lengths -/
theorem pullLoop_ok {devPath : Bytes} {cb : CbMode} {total : Nat} {t : Txn} :
    ∀ {fuel : Nat} {fi : FsInfo} {w w' : World} {evs : List TEv},
    pullLoop devPath cb total t fuel fi w = (.ok (), w') → w'.trace = evs ++ w.trace → fi.fmt = .pull →
    ∃ (datas : List Bytes) (done : SyncRec) (rest : Bytes),
      Recs .pull (fi.recvBuf ++ deliveredWrteData evs) (datas.map dataRec ++ [done]) rest ∧ done.id = SyncId.DONE ∧
      (∀ s, w.sink = some s → w'.sink = some (s ++ datas.flatten)) ∧
      progressCalls evs = (if cb = CbMode.none then [] else datas.map fun d => (devPath, d.length, total)) := by
  intro fuel
  induction fuel with
  | zero => intro fi w w' evs h; simp [pullLoop] at h
  | succ f ih =>
    intro fi w w' evs h hev hfmt
    unfold pullLoop at h
    obtain ⟨⟨r, fi1⟩, w1, h1, h2⟩ := bind_ok_inv h
    obtain ⟨e1, he1, hpc1, hp, hid, hf1, hm1, hs1, hsk1⟩ := fsRead_step h1
    rw [hfmt] at hp
    dsimp only at h2
    split at h2
    · next hdone =>
      simp only [pure_run, Prod.mk.injEq, true_and] at h2
      subst h2
      have : evs = e1 := evs_unique (he1 ▸ hev)
      subst this
      refine ⟨[], r, fi1.recvBuf, Recs.cons hp (Recs.nil _), hdone, ?_, ?_⟩
      · intro s hs; rw [hsk1, hs]; simp
      · rw [hpc1]; split <;> rfl
    · next hnd =>
      have hdata : r.id = SyncId.DATA := by
        simp only [List.mem_cons, List.mem_nil_iff, or_false] at hid
        rcases hid with h | h
        · exact h
        · exact absurd h hnd
      obtain ⟨d, rfl⟩ := pull_rec_shape hp hdata
      obtain ⟨u, w2, h3, h4⟩ := bind_ok_inv h2
      simp only [M.modify_run, Prod.mk.injEq, true_and] at h3
      obtain ⟨u', w3, h5, h6⟩ := bind_ok_inv h4
      rw [callProgress_run] at h5
      simp only [Prod.mk.injEq, true_and] at h5
      obtain ⟨e3, he3⟩ := Fr.evs (Fr_pullLoop _ _ _ _ _ _) h6
      have hw3 : w3.trace = (if cb = CbMode.none then [] else [TEv.cbProgress devPath d.length total]) ++ w1.trace := by
        rw [← h5, ← h3]; rfl
      have hevs : evs = e3 ++ ((if cb = CbMode.none then [] else [TEv.cbProgress devPath d.length total]) ++ e1) :=
        evs_split (by rw [hw3, he1, List.append_assoc]) he3 hev
      obtain ⟨datas, done, rest, hrecs, hdone, hsink, hprog⟩ := ih h6 he3 (hf1.trans hfmt)
      subst hevs
      refine ⟨d :: datas, done, rest, ?_, hdone, ?_, ?_⟩
      · rw [deliveredWrteData_append, deliveredWrteData_append, dwd_progress, List.append_nil, ← List.append_assoc]
        exact Recs.cons (parse_rec_append _ hp) hrecs
      · intro s hs
        have : w3.sink = some (s ++ d) := by
          rw [← h5, ← h3]
          simp only [dataRec, Option.getD_some, hsk1, hs]
        rw [hsink _ this]
        simp [List.append_assoc]
      · rw [progressCalls_append, progressCalls_append, hpc1, hprog, progressCalls_cb]
        cases cb <;> simp

/-- a record of the list format that is not `STAT` has three fields and carries data -/
theorem list_rec_shape {bs rest : Bytes} {r : SyncRec} (h : parse .list bs = .record r rest) (hid : r.id ≠ SyncId.STAT) :
    ∃ mode size mtime name, r = ⟨r.id, [mode, size, mtime], some name⟩ := by
  obtain ⟨-, h2⟩ := parse_shape h
  obtain ⟨hl, d, hd, -, -⟩ := h2 hid
  obtain ⟨id, fields, data⟩ := r
  simp only at hl hd
  have h3 : fields.length = 3 := by rw [hl]; decide
  match fields, h3 with
  | [a, b, c], _ => exact ⟨a, b, c, d, by rw [hd]⟩

/-- `list`, normal return: the reassembled stream is DENT records then one DONE, and the result is
    one entry per DENT record, in order, after what was accumulated before -/
theorem listLoop_ok {t : Txn} :
    ∀ {fuel : Nat} {fi : FsInfo} {acc files : List (Bytes × Nat × Nat × Nat)} {w w' : World} {evs : List TEv},
    listLoop t fuel fi acc w = (.ok files, w') → w'.trace = evs ++ w.trace → fi.fmt = .list →
    ∃ (dents : List SyncRec) (done : SyncRec) (rest : Bytes),
      Recs .list (fi.recvBuf ++ deliveredWrteData evs) (dents ++ [done]) rest ∧ done.id = SyncId.DONE ∧
      (∀ r ∈ dents, r.id = SyncId.DENT ∧ ∃ mode size mtime name, r = ⟨.DENT, [mode, size, mtime], some name⟩) ∧
      files = acc.reverse ++ dents.map entryOf := by
  intro fuel
  induction fuel with
  | zero => intro fi acc files w w' evs h; simp [listLoop] at h
  | succ f ih =>
    intro fi acc files w w' evs h hev hfmt
    unfold listLoop at h
    obtain ⟨⟨r, fi1⟩, w1, h1, h2⟩ := bind_ok_inv h
    obtain ⟨e1, he1, -, hp, hid, hf1, -, -, -⟩ := fsRead_step h1
    rw [hfmt] at hp
    dsimp only at h2
    split at h2
    · next hdone =>
      simp only [pure_run, Prod.mk.injEq, Except.ok.injEq] at h2
      obtain ⟨rfl, rfl⟩ := h2
      have : evs = e1 := evs_unique (he1 ▸ hev)
      subst this
      exact ⟨[], r, fi1.recvBuf, Recs.cons hp (Recs.nil _), hdone, by simp, by simp⟩
    · next hnd =>
      have hdent : r.id = SyncId.DENT := by
        simp only [List.mem_cons, List.mem_nil_iff, or_false] at hid
        rcases hid with h | h
        · exact h
        · exact absurd h hnd
      obtain ⟨mode, size, mtime, name, hr⟩ := list_rec_shape hp (by rw [hdent]; decide)
      rw [hdent] at hr
      obtain ⟨e3, he3⟩ := Fr.evs (Fr_listLoop _ _ _ _) h2
      have hevs : evs = e3 ++ e1 := evs_split he1 he3 hev
      obtain ⟨dents, done, rest, hrecs, hdone, hall, hfiles⟩ := ih h2 he3 (hf1.trans hfmt)
      subst hevs
      refine ⟨r :: dents, done, rest, ?_, hdone, ?_, ?_⟩
      · rw [deliveredWrteData_append, ← List.append_assoc]
        exact Recs.cons (parse_rec_append _ hp) hrecs
      · intro x hx
        rcases List.mem_cons.1 hx with rfl | hx
        · exact ⟨hdent, mode, size, mtime, name, hr⟩
        · exact hall x hx
      · rw [hfiles]
        simp [entryOf]

/-! ### every outcome, against a stream whose next record is known -/

/-- what an outcome of `_filesync_read` is when the reassembled stream (possibly extended by later
    bytes `x`) is known to start with the record `r0` -/
def Against (ex : List SyncId) (t : Txn) (fi : FsInfo) (w : World) (evs : List TEv) (x : Bytes) (r0 : SyncRec) (rest0 : Bytes)
    (res : Except Err (SyncRec × FsInfo)) (w' : World) : Prop :=
  match res with
  | .ok (r, fi') => r = r0 ∧ rest0 = fi'.recvBuf ++ x ∧ r0.id ∈ ex
  | .error e => (∃ f m, e = .adbCommandFailure m ∧ r0 = ⟨.FAIL, f, some m⟩ ∧ SyncId.FAIL ∉ ex) ∨
      (e = .invalidResponse ∧ r0.id ∉ ex ∧ r0.id ≠ SyncId.FAIL) ∨ Aborted t fi w evs e w'

theorem ReadPost.against {ex : List SyncId} {t : Txn} {fi : FsInfo} {w w' : World} {evs : List TEv}
    {res : Except Err (SyncRec × FsInfo)} (hp : ReadPost ex t fi w evs res w') (x : Bytes) {r0 : SyncRec} {rest0 : Bytes}
    (h0 : parse fi.fmt (fi.recvBuf ++ deliveredWrteData evs ++ x) = .record r0 rest0) :
    Against ex t fi w evs x r0 rest0 res w' := by
  cases res with
  | ok v =>
    obtain ⟨r, fi'⟩ := v
    simp only [ReadPost] at hp
    simp only [Against]
    obtain ⟨h1, h2, -, -⟩ := hp
    rw [parse_rec_append x h1] at h0
    cases h0
    exact ⟨rfl, rfl, h2⟩
  | error e =>
    simp only [ReadPost] at hp
    simp only [Against]
    rcases hp with ⟨f, m, rest, rfl, hne, h1⟩ | ⟨r, rest, rfl, hne, hnf, h1⟩ | ⟨word, rfl, h1⟩ | hab
    · rw [parse_rec_append x h1] at h0
      cases h0
      exact Or.inl ⟨f, m, rfl, rfl, hne⟩
    · rw [parse_rec_append x h1] at h0
      cases h0
      exact Or.inr (Or.inl ⟨by first | rfl | trivial, hne, hnf⟩)
    · rw [parse_badId_append x h1] at h0
      cases h0
    · exact Or.inr (Or.inr hab)

/-- an exception raised below the parser somewhere in a loop of `_filesync_read` calls, or the loop
    budget of the model ran out -/
def LoopAborted (t : Txn) (e : Err) (w' : World) : Prop :=
  e = .hang ∨ ∃ fi0 w0 ev0, Aborted t fi0 w0 ev0 e w'

theorem Recs.cons_inv {fmt : SyncFmt} {bs rest : Bytes} {r : SyncRec} {rs : List SyncRec}
    (h : Recs fmt bs (r :: rs) rest) : ∃ bs', parse fmt bs = .record r bs' ∧ Recs fmt bs' rs rest := by
  cases h with
  | cons hp hr => exact ⟨_, hp, hr⟩

theorem Recs.nil_inv {fmt : SyncFmt} {bs rest : Bytes} (h : Recs fmt bs [] rest) : rest = bs := by
  cases h; rfl

/-- `_pull` when the device's stream is DATA records followed by a FAIL record: the call raises
    `AdbCommandFailureException` with the device's message — it never returns normally — unless an
    exception was raised below the parser first -/
theorem pullLoop_fail {devPath : Bytes} {cb : CbMode} {total : Nat} {t : Txn} :
    ∀ {fuel : Nat} {fi : FsInfo} {w w' : World} {evs : List TEv} {res : Except Err Unit} {datas : List Bytes}
      {mid rest : Bytes} {f : List Nat} {m : Bytes},
    pullLoop devPath cb total t fuel fi w = (res, w') → w'.trace = evs ++ w.trace → fi.fmt = .pull →
    Recs .pull (fi.recvBuf ++ deliveredWrteData evs) (datas.map dataRec) mid →
    parse .pull mid = .record ⟨.FAIL, f, some m⟩ rest →
    res = .error (.adbCommandFailure m) ∨ ∃ e, res = .error e ∧ LoopAborted t e w' := by
  intro fuel
  induction fuel with
  | zero =>
    intro fi w w' evs res datas mid rest f m h
    simp only [pullLoop, M.throw_run, Prod.mk.injEq] at h
    obtain ⟨rfl, rfl⟩ := h
    intro _ _ _ _
    exact Or.inr ⟨_, rfl, Or.inl rfl⟩
  | succ n ih =>
    intro fi w w' evs res datas mid rest f m h hev hfmt hrecs hfail
    unfold pullLoop at h
    rw [bind_run] at h
    cases hx : fsRead [.DATA, .DONE] t fi w with
    | mk x w1 =>
      rw [hx] at h
      obtain ⟨e1, he1, hpost, -⟩ := fsRead_any hx
      cases x with
      | error e =>
        simp only [Prod.mk.injEq] at h
        obtain ⟨rfl, rfl⟩ := h
        have : evs = e1 := evs_unique (he1 ▸ hev)
        subst this
        cases datas with
        | nil =>
          have := Recs.nil_inv hrecs
          subst this
          have hag := ReadPost.against hpost [] (by rw [hfmt]; simpa using hfail)
          simp only [Against] at hag
          rcases hag with ⟨f', m', rfl, hr, -⟩ | ⟨-, -, hnf⟩ | hab
          · cases hr; exact Or.inl rfl
          · exact absurd rfl hnf
          · exact Or.inr ⟨_, rfl, Or.inr ⟨_, _, _, hab⟩⟩
        | cons d ds =>
          obtain ⟨bs', hp0, -⟩ := Recs.cons_inv hrecs
          have hag := ReadPost.against hpost [] (by rw [hfmt]; simpa using hp0)
          simp only [Against] at hag
          rcases hag with ⟨f', m', -, hr, -⟩ | ⟨-, hni, -⟩ | hab
          · cases hr
          · exact absurd (by simp [dataRec]) hni
          · exact Or.inr ⟨_, rfl, Or.inr ⟨_, _, _, hab⟩⟩
      | ok v =>
        obtain ⟨r, fi1⟩ := v
        have hf1 : fi1.fmt = .pull := by
          simp only [ReadPost] at hpost
          exact hpost.2.2.1.trans hfmt
        simp only at h
        split at h
        · next hdone =>
          simp only [pure_run, Prod.mk.injEq] at h
          obtain ⟨rfl, rfl⟩ := h
          have : evs = e1 := evs_unique (he1 ▸ hev)
          subst this
          exfalso
          cases datas with
          | nil =>
            have := Recs.nil_inv hrecs
            subst this
            have hag := ReadPost.against hpost [] (by rw [hfmt]; simpa using hfail)
            simp only [Against] at hag
            obtain ⟨rfl, -, -⟩ := hag
            cases hdone
          | cons d ds =>
            obtain ⟨bs', hp0, -⟩ := Recs.cons_inv hrecs
            have hag := ReadPost.against hpost [] (by rw [hfmt]; simpa using hp0)
            simp only [Against] at hag
            obtain ⟨rfl, -, -⟩ := hag
            cases hdone
        · next hnd =>
          rw [bind_run] at h
          simp only [M.modify_run] at h
          rw [bind_run, callProgress_run] at h
          simp only at h
          obtain ⟨e3, he3⟩ := Fr.evs (Fr_pullLoop _ _ _ _ _ _) h
          have hevs : evs = e3 ++ ((if cb = CbMode.none then [] else [TEv.cbProgress devPath (r.data.getD []).length total]) ++ e1) :=
            evs_split (t1 := ((if cb = CbMode.none then [] else [TEv.cbProgress devPath (r.data.getD []).length total]) ++ e1) ++ w.trace)
              (by simp) (by rw [he3]; simp [he1]) hev
          subst hevs
          rw [deliveredWrteData_append, deliveredWrteData_append, dwd_progress, List.append_nil, ← List.append_assoc] at hrecs
          cases datas with
          | nil =>
            exfalso
            have := Recs.nil_inv hrecs
            subst this
            have hag := ReadPost.against hpost (deliveredWrteData e3) (by rw [hfmt]; exact hfail)
            simp only [Against] at hag
            obtain ⟨rfl, -, hin⟩ := hag
            simp at hin
          | cons d ds =>
            obtain ⟨bs', hp0, hrest⟩ := Recs.cons_inv hrecs
            have hag := ReadPost.against hpost (deliveredWrteData e3) (by rw [hfmt]; exact hp0)
            simp only [Against] at hag
            obtain ⟨rfl, rfl, -⟩ := hag
            exact ih h he3 hf1 hrest hfail

/-- `list` when the device's stream is DENT records followed by a FAIL record: the call raises
    `AdbCommandFailureException` with the device's message — it never returns a listing — unless an
    exception was raised below the parser first -/
theorem listLoop_fail {t : Txn} :
    ∀ {fuel : Nat} {fi : FsInfo} {acc : List (Bytes × Nat × Nat × Nat)} {w w' : World} {evs : List TEv}
      {res : Except Err (List (Bytes × Nat × Nat × Nat))} {dents : List SyncRec}
      {mid rest : Bytes} {f : List Nat} {m : Bytes},
    listLoop t fuel fi acc w = (res, w') → w'.trace = evs ++ w.trace → fi.fmt = .list →
    Recs .list (fi.recvBuf ++ deliveredWrteData evs) dents mid → (∀ r ∈ dents, r.id = SyncId.DENT) →
    parse .list mid = .record ⟨.FAIL, f, some m⟩ rest →
    res = .error (.adbCommandFailure m) ∨ ∃ e, res = .error e ∧ LoopAborted t e w' := by
  intro fuel
  induction fuel with
  | zero =>
    intro fi acc w w' evs res dents mid rest f m h
    simp only [listLoop, M.throw_run, Prod.mk.injEq] at h
    obtain ⟨rfl, rfl⟩ := h
    intro _ _ _ _ _
    exact Or.inr ⟨_, rfl, Or.inl rfl⟩
  | succ n ih =>
    intro fi acc w w' evs res dents mid rest f m h hev hfmt hrecs hdents hfail
    unfold listLoop at h
    rw [bind_run] at h
    cases hx : fsRead [.DENT, .DONE] t fi w with
    | mk x w1 =>
      rw [hx] at h
      obtain ⟨e1, he1, hpost, -⟩ := fsRead_any hx
      cases x with
      | error e =>
        simp only [Prod.mk.injEq] at h
        obtain ⟨rfl, rfl⟩ := h
        have : evs = e1 := evs_unique (he1 ▸ hev)
        subst this
        cases dents with
        | nil =>
          have := Recs.nil_inv hrecs
          subst this
          have hag := ReadPost.against hpost [] (by rw [hfmt]; simpa using hfail)
          simp only [Against] at hag
          rcases hag with ⟨f', m', rfl, hr, -⟩ | ⟨-, -, hnf⟩ | hab
          · cases hr; exact Or.inl rfl
          · exact absurd rfl hnf
          · exact Or.inr ⟨_, rfl, Or.inr ⟨_, _, _, hab⟩⟩
        | cons d ds =>
          obtain ⟨bs', hp0, -⟩ := Recs.cons_inv hrecs
          have hd := hdents d (by simp)
          have hag := ReadPost.against hpost [] (by rw [hfmt]; simpa using hp0)
          simp only [Against] at hag
          rcases hag with ⟨f', m', -, hr, -⟩ | ⟨-, hni, -⟩ | hab
          · rw [hr] at hd; cases hd
          · exact absurd (by simp [hd]) hni
          · exact Or.inr ⟨_, rfl, Or.inr ⟨_, _, _, hab⟩⟩
      | ok v =>
        obtain ⟨r, fi1⟩ := v
        have hf1 : fi1.fmt = .list := by
          simp only [ReadPost] at hpost
          exact hpost.2.2.1.trans hfmt
        simp only at h
        split at h
        · next hdone =>
          simp only [pure_run, Prod.mk.injEq] at h
          obtain ⟨rfl, rfl⟩ := h
          have : evs = e1 := evs_unique (he1 ▸ hev)
          subst this
          exfalso
          cases dents with
          | nil =>
            have := Recs.nil_inv hrecs
            subst this
            have hag := ReadPost.against hpost [] (by rw [hfmt]; simpa using hfail)
            simp only [Against] at hag
            obtain ⟨rfl, -, -⟩ := hag
            cases hdone
          | cons d ds =>
            obtain ⟨bs', hp0, -⟩ := Recs.cons_inv hrecs
            have hd := hdents d (by simp)
            have hag := ReadPost.against hpost [] (by rw [hfmt]; simpa using hp0)
            simp only [Against] at hag
            obtain ⟨rfl, -, -⟩ := hag
            rw [hd] at hdone
            cases hdone
        · next hnd =>
          obtain ⟨e3, he3⟩ := Fr.evs (Fr_listLoop _ _ _ _) h
          have hevs : evs = e3 ++ e1 := evs_split he1 he3 hev
          subst hevs
          rw [deliveredWrteData_append, ← List.append_assoc] at hrecs
          cases dents with
          | nil =>
            exfalso
            have := Recs.nil_inv hrecs
            subst this
            have hag := ReadPost.against hpost (deliveredWrteData e3) (by rw [hfmt]; exact hfail)
            simp only [Against] at hag
            obtain ⟨rfl, -, hin⟩ := hag
            simp at hin
          | cons d ds =>
            obtain ⟨bs', hp0, hrest⟩ := Recs.cons_inv hrecs
            have hag := ReadPost.against hpost (deliveredWrteData e3) (by rw [hfmt]; exact hp0)
            simp only [Against] at hag
            obtain ⟨rfl, rfl, -⟩ := hag
            exact ih h he3 hf1 hrest (fun x hx => hdents x (by simp [hx])) hfail

/-- the status read of `_push`, every outcome, in terms of the `_filesync_read([OKAY, FAIL])` it makes -/
theorem pushStatus_any {t : Txn} {fi : FsInfo} {w w' : World} {res : Except Err Unit}
    (h : pushStatus t fi w = (res, w')) :
    ∃ x, fsRead [.OKAY, .FAIL] t fi w = (x, w') ∧
      match x with
      | .ok (r, _) => (r.id = SyncId.OKAY ∧ res = .ok ()) ∨ (r.id = SyncId.FAIL ∧ res = .error (.pushFailed (r.data.getD [])))
      | .error e => res = .error e := by
  unfold pushStatus at h
  rw [bind_run] at h
  cases hx : fsRead [.OKAY, .FAIL] t fi w with
  | mk x w1 =>
    rw [hx] at h
    cases x with
    | error e =>
      simp only [Prod.mk.injEq] at h
      obtain ⟨rfl, rfl⟩ := h
      exact ⟨_, rfl, rfl⟩
    | ok v =>
      obtain ⟨r, fi1⟩ := v
      simp only at h
      obtain ⟨e1, he1, hpost, -⟩ := fsRead_any hx
      simp only [ReadPost] at hpost
      have hid := hpost.2.1
      split at h
      · next hok =>
        simp only [pure_run, Prod.mk.injEq] at h
        obtain ⟨rfl, rfl⟩ := h
        exact ⟨_, rfl, Or.inl ⟨hok, rfl⟩⟩
      · next hnok =>
        simp only [M.throw_run, Prod.mk.injEq] at h
        obtain ⟨rfl, rfl⟩ := h
        refine ⟨_, rfl, Or.inr ⟨?_, rfl⟩⟩
        simp only [List.mem_cons, List.mem_nil_iff, or_false] at hid
        rcases hid with h | h
        · exact absurd h hnok
        · exact h

/-! ### trace classes of the device-level functions around the loops -/

section
variable {Q : TEv → Prop}

theorem Tr_getTT (tt : Timeout) : Tr Q (getTT tt) := Tr_of_silent fun _ _ => rfl
macro_rules | `(tactic| tr_lemma) => `(tactic| with_reducible exact Tr_getTT _)

theorem Tr_runGuard (g : String) (p : Option Bytes) : Tr Q (runGuard g p) := by
  apply Tr_of_silent
  intro w tr
  unfold runGuard
  dsimp only
  repeat' split
  all_goals rfl
macro_rules | `(tactic| tr_lemma) => `(tactic| with_reducible exact Tr_runGuard _ _)

theorem Tr_runGuards : ∀ gs p, Tr Q (runGuards gs p) := by
  intro gs
  induction gs with
  | nil => intro p; unfold runGuards; trq
  | cons g gs ih => intro p; unfold runGuards; trq [ih]
macro_rules | `(tactic| tr_lemma) => `(tactic| with_reducible exact Tr_runGuards _ _)

theorem Tr_openStream (hQ : House Q) (hd : Deliv Q) (ht : TxAll Q) (dest : Bytes) (tt rt total : Timeout) :
    Tr Q (openStream dest tt rt total) := by
  have hm : ∀ m : Msg, Q (.tx m) := ht
  unfold openStream
  refine Tr_bind ?_ (fun t => Tr_bind (Tr_ioSend (hm _) _) (fun _ => ?_))
  · apply Tr_withLock
    refine Tr_bind (Tr_modify (fun _ _ => rfl)) (fun _ => ?_)
    refine Tr_get_bind (fun w0 => ?_) (fun _ _ => rfl)
    trq
  · trq
macro_rules | `(tactic| tr_lemma) => `(tactic| with_reducible exact Tr_openStream (by assumption) (by assumption) (by assumption) _ _ _ _)

theorem Tr_clse (hQ : House Q) (hd : Deliv Q) (ht : TxAll Q) (t : Txn) : Tr Q (clse t) := by
  have ho := ht.okay
  have hm : ∀ m : Msg, Q (.tx m) := ht
  unfold clse
  exact Tr_bind (Tr_ioSend (hm _) _) (fun _ => Tr_bind (Tr_readUntil hQ hd ho _ _) (fun _ => Tr_pure _))
macro_rules | `(tactic| tr_lemma) => `(tactic| with_reducible exact Tr_clse (by assumption) (by assumption) (by assumption) _)

theorem Tr_devStat (hQ : House Q) (hd : Deliv Q) (ht : TxAll Q) (p : Bytes) (tt rt : Timeout) : Tr Q (devStat p tt rt) := by
  unfold devStat
  trq
macro_rules | `(tactic| tr_lemma) => `(tactic| with_reducible exact Tr_devStat (by assumption) (by assumption) (by assumption) _ _ _)

end

/-- `_filesync_send`: the receive buffer grows by exactly the device WRTE payloads delivered during a flush -/
theorem fsSend_recv {id : SyncId} {t : Txn} {fi fi' : FsInfo} {data : Bytes} {size : Option Nat} {w w' : World}
    {evs : List TEv} (h : fsSend id t fi data size w = (.ok fi', w')) (hev : w'.trace = evs ++ w.trace) :
    fi'.recvBuf = fi.recvBuf ++ deliveredWrteData evs := by
  unfold fsSend at h
  cases hc : fi.canAdd data.length with
  | true =>
    simp only [hc, Bool.not_true, Bool.false_eq_true, if_false] at h
    obtain ⟨fi1, w1, h1, h2⟩ := bind_ok_inv h
    simp only [pure_run, Prod.mk.injEq, Except.ok.injEq] at h1
    obtain ⟨rfl, rfl⟩ := h1
    split at h2
    · simp [bind_run] at h2
    · simp only [pure_run, Prod.mk.injEq, Except.ok.injEq] at h2
      obtain ⟨rfl, rfl⟩ := h2
      have : evs = [] := evs_unique (e1 := []) (t0 := w.trace) (evs := evs) (by simpa using hev)
      subst this
      simp
  | false =>
    simp only [hc, Bool.not_false, if_true] at h
    obtain ⟨fi1, w1, h1, h2⟩ := bind_ok_inv h
    split at h2
    · simp [bind_run] at h2
    · simp only [pure_run, Prod.mk.injEq, Except.ok.injEq] at h2
      obtain ⟨rfl, rfl⟩ := h2
      exact fsFlush_recv (fi' := fi1) h1 hev

end Adb.SR
