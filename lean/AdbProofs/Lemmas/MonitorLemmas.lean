import AdbModel.Monitor
import AdbProofs.Lemmas.Deliver
import AdbProofs.Lemmas.Assoc
/-
  C04 — the conversations of the model are accepted by the executable per-stream protocol monitor
  (`AdbModel/Monitor.lean`, the transcription of the harness' `_monitor`).

  `ofXfers X` turns an exchange (deliveries `rx p` and transmissions `tx m`, oldest first) into the
  monitor's packet log.  `Acc S X S'` says the monitor, started from stream table `S`, accepts `X`
  without a violation and ends in `S'`.  The compositional invariant is about one stream with ids
  `(l, r)`: `Quiet r st` (remote id known, nothing owed, no WRTE in flight, not closed by the host) is
  re-established by every stream-layer primitive that returns normally, `Live r st` (remote id known,
  not closed by the host, no OKAY sent that was not owed) holds after every exception.

  One hypothesis on the DEVICE is needed throughout, `NZ X`: no delivered packet carries the legacy
  zero local id.  The library's `allow_zeros` matching delivers (and acknowledges) `WRTE(r, 0)`; the
  monitor — keyed by arg1 — treats such a packet as foreign traffic and then reports the host's
  acknowledgement as spurious (see `monitor_rejects_zero_local` in C04Monitor.lean).
-/
namespace Adb
open Monitor (Ev St Viol Table isStreamCmd hostStep devStep)

/-! ### Conversations as monitor logs -/

def ofXfer : Xfer → Ev
  | .rx p => ⟨false, p.cmd, p.arg0, p.arg1, p.data⟩
  | .tx m => ⟨true, m.cmd, m.arg0, m.arg1, m.data⟩

/-- the packet log of an exchange: a delivery is a device packet, a transmission a host packet -/
def ofXfers (X : List Xfer) : List Ev := X.map ofXfer

@[simp] theorem ofXfers_nil : ofXfers [] = [] := rfl
@[simp] theorem ofXfers_cons (x : Xfer) (X : List Xfer) : ofXfers (x :: X) = ofXfer x :: ofXfers X := rfl
@[simp] theorem ofXfers_append (X Y : List Xfer) : ofXfers (X ++ Y) = ofXfers X ++ ofXfers Y := by simp [ofXfers]

/-- no delivered packet carries the legacy zero local id -/
def NZ (X : List Xfer) : Prop := ∀ p ∈ rxs X, p.arg1 ≠ 0

@[simp] theorem NZ_nil : NZ [] := by simp [NZ]
theorem NZ_append {X Y : List Xfer} : NZ (X ++ Y) ↔ NZ X ∧ NZ Y := by
  simp only [NZ, rxs_append, List.mem_append]
  constructor
  · intro h; exact ⟨fun p hp => h p (Or.inl hp), fun p hp => h p (Or.inr hp)⟩
  · rintro ⟨h1, h2⟩ p (hp | hp)
    · exact h1 p hp
    · exact h2 p hp
theorem NZ_cons_tx {m : Msg} {X : List Xfer} : NZ (.tx m :: X) ↔ NZ X := by simp [NZ]
theorem NZ_cons_rx {p : Pkt} {X : List Xfer} : NZ (.rx p :: X) ↔ p.arg1 ≠ 0 ∧ NZ X := by simp [NZ]
theorem NZ_of_txs {X : List Xfer} (h : rxs X = []) : NZ X := by simp [NZ, h]

/-! ### The monitor loop -/

theorem Monitor.run_append (S : Table) (a b : List Ev) :
    Monitor.run S (a ++ b) =
      ((Monitor.run (Monitor.run S a).1 b).1, (Monitor.run S a).2 ++ (Monitor.run (Monitor.run S a).1 b).2) := by
  induction a generalizing S with
  | nil => simp [Monitor.run]
  | cons e a ih => simp [Monitor.run, ih, List.append_assoc]

/-- the monitor, started from table `S`, accepts the exchange `X` (no violation) and ends in `S'` -/
def Acc (S : Table) (X : List Xfer) (S' : Table) : Prop := Monitor.run S (ofXfers X) = (S', [])

theorem Acc.nil (S : Table) : Acc S [] S := rfl

theorem Acc.append {S S1 S2 : Table} {X Y : List Xfer} (h1 : Acc S X S1) (h2 : Acc S1 Y S2) : Acc S (X ++ Y) S2 := by
  unfold Acc at *
  rw [ofXfers_append, Monitor.run_append, h1]
  simp [h2]

theorem Acc.cons {S S1 S2 : Table} {x : Xfer} {X : List Xfer} (h1 : Acc S [x] S1) (h2 : Acc S1 X S2) : Acc S (x :: X) S2 :=
  Acc.append (X := [x]) h1 h2

theorem Acc.check {X : List Xfer} {S' : Table} (h : Acc [] X S') : Monitor.check (ofXfers X) = [] := by
  unfold Monitor.check; rw [h]

/-! ### Association-list facts used for the stream table -/

theorem aset_self {β : Type} {k : Nat} {v : β} {l : List (Nat × β)} (h : alookup k l = some v) : aset k v l = l := by
  induction l with
  | nil => simp at h
  | cons p rest ih =>
    obtain ⟨k', v'⟩ := p
    by_cases hk : k' = k
    · simp only [alookup, hk, if_true, Option.some.injEq] at h
      simp [aset, hk, h]
    · simp only [alookup, hk, if_false] at h
      simp [aset, hk, ih h]

theorem aset_aset {β : Type} (k : Nat) (v v' : β) (l : List (Nat × β)) : aset k v (aset k v' l) = aset k v l := by
  induction l with
  | nil => simp [aset]
  | cons p rest ih =>
    obtain ⟨k', v''⟩ := p
    by_cases hk : k' = k <;> simp [aset, hk, ih]

/-! ### Single events on a known stream -/

theorem isStreamCmd_ne_open {c : Cmd} (h : isStreamCmd c = true) : c ≠ Cmd.OPEN := by
  cases c <;> simp_all [isStreamCmd]

/-- a device packet addressed to the known stream `l` -/
theorem step_rx {S : Table} {l : Nat} {st : St} {p : Pkt} (hst : alookup l S = some st) (h1 : p.arg1 = l) :
    Monitor.step S (ofXfer (.rx p)) = (aset l (devStep st p.cmd p.arg0) S, []) := by
  by_cases hc : isStreamCmd p.cmd = true
  · simp [Monitor.step, ofXfer, hc, h1, hst]
  · have hd : devStep st p.cmd p.arg0 = st := by
      cases hp : p.cmd <;> simp_all [isStreamCmd, devStep]
    simp [Monitor.step, ofXfer, hc, hd, aset_self hst]

/-- a host OKAY / WRTE / CLSE on the known stream `l` -/
theorem step_tx {S : Table} {l : Nat} {st : St} {m : Msg} (hst : alookup l S = some st) (hc : isStreamCmd m.cmd = true)
    (h0 : m.arg0 = l) :
    Monitor.step S (ofXfer (.tx m)) = (aset l (hostStep st m.cmd m.arg1).1 S, (hostStep st m.cmd m.arg1).2) := by
  simp [Monitor.step, ofXfer, hc, h0, hst, isStreamCmd_ne_open hc]

theorem Acc_rx {S : Table} {l : Nat} {st : St} {p : Pkt} (hst : alookup l S = some st) (h1 : p.arg1 = l) :
    Acc S [.rx p] (aset l (devStep st p.cmd p.arg0) S) := by
  simp [Acc, Monitor.run, step_rx hst h1]

theorem Acc_tx {S : Table} {l : Nat} {st st' : St} {m : Msg} (hst : alookup l S = some st) (hc : isStreamCmd m.cmd = true)
    (h0 : m.arg0 = l) (hs : hostStep st m.cmd m.arg1 = (st', [])) :
    Acc S [.tx m] (aset l st' S) := by
  simp [Acc, Monitor.run, step_tx hst hc h0, hs]

/-! ### The per-stream invariant -/

/-- stream `(·, r)` is established and the host has not closed it; no acknowledgement is outstanding
    in the wrong direction (the host never acknowledged more than it received) -/
structure Live (r : Nat) (st : St) : Prop where
  remote : st.remote = some r
  open_ : st.hostClosed = false
  owed : 0 ≤ st.owed

/-- open and quiet: established, nothing owed, no host WRTE in flight, not closed by the host -/
structure Quiet1 (r : Nat) (st : St) : Prop where
  remote : st.remote = some r
  open_ : st.hostClosed = false
  owed : st.owed = 0
  idle : st.hostWrteInflight = false

theorem Quiet1.live {r : Nat} {st : St} (h : Quiet1 r st) : Live r st := ⟨h.remote, h.open_, by rw [h.owed]; exact Int.le_refl 0⟩

/-- the host has sent its CLSE -/
def HostClosed (st : St) : Prop := st.hostClosed = true

/-- closed by both sides: the monitor marks the stream `done` (its local id may be reused) -/
structure Done (st : St) : Prop where
  host : st.hostClosed = true
  dev : st.devClosed = true
  done : st.done = true

/-- a delivered WRTE followed by its acknowledgement leaves the stream state as it was -/
theorem hostStep_okay_after_wrte {r : Nat} {st : St} (h : Live r st) (a0 : Nat) :
    hostStep (devStep st .WRTE a0) .OKAY r = (st, []) := by
  obtain ⟨remote, owed, infl, hc, dc, dn⟩ := st
  obtain ⟨h1, h2, h3⟩ := h
  simp only at h1 h2 h3
  subst h1 h2
  have : ¬ (owed + 1 ≤ 0) := by omega
  simp [hostStep, devStep, this]

theorem hostStep_wrte {r : Nat} {st : St} (h : Quiet1 r st) :
    hostStep st .WRTE r = ({ st with hostWrteInflight := true }, []) := by
  simp [hostStep, h.remote, h.open_, h.idle]

theorem hostStep_clse {r : Nat} {st : St} (h : Live r st) :
    hostStep st .CLSE r = ({ st with hostClosed := true, done := st.done || st.devClosed }, []) := by
  simp [hostStep, h.remote, h.open_]

theorem devStep_live {r : Nat} {st : St} (h : Live r st) (c : Cmd) (a0 : Nat) : Live r (devStep st c a0) := by
  obtain ⟨h1, h2, h3⟩ := h
  cases c <;> simp [devStep] <;> constructor <;> simp_all <;> omega

theorem devStep_quiet {r : Nat} {st : St} (h : Quiet1 r st) {c : Cmd} (hc : c ≠ .WRTE) (a0 : Nat) : Quiet1 r (devStep st c a0) := by
  obtain ⟨h1, h2, h3, h4⟩ := h
  cases c <;> simp [devStep] <;> first | (exact absurd rfl hc) | (constructor <;> simp_all)

/-- the stream ids of a transaction -/
structure Ids (t : Txn) (l r : Nat) : Prop where
  loc : t.localId = some l
  rem : t.remoteId = some r

theorem Ids.okayMsg {t : Txn} {l r : Nat} (h : Ids t l r) : okayMsg t = ⟨.OKAY, l, r, []⟩ := by simp [Adb.okayMsg, h.loc, h.rem]
theorem Ids.clseMsg {t : Txn} {l r : Nat} (h : Ids t l r) : clseMsg t = ⟨.CLSE, l, r, []⟩ := by simp [Adb.clseMsg, h.loc, h.rem]
theorem Ids.wrteMsg {t : Txn} {l r : Nat} (h : Ids t l r) (d : Bytes) : wrteMsg t d = ⟨.WRTE, l, r, d⟩ := by simp [Adb.wrteMsg, h.loc, h.rem]

/-- an accepted packet without the legacy zero local id is addressed to the stream -/
theorem Ids.arg1 {t : Txn} {l r : Nat} (h : Ids t l r) {p : Pkt} (ha : t.accepts true p = true) (hz : p.arg1 ≠ 0) : p.arg1 = l := by
  rcases (Txn.accepts_true_ids h.loc h.rem ha).1 with h1 | h1
  · exact h1
  · exact absurd h1 hz

/-! ### Exchange shapes of the stream-layer primitives -/

/-- a delivered WRTE and its one OKAY: accepted, the table is unchanged -/
theorem Acc_wrte_okay {S : Table} {t : Txn} {l r : Nat} {st : St} {p : Pkt} (hi : Ids t l r) (hst : alookup l S = some st)
    (hl : Live r st) (hc : p.cmd = .WRTE) (h1 : p.arg1 = l) : Acc S [.rx p, .tx (okayMsg t)] S := by
  have hA := Acc_rx (p := p) hst h1
  rw [hc] at hA
  have hB : Acc (aset l (devStep st .WRTE p.arg0) S) [.tx (okayMsg t)] (aset l st (aset l (devStep st .WRTE p.arg0) S)) := by
    refine Acc_tx (alookup_aset_self _ _ _) (by simp [hi.okayMsg, isStreamCmd]) (by simp [hi.okayMsg]) ?_
    simpa [hi.okayMsg] using hostStep_okay_after_wrte hl p.arg0
  have := Acc.cons hA hB
  rwa [aset_aset, aset_self hst] at this

/-- delivered WRTEs, each followed by its OKAY -/
theorem Acc_served_wrtes {S : Table} {t : Txn} {l r : Nat} {st : St} (hi : Ids t l r) (hst : alookup l S = some st)
    (hl : Live r st) : ∀ {L : List Pkt}, (∀ p ∈ L, p.cmd = .WRTE) → (∀ p ∈ L, p.arg1 = l) → Acc S (L.flatMap (served t)) S := by
  intro L
  induction L with
  | nil => intro _ _; exact Acc.nil S
  | cons p L ih =>
    intro hw h1
    have hp := hw p (by simp)
    have := Acc_wrte_okay hi hst hl hp (h1 p (by simp))
    simp only [List.flatMap_cons, served, replyOf, hp, if_true]
    exact Acc.append (X := [.rx p, .tx (okayMsg t)]) this (ih (fun q hq => hw q (by simp [hq])) (fun q hq => h1 q (by simp [hq])))

/-- what `_read_until` adds when it delivered `p`: the delivery and, for a WRTE, its OKAY -/
theorem Acc_rx_ack {S : Table} {t : Txn} {l r : Nat} {st : St} {p : Pkt} (hi : Ids t l r) (hst : alookup l S = some st)
    (hl : Live r st) (h1 : p.arg1 = l) :
    ∃ st', Acc S (.rx p :: ackOf t p) (aset l st' S) ∧ Live r st' ∧ (Quiet1 r st → Quiet1 r st') := by
  by_cases hc : p.cmd = .WRTE
  · refine ⟨st, ?_, hl, id⟩
    simpa [ackOf, hc, aset_self hst] using Acc_wrte_okay hi hst hl hc h1
  · refine ⟨devStep st p.cmd p.arg0, ?_, devStep_live hl _ _, fun hq => devStep_quiet hq hc _⟩
    simpa [ackOf, hc] using Acc_rx (p := p) hst h1

/-- `_okay` sends exactly one OKAY with the stream's ids; the monitor accepts it exactly when an
    acknowledgement is owed (`0 < owed`) and otherwise reports it as spurious -/
theorem okay_mon {t : Txn} {l r : Nat} (hi : Ids t l r) {w w' : World} {res : Except Err Unit}
    (h : okay t w = (res, w')) (hl : lockTransport ∉ w.locks) :
    Adds w w' [.tx (okayMsg t)] [] ∧ ∀ (S : Table) (st : St), alookup l S = some st → Live r st →
      Monitor.run S (ofXfers [.tx (okayMsg t)]) =
        (aset l { st with owed := st.owed - 1 } S, if st.owed ≤ 0 then [Viol.spuriousOkay] else []) := by
  refine ⟨okay_dlv h hl, fun S st hst hlv => ?_⟩
  have hs := step_tx (m := okayMsg t) hst (by simp [hi.okayMsg, isStreamCmd]) (by simp [hi.okayMsg])
  simp only [ofXfers_cons, ofXfers_nil, Monitor.run, hs, List.append_nil]
  simp [hi.okayMsg, hostStep, hlv.remote, hlv.open_]

/-! ### The compositional judgement for stream operations -/

/-- the invariant a stream operation re-establishes: open-and-quiet after a normal return, at least
    `Live` after an exception -/
def QL (r : Nat) {α : Type} (res : Except Err α) (st : St) : Prop :=
  match res with
  | .ok _ => Quiet1 r st
  | .error _ => Live r st

theorem QL.of_quiet {r : Nat} {α : Type} {res : Except Err α} {st : St} (h : Quiet1 r st) : QL r res st := by
  cases res with
  | ok a => exact h
  | error e => exact h.live

theorem QL.live {r : Nat} {α : Type} {res : Except Err α} {st : St} (h : QL r res st) : Live r st := by
  cases res with
  | ok a => exact Quiet1.live h
  | error e => exact h

/-- `x` is a well-behaved operation on the stream with ids `(l, r)`: whatever its outcome, the
    exchange it adds is accepted by the monitor from every table in which stream `l` is open and
    quiet, only the entry of stream `l` changes, and the stream is open and quiet again after a normal
    return (`Live` after an exception). -/
def SQ {α : Type} (l r : Nat) (x : M α) : Prop :=
  ∀ (w w' : World) (res : Except Err α), x w = (res, w') → lockTransport ∉ w.locks →
    ∃ X Y, Adds w w' X Y ∧ (NZ X → ∀ (S : Table) (st : St), alookup l S = some st → Quiet1 r st →
      ∃ st', Acc S X (aset l st' S) ∧ QL r res st')

/-- computations that neither deliver nor transmit -/
theorem SQ_of_Qt {α : Type} {l r : Nat} {x : M α} (h : Qt x) : SQ l r x := by
  intro w w' res hx _
  refine ⟨[], [], h.adds hx, ?_⟩
  intro _ S st hst hq
  exact ⟨st, by rw [aset_self hst]; exact Acc.nil S, QL.of_quiet hq⟩

theorem SQ_bind {α β : Type} {l r : Nat} {x : M α} {f : α → M β} (hx : SQ l r x) (hfr : Fr x) (hf : ∀ a, SQ l r (f a)) :
    SQ l r (x >>= f) := by
  intro w w' res h hl
  rcases bind_any_inv h with ⟨e, he, rfl⟩ | ⟨a, w1, ha, hrest⟩
  · obtain ⟨X, Y, hA, hacc⟩ := hx w w' _ he hl
    refine ⟨X, Y, hA, ?_⟩
    intro hnz S st hst hq
    obtain ⟨st', h1, h2⟩ := hacc hnz S st hst hq
    exact ⟨st', h1, h2⟩
  · obtain ⟨X1, Y1, hA1, hacc1⟩ := hx w w1 _ ha hl
    have hl1 : lockTransport ∉ w1.locks := by rw [Fr.locks_of hfr ha]; exact hl
    obtain ⟨X2, Y2, hA2, hacc2⟩ := hf a w1 w' res hrest hl1
    refine ⟨X1 ++ X2, Y1 ++ Y2, hA1.trans hA2, ?_⟩
    intro hnz S st hst hq
    obtain ⟨hn1, hn2⟩ := NZ_append.1 hnz
    obtain ⟨st1, h1, hq1⟩ := hacc1 hn1 S st hst hq
    obtain ⟨st2, h2, hq2⟩ := hacc2 hn2 (aset l st1 S) st1 (alookup_aset_self _ _ _) hq1
    rw [aset_aset] at h2
    exact ⟨st2, h1.append h2, hq2⟩

theorem SQ_ite {α : Type} {l r : Nat} {c : Prop} [Decidable c] {a b : M α} (ha : SQ l r a) (hb : SQ l r b) :
    SQ l r (if c then a else b) := by
  split <;> assumption

theorem SQ_pure {α : Type} {l r : Nat} (a : α) : SQ l r (pure a : M α) := SQ_of_Qt (Qt_pure a)
theorem SQ_throw {α : Type} {l r : Nat} (e : Err) : SQ l r (M.throw e : M α) := SQ_of_Qt (Qt_throw e)

/-- `_read_until` on an open-and-quiet stream: the delivered WRTE is acknowledged once, nothing else is sent -/
theorem SQ_readUntil {t : Txn} {l r : Nat} (hi : Ids t l r) (ex : List Cmd) : SQ l r (readUntil ex t) := by
  intro w w' res h hl
  rcases readUntil_any h hl with hA | ⟨p, _, hacc, hA⟩
  · refine ⟨[], [], hA, ?_⟩
    intro _ S st hst hq
    exact ⟨st, by rw [aset_self hst]; exact Acc.nil S, QL.of_quiet hq⟩
  · refine ⟨_, [], hA, ?_⟩
    intro hnz S st hst hq
    have hz : p.arg1 ≠ 0 := (NZ_cons_rx.1 hnz).1
    obtain ⟨st', h1, _, h3⟩ := Acc_rx_ack hi hst hq.live (hi.arg1 hacc hz)
    exact ⟨st', h1, QL.of_quiet (h3 hq)⟩

/-- `_filesync_flush` on an open-and-quiet stream: one WRTE; device WRTEs delivered meanwhile are each
    acknowledged once; it returns after the device's OKAY, so no WRTE is in flight any more -/
theorem SQ_fsFlush {t : Txn} {l r : Nat} (hi : Ids t l r) (fi : FsInfo) : SQ l r (fsFlush t fi) := by
  intro w w' res h hl
  obtain ⟨wrtes, rest, hw, hacc, hA, hres⟩ := fsFlush_dlv h hl
  refine ⟨_, [], hA, ?_⟩
  intro hnz S st hst hq
  have harg : ∀ p ∈ wrtes ++ rest, p.arg1 = l := by
    intro p hp
    refine hi.arg1 (hacc p hp) (hnz p ?_)
    simp only [List.singleton_append, rxs_cons_tx, rxs_served]
    exact hp
  -- the WRTE
  let st1 : St := { st with hostWrteInflight := true }
  have hl1 : Live r st1 := ⟨hq.remote, hq.open_, by show 0 ≤ st.owed; rw [hq.owed]; exact Int.le_refl 0⟩
  have h1 : Acc S [.tx (wrteMsg t fi.sendBuf)] (aset l st1 S) :=
    Acc_tx hst (by simp [hi.wrteMsg, isStreamCmd]) (by simp [hi.wrteMsg]) (by simpa [hi.wrteMsg] using hostStep_wrte hq)
  have hst1 : alookup l (aset l st1 S) = some st1 := alookup_aset_self _ _ _
  -- device WRTEs, each acknowledged
  have h2 : Acc (aset l st1 S) (wrtes.flatMap (served t)) (aset l st1 S) :=
    Acc_served_wrtes hi hst1 hl1 hw (fun p hp => harg p (by simp [hp]))
  rw [List.flatMap_append] at *
  cases res with
  | ok fi' =>
    obtain ⟨⟨o, rfl, hoc⟩, _, _⟩ := hres
    have ho1 : o.arg1 = l := harg o (by simp)
    have h3 := Acc_rx (p := o) hst1 ho1
    rw [aset_aset, hoc] at h3
    refine ⟨devStep st1 .OKAY o.arg0, ?_, ?_⟩
    · have : served t o = [.rx o] := by simp [served, replyOf, hoc]
      simpa [this] using h1.append (h2.append h3)
    · show Quiet1 r _
      constructor <;> simp [devStep, st1, hq.remote, hq.open_, hq.owed]
  | error e =>
    rcases hres with rfl | ⟨p, rfl, hpc⟩
    · exact ⟨st1, by simpa using h1.append h2, hl1⟩
    · have h3 : Acc (aset l st1 S) ([p].flatMap (served t)) (aset l st1 S) :=
        Acc_served_wrtes hi hst1 hl1 (by simpa using hpc) (fun q hq' => harg q (by simp at hq'; simp [hq']))
      exact ⟨st1, by simpa using h1.append (h2.append h3), hl1⟩

/-! ### FileSync operations, compositionally -/

theorem Qt_swallow {x : M Unit} (hx : Qt x) : Qt (M.swallow x) := by
  intro w
  unfold M.swallow
  exact hx w

theorem Qt_callProgress (cb : CbMode) (path : Bytes) (n total : Nat) : Qt (callProgress cb path n total) := by
  unfold callProgress
  split
  · qt
  · exact Qt_swallow (by qt)
macro_rules | `(tactic| qt_lemma) => `(tactic| with_reducible exact Qt_callProgress _ _ _ _)

theorem Qt_lookupFile (id : Nat) : Qt (lookupFile id) :=
  Qt_of_trace_eq fun w => by unfold lookupFile; split <;> rfl
macro_rules | `(tactic| qt_lemma) => `(tactic| with_reducible exact Qt_lookupFile _)

/-- extensible: one alternative per proved `SQ` lemma -/
syntax "sq_lemma" : tactic
macro_rules | `(tactic| sq_lemma) => `(tactic| exact SQ_of_Qt (by qt_lemma))
macro_rules | `(tactic| sq_lemma) => `(tactic| with_reducible exact SQ_readUntil (by assumption) _)
macro_rules | `(tactic| sq_lemma) => `(tactic| with_reducible exact SQ_fsFlush (by assumption) _)

/-- structural decomposition of a `do` block; `sq [ih]` also tries the induction hypothesis `ih` -/
syntax "sq" ("[" term "]")? : tactic
macro_rules
  | `(tactic| sq) => `(tactic| sq [SQ_pure])
  | `(tactic| sq [$h]) => `(tactic| first
    | sq_lemma
    | with_reducible assumption
    | with_reducible exact $h _
    | with_reducible exact $h _ _
    | with_reducible exact $h _ _ _
    | (refine SQ_bind ?_ (by fr) ?_) <;> (first | (intro _; sq [$h]) | sq [$h])
    | (with_reducible apply SQ_ite) <;> sq [$h]
    | (split <;> sq [$h])
    | (dsimp only; sq [$h])
    | (intro _; sq [$h])
    | exact SQ_of_Qt (by qt))

section
variable {t : Txn} {l r : Nat}

theorem SQ_fsSend (hi : Ids t l r) (id : SyncId) (fi : FsInfo) (data : Bytes) (size : Option Nat) :
    SQ l r (fsSend id t fi data size) := by
  unfold fsSend
  sq
macro_rules | `(tactic| sq_lemma) => `(tactic| with_reducible exact SQ_fsSend (by assumption) _ _ _ _)

theorem SQ_fsReadBufferedLoop (hi : Ids t l r) (size : Nat) : ∀ fuel fi, SQ l r (fsReadBufferedLoop size t fuel fi) := by
  intro fuel
  induction fuel with
  | zero => intro fi; unfold fsReadBufferedLoop; sq
  | succ f ih => intro fi; unfold fsReadBufferedLoop; sq [ih]
macro_rules | `(tactic| sq_lemma) => `(tactic| with_reducible exact SQ_fsReadBufferedLoop (by assumption) _ _ _)

theorem SQ_fsReadBuffered (hi : Ids t l r) (size : Nat) (fi : FsInfo) : SQ l r (fsReadBuffered size t fi) := by
  unfold fsReadBuffered
  sq
macro_rules | `(tactic| sq_lemma) => `(tactic| with_reducible exact SQ_fsReadBuffered (by assumption) _ _)

theorem SQ_fsRead (hi : Ids t l r) (ex : List SyncId) (fi : FsInfo) : SQ l r (fsRead ex t fi) := by
  unfold fsRead
  sq
macro_rules | `(tactic| sq_lemma) => `(tactic| with_reducible exact SQ_fsRead (by assumption) _ _)

theorem SQ_listLoop (hi : Ids t l r) : ∀ fuel fi acc, SQ l r (listLoop t fuel fi acc) := by
  intro fuel
  induction fuel with
  | zero => intro fi acc; unfold listLoop; sq
  | succ f ih => intro fi acc; unfold listLoop; sq [ih]

theorem SQ_pullLoop (hi : Ids t l r) (devPath : Bytes) (cb : CbMode) (total : Nat) :
    ∀ fuel fi, SQ l r (pullLoop devPath cb total t fuel fi) := by
  intro fuel
  induction fuel with
  | zero => intro fi; unfold pullLoop; sq
  | succ f ih => intro fi; unfold pullLoop; sq [ih]

theorem SQ_pushDataLoop (hi : Ids t l r) (devPath : Bytes) (cb : CbMode) (total chunk : Nat) :
    ∀ fuel content fi, SQ l r (pushDataLoop devPath cb total chunk t fuel content fi) := by
  intro fuel
  induction fuel with
  | zero => intro content fi; unfold pushDataLoop; sq
  | succ f ih => intro content fi; unfold pushDataLoop; sq [ih]
macro_rules | `(tactic| sq_lemma) => `(tactic| with_reducible exact SQ_pushDataLoop (by assumption) _ _ _ _ _ _ _)

theorem SQ_pushStatus (hi : Ids t l r) (fi : FsInfo) : SQ l r (pushStatus t fi) := by
  unfold pushStatus
  sq
macro_rules | `(tactic| sq_lemma) => `(tactic| with_reducible exact SQ_pushStatus (by assumption) _)

/-- `_push` (one file) on an open-and-quiet stream -/
theorem SQ_pushOne (hi : Ids t l r) (content devPath : Bytes) (mode mtime : Nat) (cb : CbMode) (fi : FsInfo) :
    SQ l r (pushOne content devPath mode mtime cb t fi) := by
  unfold pushOne
  sq

end

/-! ### Opening and closing a stream -/

/-- the local id `l` may be used by a new OPEN: the monitor does not know it, or knows it as `done` -/
def Fresh (S : Table) (l : Nat) : Prop := ∀ st, alookup l S = some st → st.done = true

/-- the tables differ at most in the entry of stream `l` -/
def Only (l : Nat) (S S' : Table) : Prop := ∀ k, k ≠ l → alookup k S' = alookup k S

theorem Only.refl (l : Nat) (S : Table) : Only l S S := fun _ _ => rfl
theorem Only.aset (l : Nat) (st : St) (S : Table) : Only l S (aset l st S) := fun _ hk => alookup_aset_ne (Ne.symm hk) st S
theorem Only.trans {l : Nat} {S S1 S2 : Table} (h1 : Only l S S1) (h2 : Only l S1 S2) : Only l S S2 :=
  fun k hk => (h2 k hk).trans (h1 k hk)

theorem nextId_ne_zero (c : Nat) : nextId c ≠ 0 := by unfold nextId; split <;> omega
theorem nextId_ne_self (c : Nat) : nextId c ≠ c := by unfold nextId; split <;> omega
theorem nextId_lt (c : Nat) (h : c < 4294967296) : nextId c < 4294967296 := by unfold nextId; split <;> omega

/-- the OPEN of `_open`: fresh non-zero 32-bit local id, arg1 = 0, NUL-terminated destination -/
theorem Acc_open {S : Table} {w : World} (dest : Bytes) (hid : w.localId < 4294967296) (hf : Fresh S (nextId w.localId)) :
    Acc S [.tx (openMsg w dest)] (aset (nextId w.localId) St.fresh S) := by
  have h1 : Monitor.openMalformed (nextId w.localId) 0 (dest ++ [0]) = false := by
    have := nextId_ne_zero w.localId
    have := nextId_lt _ hid
    simp [Monitor.openMalformed, Monitor.endsWithNul]
    omega
  cases hs : alookup (nextId w.localId) S with
  | none => simp [Acc, Monitor.run, Monitor.step, ofXfer, openMsg, h1, hs]
  | some st => simp [Acc, Monitor.run, Monitor.step, ofXfer, openMsg, h1, hs, hf st hs]

/-- `_open`, every outcome -/
theorem openStream_mon {dest : Bytes} {tt rt total : Timeout} {w w' : World} {res : Except Err Txn}
    (h : openStream dest tt rt total w = (res, w')) (hl : w.locks = []) :
    ∃ X, Adds w w' X [] ∧ NZ X ∧
      match res with
      | .ok t => ∃ r, Ids t (nextId w.localId) r ∧ ∀ S, w.localId < 4294967296 → Fresh S (nextId w.localId) →
          ∃ st, Acc S X (aset (nextId w.localId) st S) ∧ Quiet1 r st
      | .error _ => ∀ S, w.localId < 4294967296 → Fresh S (nextId w.localId) →
          ∃ S', Acc S X S' ∧ Only (nextId w.localId) S S' := by
  have hp := openStream_dlv h hl
  cases res with
  | ok t =>
    obtain ⟨p, hA, hc, h1, hr, hlid, _⟩ := hp
    refine ⟨_, hA, ?_, p.arg0, ⟨hlid, hr⟩, ?_⟩
    · rw [NZ_cons_tx, NZ_cons_rx]; exact ⟨by rw [h1]; exact nextId_ne_zero _, NZ_nil⟩
    · intro S hid hf
      have hA1 := Acc_open dest hid hf
      have hA2 := Acc_rx (p := p) (alookup_aset_self (nextId w.localId) St.fresh S) h1
      rw [aset_aset, hc] at hA2
      refine ⟨_, Acc.cons hA1 hA2, ?_⟩
      constructor <;> simp [devStep, St.fresh]
  | error e =>
    rcases hp with hA | hA
    · exact ⟨_, hA, NZ_nil, fun S _ _ => ⟨S, Acc.nil S, Only.refl _ S⟩⟩
    · exact ⟨_, hA, NZ_cons_tx.2 NZ_nil, fun S hid hf => ⟨_, Acc_open dest hid hf, Only.aset _ _ S⟩⟩

/-- `_clse` on a stream the host has not closed: exactly one CLSE; after a normal return the stream is
    closed by both sides -/
theorem clse_mon {t : Txn} {l r : Nat} (hi : Ids t l r) {w w' : World} {res : Except Err Unit}
    (h : clse t w = (res, w')) (hl : lockTransport ∉ w.locks) :
    ∃ X, Adds w w' X [] ∧ (NZ X → ∀ (S : Table) (st : St), alookup l S = some st → Live r st →
      ∃ st', Acc S X (aset l st' S) ∧ st'.hostClosed = true ∧ (∀ u, res = .ok u → Done st')) := by
  have hp := clse_dlv h hl
  have htx : ∀ (S : Table) (st : St), alookup l S = some st → Live r st →
      Acc S [.tx (clseMsg t)] (aset l { st with hostClosed := true, done := st.done || st.devClosed } S) := by
    intro S st hst hlv
    exact Acc_tx hst (by simp [hi.clseMsg, isStreamCmd]) (by simp [hi.clseMsg]) (by simpa [hi.clseMsg] using hostStep_clse hlv)
  cases res with
  | ok u =>
    obtain ⟨c, hA, hcc, hacc⟩ := hp
    refine ⟨_, hA, ?_⟩
    intro hnz S st hst hlv
    have hc1 : c.arg1 = l := hi.arg1 hacc (NZ_cons_rx.1 (NZ_cons_tx.1 hnz)).1
    have h2 := Acc_rx (p := c) (alookup_aset_self l { st with hostClosed := true, done := st.done || st.devClosed } S) hc1
    rw [aset_aset, hcc] at h2
    refine ⟨_, Acc.cons (htx S st hst hlv) h2, by simp [devStep], fun _ _ => ?_⟩
    constructor <;> simp [devStep]
  | error e =>
    refine ⟨_, hp, ?_⟩
    intro _ S st hst hlv
    exact ⟨_, htx S st hst hlv, rfl, by simp⟩

/-- `_read_until_close` on an established stream: every delivered WRTE acknowledged once, the device's
    CLSE answered with exactly one CLSE, after which the stream is closed by both sides -/
theorem readUntilClose_mon {t : Txn} {l r : Nat} (hi : Ids t l r) {w w' : World} {res : Except Err (List Bytes)}
    (h : readUntilClose t w = (res, w')) (hl : lockTransport ∉ w.locks) :
    ∃ X Y, Adds w w' X Y ∧ (NZ X → ∀ (S : Table) (st : St), alookup l S = some st → Live r st →
      ∃ st', Acc S X (aset l st' S) ∧ (Live r st' ∨ Done st') ∧ (∀ items, res = .ok items → Done st')) := by
  obtain ⟨wrtes, rest, hw, hacc, hA, hres⟩ := readUntilClose_dlv h hl
  refine ⟨_, _, hA, ?_⟩
  intro hnz S st hst hlv
  have harg : ∀ p ∈ wrtes ++ rest, p.arg1 = l := by
    intro p hp
    refine hi.arg1 (hacc p hp) (hnz p ?_)
    rw [rxs_served]; exact hp
  have h1 : Acc S (wrtes.flatMap (served t)) S := Acc_served_wrtes hi hst hlv hw (fun p hp => harg p (by simp [hp]))
  rw [List.flatMap_append]
  -- the device's CLSE answered by the host's CLSE
  have hclose : ∀ c : Pkt, c.cmd = .CLSE → c.arg1 = l →
      ∃ st', Acc S (served t c) (aset l st' S) ∧ Done st' := by
    intro c hcc hc1
    have ha := Acc_rx (p := c) hst hc1
    rw [hcc] at ha
    have hlv1 : Live r (devStep st .CLSE c.arg0) := devStep_live hlv _ _
    have hb := Acc_tx (m := clseMsg t) (alookup_aset_self l (devStep st .CLSE c.arg0) S) (by simp [hi.clseMsg, isStreamCmd])
      (by simp [hi.clseMsg]) (by simpa [hi.clseMsg] using hostStep_clse hlv1)
    rw [aset_aset] at hb
    have hs : served t c = [.rx c, .tx (clseMsg t)] := by simp [served, replyOf, hcc]
    rw [hs]
    exact ⟨_, Acc.cons ha hb, by constructor <;> simp [devStep]⟩
  have hwrte : ∀ p : Pkt, p.cmd = .WRTE → p.arg1 = l → Acc S (served t p) S := by
    intro p hpc hp1
    have : served t p = [.rx p, .tx (okayMsg t)] := by simp [served, replyOf, hpc]
    rw [this]; exact Acc_wrte_okay hi hst hlv hpc hp1
  cases res with
  | ok items =>
    obtain ⟨_, c, rfl, hcc⟩ := hres
    obtain ⟨st', h2, hd⟩ := hclose c hcc (harg c (by simp))
    exact ⟨st', by simpa using h1.append h2, Or.inr hd, fun _ _ => hd⟩
  | error e =>
    rcases hres with rfl | ⟨p, rfl, hpc | hpc⟩
    · exact ⟨st, by simpa [aset_self hst] using h1, Or.inl hlv, by simp⟩
    · have h2 := hwrte p hpc (harg p (by simp))
      exact ⟨st, by simpa [aset_self hst] using h1.append h2, Or.inl hlv, by simp⟩
    · obtain ⟨st', h2, hd⟩ := hclose p hpc (harg p (by simp))
      exact ⟨st', by simpa using h1.append h2, Or.inr hd, by simp⟩

end Adb
