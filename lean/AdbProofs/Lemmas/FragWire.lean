import AdbProofs.Lemmas.FragRel
import AdbProofs.Lemmas.WireLemmas
/-
  Base case of the fragmentation-independence proof: `_read_bytes_from_device`.
  `refRead tt rem acc` is a reference semantics of "read `rem` more bytes" that never looks at the
  fragmentation script (it takes the readable bytes one at a time).  Every run of the real loop
  `readBytesLoop` either ends in `hang` or returns what `refRead` returns and ends in a `FragAgree` world
  (`readBytesLoop_ref`), and `refRead` maps `FragAgree` worlds to equal results and `FragAgree` worlds
  (`refRead_agree`).  Hence `Ins (readBytes n t)` for every transaction with a numeric non-negative read timeout.
-/
namespace Adb.Frag
open Adb

/-! ### segments -/

theorem readablePrefix_eq_take (out : Nat) (k : Nat) (segs : List Seg) :
    readablePrefix out k segs = (readableOf out segs).take k := by
  induction segs generalizing k with
  | nil => cases k <;> simp [readablePrefix, readableOf]
  | cons s rest ih =>
    cases k with
    | zero => simp [readablePrefix]
    | succ n =>
      simp only [readablePrefix, readableOf]
      split
      · split
        · next hge => rw [List.take_append_of_le_length (by omega)]
        · next hlt =>
          rw [ih, List.take_append]
          have : s.bytes.take (n + 1) = s.bytes := List.take_of_length_le (by omega)
          rw [this]
      · simp

theorem anyReadable_eq (out : Nat) (segs : List Seg) :
    anyReadable out segs = !(readableOf out segs).isEmpty := by
  induction segs with
  | nil => rfl
  | cons s rest ih =>
    simp only [anyReadable, readableOf]
    split
    · split
      · next he =>
        have : s.bytes = [] := by simpa using he
        rw [ih, this]; rfl
      · next he =>
        cases hb : s.bytes with
        | nil => simp [hb] at he
        | cons b bs => simp
    · rfl

theorem dropSegs_zero (segs : List Seg) : dropSegs 0 segs = segs := by
  cases segs <;> rfl

theorem dropSegs_one_add (k : Nat) (segs : List Seg) : dropSegs k (dropSegs 1 segs) = dropSegs (k + 1) segs := by
  induction segs with
  | nil => cases k <;> rfl
  | cons s rest ih =>
    by_cases h0 : s.bytes.length = 0
    · have e1 : dropSegs 1 (s :: rest) = dropSegs 1 rest := by
        simp only [dropSegs]
        rw [if_pos (by omega), h0]
      have e2 : dropSegs (k + 1) (s :: rest) = dropSegs (k + 1) rest := by
        simp only [dropSegs]
        rw [if_pos (by omega), h0]; rfl
      rw [e1, e2, ih]
    · by_cases h1 : s.bytes.length = 1
      · have e1 : dropSegs 1 (s :: rest) = rest := by
          simp only [dropSegs]
          rw [if_pos (by omega), h1]
          exact dropSegs_zero rest
        have e2 : dropSegs (k + 1) (s :: rest) = dropSegs k rest := by
          simp only [dropSegs]
          rw [if_pos (by omega), h1]; rfl
        rw [e1, e2]
      · have e1 : dropSegs 1 (s :: rest) = { s with bytes := s.bytes.drop 1 } :: rest := by
          simp only [dropSegs]
          rw [if_neg (by omega)]
        rw [e1]
        cases k with
        | zero => rw [dropSegs_zero, e1]
        | succ k' =>
          simp only [dropSegs, List.length_drop, List.drop_drop]
          by_cases hle : s.bytes.length ≤ k' + 1 + 1
          · rw [if_pos (by omega), if_pos hle]
            congr 1; omega
          · rw [if_neg (by omega), if_neg hle]
            have : 1 + (k' + 1) = k' + 1 + 1 := by omega
            rw [this]

theorem readableOf_dropOne (out : Nat) (segs : List Seg) (b : UInt8) (bs : Bytes)
    (h : readableOf out segs = b :: bs) : readableOf out (dropSegs 1 segs) = bs := by
  induction segs with
  | nil => simp [readableOf] at h
  | cons s rest ih =>
    simp only [readableOf] at h
    split at h
    · next hg =>
      cases hb : s.bytes with
      | nil =>
        rw [hb] at h
        have e1 : dropSegs 1 (s :: rest) = dropSegs 1 rest := by
          simp only [dropSegs]; rw [if_pos (by simp [hb]), hb]; rfl
        rw [e1]; exact ih (by simpa using h)
      | cons b' bs' =>
        rw [hb] at h
        simp only [List.cons_append, List.cons.injEq] at h
        obtain ⟨rfl, rfl⟩ := h
        cases bs' with
        | nil =>
          have e1 : dropSegs 1 (s :: rest) = rest := by
            simp only [dropSegs]; rw [if_pos (by simp [hb]), hb]; exact dropSegs_zero rest
          rw [e1]; rfl
        | cons b'' bs'' =>
          have e1 : dropSegs 1 (s :: rest) = { s with bytes := s.bytes.drop 1 } :: rest := by
            simp only [dropSegs]; rw [if_neg (by simp [hb])]
          rw [e1]
          simp only [readableOf, hg, if_true, hb, List.drop_succ_cons, List.drop_zero, List.cons_append]
    · simp at h

/-! ### faults -/

theorem faultLimit_foldl_le (off : Nat) (l : List Fault) (acc : Option Nat) :
    (∀ a, acc = some a → ∃ d, l.foldl (fun acc f => match acc with
        | none => some (f.off - off) | some d => some (min d (f.off - off))) acc = some d ∧ d ≤ a) ∧
    (∀ f ∈ l, ∃ d, l.foldl (fun acc f => match acc with
        | none => some (f.off - off) | some d => some (min d (f.off - off))) acc = some d ∧ d ≤ f.off - off) := by
  induction l generalizing acc with
  | nil => exact ⟨fun a ha => ⟨a, by simpa using ha, Nat.le_refl _⟩, by simp⟩
  | cons g rest ih =>
    simp only [List.foldl_cons]
    constructor
    · intro a ha
      subst ha
      obtain ⟨d, hd, hle⟩ := (ih (some (min a (g.off - off)))).1 _ rfl
      exact ⟨d, hd, by omega⟩
    · intro f hf
      rcases List.mem_cons.1 hf with rfl | hf
      · cases acc with
        | none =>
          obtain ⟨d, hd, hle⟩ := (ih (some (f.off - off))).1 _ rfl
          exact ⟨d, hd, hle⟩
        | some a =>
          obtain ⟨d, hd, hle⟩ := (ih (some (min a (f.off - off)))).1 _ rfl
          exact ⟨d, hd, by omega⟩
      · exact (ih _).2 f hf

/-- no inbound fault sits strictly inside the window a read is allowed to cross -/
theorem no_fault_within (off : Nat) (fs : List Fault) (a k j : Nat)
    (hk : k ≤ minOpt a (faultLimit true off fs)) (hj0 : 0 < j) (hj : j < k) :
    nextFault true (off + j) fs = none := by
  unfold nextFault
  rw [List.find?_eq_none]
  intro f hf hcond
  simp only [Bool.and_eq_true, beq_iff_eq] at hcond
  obtain ⟨hin, hoff⟩ := hcond
  have hmem : f ∈ fs.filter (fun f => f.inbound == true && decide (f.off > off)) := by
    simp only [List.mem_filter, Bool.and_eq_true, beq_iff_eq, decide_eq_true_eq]
    exact ⟨hf, hin, by omega⟩
  obtain ⟨d, hd, hle⟩ := (faultLimit_foldl_le off _ none).2 f hmem
  have : faultLimit true off fs = some d := hd
  rw [this] at hk
  simp only [minOpt] at hk
  omega

/-! ### the reference semantics -/

/-- "read `rem` more bytes", one readable byte at a time, never looking at `frags` / `fragLeft` -/
def refRead (tt : Timeout) : Nat → Bytes → M Bytes
  | 0, acc => fun w => (.ok acc, w)
  | rem + 1, acc => fun w =>
    match w.cur with
    | none => (.error .transportError, w)
    | some c =>
      if c.isReset then (.error .transportError, w)
      else if c.isEof then (.error .hang, w)
      else
        match nextFault true c.inOff c.faults with
        | some f =>
          match f.kind with
          | .timeout => waitTimeout tt { w with cur := some { c with faults := c.faults.filter (· != f) } }
          | .reset => (.error .transportError,
              { w with cur := some { c with faults := c.faults.filter (· != f), isReset := true } })
          | .eof => (.error .hang, w)
        | none =>
          match readableOf c.outOff c.segs with
          | [] => waitTimeout tt w
          | b :: _ =>
            refRead tt rem (acc ++ [b])
              { w with cur := some { c with segs := dropSegs 1 c.segs, inOff := c.inOff + 1 } }

theorem Comm_refRead (tt : Timeout) : ∀ rem acc, Comm (refRead tt rem acc) := by
  intro rem
  induction rem with
  | zero => intro acc w; rfl
  | succ rem ih =>
    intro acc w
    cases w with
    | mk conns cur past now fuel store available maxdata localId banner defaultTT locks files dirs sink trace =>
      cases cur with
      | none => rfl
      | some c =>
        unfold refRead waitTimeout
        simp only [erase, Option.map_some, Conn.unfrag]
        repeat' split
        all_goals first
          | rfl
          | exact ih _ { conns := conns, cur := some { c with segs := dropSegs 1 c.segs, inOff := c.inOff + 1 },
                         past := past, now := now, fuel := fuel, store := store, available := available,
                         maxdata := maxdata, localId := localId, banner := banner, defaultTT := defaultTT,
                         locks := locks, files := files, dirs := dirs, sink := sink, trace := trace }

theorem refRead_agree (tt : Timeout) (rem : Nat) (acc : Bytes) {w₁ w₂ : World} (h : FragAgree w₁ w₂) :
    (refRead tt rem acc w₁).1 = (refRead tt rem acc w₂).1 ∧
    FragAgree (refRead tt rem acc w₁).2 (refRead tt rem acc w₂).2 := by
  have c1 := Comm_refRead tt rem acc w₁
  have c2 := Comm_refRead tt rem acc w₂
  rw [h.erase_eq, c2] at c1
  simp only [Prod.mk.injEq] at c1
  exact ⟨c1.1.symm, FragAgree.of_erase c1.2.symm⟩

/-- `k` readable bytes with no fault in the way can be taken in one go -/
theorem refRead_advance (tt : Timeout) : ∀ (k rem : Nat) (acc : Bytes) (w : World) (c : Conn),
    w.cur = some c → c.isReset = false → c.isEof = false → k ≤ rem →
    k ≤ (readableOf c.outOff c.segs).length →
    (∀ j, j < k → nextFault true (c.inOff + j) c.faults = none) →
    refRead tt rem acc w =
      refRead tt (rem - k) (acc ++ (readableOf c.outOff c.segs).take k)
        { w with cur := some { c with segs := dropSegs k c.segs, inOff := c.inOff + k } } := by
  intro k
  induction k with
  | zero =>
    intro rem acc w c hc _ _ _ _ _
    have : ({ w with cur := some { c with segs := dropSegs 0 c.segs, inOff := c.inOff + 0 } } : World) = w := by
      rw [dropSegs_zero]
      cases w
      simp only at hc
      subst hc
      rfl
    rw [this]
    simp
  | succ k ih =>
    intro rem acc w c hc hr he hk hlen hnf
    cases rem with
    | zero => omega
    | succ rem' =>
      cases hav : readableOf c.outOff c.segs with
      | nil => rw [hav] at hlen; simp at hlen
      | cons b bs =>
        have h0 : nextFault true c.inOff c.faults = none := by simpa using hnf 0 (by omega)
        have step : refRead tt (rem' + 1) acc w =
            refRead tt rem' (acc ++ [b])
              { w with cur := some { c with segs := dropSegs 1 c.segs, inOff := c.inOff + 1 } } := by
          conv => lhs; unfold refRead
          simp only [hc, hr, he, h0, hav, Bool.false_eq_true, if_false]
        rw [step]
        have hav' := readableOf_dropOne _ _ _ _ hav
        rw [hav] at hlen
        simp only [List.length_cons] at hlen
        rw [ih rem' (acc ++ [b]) _ { c with segs := dropSegs 1 c.segs, inOff := c.inOff + 1 } rfl hr he (by omega)
          (by simp only [hav']; omega)
          (by intro j hj; have := hnf (j + 1) (by omega); simpa [Nat.add_assoc, Nat.add_comm 1 j] using this)]
        simp only [hav', dropSegs_one_add, List.take_succ_cons, List.append_assoc, List.singleton_append]
        have e1 : rem' + 1 - (k + 1) = rem' - k := by omega
        have e2 : c.inOff + 1 + k = c.inOff + (k + 1) := by omega
        rw [e1, e2]

/-! ### one `bulk_read` -/

theorem take_take_len (l : Bytes) (n : Nat) : (l.take n).take (l.take n).length = l.take (l.take n).length := by
  rw [List.take_length, List.length_take]
  rw [← List.take_eq_take_min]

/-- one `bulk_read` on a healthy connection with no fault at the current offset -/
theorem bulkRead_cases (n : Nat) (tt : Timeout) (w : World) (c : Conn) (hc : w.cur = some c)
    (hr : c.isReset = false) (he : c.isEof = false) (hf : nextFault true c.inOff c.faults = none) :
    (∃ fl fr, bulkRead n tt w =
      (.ok [], { w with cur := some { c with fragLeft := fl, frags := fr }, now := w.now + c.dt })) ∨
    (readableOf c.outOff c.segs = [] ∧ bulkRead n tt w = waitTimeout tt w) ∨
    (∃ k fl fr bs, k ≤ n ∧ k ≤ (readableOf c.outOff c.segs).length ∧
      (∀ j, j < k → nextFault true (c.inOff + j) c.faults = none) ∧
      bs = (readableOf c.outOff c.segs).take k ∧
      bulkRead n tt w = (.ok bs,
        { w with cur := some { c with segs := dropSegs k c.segs, inOff := c.inOff + k, fragLeft := fl, frags := fr },
                 now := w.now + c.dt })) := by
  unfold bulkRead
  simp only [hc, hr, he, hf, Bool.false_eq_true, if_false]
  cases hfl : c.fragLeft <;> cases hfr : c.frags <;> simp only <;>
  ( split
    · left; exact ⟨_, _, rfl⟩
    · split
      · next hne =>
        right; left
        refine ⟨?_, rfl⟩
        rw [anyReadable_eq] at hne
        simpa using hne
      · right; right
        refine ⟨?_, ?_, ?_, ?_, ?_, ?_, ?_, ?_, ?_⟩
        rotate_right
        · rfl
        · rw [readablePrefix_eq_take, List.length_take]
          exact Nat.le_trans (Nat.min_le_left _ _) (Nat.le_trans (minOpt_le _ _) (minOpt_le _ _))
        · rw [readablePrefix_eq_take, List.length_take]
          exact Nat.min_le_right _ _
        · intro j hj
          by_cases hj0 : j = 0
          · subst hj0; simpa using hf
          · exact no_fault_within _ _ _ _ j (readablePrefix_spec _ _ _).1 (by omega) hj
        · rw [readablePrefix_eq_take]
          exact take_take_len _ _ )

theorem bulkRead_none (n : Nat) (tt : Timeout) (w : World) (hc : w.cur = none) :
    bulkRead n tt w = (.error .transportError, w) := by
  unfold bulkRead; simp only [hc]

theorem bulkRead_reset (n : Nat) (tt : Timeout) (w : World) (c : Conn) (hc : w.cur = some c) (hr : c.isReset = true) :
    bulkRead n tt w = (.error .transportError, w) := by
  unfold bulkRead; simp only [hc, hr, if_true]

theorem bulkRead_eof (n : Nat) (tt : Timeout) (w : World) (c : Conn) (hc : w.cur = some c) (hr : c.isReset = false)
    (he : c.isEof = true) : bulkRead n tt w = (.ok [], { w with now := w.now + c.dt }) := by
  unfold bulkRead; simp only [hc, hr, he, if_true, Bool.false_eq_true, if_false]

theorem bulkRead_fault (n : Nat) (tt : Timeout) (w : World) (c : Conn) (f : Fault) (hc : w.cur = some c)
    (hr : c.isReset = false) (he : c.isEof = false) (hf : nextFault true c.inOff c.faults = some f) :
    bulkRead n tt w =
      match f.kind with
      | .timeout => waitTimeout tt { w with cur := some { c with faults := c.faults.filter (· != f) } }
      | .reset => (.error .transportError,
          { w with cur := some { c with faults := c.faults.filter (· != f), isReset := true } })
      | .eof => (.ok [], { w with cur := some { c with faults := c.faults.filter (· != f), isEof := true }, now := w.now + c.dt }) := by
  unfold bulkRead; simp only [hc, hr, he, hf, Bool.false_eq_true, if_false]
  cases f.kind <;> rfl

/-- the part of the loop body after the `bulk_read` -/
def cont (t : Txn) (start : Int) (fuel rem : Nat) (acc temp : Bytes) : M Bytes :=
  if rem - temp.length = 0 then pure (acc ++ temp) else do
    if (← elapsedGt start t.rt) then M.throw .adbTimeout
    readBytesLoop t start fuel (rem - temp.length) (acc ++ temp)

theorem readBytesLoop_succ (t : Txn) (start : Int) (fuel rem : Nat) (acc : Bytes) (w : World) (h : rem ≠ 0) :
    readBytesLoop t start (fuel + 1) rem acc w =
      (bulkRead rem t.tt >>= cont t start fuel rem acc) { w with trace := .req rem rem :: w.trace } := by
  rw [readBytesLoop]
  simp only [h, if_false]
  rfl

theorem cont_run (t : Txn) (start l : Int) (hrt : t.rt = some l) (fuel rem : Nat) (acc temp : Bytes) (w : World) :
    cont t start fuel rem acc temp w =
      if rem - temp.length = 0 then (.ok (acc ++ temp), w)
      else if w.now - start > l then (.error .adbTimeout, w)
      else readBytesLoop t start fuel (rem - temp.length) (acc ++ temp) w := by
  unfold cont
  split
  · rfl
  · rw [timeoutCheck_run, hrt]
/-- once the transport reports EOF the loop spins (no virtual time passes) until the budget is gone -/
theorem readBytesLoop_eof_hang (t : Txn) (start l : Int) (hrt : t.rt = some l) (hl : 0 ≤ l) :
    ∀ (fuel rem : Nat) (acc : Bytes) (w : World) (c : Conn), rem ≠ 0 → w.cur = some c → c.isReset = false →
      c.isEof = true → c.dt = 0 → w.now = start →
      (readBytesLoop t start fuel rem acc w).1 = .error .hang := by
  intro fuel
  induction fuel with
  | zero => intro rem acc w c _ _ _ _ _ _; rfl
  | succ fuel ih =>
    intro rem acc w c hrem hc hr he hdt hnow
    rw [readBytesLoop_succ _ _ _ _ _ _ hrem]
    have hc1 : ({ w with trace := .req rem rem :: w.trace } : World).cur = some c := hc
    have hn1 : ({ w with trace := .req rem rem :: w.trace } : World).now = start := hnow
    generalize ({ w with trace := .req rem rem :: w.trace } : World) = w1 at hc1 hn1
    rw [bind_run_ok (bulkRead_eof rem t.tt w1 c hc1 hr he), cont_run t start l hrt]
    simp only [List.length_nil, Nat.sub_zero, hrem, if_false, hdt, Int.add_zero, List.append_nil]
    rw [if_neg (by rw [hn1]; omega)]
    exact ih rem acc _ c hrem hc1 hr he hdt hn1

theorem fa_req (w : World) (a b : Nat) : FragAgree { w with trace := .req a b :: w.trace } w := by
  constructor <;> first | rfl | simp [TEv.notReq]

theorem waitTimeout_agree {α} (tt : Timeout) {a b : World} (h : FragAgree a b) :
    (waitTimeout tt a : Except Err α × World).1 = (waitTimeout tt b : Except Err α × World).1 ∧
    FragAgree (waitTimeout tt a : Except Err α × World).2 (waitTimeout tt b : Except Err α × World).2 := by
  cases tt with
  | none => exact ⟨rfl, h⟩
  | some x =>
    refine ⟨rfl, ?_⟩
    simp only [waitTimeout]
    exact ⟨h.conns, h.cur, h.past, by simp [h.now], h.fuel, h.store, h.available, h.maxdata, h.localId, h.banner,
      h.defaultTT, h.locks, h.files, h.dirs, h.sink, h.trace⟩

theorem bind_waitTimeout {α β} {x : M α} {f : α → M β} {w w0 : World} {tt : Timeout}
    (h : x w = waitTimeout tt w0) : (x >>= f) w = waitTimeout tt w0 := by
  cases tt <;> (simp only [waitTimeout] at h ⊢; rw [bind_run_err h])

/-- the relation between a world after a `bulk_read` step and the reference world: the connection advanced
    by the same number of bytes, whatever happened to the fragmentation script, clock unchanged (`dt = 0`) -/
theorem fa_step {w1 w : World} (h : FragAgree w1 w) (d : Int) (hd : d = 0) (c1 c2 : Conn)
    (hu : c1.unfrag = c2.unfrag) :
    FragAgree { w1 with cur := some c1, now := w1.now + d } { w with cur := some c2 } :=
  ⟨h.conns, by simp [hu], h.past, by simp [h.now, hd], h.fuel, h.store, h.available, h.maxdata, h.localId, h.banner,
    h.defaultTT, h.locks, h.files, h.dirs, h.sink, h.trace⟩

theorem fa_cur {w1 w : World} (h : FragAgree w1 w) (c1 c2 : Conn) (hu : c1.unfrag = c2.unfrag) :
    FragAgree { w1 with cur := some c1 } { w with cur := some c2 } :=
  ⟨h.conns, by simp [hu], h.past, h.now, h.fuel, h.store, h.available, h.maxdata, h.localId, h.banner,
    h.defaultTT, h.locks, h.files, h.dirs, h.sink, h.trace⟩

/-- every run of the real loop ends in `hang` or agrees with the reference semantics -/
theorem readBytesLoop_ref (t : Txn) (start l : Int) (hrt : t.rt = some l) (hl : 0 ≤ l) :
    ∀ (fuel rem : Nat) (acc : Bytes) (w : World), w.now = start → (∀ c, w.cur = some c → c.dt = 0) →
      (readBytesLoop t start fuel rem acc w).1 = .error .hang ∨
      ((readBytesLoop t start fuel rem acc w).1 = (refRead t.tt rem acc w).1 ∧
        FragAgree (readBytesLoop t start fuel rem acc w).2 (refRead t.tt rem acc w).2) := by
  intro fuel
  induction fuel with
  | zero => intro rem acc w _ _; left; rfl
  | succ fuel ih =>
    intro rem acc w hnow hdt
    by_cases hrem : rem = 0
    · subst hrem
      right
      rw [readBytesLoop]
      exact ⟨rfl, FragAgree.refl _⟩
    · obtain ⟨rem', rfl⟩ := Nat.exists_eq_succ_of_ne_zero hrem
      rw [readBytesLoop_succ _ _ _ _ _ _ hrem]
      have hfa := fa_req w (rem' + 1) (rem' + 1)
      have hn1 : ({ w with trace := .req (rem' + 1) (rem' + 1) :: w.trace } : World).now = start := hnow
      have hcur : ({ w with trace := .req (rem' + 1) (rem' + 1) :: w.trace } : World).cur = w.cur := rfl
      generalize ({ w with trace := .req (rem' + 1) (rem' + 1) :: w.trace } : World) = w1 at hfa hn1 hcur
      cases hc : w.cur with
      | none =>
        right
        rw [bind_run_err (bulkRead_none _ _ w1 (hcur.trans hc))]
        have hR : refRead t.tt (rem' + 1) acc w = (.error .transportError, w) := by
          unfold refRead; simp only [hc]
        rw [hR]
        exact ⟨rfl, hfa⟩
      | some c =>
        have hdt0 : c.dt = 0 := hdt c hc
        have hc1 : w1.cur = some c := hcur.trans hc
        cases hr : c.isReset with
        | true =>
          right
          rw [bind_run_err (bulkRead_reset _ _ w1 c hc1 hr)]
          have hR : refRead t.tt (rem' + 1) acc w = (.error .transportError, w) := by
            unfold refRead; simp only [hc, hr, if_true]
          rw [hR]
          exact ⟨rfl, hfa⟩
        | false =>
          cases he : c.isEof with
          | true =>
            left
            rw [bind_run_ok (bulkRead_eof _ _ w1 c hc1 hr he), cont_run t start l hrt]
            simp only [List.length_nil, Nat.sub_zero, hrem, if_false, List.append_nil]
            rw [if_neg (by simp only [hdt0, Int.add_zero, hn1]; omega)]
            exact readBytesLoop_eof_hang t start l hrt hl _ _ acc _ c hrem hc1 hr he hdt0
              (by simp only [hdt0, Int.add_zero]; exact hn1)
          | false =>
            cases hf : nextFault true c.inOff c.faults with
            | some f =>
              have hb := bulkRead_fault (rem' + 1) t.tt w1 c f hc1 hr he hf
              cases hk : f.kind with
              | timeout =>
                rw [hk] at hb
                rw [bind_waitTimeout hb]
                have hR : refRead t.tt (rem' + 1) acc w =
                    waitTimeout t.tt { w with cur := some { c with faults := c.faults.filter (· != f) } } := by
                  unfold refRead; simp only [hc, hr, he, hf, hk, Bool.false_eq_true, if_false]
                rw [hR]
                right
                exact waitTimeout_agree t.tt (fa_cur hfa _ _ rfl)
              | reset =>
                rw [hk] at hb
                rw [bind_run_err hb]
                have hR : refRead t.tt (rem' + 1) acc w = (.error .transportError,
                    { w with cur := some { c with faults := c.faults.filter (· != f), isReset := true } }) := by
                  unfold refRead; simp only [hc, hr, he, hf, hk, Bool.false_eq_true, if_false]
                rw [hR]
                right
                exact ⟨rfl, fa_cur hfa _ _ rfl⟩
              | eof =>
                rw [hk] at hb
                rw [bind_run_ok hb, cont_run t start l hrt]
                simp only [List.length_nil, Nat.sub_zero, hrem, if_false, List.append_nil]
                rw [if_neg (by simp only [hdt0, Int.add_zero, hn1]; omega)]
                left
                exact readBytesLoop_eof_hang t start l hrt hl _ _ acc _
                  { c with faults := c.faults.filter (· != f), isEof := true } hrem rfl hr rfl hdt0
                  (by simp only [hdt0, Int.add_zero]; exact hn1)
            | none =>
              rcases bulkRead_cases (rem' + 1) t.tt w1 c hc1 hr he hf with
                ⟨fl, fr, hb⟩ | ⟨hav, hb⟩ | ⟨k, fl, fr, bs, hk1, hk2, hk3, hbs, hb⟩
              · -- an empty read
                rw [bind_run_ok hb, cont_run t start l hrt]
                simp only [List.length_nil, Nat.sub_zero, hrem, if_false, List.append_nil]
                rw [if_neg (by simp only [hdt0, Int.add_zero, hn1]; omega)]
                have hfa2 : FragAgree { w1 with cur := some { c with fragLeft := fl, frags := fr }, now := w1.now + c.dt } w := by
                  have := fa_step hfa c.dt hdt0 { c with fragLeft := fl, frags := fr } c rfl
                  have e : ({ w with cur := some c } : World) = w := by
                    cases w; simp only at hc; subst hc; rfl
                  rwa [e] at this
                have hR := refRead_agree t.tt (rem' + 1) acc hfa2
                rcases ih (rem' + 1) acc { w1 with cur := some { c with fragLeft := fl, frags := fr }, now := w1.now + c.dt }
                  (by simp only [hdt0, Int.add_zero]; exact hn1)
                  (by intro c' hc'; simp only [Option.some.injEq] at hc'; subst hc'; exact hdt0) with g | ⟨g1, g2⟩
                · exact Or.inl g
                · exact Or.inr ⟨g1.trans hR.1, g2.trans hR.2⟩
              · -- nothing readable
                rw [bind_waitTimeout hb]
                have hR : refRead t.tt (rem' + 1) acc w = waitTimeout t.tt w := by
                  unfold refRead; simp only [hc, hr, he, hf, hav, Bool.false_eq_true, if_false]
                rw [hR]
                right
                exact waitTimeout_agree t.tt hfa
              · -- `k` bytes
                subst hbs
                have hadv := refRead_advance t.tt k (rem' + 1) acc w c hc hr he hk1 hk2 hk3
                have hfa2 := fa_step hfa c.dt hdt0
                  { c with segs := dropSegs k c.segs, inOff := c.inOff + k, fragLeft := fl, frags := fr }
                  { c with segs := dropSegs k c.segs, inOff := c.inOff + k } rfl
                have hlen : ((readableOf c.outOff c.segs).take k).length = k := by
                  rw [List.length_take]; omega
                rw [bind_run_ok hb, cont_run t start l hrt, hlen, hadv]
                by_cases hz : rem' + 1 - k = 0
                · rw [if_pos hz, hz]
                  right
                  exact ⟨rfl, hfa2⟩
                · rw [if_neg hz, if_neg (by simp only [hdt0, Int.add_zero, hn1]; omega)]
                  have hR := refRead_agree t.tt (rem' + 1 - k) (acc ++ (readableOf c.outOff c.segs).take k) hfa2
                  rcases ih (rem' + 1 - k) (acc ++ (readableOf c.outOff c.segs).take k)
                    { w1 with cur := some { c with segs := dropSegs k c.segs, inOff := c.inOff + k, fragLeft := fl, frags := fr }, now := w1.now + c.dt }
                    (by simp only [hdt0, Int.add_zero]; exact hn1)
                    (by intro c' hc'; simp only [Option.some.injEq] at hc'; subst hc'; exact hdt0) with g | ⟨g1, g2⟩
                  · exact Or.inl g
                  · exact Or.inr ⟨g1.trans hR.1, g2.trans hR.2⟩

/-! ### `dt = 0` is kept -/

/-- `x` keeps "no virtual time passes in transport calls" -/
def Pres {α} (x : M α) : Prop := ∀ w, w.Dt0 → (x w).2.Dt0

theorem Pres_pure {α} (a : α) : Pres (pure a : M α) := fun _ h => h
theorem Pres_throw {α} (e : Err) : Pres (M.throw e : M α) := fun _ h => h
theorem Pres_emit (e : TEv) : Pres (emit e) := fun _ h => h
theorem Pres_elapsedGt (st : Int) (l : Timeout) : Pres (elapsedGt st l) := by
  intro w h; cases l <;> exact h
theorem Pres_bind {α β} {x : M α} {f : α → M β} (hx : Pres x) (hf : ∀ a, Pres (f a)) : Pres (x >>= f) := by
  intro w h
  have := hx w h
  rw [bind_run]
  cases hxw : x w with
  | mk r v =>
    rw [hxw] at this
    cases r with
    | error e => exact this
    | ok a => exact hf a v this
theorem Pres_ite {α} {c : Prop} [Decidable c] {a b : M α} (ha : Pres a) (hb : Pres b) :
    Pres (if c then a else b) := by
  split <;> assumption

theorem Pres_bulkRead (n : Nat) (tt : Timeout) : Pres (bulkRead n tt) := by
  intro w hd
  obtain ⟨h1, h2⟩ := hd
  unfold bulkRead waitTimeout
  cases hc : w.cur with
  | none => exact ⟨by simp [hc], h2⟩
  | some c =>
    have hc0 := h1 c hc
    dsimp only
    repeat' split
    all_goals (refine ⟨?_, h2⟩; intro c' hc'; first | exact h1 _ hc' | (simp only [Option.some.injEq] at hc'; subst hc'; exact hc0))

theorem Pres_readBytesLoop (t : Txn) (start : Int) : ∀ fuel rem acc, Pres (readBytesLoop t start fuel rem acc) := by
  intro fuel
  induction fuel with
  | zero => intro rem acc; unfold readBytesLoop; exact Pres_throw _
  | succ fuel ih =>
    intro rem acc
    unfold readBytesLoop
    refine Pres_ite (Pres_pure _) (Pres_bind (Pres_emit _) fun _ => Pres_bind (Pres_bulkRead _ _) fun temp => ?_)
    refine Pres_ite (Pres_pure _) (Pres_bind (Pres_elapsedGt _ _) fun b => ?_)
    dsimp only
    apply Pres_ite
    · exact Pres_bind (Pres_throw _) (fun _ => ih _ _)
    · exact ih _ _

theorem readBytes_eq (n : Nat) (t : Txn) (w : World) : readBytes n t w = readBytesLoop t w.now w.fuel n [] w := rfl

/-- base case: `_read_bytes_from_device(n)` with a numeric non-negative read timeout -/
theorem Ins_readBytes (n : Nat) (t : Txn) (h : RtOk t.rt) : Ins (readBytes n t) := by
  obtain ⟨l, hrt, hl⟩ := h
  intro w₁ w₂ hfr
  obtain ⟨ha, hd⟩ := hfr
  have r1 := readBytesLoop_ref t w₁.now l hrt hl w₁.fuel n [] w₁ rfl hd.1
  have r2 := readBytesLoop_ref t w₂.now l hrt hl w₂.fuel n [] w₂ rfl (ha.dt0 hd).1
  have hR := refRead_agree t.tt n [] ha
  have hp := Pres_readBytesLoop t w₁.now w₁.fuel n [] w₁ hd
  unfold Out
  rw [readBytes_eq, readBytes_eq]
  rcases r1 with g | ⟨a1, a2⟩
  · exact Or.inl g
  · rcases r2 with g | ⟨b1, b2⟩
    · exact Or.inr (Or.inl g)
    · exact Or.inr (Or.inr ⟨a1.trans (hR.1.trans b1.symm), a2.trans (hR.2.trans b2.symm), hp⟩)

end Adb.Frag
