import AdbProofs.Lemmas.PushDevice
/-
  Concrete worlds used by the non-vacuity examples of C07: a device script answering a push
  (OKAY per flushed WRTE, then a WRTE carrying the sync status, then CLSE), a small maxdata that
  forces several flushes, a FAIL status, a device WRTE that overtakes the OKAY.
-/
namespace Adb.Push
open Adb

def isOk {α} : Except Err α → Bool
  | .ok _ => true
  | _ => false

theorem ok_of_isOk {α} {x : M α} {w : World} (h : isOk (x w).1 = true) : ∃ a w', x w = (.ok a, w') := by
  cases hx : x w with
  | mk r w' =>
    rw [hx] at h
    cases r with
    | ok a => exact ⟨a, w', rfl⟩
    | error e => exact absurd h (by simp [isOk])

theorem ok_of_isOk_unit {x : M Unit} {w : World} (h : isOk (x w).1 = true) : ∃ w', x w = (.ok (), w') := by
  obtain ⟨_, w', h⟩ := ok_of_isOk h
  exact ⟨w', h⟩

/-- an open sync stream: local id 1, remote id 7 -/
def exT : Txn := ⟨some 1, some 7, some 10, some 10, none⟩
def okPkt : Bytes := Pkt.encode ⟨.OKAY, 7, 1, []⟩
def statusPkt (id : SyncId) (msg : Bytes) : Bytes := Pkt.encode ⟨.WRTE, 7, 1, le32 id.wire ++ le32 msg.length ++ msg⟩
def clsePkt : Bytes := Pkt.encode ⟨.CLSE, 7, 1, []⟩

/-- a connected device with negotiated `maxdata` whose peer will send `script`; one local file (id 5,
    20 bytes) and one directory (id 3) with two entries; the clock shows 5000 s -/
def exWorld (maxdata : Nat) (script : Bytes) : World :=
  { cur := some { segs := [⟨0, script⟩] }, maxdata := maxdata, available := true,
    files := [(5, List.replicate 20 9)], dirs := [(3, [([97], 5), ([98], 5)])], now := 5000 * 1024 }

def exFi (maxdata : Nat) : FsInfo := { fmt := .push, maxdata := maxdata }

/-- maxdata 32 (chunks of 16): three buffer flushes, then the status flush -/
def w32 : World := exWorld 32 (okPkt ++ okPkt ++ okPkt ++ statusPkt .OKAY [])
/-- the device answers FAIL "no" -/
def wFail : World := exWorld 4096 (okPkt ++ statusPkt .FAIL [110, 111])
/-- a device WRTE arrives before the OKAY of the flush -/
def wOvertake : World := exWorld 4096 (statusPkt .FAIL [1] ++ okPkt)
/-- the whole dialogue of one file: OKAY for OPEN, OKAY for the WRTE, status OKAY, CLSE -/
def wFile : World := exWorld 4096 (okPkt ++ okPkt ++ statusPkt .OKAY [] ++ clsePkt)
/-- answers one flush and a status -/
def wStatus : World := exWorld 4096 (okPkt ++ statusPkt .OKAY [])

def statusIsFail (x : Except Err (SyncRec × FsInfo)) : Bool :=
  match x with
  | .ok (r, _) => r.id != SyncId.OKAY
  | _ => false

theorem fail_of_statusIsFail {x : M (SyncRec × FsInfo)} {w : World} (h : statusIsFail (x w).1 = true) :
    ∃ r fi w', x w = (.ok (r, fi), w') ∧ r.id ≠ SyncId.OKAY := by
  cases hx : x w with
  | mk res w' =>
    rw [hx] at h
    cases res with
    | ok a =>
      obtain ⟨r, fi⟩ := a
      refine ⟨r, fi, w', rfl, ?_⟩
      simpa [statusIsFail] using h
    | error e => exact absurd h (by simp [statusIsFail])

end Adb.Push
