import AdbProofs.Lemmas.SyncWire
/-
  Concrete worlds for the non-vacuity examples of C08, C09, C10: device scripts answering `stat`,
  `list` and `pull` with the FileSync records cut into WRTE packets at awkward places (inside a
  header, inside the data, two records in one packet), and a FAIL reply.
-/
namespace Adb.SR
open Adb Adb.Push

/-- device packets of the stream with remote id `r` and local id `l` -/
def okFor (r l : Nat) : Bytes := Pkt.encode ⟨.OKAY, r, l, []⟩
def wrteFor (r l : Nat) (d : Bytes) : Bytes := Pkt.encode ⟨.WRTE, r, l, d⟩
def clseFor (r l : Nat) : Bytes := Pkt.encode ⟨.CLSE, r, l, []⟩

/-- a connected, idle device (local-id allocator at 0, so the next stream gets local id 1) whose peer will send `script` -/
def sxWorld (script : Bytes) : World :=
  { cur := some { segs := [⟨0, script⟩] }, maxdata := 4096, available := true }

/-- the device path "/x" -/
def sxPath : Bytes := [47, 120]

/-- `stat` reply cut after 5 bytes (inside the first header word … second word) -/
def sxStatRec : Bytes := statRec 33188 1234 1700000000
def wStat : World :=
  sxWorld (okFor 7 1 ++ okFor 7 1 ++ wrteFor 7 1 (sxStatRec.take 5) ++ wrteFor 7 1 (sxStatRec.drop 5) ++ clseFor 7 1)

/-- `list` reply: two entries and DONE; cuts inside the first header and inside the second name -/
def sxEntries : List Entry := [([97], 33188, 10, 1700000000), ([98, 99], 16877, 4096, 4294967295)]
def sxListBytes : Bytes := listStream sxEntries ([], 0, 0, 0) []
def wList : World :=
  sxWorld (okFor 7 1 ++ okFor 7 1 ++ wrteFor 7 1 (sxListBytes.take 7) ++ wrteFor 7 1 ((sxListBytes.drop 7).take 35) ++
    wrteFor 7 1 (sxListBytes.drop 42) ++ clseFor 7 1)

/-- `pull` reply: DATA [1,2,3], DATA [4,5], DONE; cuts inside the first header (after 3 bytes), inside the
    data of the first record, and the last packet carries the end of record 1, record 2 and DONE -/
def sxChunks : List Bytes := [[1, 2, 3], [4, 5]]
def sxPullBytes : Bytes := pullStream sxChunks [] []
def wPull : World :=
  sxWorld (okFor 7 1 ++ okFor 7 1 ++ wrteFor 7 1 (sxPullBytes.take 3) ++ wrteFor 7 1 ((sxPullBytes.drop 3).take 7) ++
    wrteFor 7 1 (sxPullBytes.drop 10) ++ clseFor 7 1)

/-- `pull` with a progress callback: the `stat` call runs on its own stream (local id 2, remote id 8) first -/
def wPullCb : World :=
  sxWorld (okFor 7 1 ++ okFor 8 2 ++ okFor 8 2 ++ wrteFor 8 2 (statRec 33188 5 1700000000) ++ clseFor 8 2 ++
    okFor 7 1 ++ wrteFor 7 1 (sxPullBytes.take 3) ++ wrteFor 7 1 (sxPullBytes.drop 3) ++ clseFor 7 1)

/-- `pull` answered by DATA [1,2,3] and then FAIL "no" (split inside the FAIL header) -/
def sxFailBytes : Bytes := syncRec .DATA 3 [1, 2, 3] ++ syncRec .FAIL 2 [110, 111]
def wPullFail : World :=
  sxWorld (okFor 7 1 ++ okFor 7 1 ++ wrteFor 7 1 (sxFailBytes.take 14) ++ wrteFor 7 1 (sxFailBytes.drop 14) ++ clseFor 7 1)

/-- an open sync stream (local id 1, remote id 7) for the record-level examples -/
def sxT : Txn := ⟨some 1, some 7, some 10, some 10, none⟩

/-- the device sends one pull-format record cut in two WRTE packets after `k` bytes -/
def wRec (bytes : Bytes) (k : Nat) : World :=
  sxWorld (wrteFor 7 1 (bytes.take k) ++ wrteFor 7 1 (bytes.drop k))

/-- the device sends a complete FAIL "no" in one WRTE, but the host's next write (the OKAY acknowledging
    that WRTE) meets a write timeout -/
def wAckFail : World :=
  { cur := some { segs := [⟨0, wrteFor 7 1 (syncRec .FAIL 2 [110, 111])⟩], faults := [⟨false, 0, .timeout⟩] },
    maxdata := 4096, available := true }

/-- `pull` answered by DATA [1,2,3] and FAIL "no" in one WRTE — and then the device never sends its CLSE
    (regression world for the repaired `finally`-masking defect) -/
def wPullFailNoClse : World := sxWorld (okFor 7 1 ++ okFor 7 1 ++ wrteFor 7 1 sxFailBytes)

/-- that world after the guards of `pull`, and after `_open` (intermediate worlds for the examples) -/
def wNoClse0 : World := (runGuards (guardsFor "pull") (some sxPath) wPullFailNoClse).2
def wNoClse1 : World := (openStream (ascii "sync:") (some 10) (some 10) none { wNoClse0 with sink := some [] }).2

/-- `list` answered by one DENT and then FAIL "no" (list-format records), cut inside the FAIL header -/
def sxListFail : Bytes := dentRec .DENT 1 2 3 [97] ++ dentRec .FAIL 0 0 0 [110, 111]
def wListFail : World :=
  sxWorld (okFor 7 1 ++ okFor 7 1 ++ wrteFor 7 1 (sxListFail.take 30) ++ wrteFor 7 1 (sxListFail.drop 30) ++ clseFor 7 1)

/-- the exception of an outcome, if any (`Except Err α` has no decidable equality for `decide`) -/
def errOf {α} : Except Err α → Option Err
  | .error e => some e
  | .ok _ => none

theorem run_ok_of {α} {x : M α} {w : World} {a : α} (h : (x w).1.toOption = some a) : x w = (.ok a, (x w).2) := by
  cases hx : x w with
  | mk r w' =>
    rw [hx] at h
    cases r <;> simp_all [Except.toOption]

theorem run_error_of {α} {x : M α} {w : World} {e : Err} (h : errOf (x w).1 = some e) : x w = (.error e, (x w).2) := by
  cases hx : x w with
  | mk r w' =>
    rw [hx] at h
    cases r <;> simp_all [errOf]

theorem eq_error_of_errOf {α} {x : Except Err α} {e : Err} (h : errOf x = some e) : x = .error e := by
  cases x <;> simp_all [errOf]

theorem eq_ok_of_toOption {α} {x : Except Err α} {a : α} (h : x.toOption = some a) : x = .ok a := by
  cases x <;> simp_all [Except.toOption]

end Adb.SR
