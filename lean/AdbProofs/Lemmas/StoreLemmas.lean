import AdbProofs.Lemmas.Assoc
/- Packet store: how `queue` (the abstraction) and `Inv` react to the dict primitives. -/
namespace Adb
namespace Store

theorem queue_aset (s : Store) (a1 : Nat) (inner : Inner) (b0 b1 : Nat) :
    queue (aset a1 inner s) b0 b1 = if b1 = a1 then alookup b0 inner else queue s b0 b1 := by
  unfold queue
  by_cases h : b1 = a1
  · subst h; simp
  · simp [h, alookup_aset_ne (Ne.symm h)]

theorem queue_adel (s : Store) (hn : (akeys s).Nodup) (a1 b0 b1 : Nat) :
    queue (adel a1 s) b0 b1 = if b1 = a1 then none else queue s b0 b1 := by
  unfold queue
  by_cases h : b1 = a1
  · subst h; simp [alookup_adel_self hn]
  · simp [h, alookup_adel_ne (Ne.symm h)]

theorem inv_empty : Inv ([] : Store) := by simp [Inv, akeys]

theorem mem_aset {β : Type} {k : Nat} {v : β} {l : List (Nat × β)} {p : Nat × β} (h : p ∈ aset k v l) :
    p = (k, v) ∨ p ∈ l := by
  induction l with
  | nil => simp [aset] at h; exact Or.inl h
  | cons q rest ih =>
    obtain ⟨k', v'⟩ := q
    by_cases h1 : k' = k
    · simp [aset, h1] at h
      rcases h with h | h
      · exact Or.inl h
      · exact Or.inr (by simp [h])
    · simp [aset, h1] at h
      rcases h with h | h
      · exact Or.inr (by simp [h])
      · rcases ih h with h | h
        · exact Or.inl h
        · exact Or.inr (by simp [h])

theorem mem_adel {β : Type} {k : Nat} {l : List (Nat × β)} {p : Nat × β} (h : p ∈ adel k l) : p ∈ l := by
  induction l with
  | nil => simp [adel] at h
  | cons q rest ih =>
    obtain ⟨k', v'⟩ := q
    by_cases h1 : k' = k
    · simp [adel, h1] at h; simp [h]
    · simp [adel, h1] at h
      rcases h with h | h
      · simp [h]
      · simp [ih h]

theorem inv_aset {s : Store} (hI : Inv s) (a1 : Nat) (inner : Inner) (hn : (akeys inner).Nodup) (hne : inner ≠ []) :
    Inv (aset a1 inner s) := by
  refine ⟨nodup_aset hI.1, ?_⟩
  intro p hp
  rcases mem_aset hp with h | h
  · subst h; exact ⟨hn, hne⟩
  · exact hI.2 p h

theorem inv_adel {s : Store} (hI : Inv s) (a1 : Nat) : Inv (adel a1 s) :=
  ⟨nodup_adel hI.1, fun p hp => hI.2 p (mem_adel hp)⟩

theorem inner_of_lookup {s : Store} (hI : Inv s) {a1 : Nat} {inner : Inner} (h : alookup a1 s = some inner) :
    (akeys inner).Nodup ∧ inner ≠ [] := hI.2 (a1, inner) (alookup_some_mem h)

theorem aset_ne_nil {β : Type} (k : Nat) (v : β) (l : List (Nat × β)) : aset k v l ≠ [] := by
  cases l with
  | nil => simp [aset]
  | cons p rest => obtain ⟨k', v'⟩ := p; by_cases h : k' = k <;> simp [aset, h]

end Store
end Adb
