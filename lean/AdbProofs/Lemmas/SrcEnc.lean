import AdbModel
import AdbModel.Py
import AdbProofs.Lemmas.PySimpAttr
/-
  Encodings of model values as `Py.Val` (what the corresponding Python object looks like), used to state the
  refinement theorems between the GENERATED translation of the source (`Adb.Src.*`) and the hand-written model.
-/
namespace Adb
open Py

def encTimeout : Timeout → Py.Val
  | none => .none
  | some t => .int t

def encOptNat : Option Nat → Py.Val
  | none => .none
  | some n => .int n

/-- a `_AdbTransactionInfo` instance as `__init__` leaves it (attribute order = assignment order) -/
def encTxn (cls : String) (t : Txn) : Py.Val :=
  .obj cls [("local_id", encOptNat t.localId), ("remote_id", encOptNat t.remoteId), ("timeout_s", encTimeout t.total),
            ("read_timeout_s", encTimeout t.rt), ("transport_timeout_s", encTimeout t.tt)]

end Adb

namespace Adb
open Py

/-- `min(a, b)` of two numbers is the model's `min` -/
@[simp, pysimp] theorem Py.min2_int (x y : Int) : Py.min2 (.int x) (.int y) = .ok (.int (min x y)) := by
  simp only [Py.min2, Py.asInt, bind, Except.bind, pure, Except.pure]
  by_cases h : y < x
  · have : min x y = y := by omega
    simp [h, this]
  · have : min x y = x := by omega
    simp [h, this]

@[simp, pysimp] theorem Py.min2_none_left (v : Py.Val) : Py.min2 .none v = .error .typeError := by
  simp [Py.min2, Py.asInt, bind, Except.bind, throw, throwThe, MonadExceptOf.throw]

@[simp, pysimp] theorem Py.min2_int_none (x : Int) : Py.min2 (.int x) .none = .error .typeError := by
  simp [Py.min2, Py.asInt, bind, Except.bind, throw, throwThe, MonadExceptOf.throw, pure, Except.pure]

end Adb

namespace Adb
open Py

@[simp, pysimp] theorem Py.alookupS_asetS_same (k : String) (v : Py.Val) (fs : List (String × Py.Val)) :
    Py.alookupS k (Py.asetS k v fs) = some v := by
  induction fs with
  | nil => simp [Py.asetS, Py.alookupS]
  | cons kv rest ih =>
    obtain ⟨k', v'⟩ := kv
    by_cases h : k' = k
    · simp [Py.asetS, Py.alookupS, h]
    · simp [Py.asetS, Py.alookupS, h, ih]

theorem Py.alookupS_asetS_other (k k' : String) (v : Py.Val) (fs : List (String × Py.Val)) (hne : k' ≠ k) :
    Py.alookupS k' (Py.asetS k v fs) = Py.alookupS k' fs := by
  induction fs with
  | nil => simp [Py.asetS, Py.alookupS]; intro h; exact absurd h.symm hne
  | cons kv rest ih =>
    obtain ⟨k2, v2⟩ := kv
    by_cases h : k2 = k
    · subst h
      have : ¬ k2 = k' := fun h => hne h.symm
      simp [Py.asetS, Py.alookupS, this]
    · by_cases h2 : k2 = k'
      · subst h2
        simp [Py.asetS, Py.alookupS, hne]
      · simp [Py.asetS, Py.alookupS, h, h2, ih]

/-- `getAttr` of an object is the lookup in its attribute list -/
theorem Py.getAttr_obj (cls : String) (fs : List (String × Py.Val)) (k : String) (v : Py.Val) (h : Py.alookupS k fs = some v) :
    Py.getAttr (.obj cls fs) k = .ok v := by
  simp [Py.getAttr, h, pure, Except.pure]

/-- Python's `n // 2` on a non-negative int is natural-number division -/
theorem Py.fdiv_two (n : Nat) : Int.fdiv (n : Int) 2 = ((n / 2 : Nat) : Int) := by
  rw [Int.fdiv_eq_ediv_of_nonneg _ (by omega)]
  omega

end Adb

namespace Adb
open Py

/-! scalar operations on the value kinds the ids take (ints and `None`) -/
@[simp, pysimp] theorem Py.eqV_int_int (a b : Int) : Py.eqV (.int a) (.int b) = .ok (.bool (a == b)) := by
  simp [Py.eqV, Py.eq, bind, Except.bind, pure, Except.pure]
@[simp, pysimp] theorem Py.eqV_int_none (a : Int) : Py.eqV (.int a) .none = .ok (.bool false) := by
  simp [Py.eqV, Py.eq, bind, Except.bind, pure, Except.pure]
@[simp, pysimp] theorem Py.isV_none_none : Py.isV .none .none = .ok (.bool true) := by simp [Py.isV, pure, Except.pure]
@[simp, pysimp] theorem Py.isV_int_none (a : Int) : Py.isV (.int a) .none = .ok (.bool false) := by simp [Py.isV, pure, Except.pure]
@[simp, pysimp] theorem Py.inV_int_pair (a b : Int) : Py.inV (.int a) (.tuple [.int 0, .int b]) = .ok (.bool (a == 0 || a == b)) := by
  by_cases h0 : a = 0 <;> by_cases hb : a = b <;> simp [Py.inV, Py.contains, Py.anyEq, Py.eq, bind, Except.bind, pure, Except.pure, h0, hb]
@[simp, pysimp] theorem Py.inV_int_pair_none (a : Int) : Py.inV (.int a) (.tuple [.int 0, .none]) = .ok (.bool (a == 0)) := by
  by_cases h0 : a = 0 <;> simp [Py.inV, Py.contains, Py.anyEq, Py.eq, bind, Except.bind, pure, Except.pure, h0]
@[simp, pysimp] theorem Py.andV_bool (b : Bool) (x : Py.M Py.Val) : Py.andV (.bool b) x = if b then x else .ok (.bool false) := by
  cases b <;> simp [Py.andV, Py.truthy, bind, Except.bind, pure, Except.pure]
@[simp, pysimp] theorem Py.orV_bool (b : Bool) (x : Py.M Py.Val) : Py.orV (.bool b) x = if b then .ok (.bool true) else x := by
  cases b <;> simp [Py.orV, Py.truthy, bind, Except.bind, pure, Except.pure]
@[simp, pysimp] theorem Py.not_bool (b : Bool) : Py.not_ (.bool b) = .ok (.bool (!b)) := by
  simp [Py.not_, Py.truthy, bind, Except.bind, pure, Except.pure]
@[simp, pysimp] theorem Py.truthy_bool (b : Bool) : Py.truthy (.bool b) = .ok b := by simp [Py.truthy, pure, Except.pure]

end Adb

namespace Adb
open Py

/-! More evaluation rules (all tagged `pysimp`): with `simp [Src.f, pysimp]` a generated definition applied to values of known shape
    evaluates to a closed term, whatever the statement order / temporaries / if-style of the current source. -/
@[pysimp] theorem Py.neV_int_int (a b : Int) : Py.neV (.int a) (.int b) = .ok (.bool (!(a == b))) := by
  simp [Py.neV, Py.eq, bind, Except.bind, pure, Except.pure]
@[pysimp] theorem Py.neV_int_none (a : Int) : Py.neV (.int a) .none = .ok (.bool true) := by
  simp [Py.neV, Py.eq, bind, Except.bind, pure, Except.pure]
@[pysimp] theorem Py.isNotV_none_none : Py.isNotV .none .none = .ok (.bool false) := by simp [Py.isNotV, Py.isV, bind, Except.bind, pure, Except.pure]
@[pysimp] theorem Py.isNotV_int_none (a : Int) : Py.isNotV (.int a) .none = .ok (.bool true) := by simp [Py.isNotV, Py.isV, bind, Except.bind, pure, Except.pure]
@[pysimp] theorem Py.ltV_int (a b : Int) : Py.ltV (.int a) (.int b) = .ok (.bool (decide (a < b))) := by simp [Py.ltV, Py.asInt, bind, Except.bind, pure, Except.pure]
@[pysimp] theorem Py.leV_int (a b : Int) : Py.leV (.int a) (.int b) = .ok (.bool (decide (a ≤ b))) := by simp [Py.leV, Py.asInt, bind, Except.bind, pure, Except.pure]
@[pysimp] theorem Py.gtV_int (a b : Int) : Py.gtV (.int a) (.int b) = .ok (.bool (decide (b < a))) := by simp [Py.gtV, Py.asInt, bind, Except.bind, pure, Except.pure]
@[pysimp] theorem Py.geV_int (a b : Int) : Py.geV (.int a) (.int b) = .ok (.bool (decide (b ≤ a))) := by simp [Py.geV, Py.asInt, bind, Except.bind, pure, Except.pure]
@[pysimp] theorem Py.add_int (a b : Int) : Py.add (.int a) (.int b) = .ok (.int (a + b)) := by simp [Py.add, Py.asInt, bind, Except.bind, pure, Except.pure]
@[pysimp] theorem Py.sub_int (a b : Int) : Py.sub (.int a) (.int b) = .ok (.int (a - b)) := by simp [Py.sub, Py.asInt, bind, Except.bind, pure, Except.pure]
@[pysimp] theorem Py.truthy_none : Py.truthy .none = .ok false := by simp [Py.truthy, pure, Except.pure]
@[pysimp] theorem Py.truthy_int (a : Int) : Py.truthy (.int a) = .ok (a != 0) := by simp [Py.truthy, pure, Except.pure]
@[pysimp] theorem Py.floordiv_nat_two (n : Nat) : Py.floordiv (.int n) (.int 2) = .ok (.int ((n / 2 : Nat) : Int)) := by
  simp [Py.floordiv, Py.asInt, bind, Except.bind, pure, Except.pure, Py.fdiv_two]
@[pysimp] theorem Py.getAttr_obj_eq (cls : String) (fs : List (String × Py.Val)) (k : String) :
    Py.getAttr (.obj cls fs) k = (match Py.alookupS k fs with | some v => .ok v | none => .error .attributeError) := by
  simp only [Py.getAttr]; split <;> simp_all [pure, Except.pure, throw, throwThe, MonadExceptOf.throw]
@[pysimp] theorem Py.setPath_attr (cls : String) (fs : List (String × Py.Val)) (k : String) (v : Py.Val) :
    Py.setPath (.obj cls fs) [Py.Acc.attr k] v = .ok (.obj cls (Py.asetS k v fs)) := by
  simp [Py.setPath, Py.setAcc, Py.setAttr, pure, Except.pure]
@[pysimp] theorem Py.bind_ok' {α β : Type} (a : α) (f : α → Py.M β) : (Except.ok a >>= f) = f a := id rfl
@[pysimp] theorem Py.bind_err' {α β : Type} (e : Py.Err) (f : α → Py.M β) : ((Except.error e : Py.M α) >>= f) = .error e := id rfl
@[pysimp] theorem Py.pure_ok' {α : Type} (a : α) : (pure a : Py.M α) = .ok a := id rfl
@[pysimp] theorem Py.throw_err' {α : Type} (e : Py.Err) : (throw e : Py.M α) = .error e := id rfl
@[pysimp] theorem Py.orV_int (a : Int) (x : Py.M Py.Val) : Py.orV (.int a) x = if a != 0 then .ok (.int a) else x := by
  by_cases h : a = 0 <;> simp [Py.orV, Py.truthy, bind, Except.bind, pure, Except.pure, h]
@[pysimp] theorem Py.andV_int (a : Int) (x : Py.M Py.Val) : Py.andV (.int a) x = if a != 0 then x else .ok (.int a) := by
  by_cases h : a = 0 <;> simp [Py.andV, Py.truthy, bind, Except.bind, pure, Except.pure, h]
/-- lookups through `asetS` reduce by comparing the (literal) attribute names -/
@[pysimp] theorem Py.alookupS_asetS (k k' : String) (v : Py.Val) (fs : List (String × Py.Val)) :
    Py.alookupS k' (Py.asetS k v fs) = if k' = k then some v else Py.alookupS k' fs := by
  by_cases h : k' = k
  · subst h; simp
  · simp [h, Py.alookupS_asetS_other k k' v fs h]

end Adb
