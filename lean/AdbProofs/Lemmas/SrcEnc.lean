import AdbModel
import AdbModel.Py
/-
  Encodings of model values as `Py.Val` (what the corresponding Python object looks like), used to state the
  refinement theorems between the GENERATED translation of the source (`Adb.Src.*`) and the hand-written model.
-/
namespace Adb
open Py

def encTimeout : Timeout → Py.Val
  | none => .none
  | some t => .int t

def encOptNat : Option Nat → Py.Val
  | none => .none
  | some n => .int n

/-- a `_AdbTransactionInfo` instance as `__init__` leaves it (attribute order = assignment order) -/
def encTxn (cls : String) (t : Txn) : Py.Val :=
  .obj cls [("local_id", encOptNat t.localId), ("remote_id", encOptNat t.remoteId), ("timeout_s", encTimeout t.total),
            ("read_timeout_s", encTimeout t.rt), ("transport_timeout_s", encTimeout t.tt)]

end Adb

namespace Adb
open Py

/-- `min(a, b)` of two numbers is the model's `min` -/
@[simp] theorem Py.min2_int (x y : Int) : Py.min2 (.int x) (.int y) = .ok (.int (min x y)) := by
  simp only [Py.min2, Py.asInt, bind, Except.bind, pure, Except.pure]
  by_cases h : y < x
  · have : min x y = y := by omega
    simp [h, this]
  · have : min x y = x := by omega
    simp [h, this]

@[simp] theorem Py.min2_none_left (v : Py.Val) : Py.min2 .none v = .error .typeError := by
  simp [Py.min2, Py.asInt, bind, Except.bind, throw, throwThe, MonadExceptOf.throw]

@[simp] theorem Py.min2_int_none (x : Int) : Py.min2 (.int x) .none = .error .typeError := by
  simp [Py.min2, Py.asInt, bind, Except.bind, throw, throwThe, MonadExceptOf.throw, pure, Except.pure]

end Adb
