import AdbProofs.Lemmas.PushDeliver
import AdbProofs.Lemmas.SyncParse
import AdbProofs.Lemmas.SyncSink
/-
  The FileSync receive side against the reference parser (C08, C09, C10).

  `deliveredWrteData evs` (PushLemmas) is the byte stream handed over by the events `evs`: the
  payloads of the device's WRTE packets delivered, concatenated, oldest first.  For EVERY outcome of
  `_filesync_read_buffered` / `_filesync_read` this file says what the outcome means in terms of
  `parse` on `recvBuf ++ deliveredWrteData evs`; then the three loops built on `_filesync_read`
  (`_pull`, `list`, the status read of `_push`).
-/
namespace Adb.SR
open Adb Adb.Push

theorem dwd_single {e : List TEv} {p : Pkt} (hd : delivered e = [p]) (hw : p.cmd = Cmd.WRTE) :
    deliveredWrteData e = p.data := by
  simp [deliveredWrteData, hd, hw]

theorem delivered_length_append (e2 e1 : List TEv) :
    (delivered (e2 ++ e1)).length = (delivered e1).length + (delivered e2).length := by
  rw [delivered_append, List.length_append]

/-! ### `_filesync_read_buffered` -/

/-- what an outcome of `_filesync_read_buffered(size)` means.  Normal return: exactly `size` bytes, and
    buffer-before ++ delivered-meanwhile = returned ++ buffer-after.  Exception: either the loop budget
    of the model ran out after at least `fuel` packets, or it is the exception of a `_read_until([WRTE])`
    that was called while fewer than `size` bytes had been handed over (`e0` = events before that call). -/
def BufPost (size : Nat) (t : Txn) (fuel : Nat) (fi : FsInfo) (w : World) (evs : List TEv)
    (res : Except Err (Bytes × FsInfo)) (w' : World) : Prop :=
  match res with
  | .ok (bs, fi') => bs.length = size ∧ fi.recvBuf ++ deliveredWrteData evs = bs ++ fi'.recvBuf ∧
      fi'.sendBuf = fi.sendBuf ∧ fi'.fmt = fi.fmt ∧ fi'.maxdata = fi.maxdata
  | .error e => (e = .hang ∧ fuel ≤ (delivered evs).length) ∨
      ∃ e0 el w1, evs = el ++ e0 ∧ w1.trace = e0 ++ w.trace ∧
        (fi.recvBuf ++ deliveredWrteData e0).length < size ∧ readUntil [.WRTE] t w1 = (.error e, w')

theorem fsReadBufferedLoop_any {size : Nat} {t : Txn} :
    ∀ {fuel : Nat} {fi : FsInfo} {w w' : World} {res : Except Err (Bytes × FsInfo)},
    fsReadBufferedLoop size t fuel fi w = (res, w') →
    ∃ evs, w'.trace = evs ++ w.trace ∧ BufPost size t fuel fi w evs res w' := by
  intro fuel
  induction fuel with
  | zero =>
    intro fi w w' res h
    simp only [fsReadBufferedLoop, M.throw_run, Prod.mk.injEq] at h
    obtain ⟨rfl, rfl⟩ := h
    exact ⟨[], rfl, Or.inl ⟨rfl, Nat.le_refl _⟩⟩
  | succ f ih =>
    intro fi w w' res h
    unfold fsReadBufferedLoop at h
    split at h
    · next hlt =>
      rw [bind_run] at h
      cases hx : readUntil [.WRTE] t w with
      | mk r1 w1 =>
        rw [hx] at h
        cases r1 with
        | error e =>
          simp only [Prod.mk.injEq] at h
          obtain ⟨rfl, rfl⟩ := h
          obtain ⟨el, hel⟩ := Fr.evs (Fr_readUntil _ _) hx
          exact ⟨el, hel, Or.inr ⟨[], el, w, by simp, by simp, by simpa using hlt, hx⟩⟩
        | ok cd =>
          obtain ⟨c, d⟩ := cd
          simp only at h
          obtain ⟨e1, p, he1, hd1, rfl, rfl, hx1⟩ := readUntil_ok hx
          have hw : p.cmd = Cmd.WRTE := by simpa using hx1
          have hdw : deliveredWrteData e1 = p.data := dwd_single hd1 hw
          obtain ⟨e2, he2, hpost⟩ := ih h
          refine ⟨e2 ++ e1, by rw [he2, he1, List.append_assoc], ?_⟩
          cases res with
          | ok x =>
            obtain ⟨bs, fi'⟩ := x
            simp only [BufPost] at hpost ⊢
            obtain ⟨h1, h2, h3, h4, h5⟩ := hpost
            refine ⟨h1, ?_, h3, h4, h5⟩
            rw [deliveredWrteData_append, hdw, ← List.append_assoc]; exact h2
          | error e =>
            simp only [BufPost] at hpost ⊢
            rcases hpost with ⟨rfl, hb⟩ | ⟨e0, el, w2, rfl, hw2, hl, hr⟩
            · left
              refine ⟨rfl, ?_⟩
              rw [delivered_length_append, hd1]
              simp only [List.length_cons, List.length_nil]; omega
            · right
              refine ⟨e0 ++ e1, el, w2, by simp, by rw [hw2, he1]; simp, ?_, hr⟩
              rw [deliveredWrteData_append, hdw, ← List.append_assoc]; exact hl
    · next hge =>
      simp only [pure_run, Prod.mk.injEq] at h
      obtain ⟨rfl, rfl⟩ := h
      refine ⟨[], rfl, ?_⟩
      simp only [BufPost, deliveredWrteData_nil, List.append_nil, List.take_append_drop, List.length_take]
      exact ⟨by omega, trivial, trivial, trivial, trivial⟩

theorem fsReadBuffered_any {size : Nat} {t : Txn} {fi : FsInfo} {w w' : World} {res : Except Err (Bytes × FsInfo)}
    (h : fsReadBuffered size t fi w = (res, w')) :
    ∃ evs, w'.trace = evs ++ w.trace ∧ BufPost size t w.fuel fi w evs res w' := by
  unfold fsReadBuffered at h
  rw [get_bind_run] at h
  exact fsReadBufferedLoop_any h

/-! ### `_filesync_read` -/

/-- an exception raised below the parser: the model's loop budget ran out (after at least `w.fuel`
    packets), or `_filesync_flush` of the buffered request raised, or a `_read_until([WRTE])` raised that was
    called while the bytes handed over so far (`e0` = the events before that call) did not yet hold a
    complete record -/
def Aborted (t : Txn) (fi : FsInfo) (w : World) (evs : List TEv) (e : Err) (w' : World) : Prop :=
  (e = .hang ∧ w.fuel ≤ (delivered evs).length) ∨
  (fi.sendBuf ≠ [] ∧ fsFlush t fi w = (.error e, w')) ∨
  ∃ e0 el w1, evs = el ++ e0 ∧ w1.trace = e0 ++ w.trace ∧
    parse fi.fmt (fi.recvBuf ++ deliveredWrteData e0) = .more ∧ readUntil [.WRTE] t w1 = (.error e, w')

/-- what an outcome of `_filesync_read(expected)` means in terms of the reference parser applied to
    the byte stream `recvBuf ++ deliveredWrteData evs` -/
def ReadPost (ex : List SyncId) (t : Txn) (fi : FsInfo) (w : World) (evs : List TEv)
    (res : Except Err (SyncRec × FsInfo)) (w' : World) : Prop :=
  match res with
  | .ok (r, fi') => parse fi.fmt (fi.recvBuf ++ deliveredWrteData evs) = .record r fi'.recvBuf ∧ r.id ∈ ex ∧
      fi'.fmt = fi.fmt ∧ fi'.maxdata = fi.maxdata
  | .error e =>
      (∃ f m rest, e = .adbCommandFailure m ∧ SyncId.FAIL ∉ ex ∧
        parse fi.fmt (fi.recvBuf ++ deliveredWrteData evs) = .record ⟨.FAIL, f, some m⟩ rest) ∨
      (∃ r rest, e = .invalidResponse ∧ r.id ∉ ex ∧ r.id ≠ SyncId.FAIL ∧
        parse fi.fmt (fi.recvBuf ++ deliveredWrteData evs) = .record r rest) ∨
      (∃ word, e = .pyKeyError ∧ parse fi.fmt (fi.recvBuf ++ deliveredWrteData evs) = .badId word) ∨
      Aborted t fi w evs e w'

theorem fsReadRest_any {ex : List SyncId} {t : Txn} {fi : FsInfo} {w w' : World}
    {res : Except Err (SyncRec × FsInfo)} (h : fsReadRest ex t fi w = (res, w')) :
    ∃ evs, w'.trace = evs ++ w.trace ∧ ReadPost ex t fi w evs res w' ∧
      ∀ r fi', res = .ok (r, fi') → fi'.sendBuf = fi.sendBuf := by
  unfold fsReadRest at h
  rw [bind_run] at h
  cases hx : fsReadBuffered fi.fmt.size t fi w with
  | mk r1 w1 =>
    rw [hx] at h
    obtain ⟨e1, he1, hp1⟩ := fsReadBuffered_any hx
    cases r1 with
    | error e =>
      simp only [Prod.mk.injEq] at h
      obtain ⟨rfl, rfl⟩ := h
      refine ⟨e1, he1, ?_, by simp⟩
      simp only [BufPost] at hp1
      simp only [ReadPost]
      right; right; right
      rcases hp1 with ⟨rfl, hb⟩ | ⟨e0, el, w2, rfl, hw2, hl, hr⟩
      · exact Or.inl ⟨rfl, hb⟩
      · exact Or.inr (Or.inr ⟨e0, el, w2, rfl, hw2, parse_short hl, hr⟩)
    | ok x =>
      obtain ⟨hdr, fi1⟩ := x
      simp only [BufPost] at hp1
      obtain ⟨hl1, hc1, hs1, hf1, hm1⟩ := hp1
      simp only at h
      rw [hf1] at h
      cases hid : SyncId.ofWire? ((unpackWords (fi.fmt.size / 4) hdr).headD 0) with
      | none =>
        rw [hid] at h
        simp only [M.throw_run, Prod.mk.injEq] at h
        obtain ⟨rfl, rfl⟩ := h
        refine ⟨e1, he1, ?_, by simp⟩
        simp only [ReadPost]
        right; right; left
        exact ⟨_, trivial, by rw [hc1]; exact parse_hdr_badId hl1 hid⟩
      | some cid =>
        rw [hid] at h
        simp only at h
        by_cases hc : cid = SyncId.STAT
        · -- STAT: no data
          subst hc
          simp only [ne_eq, not_true_eq_false, if_false, bind_run, pure_run, decide_false, Bool.not_false, if_true] at h
          have hparse : parse fi.fmt (fi.recvBuf ++ deliveredWrteData e1) =
              .record ⟨.STAT, (unpackWords (fi.fmt.size / 4) hdr).drop 1, none⟩ fi1.recvBuf := by
            rw [hc1]; exact parse_hdr_stat hl1 hid
          cases hex : ex.contains SyncId.STAT with
          | true =>
            simp only [hex, Bool.not_true, Bool.false_eq_true, if_false, pure_run, Prod.mk.injEq] at h
            obtain ⟨rfl, rfl⟩ := h
            refine ⟨e1, he1, ?_, ?_⟩
            · simp only [ReadPost]
              exact ⟨hparse, by simpa using hex, hf1, hm1⟩
            · intro r fi' hr
              cases hr
              exact hs1
          | false =>
            simp only [hex, Bool.not_false, if_true, reduceCtorEq, if_false, bind_run, M.throw_run, Prod.mk.injEq] at h
            obtain ⟨rfl, rfl⟩ := h
            refine ⟨e1, he1, ?_, by simp⟩
            simp only [ReadPost]
            right; left
            exact ⟨_, _, trivial, by simpa using hex, by simp, hparse⟩
        · -- a record with data
          simp only [ne_eq, hc, not_false_eq_true, if_true] at h
          rw [bind_run] at h
          cases hx2 : fsReadBuffered ((unpackWords (fi.fmt.size / 4) hdr).getLastD 0) t fi1 w1 with
          | mk r2 w2 =>
            rw [hx2] at h
            obtain ⟨e2, he2, hp2⟩ := fsReadBuffered_any hx2
            have hfuel : w1.fuel = w.fuel := by
              have := (Fr_fsReadBuffered fi.fmt.size t fi w).fuel
              rwa [hx] at this
            have hev : w2.trace = (e2 ++ e1) ++ w.trace := by rw [he2, he1, List.append_assoc]
            cases r2 with
            | error e =>
              simp only [Prod.mk.injEq] at h
              obtain ⟨rfl, rfl⟩ := h
              refine ⟨e2 ++ e1, hev, ?_, by simp⟩
              simp only [BufPost] at hp2
              simp only [ReadPost]
              right; right; right
              rcases hp2 with ⟨rfl, hb⟩ | ⟨e0, el, w3, rfl, hw3, hl, hr⟩
              · refine Or.inl ⟨rfl, ?_⟩
                rw [delivered_length_append, ← hfuel]; omega
              · refine Or.inr (Or.inr ⟨e0 ++ e1, el, w3, by simp, by rw [hw3, he1]; simp, ?_, hr⟩)
                rw [deliveredWrteData_append, ← List.append_assoc, hc1, List.append_assoc]
                exact parse_hdr_more hl1 hid hc hl
            | ok y =>
              obtain ⟨data, fi2⟩ := y
              simp only [BufPost] at hp2
              obtain ⟨hl2, hc2, hs2, hf2, hm2⟩ := hp2
              simp only at h
              have hparse : parse fi.fmt (fi.recvBuf ++ deliveredWrteData (e2 ++ e1)) =
                  .record ⟨cid, ((unpackWords (fi.fmt.size / 4) hdr).drop 1).dropLast, some data⟩ fi2.recvBuf := by
                rw [deliveredWrteData_append, ← List.append_assoc, hc1, List.append_assoc, hc2]
                exact parse_hdr_data hl1 hid hc hl2
              cases hex : ex.contains cid with
              | true =>
                simp only [hex, Bool.not_true, Bool.false_eq_true, if_false,
                  decide_true, pure_run, Prod.mk.injEq] at h
                obtain ⟨rfl, rfl⟩ := h
                refine ⟨e2 ++ e1, hev, ?_, ?_⟩
                · simp only [ReadPost]
                  exact ⟨hparse, by simpa using hex, hf2.trans hf1, hm2.trans hm1⟩
                · intro r fi' hr
                  cases hr
                  exact hs2.trans hs1
              | false =>
                simp only [hex, Bool.not_false, if_true] at h
                by_cases hfail : cid = SyncId.FAIL
                · subst hfail
                  simp only [if_true, bind_run, M.throw_run, Prod.mk.injEq] at h
                  obtain ⟨rfl, rfl⟩ := h
                  refine ⟨e2 ++ e1, hev, ?_, by simp⟩
                  simp only [ReadPost]
                  left
                  exact ⟨_, _, _, rfl, by simpa using hex, hparse⟩
                · simp only [hfail, if_false, bind_run, M.throw_run, Prod.mk.injEq] at h
                  obtain ⟨rfl, rfl⟩ := h
                  refine ⟨e2 ++ e1, hev, ?_, by simp⟩
                  simp only [ReadPost]
                  right; left
                  exact ⟨_, _, trivial, by simpa using hex, hfail, hparse⟩

/-- `_filesync_read`, every outcome: the flush (if any) and then the parser -/
theorem fsRead_any {ex : List SyncId} {t : Txn} {fi : FsInfo} {w w' : World}
    {res : Except Err (SyncRec × FsInfo)} (h : fsRead ex t fi w = (res, w')) :
    ∃ evs, w'.trace = evs ++ w.trace ∧ ReadPost ex t fi w evs res w' ∧
      ∀ r fi', res = .ok (r, fi') → fi'.sendBuf = [] := by
  rw [fsRead_eq] at h
  cases hb : fi.sendBuf.isEmpty with
  | true =>
    simp only [hb, Bool.not_true, Bool.false_eq_true, if_false] at h
    obtain ⟨evs, hev, hp, hs⟩ := fsReadRest_any h
    refine ⟨evs, hev, hp, ?_⟩
    intro r fi' hr
    rw [hs r fi' hr]
    simpa using hb
  | false =>
    simp only [hb, Bool.not_false, if_true] at h
    have hne : fi.sendBuf ≠ [] := by intro h0; simp [h0] at hb
    rw [bind_run] at h
    cases hx : fsFlush t fi w with
    | mk r1 w1 =>
      rw [hx] at h
      obtain ⟨e1, he1⟩ := Fr.evs (Fr_fsFlush t fi) hx
      cases r1 with
      | error e =>
        simp only [Prod.mk.injEq] at h
        obtain ⟨rfl, rfl⟩ := h
        refine ⟨e1, he1, ?_, by simp⟩
        simp only [ReadPost]
        right; right; right
        exact Or.inr (Or.inl ⟨hne, hx⟩)
      | ok fi1 =>
        simp only at h
        obtain ⟨-, -, -, hsb, hf, hm⟩ := fsFlush_ok hx he1
        have hrb := fsFlush_recv hx he1
        have hfuel : w1.fuel = w.fuel := by
          have := (Fr_fsFlush t fi w).fuel
          rwa [hx] at this
        obtain ⟨e2, he2, hp, hs⟩ := fsReadRest_any h
        have hev : w'.trace = (e2 ++ e1) ++ w.trace := by rw [he2, he1, List.append_assoc]
        have hstream : fi.recvBuf ++ deliveredWrteData (e2 ++ e1) = fi1.recvBuf ++ deliveredWrteData e2 := by
          rw [deliveredWrteData_append, hrb, List.append_assoc]
        refine ⟨e2 ++ e1, hev, ?_, ?_⟩
        · cases res with
          | ok x =>
            obtain ⟨r, fi'⟩ := x
            simp only [ReadPost] at hp ⊢
            obtain ⟨h1, h2, h3, h4⟩ := hp
            exact ⟨by rw [hstream, ← hf]; exact h1, h2, h3.trans hf, h4.trans hm⟩
          | error e =>
            simp only [ReadPost] at hp ⊢
            rw [hstream, ← hf]
            rcases hp with hp | hp | hp | hp
            · exact Or.inl hp
            · exact Or.inr (Or.inl hp)
            · exact Or.inr (Or.inr (Or.inl hp))
            · right; right; right
              rcases hp with ⟨rfl, hbud⟩ | ⟨hne1, -⟩ | ⟨e0, el, w2, rfl, hw2, hpm, hr⟩
              · refine Or.inl ⟨rfl, ?_⟩
                rw [delivered_length_append, ← hfuel]; omega
              · exact absurd hsb hne1
              · refine Or.inr (Or.inr ⟨e0 ++ e1, el, w2, by simp, by rw [hw2, he1]; simp, ?_, hr⟩)
                rw [deliveredWrteData_append, ← List.append_assoc, ← hrb, ← hf]
                exact hpm
        · intro r fi' hr
          rw [hs r fi' hr]
          exact hsb

/-- normal return of `_filesync_read`: the record returned is the next record of the reassembled stream -/
theorem fsRead_ok_parse {ex : List SyncId} {t : Txn} {fi fi' : FsInfo} {w w' : World} {r : SyncRec} {evs : List TEv}
    (h : fsRead ex t fi w = (.ok (r, fi'), w')) (hev : w'.trace = evs ++ w.trace) :
    parse fi.fmt (fi.recvBuf ++ deliveredWrteData evs) = .record r fi'.recvBuf ∧ r.id ∈ ex ∧
      fi'.fmt = fi.fmt ∧ fi'.maxdata = fi.maxdata ∧ fi'.sendBuf = [] := by
  obtain ⟨e, he, hp, hs⟩ := fsRead_any h
  have : evs = e := evs_unique (he ▸ hev)
  subst this
  simp only [ReadPost] at hp
  exact ⟨hp.1, hp.2.1, hp.2.2.1, hp.2.2.2, hs r fi' rfl⟩

end Adb.SR
