import AdbModel.Tcp
/-
  Helper lemmas for C18 (TCP transports): the wrappers under `SockSem`, the concrete socket `simSock`
  satisfies `SockSem`, and the invariant of the trace acceptor.
-/
namespace Adb.Tcp

variable {σ : Type}

/-! ### Induction from the right -/

theorem snoc_induction {α : Type} {P : List α → Prop} (hnil : P [])
    (hsnoc : ∀ l a, P l → P (l ++ [a])) : ∀ l, P l := by
  intro l
  have h : ∀ r : List α, P r.reverse := by
    intro r
    induction r with
    | nil => simpa using hnil
    | cons a r ih => simpa [List.reverse_cons] using hsnoc _ a ih
  simpa using h l.reverse

/-! ### The wrappers under `SockSem` -/

theorem bulkRead_data_cases {S : Sock σ} {async : Bool} {w w' : σ} {s : TState} {n : Nat} {t : Timeout} {bs : Bytes}
    (h : bulkRead S async w s n t = (w', .data bs)) :
    ∃ c, s.conn = some c ∧
      ((async = true ∧ n = 0 ∧ w' = w ∧ bs = []) ∨
       (∃ w1, S.waitReadable w c t = (w1, true) ∧ S.recv w1 c n = (w', bs))) := by
  unfold bulkRead at h
  cases hc : s.conn with
  | none => simp [hc] at h
  | some c =>
    refine ⟨c, rfl, ?_⟩
    simp only [hc] at h
    by_cases hz : (async && n == 0) = true
    · simp only [hz, if_true] at h
      simp only [Bool.and_eq_true, beq_iff_eq] at hz
      simp only [Prod.mk.injEq, RdRes.data.injEq] at h
      exact Or.inl ⟨hz.1, hz.2, h.1.symm, h.2.symm⟩
    · simp only [hz] at h
      right
      cases hw : S.waitReadable w c t with
      | mk w1 r =>
        simp only [hw] at h
        cases r with
        | false => simp at h
        | true =>
          cases hr : S.recv w1 c n with
          | mk w2 bs2 =>
            simp only [hr, Bool.false_eq_true, if_false, Prod.mk.injEq, RdRes.data.injEq] at h
            exact ⟨w1, rfl, by rw [hr, h.1, h.2]⟩

theorem bulkRead_timeout_cases {S : Sock σ} {async : Bool} {w w' : σ} {s : TState} {n : Nat} {t : Timeout}
    (h : bulkRead S async w s n t = (w', .timeout)) :
    ∃ c, s.conn = some c ∧ S.waitReadable w c t = (w', false) := by
  unfold bulkRead at h
  cases hc : s.conn with
  | none => simp [hc] at h
  | some c =>
    refine ⟨c, rfl, ?_⟩
    simp only [hc] at h
    by_cases hz : (async && n == 0) = true
    · simp [hz] at h
    · simp only [hz] at h
      cases hw : S.waitReadable w c t with
      | mk w1 r =>
        simp only [hw] at h
        cases r with
        | false =>
          simp only [Bool.false_eq_true, if_false, Prod.mk.injEq, and_true] at h
          rw [h]
        | true =>
          cases hr : S.recv w1 c n with
          | mk w2 bs2 => simp [hr] at h

theorem bulkRead_connected {S : Sock σ} {async : Bool} {w : σ} {s : TState} {c : SockId} {n : Nat} {t : Timeout}
    (hc : s.conn = some c) : (bulkRead S async w s n t).2 ≠ .notConnected := by
  unfold bulkRead
  simp only [hc]
  by_cases hz : (async && n == 0) = true
  · simp [hz]
  · simp only [hz]
    cases hw : S.waitReadable w c t with
    | mk w1 r =>
      cases r with
      | false => simp
      | true =>
        cases hr : S.recv w1 c n with
        | mk w2 bs2 => simp

theorem bulkWrite_connected {S : Sock σ} {async : Bool} {w : σ} {s : TState} {c : SockId} {data : Bytes} {t : Timeout}
    (hc : s.conn = some c) : (bulkWrite S async w s data t).2 ≠ .notConnected := by
  unfold bulkWrite
  simp only [hc]
  cases async with
  | true =>
    simp only [if_true]
    cases hw : S.sendAll w c data t with
    | mk w1 r => cases r <;> simp
  | false =>
    simp only [Bool.false_eq_true, if_false]
    cases hw : S.waitWritable w c t with
    | mk w1 r =>
      cases r with
      | false => simp
      | true =>
        cases hr : S.send w1 c data with
        | mk w2 k => simp

/-- one successful read: at most `n` bytes, taken off the front of the buffered stream -/
theorem bulkRead_data_sem {S : Sock σ} (hS : SockSem S) {async : Bool} {w w' : σ} {s : TState} {c : SockId}
    {n : Nat} {t : Timeout} {bs : Bytes} (hc : s.conn = some c)
    (h : bulkRead S async w s n t = (w', .data bs)) :
    bs.length ≤ n ∧ ∃ extra, bs ++ S.buffered w' c = S.buffered w c ++ extra := by
  obtain ⟨c', hc', hcase⟩ := bulkRead_data_cases h
  have : c' = c := by rw [hc] at hc'; exact (Option.some.inj hc').symm
  subst this
  rcases hcase with ⟨_, hn, hw, hbs⟩ | ⟨w1, hwait, hrecv⟩
  · subst hw hbs
    exact ⟨by simp, [], by simp⟩
  · obtain ⟨e1, he1⟩ := hS.wait_appends _ _ _ _ _ hwait
    have hr := (hS.wait_readable _ _ _ _ _ hwait).1 rfl
    obtain ⟨hlen, e2, he2⟩ := hS.recv_prefix _ _ _ _ _ hrecv hr
    refine ⟨hlen, e1 ++ e2, ?_⟩
    rw [he2, he1, List.append_assoc]

/-- a timeout: nothing was buffered, nothing is buffered, and the whole timeout has passed -/
theorem bulkRead_timeout_sem {S : Sock σ} (hS : SockSem S) {async : Bool} {w w' : σ} {s : TState} {c : SockId}
    {n : Nat} {t : Timeout} (hc : s.conn = some c)
    (h : bulkRead S async w s n t = (w', .timeout)) :
    S.buffered w c = [] ∧ S.buffered w' c = [] ∧ ∃ d, t = some d ∧ S.now w' = S.now w + d := by
  obtain ⟨c', hc', hwait⟩ := bulkRead_timeout_cases h
  have : c' = c := by rw [hc] at hc'; exact (Option.some.inj hc').symm
  subst this
  obtain ⟨e1, he1⟩ := hS.wait_appends _ _ _ _ _ hwait
  have hnr : ¬ (S.buffered w' c' ≠ [] ∨ S.eof w' c' = true) := by
    intro hcon
    have := (hS.wait_readable _ _ _ _ _ hwait).2 hcon
    exact Bool.false_ne_true this
  have hb' : S.buffered w' c' = [] := by
    by_cases hb : S.buffered w' c' = []
    · exact hb
    · exact absurd (Or.inl hb) hnr
  have hb : S.buffered w c' = [] := by
    rw [hb'] at he1
    exact (List.append_eq_nil_iff.mp he1.symm).1
  exact ⟨hb, hb', hS.wait_timeout _ _ _ _ _ hwait rfl⟩

theorem readContract {S : Sock σ} (hS : SockSem S) (async : Bool) : ReadContract S (bulkRead S async) where
  le_requested := by
    intro w s n t w' bs h
    obtain ⟨c, hc, _⟩ := bulkRead_data_cases h
    exact (bulkRead_data_sem hS hc h).1
  removes_prefix := by
    intro w s c n t w' bs hc h
    exact (bulkRead_data_sem hS hc h).2
  timeout_keeps := by
    intro w s c n t w' hc h
    exact bulkRead_timeout_sem hS hc h
  connected_ok := by
    intro w s c n t hc
    exact bulkRead_connected hc

/-- any sequence of reads: what they returned, followed by what is still buffered, is what was buffered
    at the start followed by what the peer wrote meanwhile -/
theorem runReads_sem {S : Sock σ} (hS : SockSem S) (async : Bool) (s : TState) (c : SockId) (hc : s.conn = some c)
    (calls : List (Nat × Timeout)) : ∀ (w wf : σ) (outs : List RdRes), runReads S async s w calls = (wf, outs) →
    ∃ later, dataOf outs ++ S.buffered wf c = S.buffered w c ++ later := by
  induction calls with
  | nil =>
    intro w wf outs h
    simp only [runReads, Prod.mk.injEq] at h
    obtain ⟨rfl, rfl⟩ := h
    exact ⟨[], by simp [dataOf]⟩
  | cons call rest ih =>
    intro w wf outs h
    obtain ⟨n, t⟩ := call
    simp only [runReads] at h
    cases h1 : bulkRead S async w s n t with
    | mk w1 r =>
      cases h2 : runReads S async s w1 rest with
      | mk w2 rs =>
        simp only [h1, h2, Prod.mk.injEq] at h
        obtain ⟨rfl, rfl⟩ := h
        obtain ⟨l2, hl2⟩ := ih w1 w2 rs h2
        cases r with
        | data bs =>
          obtain ⟨_, e, he⟩ := bulkRead_data_sem hS hc h1
          refine ⟨e ++ l2, ?_⟩
          simp only [dataOf]
          rw [List.append_assoc, hl2, ← List.append_assoc, he, List.append_assoc]
        | timeout =>
          obtain ⟨hb, hb', _⟩ := bulkRead_timeout_sem hS hc h1
          refine ⟨l2, ?_⟩
          simp only [dataOf]
          rw [hl2, hb, hb']
        | notConnected =>
          exact absurd (by rw [h1]) (bulkRead_connected (S := S) (async := async) (w := w) (n := n) (t := t) hc)

/-! ### `simSock` satisfies the assumptions -/

theorem simWait_sem (w : SimWorld) (t : Timeout) (w' : SimWorld) (r : Bool) (h : simWait w t = (w', r)) :
    (∃ extra, w'.buf = w.buf ++ extra) ∧ (r = true ↔ (w'.buf ≠ [] ∨ w'.eof = true)) ∧
    (r = false → ∃ d, t = some d ∧ w'.now = w.now + d) := by
  unfold simWait at h
  by_cases h0 : w.buf ≠ [] ∨ w.eof = true
  · simp only [h0, if_true, Prod.mk.injEq] at h
    obtain ⟨rfl, rfl⟩ := h
    exact ⟨⟨[], by simp⟩, by simp [h0], by simp⟩
  · simp only [h0, if_false] at h
    have hb : w.buf = [] := by
      by_cases hb : w.buf = []
      · exact hb
      · exact absurd (Or.inl hb) h0
    have he : w.eof = false := by
      cases hh : w.eof with
      | false => rfl
      | true => exact absurd (Or.inr hh) h0
    cases hs : w.script with
    | nil =>
      cases t with
      | none =>
        simp only [hs, Prod.mk.injEq] at h
        obtain ⟨rfl, rfl⟩ := h
        exact ⟨⟨[], by simp⟩, by simp, by simp⟩
      | some d =>
        simp only [hs, Prod.mk.injEq] at h
        obtain ⟨rfl, rfl⟩ := h
        exact ⟨⟨[], by simp⟩, by simp [hb, he], by simp⟩
    | cons x rest =>
      cases t with
      | none =>
        simp only [hs] at h
        by_cases hx : x = []
        · simp only [hx, if_true, Prod.mk.injEq] at h
          obtain ⟨rfl, rfl⟩ := h
          exact ⟨⟨[], by simp⟩, by simp, by simp⟩
        · simp only [hx, if_false, Prod.mk.injEq] at h
          obtain ⟨rfl, rfl⟩ := h
          exact ⟨⟨x, by simp [hb]⟩, by simp [hx], by simp⟩
      | some d =>
        simp only [hs] at h
        by_cases hx : x = []
        · simp only [hx, if_true, Prod.mk.injEq] at h
          obtain ⟨rfl, rfl⟩ := h
          exact ⟨⟨[], by simp⟩, by simp [hb, he], by simp⟩
        · simp only [hx, if_false, Prod.mk.injEq] at h
          obtain ⟨rfl, rfl⟩ := h
          exact ⟨⟨x, by simp [hb]⟩, by simp [hx], by simp⟩

theorem simSock_sem : SockSem simSock where
  wait_appends := by
    intro w c t w' r h
    exact (simWait_sem w t w' r h).1
  wait_readable := by
    intro w c t w' r h
    exact (simWait_sem w t w' r h).2.1
  wait_timeout := by
    intro w c t w' r h
    exact (simWait_sem w t w' r h).2.2
  recv_prefix := by
    intro w c n w' bs h _
    simp only [simSock, Prod.mk.injEq] at h
    obtain ⟨rfl, rfl⟩ := h
    refine ⟨?_, [], ?_⟩
    · simp only [List.length_take]; omega
    · simp [simSock]
  recv_nonempty := by
    intro w c n w' bs h _ hbs
    simp only [simSock, Prod.mk.injEq] at h
    obtain ⟨rfl, rfl⟩ := h
    simp only [simSock]
    rcases List.take_eq_nil_iff.mp hbs with h0 | h0
    · left; omega
    · right; exact h0
  send_count := by
    intro w c data w' k h
    simp only [simSock, Prod.mk.injEq] at h
    obtain ⟨rfl, rfl⟩ := h
    refine ⟨Nat.min_le_left _ _, ?_, by simp [simSock]⟩
    intro hd
    have : 0 < data.length := List.length_pos_iff.mpr hd
    omega
  waitw_sent := by
    intro w c t w' r h
    simp only [simSock, Prod.mk.injEq] at h
    obtain ⟨rfl, rfl⟩ := h
    rfl
  sendall_sent := by
    intro w c data t w' r h
    simp only [simSock, Prod.mk.injEq] at h
    obtain ⟨rfl, rfl⟩ := h
    rfl

/-! ### The acceptor -/

theorem sinceConnect_snoc (l : List Ev) (e : Ev) :
    sinceConnect (l ++ [e]) = if e = .connect then [] else sinceConnect l ++ [e] := by
  simp [sinceConnect, List.foldl_append]

theorem connectedAfter_snoc (l : List Ev) (e : Ev) :
    connectedAfter (l ++ [e]) = if e = .connect then true else if e = .close then false else connectedAfter l := by
  simp [connectedAfter, List.foldl_append]

theorem writtenBytes_snoc (l : List Ev) (e : Ev) :
    writtenBytes (l ++ [e]) = writtenBytes l ++ (match e with | .peerWrite bs => bs | _ => []) := by
  cases e <;> simp [writtenBytes, List.filterMap_append]

theorem readBytes_snoc (l : List Ev) (e : Ev) :
    readBytes (l ++ [e]) = readBytes l ++ (match e with | .read _ bs => bs | _ => []) := by
  cases e <;> simp [readBytes, List.filterMap_append]

theorem writeProgress_snoc (l : List Ev) (e : Ev) :
    writeProgress (l ++ [e]) = (match e with
      | .peerWrite bs => ((writeProgress l).1 + bs.length, (writeProgress l).2)
      | .peerDone => ((writeProgress l).1, (writeProgress l).1)
      | _ => writeProgress l) := by
  cases e <;> simp [writeProgress, List.foldl_append]

theorem run_append (s : St) (l1 l2 : List Ev) :
    run s (l1 ++ l2) = (match run s l1 with | .ok s' => run s' l2 | .error r => .error r) := by
  induction l1 generalizing s with
  | nil => simp [run]
  | cons e es ih =>
    simp only [List.cons_append, run]
    cases step s e with
    | ok s' => simp only [ih]
    | error r => rfl

theorem run_split {s sf : St} {pre : List Ev} {e : Ev} {post : List Ev}
    (h : run s (pre ++ e :: post) = .ok sf) :
    ∃ s1 s2, run s pre = .ok s1 ∧ step s1 e = .ok s2 ∧ run s2 post = .ok sf := by
  rw [run_append] at h
  cases h1 : run s pre with
  | error r => simp [h1] at h
  | ok s1 =>
    simp only [h1, run] at h
    cases h2 : step s1 e with
    | error r => simp [h2] at h
    | ok s2 =>
      simp only [h2] at h
      exact ⟨s1, s2, rfl, h2, h⟩

theorem accepts_iff (tr : List Ev) : accepts tr = true ↔ ∃ sf, run {} tr = .ok sf := by
  unfold accepts
  cases run {} tr with
  | ok s => simp
  | error r => simp

/-! step inversions -/

theorem step_readStart_ok {s s' : St} {n : Nat} (h : step s (.readStart n) = .ok s') :
    s.isOpen = true ∧ s.pending = none ∧ s' = { s with pending := some (n, s.doneLen) } := by
  simp only [step] at h
  cases ho : s.isOpen with
  | false => simp [ho] at h
  | true =>
    cases hp : s.pending with
    | some p => simp [ho, hp] at h
    | none =>
      simp only [ho, hp, Bool.not_true, Bool.false_eq_true, if_false, Option.isSome_none, Except.ok.injEq] at h
      exact ⟨rfl, rfl, h.symm⟩

theorem step_read_ok {s s' : St} {n : Nat} {bs : Bytes} (h : step s (.read n bs) = .ok s') :
    s.isOpen = true ∧ (∃ d0, s.pending = some (n, d0)) ∧ bs.length ≤ n ∧ bs <+: s.unread ∧
    (bs = [] → n = 0 ∨ s.peerClosed = true) ∧
    s' = { s with unread := s.unread.drop bs.length, gotLen := s.gotLen + bs.length, pending := none } := by
  simp only [step] at h
  cases ho : s.isOpen with
  | false => simp [ho] at h
  | true =>
    cases hp : s.pending with
    | none => simp [ho, hp] at h
    | some p =>
      obtain ⟨m, d0⟩ := p
      simp only [ho, hp, Bool.not_true, Bool.false_eq_true, if_false] at h
      by_cases hm : m = n
      · subst hm
        simp only [ne_eq, not_true_eq_false, if_false] at h
        by_cases hl : m < bs.length
        · simp [hl] at h
        · simp only [hl, if_false] at h
          by_cases hpre : bs.isPrefixOf s.unread = true
          · simp only [hpre, Bool.not_true, Bool.false_eq_true, if_false] at h
            cases hem : (bs.isEmpty && decide (m ≠ 0) && !s.peerClosed) with
            | true => simp only [hem] at h; simp at h
            | false =>
              simp only [hem, Bool.false_eq_true, if_false, Except.ok.injEq] at h
              refine ⟨rfl, ⟨d0, rfl⟩, by omega, List.isPrefixOf_iff_prefix.mp hpre, ?_, h.symm⟩
              intro hbs
              subst hbs
              cases hc : s.peerClosed with
              | true => exact Or.inr rfl
              | false =>
                left
                by_cases h0 : m = 0
                · exact h0
                · simp [hc, h0] at hem
          · simp [hpre] at h
      · simp [hm] at h

theorem step_readTimeout_ok {s s' : St} {n : Nat} (h : step s (.readTimeout n) = .ok s') :
    s.isOpen = true ∧ (∃ d0, s.pending = some (n, d0) ∧ d0 ≤ s.gotLen) ∧ s' = { s with pending := none } := by
  simp only [step] at h
  cases ho : s.isOpen with
  | false => simp [ho] at h
  | true =>
    cases hp : s.pending with
    | none => simp [ho, hp] at h
    | some p =>
      obtain ⟨m, d0⟩ := p
      simp only [ho, hp, Bool.not_true, Bool.false_eq_true, if_false] at h
      by_cases hm : m = n
      · subst hm
        simp only [ne_eq, not_true_eq_false, if_false] at h
        by_cases hl : s.gotLen < d0
        · simp [hl] at h
        · simp only [hl, if_false, Except.ok.injEq] at h
          exact ⟨rfl, ⟨d0, rfl, by omega⟩, h.symm⟩
      · simp [hm] at h

theorem step_write_ok {s s' : St} {len k : Nat} (h : step s (.write len k) = .ok s') :
    s.isOpen = true ∧ s.pending = none ∧ k ≤ len ∧ (len ≠ 0 → k ≠ 0) ∧ s' = s := by
  simp only [step] at h
  cases ho : s.isOpen with
  | false => simp [ho] at h
  | true =>
    cases hp : s.pending with
    | some p => simp [ho, hp] at h
    | none =>
      simp only [ho, hp, Bool.not_true, Bool.false_eq_true, if_false, Option.isSome_none] at h
      cases hb : (decide (len < k) || (decide (len ≠ 0) && k == 0)) with
      | true => simp only [hb] at h; simp at h
      | false =>
        simp only [hb, Bool.false_eq_true, if_false, Except.ok.injEq] at h
        simp only [Bool.or_eq_false_iff, Bool.and_eq_false_iff, decide_eq_false_iff_not, beq_eq_false_iff_ne] at hb
        refine ⟨rfl, rfl, by omega, ?_, h.symm⟩
        intro hl hk
        rcases hb.2 with h1 | h1
        · exact h1 hl
        · exact h1 hk

theorem step_close_ok {s s' : St} (h : step s .close = .ok s') :
    s.pending = none ∧ s' = { s with isOpen := false } := by
  simp only [step] at h
  cases hp : s.pending with
  | some p => simp [hp] at h
  | none =>
    simp only [hp, Option.isSome_none, Bool.false_eq_true, if_false, Except.ok.injEq] at h
    exact ⟨rfl, h.symm⟩

theorem step_connect_ok {s s' : St} (h : step s .connect = .ok s') :
    s.pending = none ∧ s' = { isOpen := true } := by
  simp only [step] at h
  cases hp : s.pending with
  | some p => simp [hp] at h
  | none =>
    simp only [hp, Option.isSome_none, Bool.false_eq_true, if_false, Except.ok.injEq] at h
    exact ⟨rfl, h.symm⟩

/-- What the acceptor's state means, in terms of the plain list functions. -/
structure Inv (pre : List Ev) (s : St) : Prop where
  open_eq : s.isOpen = connectedAfter pre
  stream : writtenBytes (sinceConnect pre) = readBytes (sinceConnect pre) ++ s.unread
  got : s.gotLen = (readBytes (sinceConnect pre)).length
  prog : (s.begunLen, s.doneLen) = writeProgress (sinceConnect pre)
  eofb : s.peerClosed = true ↔ Ev.peerEof ∈ sinceConnect pre
  pend : ∀ n d0, s.pending = some (n, d0) →
    ∃ p1 mid, pre = p1 ++ .readStart n :: mid ∧ (∀ e ∈ mid, e.isPeer = true) ∧
      d0 = completedLen (sinceConnect p1) ∧ s.gotLen = (readBytes (sinceConnect p1)).length

theorem inv_init : Inv [] {} where
  open_eq := rfl
  stream := rfl
  got := rfl
  prog := rfl
  eofb := by simp [sinceConnect]
  pend := by intro n d0 h; simp at h

theorem inv_step {pre : List Ev} {s s' : St} {e : Ev} (hI : Inv pre s) (h : step s e = .ok s') :
    Inv (pre ++ [e]) s' := by
  cases e with
  | peerWrite bs =>
    simp only [step, Except.ok.injEq] at h
    subst h
    refine ⟨?_, ?_, ?_, ?_, ?_, ?_⟩
    · simp [connectedAfter_snoc, hI.open_eq]
    · simp [sinceConnect_snoc, writtenBytes_snoc, readBytes_snoc, hI.stream]
    · simp [sinceConnect_snoc, readBytes_snoc, hI.got]
    · have := hI.prog
      simp only [sinceConnect_snoc, writeProgress_snoc, reduceCtorEq, if_false, ← this]
    · simp [sinceConnect_snoc, hI.eofb]
    · intro n d0 hp
      obtain ⟨p1, mid, h1, h2, h3, h4⟩ := hI.pend n d0 hp
      refine ⟨p1, mid ++ [.peerWrite bs], by simp [h1], ?_, h3, h4⟩
      intro e he
      rcases List.mem_append.mp he with he | he
      · exact h2 e he
      · simp at he; subst he; rfl
  | peerDone =>
    simp only [step, Except.ok.injEq] at h
    subst h
    refine ⟨?_, ?_, ?_, ?_, ?_, ?_⟩
    · simp [connectedAfter_snoc, hI.open_eq]
    · simp [sinceConnect_snoc, writtenBytes_snoc, readBytes_snoc, hI.stream]
    · simp [sinceConnect_snoc, readBytes_snoc, hI.got]
    · have := hI.prog
      simp only [sinceConnect_snoc, writeProgress_snoc, reduceCtorEq, if_false, ← this]
    · simp [sinceConnect_snoc, hI.eofb]
    · intro n d0 hp
      obtain ⟨p1, mid, h1, h2, h3, h4⟩ := hI.pend n d0 hp
      refine ⟨p1, mid ++ [.peerDone], by simp [h1], ?_, h3, h4⟩
      intro e he
      rcases List.mem_append.mp he with he | he
      · exact h2 e he
      · simp at he; subst he; rfl
  | peerEof =>
    simp only [step, Except.ok.injEq] at h
    subst h
    refine ⟨?_, ?_, ?_, ?_, ?_, ?_⟩
    · simp [connectedAfter_snoc, hI.open_eq]
    · simp [sinceConnect_snoc, writtenBytes_snoc, readBytes_snoc, hI.stream]
    · simp [sinceConnect_snoc, readBytes_snoc, hI.got]
    · have := hI.prog
      simp only [sinceConnect_snoc, writeProgress_snoc, reduceCtorEq, if_false, ← this]
    · simp [sinceConnect_snoc]
    · intro n d0 hp
      obtain ⟨p1, mid, h1, h2, h3, h4⟩ := hI.pend n d0 hp
      refine ⟨p1, mid ++ [.peerEof], by simp [h1], ?_, h3, h4⟩
      intro e he
      rcases List.mem_append.mp he with he | he
      · exact h2 e he
      · simp at he; subst he; rfl
  | readStart n =>
    obtain ⟨ho, hp, rfl⟩ := step_readStart_ok h
    refine ⟨?_, ?_, ?_, ?_, ?_, ?_⟩
    · simp [connectedAfter_snoc, hI.open_eq]
    · simp [sinceConnect_snoc, writtenBytes_snoc, readBytes_snoc, hI.stream]
    · simp [sinceConnect_snoc, readBytes_snoc, hI.got]
    · have := hI.prog
      simp only [sinceConnect_snoc, writeProgress_snoc, reduceCtorEq, if_false, ← this]
    · simp [sinceConnect_snoc, hI.eofb]
    · intro m d0 hpm
      simp only [Option.some.injEq, Prod.mk.injEq] at hpm
      obtain ⟨rfl, rfl⟩ := hpm
      refine ⟨pre, [], rfl, by simp, ?_, hI.got⟩
      have := hI.prog
      simp only [completedLen, ← this]
  | read n bs =>
    obtain ⟨ho, ⟨d0, hp⟩, hlen, hpre, hemp, rfl⟩ := step_read_ok h
    refine ⟨?_, ?_, ?_, ?_, ?_, ?_⟩
    · simp [connectedAfter_snoc, hI.open_eq]
    · simp only [sinceConnect_snoc, reduceCtorEq, if_false, writtenBytes_snoc, readBytes_snoc, List.append_nil, hI.stream,
        List.append_assoc, List.append_cancel_left_eq]
      exact (List.prefix_iff_eq_append.mp hpre).symm
    · simp [sinceConnect_snoc, readBytes_snoc, hI.got]
    · have := hI.prog
      simp only [sinceConnect_snoc, writeProgress_snoc, reduceCtorEq, if_false, ← this]
    · simp [sinceConnect_snoc, hI.eofb]
    · intro m d1 hpm
      simp at hpm
  | readTimeout n =>
    obtain ⟨ho, ⟨d0, hp, hd⟩, rfl⟩ := step_readTimeout_ok h
    refine ⟨?_, ?_, ?_, ?_, ?_, ?_⟩
    · simp [connectedAfter_snoc, hI.open_eq]
    · simp [sinceConnect_snoc, writtenBytes_snoc, readBytes_snoc, hI.stream]
    · simp [sinceConnect_snoc, readBytes_snoc, hI.got]
    · have := hI.prog
      simp only [sinceConnect_snoc, writeProgress_snoc, reduceCtorEq, if_false, ← this]
    · simp [sinceConnect_snoc, hI.eofb]
    · intro m d1 hpm
      simp at hpm
  | write len k =>
    obtain ⟨ho, hp, hk, hk0, rfl⟩ := step_write_ok h
    refine ⟨?_, ?_, ?_, ?_, ?_, ?_⟩
    · simp [connectedAfter_snoc, hI.open_eq]
    · simp [sinceConnect_snoc, writtenBytes_snoc, readBytes_snoc, hI.stream]
    · simp [sinceConnect_snoc, readBytes_snoc, hI.got]
    · have := hI.prog
      simp only [sinceConnect_snoc, writeProgress_snoc, reduceCtorEq, if_false, ← this]
    · simp [sinceConnect_snoc, hI.eofb]
    · intro m d1 hpm
      rw [hp] at hpm
      simp at hpm
  | close =>
    obtain ⟨hp, rfl⟩ := step_close_ok h
    refine ⟨?_, ?_, ?_, ?_, ?_, ?_⟩
    · simp [connectedAfter_snoc]
    · simp [sinceConnect_snoc, writtenBytes_snoc, readBytes_snoc, hI.stream]
    · simp [sinceConnect_snoc, readBytes_snoc, hI.got]
    · have := hI.prog
      simp only [sinceConnect_snoc, writeProgress_snoc, reduceCtorEq, if_false, ← this]
    · simp [sinceConnect_snoc, hI.eofb]
    · intro m d1 hpm
      simp only at hpm
      rw [hp] at hpm
      simp at hpm
  | connect =>
    obtain ⟨hp, rfl⟩ := step_connect_ok h
    refine ⟨?_, ?_, ?_, ?_, ?_, ?_⟩
    · simp [connectedAfter_snoc]
    · simp [sinceConnect_snoc, writtenBytes, readBytes]
    · simp [sinceConnect_snoc, readBytes]
    · simp [sinceConnect_snoc, writeProgress]
    · simp [sinceConnect_snoc]
    · intro m d1 hpm
      simp at hpm

theorem inv_run : ∀ (pre : List Ev) (s : St), run {} pre = .ok s → Inv pre s := by
  intro pre
  induction pre using snoc_induction with
  | hnil =>
    intro s h
    simp only [run, Except.ok.injEq] at h
    subst h
    exact inv_init
  | hsnoc l a ih =>
    intro s h
    obtain ⟨s1, s2, h1, h2, h3⟩ := run_split h
    simp only [run, Except.ok.injEq] at h3
    subst h3
    exact inv_step (ih s1 h1) h2

/-- the working form of soundness: at any event of an accepted trace, the acceptor's state before it
    satisfies `Inv` for the events so far and its check of the event passed -/
theorem accepted_at {tr pre post : List Ev} {e : Ev} (h : accepts tr = true) (hsplit : tr = pre ++ e :: post) :
    ∃ s s', Inv pre s ∧ step s e = .ok s' := by
  obtain ⟨sf, hsf⟩ := (accepts_iff tr).mp h
  rw [hsplit] at hsf
  obtain ⟨s1, s2, h1, h2, _⟩ := run_split hsf
  exact ⟨s1, s2, inv_run pre s1 h1, h2⟩

theorem accepted_prefix {tr pre post : List Ev} (h : accepts tr = true) (hsplit : tr = pre ++ post) :
    ∃ s, Inv pre s := by
  obtain ⟨sf, hsf⟩ := (accepts_iff tr).mp h
  rw [hsplit, run_append] at hsf
  cases h1 : run {} pre with
  | error r => simp [h1] at hsf
  | ok s1 => exact ⟨s1, inv_run pre s1 h1⟩

/-- a list has at most one decomposition `a ++ x :: m` with `x` a host event and `m` peer events only -/
theorem split_unique (a b m1 m2 : List Ev) (x y : Ev) (hx : x.isPeer = false) (hy : y.isPeer = false)
    (h1 : ∀ e ∈ m1, e.isPeer = true) (h2 : ∀ e ∈ m2, e.isPeer = true)
    (heq : a ++ x :: m1 = b ++ y :: m2) : a = b ∧ m1 = m2 := by
  have hrev : m1.reverse ++ x :: a.reverse = m2.reverse ++ y :: b.reverse := by
    have := congrArg List.reverse heq
    simpa using this
  have h1' : ∀ e ∈ m1.reverse, e.isPeer = true := fun e he => h1 e (List.mem_reverse.mp he)
  have h2' : ∀ e ∈ m2.reverse, e.isPeer = true := fun e he => h2 e (List.mem_reverse.mp he)
  have aux : ∀ (r1 r2 t1 t2 : List Ev), (∀ e ∈ r1, e.isPeer = true) → (∀ e ∈ r2, e.isPeer = true) →
      r1 ++ x :: t1 = r2 ++ y :: t2 → r1 = r2 ∧ t1 = t2 := by
    intro r1
    induction r1 with
    | nil =>
      intro r2 t1 t2 _ hr2 he
      cases r2 with
      | nil => simp at he; exact ⟨rfl, he.2⟩
      | cons z r2 =>
        simp at he
        have := hr2 z (by simp)
        rw [← he.1] at this
        rw [hx] at this
        exact absurd this (by simp)
    | cons z r1 ih =>
      intro r2 t1 t2 hr1 hr2 he
      cases r2 with
      | nil =>
        simp at he
        have := hr1 z (by simp)
        rw [he.1, hy] at this
        exact absurd this (by simp)
      | cons z2 r2 =>
        simp at he
        obtain ⟨hz, hrest⟩ := he
        obtain ⟨e1, e2⟩ := ih r2 t1 t2 (fun e he => hr1 e (by simp [he])) (fun e he => hr2 e (by simp [he])) hrest
        exact ⟨by rw [hz, e1], e2⟩
  obtain ⟨e1, e2⟩ := aux _ _ _ _ h1' h2' hrev
  exact ⟨by simpa using congrArg List.reverse e2, by simpa using congrArg List.reverse e1⟩

end Adb.Tcp
