import AdbModel
/- Helper lemmas about little-endian words and lists of bytes. -/
namespace Adb

@[simp] theorem le32_length (n : Nat) : (le32 n).length = 4 := by simp [le32]

theorem rd32_le32 (n : Nat) (h : n < 4294967296) (rest : Bytes) :
    rd32 (le32 n ++ rest) = some (n, rest) := by
  simp [le32, rd32, UInt8.toNat_ofNat']
  omega

theorem byteSum_append (a b : Bytes) : byteSum (a ++ b) = byteSum a + byteSum b := by
  induction a with
  | nil => simp [byteSum]
  | cons x xs ih => simp [byteSum, ih]; omega

theorem checksum_lt (d : Bytes) : checksum d < 4294967296 := by
  unfold checksum; omega

end Adb
