import AdbProofs.Lemmas.QuietFrame
import Mathlib.Logic.Function.Iterate
/-
  Helper lemmas for C14: arithmetic of the stream-id counter `nextId`, and how `openStream` (`_open`)
  computes: the allocation under the local-id lock, then `send(OPEN)`, then `read([OKAY])`.
-/
namespace Adb

theorem nextId_iter_succ (k c : Nat) : nextId^[k+1] c = nextId^[k] (nextId c) := rfl

theorem nextId_range (c : Nat) (h : c < 4294967296) : 1 ≤ nextId c ∧ nextId c < 4294967296 := by
  unfold nextId; split <;> omega

theorem nextId_closed (c : Nat) (h1 : 1 ≤ c) (h2 : c < 4294967296) :
    nextId c = (c - 1 + 1) % 4294967295 + 1 := by
  unfold nextId; split <;> omega

theorem nextId_iter_closed (k : Nat) : ∀ c, 1 ≤ c → c < 4294967296 →
    nextId^[k] c = (c - 1 + k) % 4294967295 + 1 := by
  induction k with
  | zero => intro c h1 h2; show c = _; omega
  | succ k ih =>
    intro c h1 h2
    rw [nextId_iter_succ, ih _ (nextId_range c h2).1 (nextId_range c h2).2, nextId_closed c h1 h2]
    omega

theorem Txn.make_localId {l r : Option Nat} {tt rt total : Timeout} {t : Txn}
    (h : Txn.make l r tt rt total = .ok t) : t.localId = l ∧ t.remoteId = r := by
  cases tt <;> cases rt <;> cases total <;>
    simp [Txn.make, pyMin, bind, Except.bind, pure, Except.pure] at h <;>
    subst h <;> simp

/-- the effective transport timeout `_get_transport_timeout_s` -/
def effTT (tt : Timeout) (w : World) : Timeout := if tt.isSome then tt else w.defaultTT

/-- the world after the locked allocation block of `_open` -/
def allocWorld (w : World) : World := { w with localId := nextId w.localId }

/-- the rest of `_open` after the allocation block -/
def openRest (dest : Bytes) (t : Txn) : M Txn :=
  ioSend ⟨.OPEN, t.localId.getD 0, 0, dest ++ [0]⟩ t >>= fun _ =>
  ioRead [.OKAY] t >>= fun p =>
  pure { t with remoteId := some p.arg0 }

theorem openStream_idlock_held (dest : Bytes) (tt rt total : Timeout) (w : World)
    (h : lockLocalId ∈ w.locks) : openStream dest tt rt total w = (.error .hang, w) := by
  unfold openStream
  rw [bind_run, withLock_run]
  simp [h]

theorem openStream_alloc_run (dest : Bytes) (tt rt total : Timeout) (w : World)
    (h : lockLocalId ∉ w.locks) :
    openStream dest tt rt total w =
      match Txn.make (some (nextId w.localId)) none (effTT tt w) rt total with
      | .ok t => openRest dest t (allocWorld w)
      | .error e => (.error e, allocWorld w) := by
  unfold openStream
  rw [bind_run, withLock_run]
  simp only [h, if_false, bind_run, M.modify_run, M.get_run, getTT, liftExcept_run]
  cases hm : Txn.make (some (nextId w.localId)) none (effTT tt w) rt total with
  | error e => simp [effTT] at hm; simp [hm, allocWorld]
  | ok t => simp [effTT] at hm; simp [hm, allocWorld, openRest]; rfl

/-- `w'` is `w` plus one `tx m` event followed by quiet steps -/
def Sent (m : Msg) (w w' : World) : Prop := Quiet { w with trace := .tx m :: w.trace } w'

theorem Sent.trans {m : Msg} {a b c : World} (h1 : Sent m a b) (h2 : Quiet b c) : Sent m a c :=
  Quiet.trans h1 h2

theorem Sent.localId {m : Msg} {w w' : World} (h : Sent m w w') : w'.localId = w.localId := h.1

theorem Sent.trace {m : Msg} {w w' : World} (h : Sent m w w') :
    ∃ evs, w'.trace = evs ++ TEv.tx m :: w.trace ∧ ∀ m', TEv.tx m' ∉ evs := h.2

/-- `_AdbIOManager.send(m)`: either it blocks on the transport lock (nothing happens) or `_send` is
    entered: exactly one `tx m` is recorded and the rest is quiet. -/
theorem ioSend_sent_spec (m : Msg) (t : Txn) (w : World) :
    ((ioSend m t w).2 = w ∧ (ioSend m t w).1 = .error .hang) ∨ Sent m w (ioSend m t w).2 := by
  unfold ioSend
  rw [withLock_run]
  split
  · exact Or.inl ⟨rfl, rfl⟩
  · right
    obtain ⟨w1, hq, he⟩ := sendRaw_quiet_after_tx m t { w with locks := lockTransport :: w.locks }
    rw [he]
    exact hq

/-- the part of `_open` after the allocation: at most one message is sent, and it is the `OPEN`
    carrying `t.localId`; a normal return means it was sent, and the returned info keeps `localId`. -/
theorem openRest_spec (dest : Bytes) (t : Txn) (w : World) :
    (Quiet w (openRest dest t w).2 ∧ ∃ e, (openRest dest t w).1 = .error e)
      ∨ (Sent ⟨.OPEN, t.localId.getD 0, 0, dest ++ [0]⟩ w (openRest dest t w).2
          ∧ ∀ t', (openRest dest t w).1 = .ok t' → t'.localId = t.localId) := by
  unfold openRest
  rw [bind_run]
  rcases ioSend_sent_spec ⟨.OPEN, t.localId.getD 0, 0, dest ++ [0]⟩ t w with ⟨h1, h2⟩ | hs
  · left
    split
    · next a w1 he => rw [he] at h2; simp at h2
    · next e w1 he => rw [he] at h1; simp at h1; subst h1; exact ⟨Quiet.refl _, e, rfl⟩
  · right
    split
    · next a w1 he =>
      rw [he] at hs
      rw [bind_run]
      have hq := QuietM.ioRead [.OKAY] t false w1
      split
      · next p w2 hr =>
        rw [hr] at hq
        exact ⟨hs.trans hq, by intro t' ht'; simp at ht'; subst ht'; rfl⟩
      · next e w2 hr =>
        rw [hr] at hq
        exact ⟨hs.trans hq, by intro t' ht'; simp at ht'⟩
    · next e w1 he =>
      rw [he] at hs
      exact ⟨hs, by intro t' ht'; simp at ht'⟩

end Adb
