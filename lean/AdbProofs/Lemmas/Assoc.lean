import AdbModel
/- Python-dict-like association lists: lookup/set/delete algebra. -/
namespace Adb

variable {β : Type}

@[simp] theorem alookup_nil (k : Nat) : alookup k ([] : List (Nat × β)) = none := rfl

@[simp] theorem alookup_aset_self (k : Nat) (v : β) (l : List (Nat × β)) :
    alookup k (aset k v l) = some v := by
  induction l with
  | nil => simp [aset, alookup]
  | cons p rest ih =>
    obtain ⟨k', v'⟩ := p
    by_cases h : k' = k <;> simp [aset, alookup, h, ih]

theorem alookup_aset_ne {k k' : Nat} (h : k ≠ k') (v : β) (l : List (Nat × β)) :
    alookup k' (aset k v l) = alookup k' l := by
  induction l with
  | nil => simp [aset, alookup, h]
  | cons p rest ih =>
    obtain ⟨k'', v''⟩ := p
    by_cases h1 : k'' = k
    · subst h1; simp [aset, alookup, h]
    · by_cases h2 : k'' = k'
      · subst h2; simp [aset, alookup, h1]
      · simp [aset, alookup, h1, h2, ih]

theorem alookup_adel_ne {k k' : Nat} (h : k ≠ k') (l : List (Nat × β)) :
    alookup k' (adel k l) = alookup k' l := by
  induction l with
  | nil => simp [adel]
  | cons p rest ih =>
    obtain ⟨k'', v''⟩ := p
    by_cases h1 : k'' = k
    · subst h1; simp [adel, alookup, h]
    · by_cases h2 : k'' = k'
      · subst h2; simp [adel, alookup, h1]
      · simp [adel, alookup, h1, h2, ih]

theorem alookup_none_of_not_mem {k : Nat} {l : List (Nat × β)} (h : k ∉ akeys l) : alookup k l = none := by
  induction l with
  | nil => rfl
  | cons p rest ih =>
    obtain ⟨k', v'⟩ := p
    simp [akeys] at h
    simp [alookup, Ne.symm h.1]
    exact ih (by simpa [akeys] using h.2)

theorem alookup_some_mem {k : Nat} {v : β} {l : List (Nat × β)} (h : alookup k l = some v) : (k, v) ∈ l := by
  induction l with
  | nil => simp at h
  | cons p rest ih =>
    obtain ⟨k', v'⟩ := p
    by_cases h1 : k' = k
    · simp [alookup, h1] at h; simp [h1, h]
    · simp [alookup, h1] at h; simp [ih h]

theorem mem_akeys_of_alookup {k : Nat} {v : β} {l : List (Nat × β)} (h : alookup k l = some v) : k ∈ akeys l := by
  have := alookup_some_mem h
  simp only [akeys, List.mem_map]
  exact ⟨(k, v), this, rfl⟩

theorem alookup_isSome_of_mem {k : Nat} {l : List (Nat × β)} (h : k ∈ akeys l) : ∃ v, alookup k l = some v := by
  induction l with
  | nil => simp [akeys] at h
  | cons p rest ih =>
    obtain ⟨k', v'⟩ := p
    by_cases h1 : k' = k
    · exact ⟨v', by simp [alookup, h1]⟩
    · simp [akeys] at h
      rcases h with h | h
      · exact absurd h.symm h1
      · obtain ⟨v, hv⟩ := ih (by simpa [akeys] using h)
        exact ⟨v, by simp [alookup, h1, hv]⟩

theorem akeys_adel_subset (k : Nat) (l : List (Nat × β)) : ∀ x ∈ akeys (adel k l), x ∈ akeys l := by
  induction l with
  | nil => simp [adel]
  | cons p rest ih =>
    obtain ⟨k', v'⟩ := p
    by_cases h1 : k' = k
    · simp [adel, akeys, h1]; intro a b h; exact Or.inr ⟨b, h⟩
    · intro x hx
      simp [adel, akeys, h1] at hx ⊢
      rcases hx with hx | ⟨b, hb⟩
      · exact Or.inl hx
      · exact Or.inr (by simpa [akeys] using ih x (by simpa [akeys] using ⟨b, hb⟩))

theorem nodup_adel {k : Nat} {l : List (Nat × β)} (h : (akeys l).Nodup) : (akeys (adel k l)).Nodup := by
  induction l with
  | nil => simp [adel, akeys]
  | cons p rest ih =>
    obtain ⟨k', v'⟩ := p
    simp [akeys] at h
    by_cases h1 : k' = k
    · simpa [adel, h1, akeys] using h.2
    · simp only [adel, h1, if_false, akeys, List.map_cons, List.nodup_cons]
      refine ⟨?_, ih (by simpa [akeys] using h.2)⟩
      intro hmem
      have := akeys_adel_subset k rest k' (by simpa [akeys] using hmem)
      simp [akeys] at this
      obtain ⟨b, hb⟩ := this
      exact h.1 b hb

theorem alookup_adel_self {k : Nat} {l : List (Nat × β)} (h : (akeys l).Nodup) : alookup k (adel k l) = none := by
  induction l with
  | nil => simp [adel]
  | cons p rest ih =>
    obtain ⟨k', v'⟩ := p
    simp [akeys] at h
    by_cases h1 : k' = k
    · subst h1
      simp only [adel, if_true]
      exact alookup_none_of_not_mem (by simpa [akeys] using h.1)
    · simp [adel, alookup, h1]
      exact ih (by simpa [akeys] using h.2)

theorem akeys_aset_mem (k : Nat) (v : β) (l : List (Nat × β)) : ∀ x, x ∈ akeys (aset k v l) ↔ x = k ∨ x ∈ akeys l := by
  induction l with
  | nil => simp [aset, akeys]
  | cons p rest ih =>
    obtain ⟨k', v'⟩ := p
    intro x
    by_cases h1 : k' = k
    · subst h1; simp [aset, akeys]
    · have := ih x
      simp only [akeys] at this
      simp [aset, akeys, h1, this]
      constructor
      · rintro (h | h | h) <;> simp [h]
      · rintro (h | h | h) <;> simp [h]

theorem nodup_aset {k : Nat} {v : β} {l : List (Nat × β)} (h : (akeys l).Nodup) : (akeys (aset k v l)).Nodup := by
  induction l with
  | nil => simp [aset, akeys]
  | cons p rest ih =>
    obtain ⟨k', v'⟩ := p
    simp [akeys] at h
    by_cases h1 : k' = k
    · subst h1; simpa [aset, akeys] using h
    · simp only [aset, h1, if_false, akeys, List.map_cons, List.nodup_cons]
      refine ⟨?_, ih (by simpa [akeys] using h.2)⟩
      intro hmem
      have := (akeys_aset_mem k v rest k').1 (by simpa [akeys] using hmem)
      rcases this with h2 | h2
      · exact h1 h2
      · simp [akeys] at h2; obtain ⟨b, hb⟩ := h2; exact h.1 b hb

theorem adel_isEmpty_iff {k : Nat} {l : List (Nat × β)} (hn : (akeys l).Nodup) (hk : k ∈ akeys l) :
    (adel k l).isEmpty = true ↔ akeys l = [k] := by
  induction l with
  | nil => simp [akeys] at hk
  | cons p rest ih =>
    obtain ⟨k', v'⟩ := p
    by_cases h1 : k' = k
    · subst h1
      simp [adel, akeys]
    · simp [adel, h1, akeys]

end Adb
