import AdbProofs.Lemmas.PushSpecs
/-
  Callback irrelevance for C07.  `Rel x₁ x₂`: started in worlds that differ only in the trace, `x₁`
  and `x₂` give the same result and worlds that again differ only in the trace, and the events they
  add are the same once progress-callback records are removed.  Every trace-independent function
  (`Tr`) is related to itself; `callProgress cb₁` is related to `callProgress cb₂`.
-/
namespace Adb.Push
open Adb

/-- everything but a progress-callback record -/
def notProg : TEv → Bool
  | .cbProgress _ _ _ => false
  | _ => true

def Rel {α : Type} (x₁ x₂ : M α) : Prop :=
  ∀ w tr, ∃ e₁ e₂, (x₁ w).2.trace = e₁ ++ w.trace ∧
    x₂ { w with trace := tr } = ((x₁ w).1, { (x₁ w).2 with trace := e₂ ++ tr }) ∧
    e₁.filter notProg = e₂.filter notProg

theorem Rel_of_Tr {α} {Q} {x : M α} (h : Tr Q x) : Rel x x := by
  intro w tr
  obtain ⟨evs, h1, -, h2⟩ := h.run w
  exact ⟨evs, evs, h1, h2 tr, rfl⟩

theorem Rel_bind {α β} {x₁ x₂ : M α} {f₁ f₂ : α → M β} (hx : Rel x₁ x₂) (hf : ∀ a, Rel (f₁ a) (f₂ a)) :
    Rel (x₁ >>= f₁) (x₂ >>= f₂) := by
  intro w tr
  obtain ⟨e1, e2, h1, h2, h3⟩ := hx w tr
  cases hxw : x₁ w with
  | mk r w1 =>
    rw [hxw] at h1 h2
    cases r with
    | error e =>
      refine ⟨e1, e2, ?_, ?_, h3⟩
      · rw [bind_run, hxw]; exact h1
      · rw [bind_run, h2, bind_run, hxw]
    | ok a =>
      obtain ⟨e1', e2', h1', h2', h3'⟩ := hf a w1 (e2 ++ tr)
      refine ⟨e1' ++ e1, e2' ++ e2, ?_, ?_, ?_⟩
      · rw [bind_run, hxw]
        simp only []
        rw [h1', h1, List.append_assoc]
      · rw [bind_run, h2, bind_run, hxw]
        simp only []
        rw [h2']
        simp
      · rw [List.filter_append, List.filter_append, h3, h3']

theorem Rel_get_bind {β} {f₁ f₂ : World → M β} (hf : ∀ w, Rel (f₁ w) (f₂ w))
    (hi : ∀ w tr, f₂ { w with trace := tr } = f₂ w) : Rel (M.get >>= f₁) (M.get >>= f₂) := by
  intro w tr
  obtain ⟨e1, e2, h1, h2, h3⟩ := hf w w tr
  refine ⟨e1, e2, h1, ?_, h3⟩
  rw [get_bind_run, get_bind_run, hi w tr]
  exact h2

theorem Rel_ite {α} {c : Prop} [Decidable c] {a₁ a₂ b₁ b₂ : M α} (ha : Rel a₁ a₂) (hb : Rel b₁ b₂) :
    Rel (if c then a₁ else b₁) (if c then a₂ else b₂) := by
  split <;> assumption

theorem Rel_callProgress (cb₁ cb₂ : CbMode) (p : Bytes) (n tot : Nat) :
    Rel (callProgress cb₁ p n tot) (callProgress cb₂ p n tot) := by
  intro w tr
  refine ⟨if cb₁ = CbMode.none then [] else [TEv.cbProgress p n tot],
          if cb₂ = CbMode.none then [] else [TEv.cbProgress p n tot], ?_, ?_, ?_⟩
  · rw [callProgress_run]
  · rw [callProgress_run, callProgress_run]
  · have : ∀ cb : CbMode, (if cb = CbMode.none then [] else [TEv.cbProgress p n tot]).filter notProg = [] := by
      intro cb; split <;> rfl
    rw [this, this]

/-- anything goes -/
def QAll : TEv → Prop := fun _ => True
theorem QAll.house : House QAll := fun _ _ => trivial
theorem QAll.deliv : Deliv QAll := fun _ => trivial
theorem QAll.txAll : TxAll QAll := fun _ => trivial
theorem QAll.prog : Prog QAll := fun _ _ _ => trivial

theorem Rel_pushDataLoop (devPath : Bytes) (cb₁ cb₂ : CbMode) (total chunk : Nat) (t : Txn) :
    ∀ fuel content fi, Rel (pushDataLoop devPath cb₁ total chunk t fuel content fi)
                           (pushDataLoop devPath cb₂ total chunk t fuel content fi) := by
  intro fuel
  induction fuel with
  | zero => intro content fi; unfold pushDataLoop; exact Rel_of_Tr (Tr_throw (Q := QAll) _)
  | succ f ih =>
    intro content fi
    unfold pushDataLoop
    dsimp only
    apply Rel_ite
    · exact Rel_of_Tr (Tr_pure (Q := QAll) _)
    · apply Rel_bind (Rel_of_Tr (Tr_fsSend QAll.house QAll.deliv QAll.txAll _ _ _ _ _))
      intro fi1
      apply Rel_bind (Rel_callProgress _ _ _ _ _)
      intro _
      exact ih _ _

theorem Tr_pushTail {Q} (hQ : House Q) (hd : Deliv Q) (ht : TxAll Q) (t : Txn) (fi : FsInfo) (m : Nat) :
    Tr Q (fsSend .DONE t fi [] (some m) >>= fun fi => pushStatus t fi) := by
  trq

theorem Rel_pushOne (content devPath : Bytes) (mode mtime : Nat) (cb₁ cb₂ : CbMode) (t : Txn) (fi : FsInfo) :
    Rel (pushOne content devPath mode mtime cb₁ t fi) (pushOne content devPath mode mtime cb₂ t fi) := by
  unfold pushOne
  apply Rel_bind (Rel_of_Tr (Tr_fsSend QAll.house QAll.deliv QAll.txAll _ _ _ _ _))
  intro fi1
  refine Rel_get_bind (fun w1 => ?_) (fun _ _ => rfl)
  dsimp only
  apply Rel_bind (Rel_pushDataLoop _ _ _ _ _ _ _ _ _)
  intro fi2
  refine Rel_get_bind (fun w2 => ?_) (fun _ _ => rfl)
  exact Rel_of_Tr (Tr_pushTail QAll.house QAll.deliv QAll.txAll _ _ _)

theorem transmitted_filter_notProg (evs : List TEv) : transmitted (evs.filter notProg) = transmitted evs := by
  induction evs with
  | nil => rfl
  | cons e es ih =>
    cases e
    case cbProgress p n t =>
      rw [show (TEv.cbProgress p n t :: es).filter notProg = es.filter notProg from rfl, ih, transmitted_cons]
      simp [txOf]
    all_goals
      rw [List.filter_cons_of_pos (by rfl), transmitted_cons, transmitted_cons, ih]

theorem delivered_filter_notProg (evs : List TEv) : delivered (evs.filter notProg) = delivered evs := by
  induction evs with
  | nil => rfl
  | cons e es ih =>
    cases e
    case cbProgress p n t =>
      rw [show (TEv.cbProgress p n t :: es).filter notProg = es.filter notProg from rfl, ih, delivered_cons]
      simp [delivOf]
    all_goals
      rw [List.filter_cons_of_pos (by rfl), delivered_cons, delivered_cons, ih]

/-- what `Rel` says about two runs from the SAME world -/
theorem Rel.same_world {α} {x₁ x₂ : M α} (h : Rel x₁ x₂) (w : World) :
    ∃ e₁ e₂, (x₁ w).2.trace = e₁ ++ w.trace ∧ (x₂ w).2.trace = e₂ ++ w.trace ∧
      (x₂ w).1 = (x₁ w).1 ∧ (x₂ w).2 = { (x₁ w).2 with trace := (x₂ w).2.trace } ∧
      e₁.filter notProg = e₂.filter notProg ∧ transmitted e₁ = transmitted e₂ := by
  obtain ⟨e1, e2, h1, h2, h3⟩ := h w w.trace
  have h2' : x₂ w = ((x₁ w).1, { (x₁ w).2 with trace := e2 ++ w.trace }) := h2
  refine ⟨e1, e2, h1, ?_, ?_, ?_, h3, ?_⟩
  · rw [h2']
  · rw [h2']
  · rw [h2']
  · rw [← transmitted_filter_notProg e1, h3, transmitted_filter_notProg]


/-- the same, with the two outcomes named -/
theorem Rel.outcomes {α} {x₁ x₂ : M α} (h : Rel x₁ x₂) (w : World) :
    ∃ evs₁ evs₂ r w₁' w₂', x₁ w = (r, w₁') ∧ x₂ w = (r, w₂') ∧
      w₁'.trace = evs₁ ++ w.trace ∧ w₂'.trace = evs₂ ++ w.trace ∧
      transmitted evs₁ = transmitted evs₂ ∧ evs₁.filter notProg = evs₂.filter notProg ∧
      w₂' = { w₁' with trace := w₂'.trace } ∧
      w₁'.cur = w₂'.cur ∧ w₁'.store = w₂'.store ∧ w₁'.now = w₂'.now := by
  obtain ⟨e1, e2, h1, h2, h3⟩ := h w w.trace
  have h2' : x₂ w = ((x₁ w).1, { (x₁ w).2 with trace := e2 ++ w.trace }) := h2
  cases hx : x₁ w with
  | mk r w1 =>
    rw [hx] at h1 h2'
    refine ⟨e1, e2, r, w1, { w1 with trace := e2 ++ w.trace }, rfl, h2', h1, rfl, ?_, h3, rfl, rfl, rfl, rfl⟩
    rw [← transmitted_filter_notProg e1, h3, transmitted_filter_notProg]

end Adb.Push
