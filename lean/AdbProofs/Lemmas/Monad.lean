import AdbModel
/-
  Run-lemmas for the effect type `M α := World → Except Err α × World`: how `pure`, `bind`, `throw`,
  `get`, `modify`, `withLock`, `tryFinally`, `swallow` compute when applied to a world.
  State all facts about model functions in the form `f args w = (r, w')`.
-/
namespace Adb

@[simp] theorem M.pure_run {α} (a : α) (w : World) : (M.pure a) w = (.ok a, w) := rfl
@[simp] theorem pure_run {α} (a : α) (w : World) : (pure a : M α) w = (.ok a, w) := rfl
@[simp] theorem M.throw_run {α} (e : Err) (w : World) : (M.throw e : M α) w = (.error e, w) := rfl
@[simp] theorem M.get_run (w : World) : M.get w = (.ok w, w) := rfl
@[simp] theorem M.modify_run (f : World → World) (w : World) : M.modify f w = (.ok (), f w) := rfl
@[simp] theorem now_run (w : World) : now w = (.ok w.now, w) := rfl
@[simp] theorem emit_run (e : TEv) (w : World) : emit e w = (.ok (), { w with trace := e :: w.trace }) := rfl
@[simp] theorem liftExcept_run {α} (x : Except Err α) (w : World) : liftExcept x w = (x, w) := rfl

theorem bind_run {α β} (x : M α) (f : α → M β) (w : World) :
    (x >>= f) w = match x w with
      | (.ok a, w') => f a w'
      | (.error e, w') => (.error e, w') := rfl

theorem bind_run_ok {α β} {x : M α} {f : α → M β} {w w' : World} {a : α} (h : x w = (.ok a, w')) :
    (x >>= f) w = f a w' := by simp [bind_run, h]

theorem bind_run_err {α β} {x : M α} {f : α → M β} {w w' : World} {e : Err} (h : x w = (.error e, w')) :
    (x >>= f) w = (.error e, w') := by simp [bind_run, h]

/-- inversion: a bind that returns normally went through a normal return of its first part -/
theorem bind_ok_inv {α β} {x : M α} {f : α → M β} {w w'' : World} {b : β}
    (h : (x >>= f) w = (.ok b, w'')) : ∃ a w', x w = (.ok a, w') ∧ f a w' = (.ok b, w'') := by
  rw [bind_run] at h
  split at h
  · next a w' hx => exact ⟨a, w', hx, h⟩
  · next e w' hx => simp at h

theorem bind_err_inv {α β} {x : M α} {f : α → M β} {w w'' : World} {e : Err}
    (h : (x >>= f) w = (.error e, w'')) :
    (x w = (.error e, w'')) ∨ ∃ a w', x w = (.ok a, w') ∧ f a w' = (.error e, w'') := by
  rw [bind_run] at h
  split at h
  · next a w' hx => exact Or.inr ⟨a, w', hx, h⟩
  · next e' w' hx => simp at h; obtain ⟨h1, h2⟩ := h; subst h1 h2; exact Or.inl hx

theorem elapsedGt_run (start : Int) (limit : Timeout) (w : World) :
    elapsedGt start limit w = match limit with
      | none => (.error .pyTypeError, w)
      | some l => (.ok (decide (w.now - start > l)), w) := rfl

theorem withLock_run {α} (l : Nat) (body : M α) (w : World) :
    withLock l body w =
      if l ∈ w.locks then (.error .hang, w)
      else ((body { w with locks := l :: w.locks }).1,
            { (body { w with locks := l :: w.locks }).2 with
                locks := (body { w with locks := l :: w.locks }).2.locks.erase l }) := by
  unfold withLock
  split <;> rfl

end Adb
