import AdbProofs.Lemmas.FragWire
/-
  Lifting of the base case (`Frag.Ins_readBytes`) to every model function, bottom-up, by plain relational
  composition (the `fins` tactic, same style as `ins` in ResetRel.lean).  Every function that reads from the
  transport carries the hypothesis that the transaction's read timeout is numeric and non-negative (`RtOk`).
  `pull` is handled in its hang-strict form `devPullS` (see `Frag.tryFinallyS`).
-/
namespace Adb.Frag
open Adb

/-- closes `∀ w₁ w₂, FR w₁ w₂ → FR (f w₁) (f w₂)` for an explicit record update `f` of non-free fields -/
macro "fr_upd" : tactic =>
  `(tactic| (intro w₁ w₂ h; refine ⟨?_, h.2⟩; constructor <;> dsimp only <;>
      first
      | rfl
      | exact h.1.conns | exact h.1.cur | exact h.1.past | exact h.1.now | exact h.1.fuel | exact h.1.store
      | exact h.1.available | exact h.1.maxdata | exact h.1.localId | exact h.1.banner | exact h.1.defaultTT
      | exact h.1.locks | exact h.1.files | exact h.1.dirs | exact h.1.sink | exact h.1.trace
      | rw [h.1.localId]
      | rw [h.1.store]
      | rw [h.1.sink]))

/-- extensible: one alternative per proved `Ins` lemma -/
syntax "fins_lemma" : tactic
macro_rules | `(tactic| fins_lemma) => `(tactic| with_reducible exact Ins_pure _)
macro_rules | `(tactic| fins_lemma) => `(tactic| with_reducible exact Ins_Mpure _)
macro_rules | `(tactic| fins_lemma) => `(tactic| with_reducible exact Ins_throw _)
macro_rules | `(tactic| fins_lemma) => `(tactic| with_reducible exact Ins_now)
macro_rules | `(tactic| fins_lemma) => `(tactic| with_reducible exact Ins_liftExcept _)
macro_rules | `(tactic| fins_lemma) => `(tactic| with_reducible exact Ins_elapsedGt _ _)
macro_rules | `(tactic| fins_lemma) => `(tactic| ((with_reducible refine Ins_emit _ ?_); rfl))
macro_rules | `(tactic| fins_lemma) => `(tactic| with_reducible exact Ins_waitTimeout _)
macro_rules | `(tactic| fins_lemma) => `(tactic| with_reducible exact Ins_bulkWrite _ _)
macro_rules | `(tactic| fins_lemma) => `(tactic| with_reducible exact Ins_tClose)
macro_rules | `(tactic| fins_lemma) => `(tactic| with_reducible exact Ins_tConnect _)
macro_rules | `(tactic| fins_lemma) => `(tactic| with_reducible exact Ins_storePut _)
macro_rules | `(tactic| fins_lemma) => `(tactic| with_reducible exact Ins_readBytes _ _ (by assumption))

/-- structural decomposition of a `do` block; `fins [ih]` also tries the induction hypothesis `ih` -/
syntax "fins" ("[" term "]")? : tactic
macro_rules
  | `(tactic| fins) => `(tactic| fins [Ins_now])
  | `(tactic| fins [$h]) => `(tactic| first
    | fins_lemma
    | with_reducible assumption
    | with_reducible exact $h
    | with_reducible exact $h _
    | with_reducible exact $h _ _
    | with_reducible exact $h _ _ _
    | ((with_reducible refine Ins_get_bind (fun _ => ?_) ?_); rotate_left; (intro _ _ _ _; rfl); fins [$h])
    | (with_reducible apply Ins_bind) <;> (first | (intro _; fins [$h]) | fins [$h])
    | (with_reducible apply Ins_withLock); fins [$h]
    | (with_reducible apply Ins_tryFinallyS) <;> fins [$h]
    | ((with_reducible refine Ins_modify ?_); fr_upd)
    | (with_reducible apply Ins_ite) <;> fins [$h]
    | (split <;> fins [$h])
    | (dsimp only; fins [$h])
    | (intro _; fins [$h]))

/-! ### `_AdbIOManager`, bottom-up -/

theorem Ins_readPacket (t : Txn) (h : RtOk t.rt) : Ins (readPacket t) := by
  unfold readPacket
  fins
macro_rules | `(tactic| fins_lemma) => `(tactic| with_reducible exact Ins_readPacket _ (by assumption))

theorem Ins_writeAllLoop (t : Txn) (start : Int) : ∀ fuel data, Ins (writeAllLoop t start fuel data) := by
  intro fuel
  induction fuel with
  | zero => intro data; unfold writeAllLoop; fins
  | succ f ih =>
    intro data
    unfold writeAllLoop
    fins [ih]
macro_rules | `(tactic| fins_lemma) => `(tactic| with_reducible exact Ins_writeAllLoop _ _ _ _)

theorem Ins_writeAll (d : Bytes) (t : Txn) : Ins (writeAll d t) := by
  unfold writeAll
  fins
macro_rules | `(tactic| fins_lemma) => `(tactic| with_reducible exact Ins_writeAll _ _)

theorem Ins_sendRaw (msg : Msg) (t : Txn) : Ins (sendRaw msg t) := by
  unfold sendRaw
  fins
macro_rules | `(tactic| fins_lemma) => `(tactic| with_reducible exact Ins_sendRaw _ _)

theorem Ins_ioSend (msg : Msg) (t : Txn) : Ins (ioSend msg t) := by
  unfold ioSend
  fins
macro_rules | `(tactic| fins_lemma) => `(tactic| with_reducible exact Ins_ioSend _ _)

theorem Ins_expectLoop (ex : List Cmd) (t : Txn) (h : RtOk t.rt) (start : Int) :
    ∀ fuel, Ins (expectLoop ex t start fuel) := by
  intro fuel
  induction fuel with
  | zero => unfold expectLoop; fins
  | succ f ih =>
    unfold expectLoop
    fins [ih]
macro_rules | `(tactic| fins_lemma) => `(tactic| with_reducible exact Ins_expectLoop _ _ (by assumption) _ _)

theorem Ins_expectPacket (ex : List Cmd) (t : Txn) (h : RtOk t.rt) : Ins (expectPacket ex t) := by
  unfold expectPacket
  fins
macro_rules | `(tactic| fins_lemma) => `(tactic| with_reducible exact Ins_expectPacket _ _ (by assumption))

theorem Ins_storeFind (t : Txn) (az : Bool) : Ins (storeFind t az) := Ins_of_silent fun _ _ _ _ => rfl
macro_rules | `(tactic| fins_lemma) => `(tactic| with_reducible exact Ins_storeFind _ _)

theorem Ins_storeGet (k : Nat × Nat) : Ins (storeGet k) := by
  apply Ins_of_silent
  intro w c cs tr
  unfold storeGet
  dsimp only
  split <;> rfl
macro_rules | `(tactic| fins_lemma) => `(tactic| with_reducible exact Ins_storeGet _)

theorem Ins_storeClear (a0 a1 : Nat) : Ins (storeClear a0 a1) := by
  unfold storeClear
  fins
macro_rules | `(tactic| fins_lemma) => `(tactic| with_reducible exact Ins_storeClear _ _)

theorem Ins_storeClearAll : Ins storeClearAll := by
  unfold storeClearAll
  fins
macro_rules | `(tactic| fins_lemma) => `(tactic| with_reducible exact Ins_storeClearAll)

theorem Ins_drainLoop (ex : List Cmd) (t : Txn) (az : Bool) : ∀ fuel, Ins (drainLoop ex t az fuel) := by
  intro fuel
  induction fuel with
  | zero => unfold drainLoop; fins
  | succ f ih =>
    unfold drainLoop
    fins [ih]
macro_rules | `(tactic| fins_lemma) => `(tactic| with_reducible exact Ins_drainLoop _ _ _ _)

theorem Ins_readIter (ex : List Cmd) (t : Txn) (h : RtOk t.rt) (az : Bool) : Ins (readIter ex t az) := by
  unfold readIter
  fins
macro_rules | `(tactic| fins_lemma) => `(tactic| with_reducible exact Ins_readIter _ _ (by assumption) _)

theorem Ins_readLoop (ex : List Cmd) (t : Txn) (h : RtOk t.rt) (az : Bool) (start : Int) :
    ∀ fuel, Ins (readLoop ex t az start fuel) := by
  intro fuel
  induction fuel with
  | zero => unfold readLoop; fins
  | succ f ih =>
    unfold readLoop
    fins [ih]
macro_rules | `(tactic| fins_lemma) => `(tactic| with_reducible exact Ins_readLoop _ _ (by assumption) _ _ _)

theorem Ins_ioRead (ex : List Cmd) (t : Txn) (h : RtOk t.rt) (az : Bool) : Ins (ioRead ex t az) := by
  unfold ioRead
  fins
macro_rules | `(tactic| fins_lemma) => `(tactic| with_reducible exact Ins_ioRead _ _ (by assumption) _)

theorem Ins_ioClose : Ins ioClose := by
  unfold ioClose
  fins
macro_rules | `(tactic| fins_lemma) => `(tactic| with_reducible exact Ins_ioClose)

theorem Ins_authLoop (t : Txn) (h : RtOk t.rt) : ∀ keys last, Ins (authLoop t keys last) := by
  intro keys
  induction keys with
  | nil => intro last; unfold authLoop; fins
  | cons k ks ih =>
    intro last
    unfold authLoop
    fins [ih]
macro_rules | `(tactic| fins_lemma) => `(tactic| with_reducible exact Ins_authLoop _ (by assumption) _ _)

theorem Ins_ioConnect (banner : Bytes) (keys : List Nat) (authT : Timeout) (cb : Bool) (t : Txn) (h : RtOk t.rt) :
    Ins (ioConnect banner keys authT cb t) := by
  have h' : RtOk ({ t with tt := authT } : Txn).rt := h
  unfold ioConnect
  fins
macro_rules | `(tactic| fins_lemma) => `(tactic| with_reducible exact Ins_ioConnect _ _ _ _ _ (by assumption))

/-! ### stream layer -/

/-- a fact about every value `x` returns normally -/
def Post {α} (x : M α) (Q : α → Prop) : Prop := ∀ w a w', x w = (.ok a, w') → Q a

theorem Post_liftExcept {α} (x : Except Err α) (Q : α → Prop) (h : ∀ a, x = .ok a → Q a) : Post (liftExcept x) Q := by
  intro w a w' hx
  simp only [liftExcept_run, Prod.mk.injEq] at hx
  exact h a hx.1

theorem Post_bind {α β} {x : M α} {f : α → M β} {Q : β → Prop} (hf : ∀ a, Post (f a) Q) : Post (x >>= f) Q := by
  intro w b w' h
  obtain ⟨a, v, -, h2⟩ := bind_ok_inv h
  exact hf a v b w' h2

theorem Post_bind_of {α β} {x : M α} {f : α → M β} {P : α → Prop} {Q : β → Prop} (hx : Post x P)
    (hf : ∀ a, P a → Post (f a) Q) : Post (x >>= f) Q := by
  intro w b w' h
  obtain ⟨a, v, h1, h2⟩ := bind_ok_inv h
  exact hf a (hx w a v h1) v b w' h2

theorem Post_withLock {α} (l : Nat) {body : M α} {Q : α → Prop} (hb : Post body Q) : Post (withLock l body) Q := by
  intro w a w' h
  rw [withLock_run] at h
  split at h
  · simp at h
  · simp only [Prod.mk.injEq] at h
    cases hbw : body { w with locks := l :: w.locks } with
    | mk r v =>
      rw [hbw] at h
      simp only at h
      exact hb _ a v (by rw [hbw, h.1])

theorem Post_pure {α} (a : α) (Q : α → Prop) (h : Q a) : Post (pure a : M α) Q := by
  intro w b w' hx
  simp only [pure_run, Prod.mk.injEq, Except.ok.injEq] at hx
  rw [← hx.1]; exact h

/-- `_AdbTransactionInfo.__init__` keeps the read timeout numeric and non-negative -/
theorem Txn.make_rtOk (l r : Option Nat) (tt rt total : Timeout) (t : Txn) (hrt : RtOk rt) (htot : TotOk total)
    (h : Txn.make l r tt rt total = .ok t) : RtOk t.rt := by
  obtain ⟨x, rfl, hx⟩ := hrt
  unfold Txn.make at h
  cases total with
  | none =>
    simp only [if_true, pure, Except.pure, bind, Except.bind] at h
    split at h
    · simp only [Except.ok.injEq] at h; subst h; exact ⟨x, rfl, hx⟩
    · split at h
      · cases h
      · simp only [Except.ok.injEq] at h; subst h; exact ⟨x, rfl, hx⟩
  | some y =>
    have hy := htot y rfl
    simp only [reduceCtorEq, if_false, pyMin, bind, Except.bind] at h
    split at h
    · simp only [pure, Except.pure, Except.ok.injEq] at h; subst h; exact ⟨min x y, rfl, by omega⟩
    · split at h
      · cases h
      · simp only [pure, Except.pure, Except.ok.injEq] at h; subst h; exact ⟨min x y, rfl, by omega⟩

theorem Ins_getTT (tt : Timeout) : Ins (getTT tt) := Ins_of_silent fun _ _ _ _ => rfl
macro_rules | `(tactic| fins_lemma) => `(tactic| with_reducible exact Ins_getTT _)

/-- the transaction-info part of `_open` -/
def openTxn (tt rt total : Timeout) : M Txn :=
  withLock lockLocalId do
    M.modify fun w => { w with localId := nextId w.localId }
    let w ← M.get
    let tt' ← getTT tt
    liftExcept (Txn.make (some w.localId) none tt' rt total)

theorem Ins_openTxn (tt rt total : Timeout) : Ins (openTxn tt rt total) := by
  unfold openTxn
  fins

theorem Post_openTxn (tt rt total : Timeout) (hrt : RtOk rt) (htot : TotOk total) :
    Post (openTxn tt rt total) (fun t => RtOk t.rt) := by
  unfold openTxn
  refine Post_withLock _ (Post_bind fun _ => Post_bind fun w => Post_bind fun tt' => Post_liftExcept _ _ ?_)
  intro t ht
  exact Txn.make_rtOk _ _ _ _ _ t hrt htot ht

theorem openStream_eq (dest : Bytes) (tt rt total : Timeout) :
    openStream dest tt rt total = (openTxn tt rt total >>= fun t => do
      ioSend ⟨.OPEN, t.localId.getD 0, 0, dest ++ [0]⟩ t
      let p ← ioRead [.OKAY] t
      pure { t with remoteId := some p.arg0 }) := rfl

theorem Ins_openStream (dest : Bytes) (tt rt total : Timeout) (hrt : RtOk rt) (htot : TotOk total) :
    Ins (openStream dest tt rt total) := by
  rw [openStream_eq]
  refine Ins_bind_post _ (Ins_openTxn tt rt total) (Post_openTxn tt rt total hrt htot) ?_
  intro t ht
  fins

theorem Post_openStream (dest : Bytes) (tt rt total : Timeout) (hrt : RtOk rt) (htot : TotOk total) :
    Post (openStream dest tt rt total) (fun t => RtOk t.rt) := by
  rw [openStream_eq]
  refine Post_bind_of (Post_openTxn tt rt total hrt htot) ?_
  intro t ht
  exact Post_bind fun _ => Post_bind fun p => Post_pure _ _ ht

/-- `let t ← _open(…); rest t` -/
theorem Ins_openStream_bind {β} (dest : Bytes) (tt rt total : Timeout) {f : Txn → M β} (hrt : RtOk rt)
    (htot : TotOk total) (hf : ∀ t, RtOk t.rt → Ins (f t)) : Ins (openStream dest tt rt total >>= f) :=
  Ins_bind_post _ (Ins_openStream dest tt rt total hrt htot) (Post_openStream dest tt rt total hrt htot) hf

theorem TotOk_none : TotOk none := by intro l h; cases h

theorem Ins_okay (t : Txn) : Ins (okay t) := by
  unfold okay
  fins
macro_rules | `(tactic| fins_lemma) => `(tactic| with_reducible exact Ins_okay _)

theorem Ins_readUntil (ex : List Cmd) (t : Txn) (h : RtOk t.rt) : Ins (readUntil ex t) := by
  unfold readUntil
  fins
macro_rules | `(tactic| fins_lemma) => `(tactic| with_reducible exact Ins_readUntil _ _ (by assumption))

theorem Ins_clse (t : Txn) (h : RtOk t.rt) : Ins (clse t) := by
  unfold clse
  fins
macro_rules | `(tactic| fins_lemma) => `(tactic| with_reducible exact Ins_clse _ (by assumption))

theorem Ins_readUntilCloseLoop (t : Txn) (h : RtOk t.rt) (start : Int) :
    ∀ fuel acc, Ins (readUntilCloseLoop t start fuel acc) := by
  intro fuel
  induction fuel with
  | zero => intro acc; unfold readUntilCloseLoop; fins
  | succ f ih =>
    intro acc
    unfold readUntilCloseLoop
    fins [ih]
macro_rules | `(tactic| fins_lemma) => `(tactic| with_reducible exact Ins_readUntilCloseLoop _ (by assumption) _ _ _)

theorem Ins_readUntilClose (t : Txn) (h : RtOk t.rt) : Ins (readUntilClose t) := by
  unfold readUntilClose
  fins
macro_rules | `(tactic| fins_lemma) => `(tactic| with_reducible exact Ins_readUntilClose _ (by assumption))

theorem Ins_streamingCommand (svc cmd : Bytes) (tt rt total : Timeout) (hrt : RtOk rt) (htot : TotOk total) :
    Ins (streamingCommand svc cmd tt rt total) := by
  unfold streamingCommand
  refine Ins_openStream_bind _ _ _ _ hrt htot ?_
  intro t ht
  fins

theorem Ins_service (svc cmd : Bytes) (tt rt total : Timeout) (dec : Bool) (hrt : RtOk rt) (htot : TotOk total) :
    Ins (service svc cmd tt rt total dec) := by
  unfold service
  exact Ins_bind (Ins_streamingCommand svc cmd tt rt total hrt htot) fun _ => Ins_pure _

theorem Ins_streamingService (svc cmd : Bytes) (tt rt : Timeout) (dec : Bool) (hrt : RtOk rt) :
    Ins (streamingService svc cmd tt rt dec) := by
  unfold streamingService
  exact Ins_bind (Ins_streamingCommand svc cmd tt rt none hrt TotOk_none) fun _ => Ins_pure _

end Adb.Frag
