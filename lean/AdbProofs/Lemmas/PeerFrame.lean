import AdbProofs.Lemmas.WireLemmas
import AdbProofs.Lemmas.Deliver
import AdbProofs.Properties.C02
/-
  The peer-side frame discipline for C02 at API level.  `Pw s x` says, for every run of `x`:
  the trace only grows, and what the peer received (on all connections, `World.peerAll`) grows by
  exactly the encodings of the messages handed to `_send` during the run (`transmitted` of the new
  events) — all of them packable and complete — except that when `x` RAISED the last transmitted
  message may have reached the peer only as a proper prefix of its encoding (nothing at all when it
  was not packable).  `s = true` ("strict") adds: the list of closed connections did not change.
  With `s = false` the run may have closed the transport, but only on a path that raised.
  Proved once per model function with the `pw` tactic (same style as `fr` in Frame.lean);
  `sendRaw` is the only function that writes (C15), everything else appends nothing.
-/
namespace Adb

/-- bytes the peer has received on all connections so far, oldest connection first -/
def World.peerAll (w : World) : Bytes := (w.past.reverse).flatten ++ w.peerGot

namespace PeerF

/-- concatenated encodings -/
def flat (ms : List Msg) : Bytes := (ms.map Msg.encode).flatten

@[simp] theorem flat_nil : flat [] = [] := rfl
@[simp] theorem flat_append (a b : List Msg) : flat (a ++ b) = flat a ++ flat b := by simp [flat]
@[simp] theorem flat_singleton (m : Msg) : flat [m] = m.encode := by simp [flat]

/-- the call raised -/
def Failed {α} (r : Except Err α) : Prop := ∃ e, r = .error e

theorem not_failed_ok {α} (a : α) : ¬ Failed (.ok a : Except Err α) := by
  rintro ⟨e, h⟩; cases h
theorem failed_error {α} (e : Err) : Failed (.error e : Except Err α) := ⟨e, rfl⟩

/-- `bs` is whole packable messages, optionally followed by a proper prefix of one more -/
def WellFormedStream (bs : Bytes) : Prop :=
  ∃ ms tail, (∀ m ∈ ms, m.Packable) ∧ bs = flat ms ++ tail ∧
    (tail = [] ∨ ∃ (m : Msg) (k : Nat), m.Packable ∧ k < m.encode.length ∧ tail = m.encode.take k)

/-- Going from received bytes `a` to `b` while handing the messages `T` to `_send`:
    either every message is packable and arrived whole, or (only when `err`) all but the last did and
    the last arrived as a proper prefix (empty if it was not packable). -/
inductive Out (err : Prop) (T : List Msg) (a b : Bytes) : Prop
  | whole (hp : ∀ m ∈ T, m.Packable) (hb : b = a ++ flat T)
  | broken (ms : List Msg) (m : Msg) (k : Nat) (he : err) (hT : T = ms ++ [m]) (hp : ∀ x ∈ ms, x.Packable)
      (hk : k < m.encode.length) (hu : ¬ m.Packable → k = 0) (hb : b = a ++ flat ms ++ m.encode.take k)

theorem Out.nil {err : Prop} (a : Bytes) : Out err [] a a := .whole (by simp) (by simp)

theorem Out.mono {e1 e2 : Prop} {T a b} (h : Out e1 T a b) (he : e1 → e2) : Out e2 T a b := by
  cases h with
  | whole hp hb => exact .whole hp hb
  | broken ms m k h1 hT hp hk hu hb => exact .broken ms m k (he h1) hT hp hk hu hb

/-- a part that did not raise followed by any part -/
theorem Out.trans {err : Prop} {T1 T2 a b c} (h1 : Out False T1 a b) (h2 : Out err T2 b c) :
    Out err (T1 ++ T2) a c := by
  cases h1 with
  | broken _ _ _ he => exact he.elim
  | whole hp1 hb1 =>
    cases h2 with
    | whole hp2 hb2 =>
      refine .whole ?_ (by rw [hb2, hb1, flat_append, List.append_assoc])
      intro m hm
      rcases List.mem_append.1 hm with h | h
      · exact hp1 m h
      · exact hp2 m h
    | broken ms m k he hT hp hk hu hb =>
      refine .broken (T1 ++ ms) m k he (by rw [hT, List.append_assoc]) ?_ hk hu
        (by rw [hb, hb1, flat_append]; simp only [List.append_assoc])
      intro x hx
      rcases List.mem_append.1 hx with h | h
      · exact hp1 x h
      · exact hp x h

/-- the bytes added are a well-formed stream -/
theorem Out.wellFormed {err : Prop} {T a b} (h : Out err T a b) : ∃ bs, b = a ++ bs ∧ WellFormedStream bs := by
  cases h with
  | whole hp hb => exact ⟨flat T, hb, T, [], hp, by simp, Or.inl rfl⟩
  | broken ms m k he hT hp hk hu hb =>
    refine ⟨flat ms ++ m.encode.take k, by rw [hb, List.append_assoc], ms, m.encode.take k, hp, rfl, ?_⟩
    by_cases hm : m.Packable
    · exact Or.inr ⟨m, k, hm, hk, rfl⟩
    · left; rw [hu hm]; rfl

/-- no exception: everything arrived whole -/
theorem Out.of_ok {T a b} (h : Out False T a b) : (∀ m ∈ T, m.Packable) ∧ b = a ++ flat T := by
  cases h with
  | whole hp hb => exact ⟨hp, hb⟩
  | broken _ _ _ he => exact he.elim

/-- The per-function predicate (see the header comment). -/
def Pw (s : Bool) {α : Type} (x : M α) : Prop :=
  ∀ w r w', x w = (r, w') →
    ∃ evs, w'.trace = evs ++ w.trace ∧ Out (Failed r) (transmitted evs) w.peerAll w'.peerAll ∧
      (w'.past = w.past ∨ (s = false ∧ Failed r))

theorem peerAll_congr {w w' : World} (h1 : w'.cur = w.cur) (h2 : w'.past = w.past) : w'.peerAll = w.peerAll := by
  simp [World.peerAll, World.peerGot, h1, h2]

/-- `x` changes neither the trace nor the connection nor the list of closed connections -/
theorem Pw_of_same {s α} {x : M α}
    (h : ∀ w, (x w).2.trace = w.trace ∧ (x w).2.cur = w.cur ∧ (x w).2.past = w.past) : Pw s x := by
  intro w r w' hx
  obtain ⟨h1, h2, h3⟩ := h w
  rw [hx] at h1 h2 h3
  refine ⟨[], by simpa using h1, ?_, Or.inl h3⟩
  rw [peerAll_congr h2 h3]
  exact Out.nil _

theorem Pw_pure {s α} (a : α) : Pw s (pure a : M α) := Pw_of_same fun _ => ⟨rfl, rfl, rfl⟩
theorem Pw_Mpure {s α} (a : α) : Pw s (M.pure a : M α) := Pw_of_same fun _ => ⟨rfl, rfl, rfl⟩
theorem Pw_throw {s α} (e : Err) : Pw s (M.throw e : M α) := Pw_of_same fun _ => ⟨rfl, rfl, rfl⟩
theorem Pw_get {s} : Pw s M.get := Pw_of_same fun _ => ⟨rfl, rfl, rfl⟩
theorem Pw_now {s} : Pw s now := Pw_of_same fun _ => ⟨rfl, rfl, rfl⟩
theorem Pw_liftExcept {s α} (x : Except Err α) : Pw s (liftExcept x) := Pw_of_same fun _ => ⟨rfl, rfl, rfl⟩
theorem Pw_elapsedGt {s} (st : Int) (l : Timeout) : Pw s (elapsedGt st l) :=
  Pw_of_same fun w => by unfold elapsedGt; cases l <;> exact ⟨rfl, rfl, rfl⟩
theorem Pw_modify {s} {f : World → World}
    (hf : ∀ w, (f w).trace = w.trace ∧ (f w).cur = w.cur ∧ (f w).past = w.past) : Pw s (M.modify f) :=
  Pw_of_same hf

/-- recording an event that is not a transmission -/
theorem Pw_emit {s} (e : TEv) (he : transmitted [e] = []) : Pw s (emit e) := by
  intro w r w' hx
  simp only [emit_run, Prod.mk.injEq] at hx
  obtain ⟨-, rfl⟩ := hx
  refine ⟨[e], rfl, ?_, Or.inl rfl⟩
  rw [he]
  exact Out.nil _

theorem Pw_bind {s α β} {x : M α} {f : α → M β} (hx : Pw s x) (hf : ∀ a, Pw s (f a)) : Pw s (x >>= f) := by
  intro w r w' h
  rcases bind_any_inv h with ⟨e, he, rfl⟩ | ⟨a, w1, he, hrest⟩
  · obtain ⟨evs, ht, ho, hp⟩ := hx w _ _ he
    refine ⟨evs, ht, ho.mono (fun _ => failed_error e), ?_⟩
    rcases hp with hp | ⟨hs, _⟩
    · exact Or.inl hp
    · exact Or.inr ⟨hs, failed_error e⟩
  · obtain ⟨e1, ht1, ho1, hp1⟩ := hx w _ _ he
    obtain ⟨e2, ht2, ho2, hp2⟩ := hf a w1 _ _ hrest
    have hp1' : w1.past = w.past := by
      rcases hp1 with hp | ⟨_, hf⟩
      · exact hp
      · exact (not_failed_ok a hf).elim
    refine ⟨e2 ++ e1, by rw [ht2, ht1, List.append_assoc], ?_, ?_⟩
    · rw [transmitted_append]
      exact Out.trans (ho1.mono (not_failed_ok a)) ho2
    · rcases hp2 with hp | hp
      · exact Or.inl (hp.trans hp1')
      · exact Or.inr hp

theorem Pw_ite {s α} {c : Prop} [Decidable c] {a b : M α} (ha : Pw s a) (hb : Pw s b) :
    Pw s (if c then a else b) := by
  split <;> assumption

theorem Pw_withLock {s α} (l : Nat) {body : M α} (hb : Pw s body) : Pw s (withLock l body) := by
  intro w r w' h
  by_cases hl : l ∈ w.locks
  · rw [withLock_run, if_pos hl] at h
    simp only [Prod.mk.injEq] at h
    obtain ⟨-, rfl⟩ := h
    exact ⟨[], rfl, Out.nil _, Or.inl rfl⟩
  · obtain ⟨w1, hb1, rfl⟩ := withLock_any_inv h hl
    obtain ⟨evs, ht, ho, hp⟩ := hb _ _ _ hb1
    exact ⟨evs, ht, ho, hp⟩

/-- extensible: one alternative per proved `Pw` lemma -/
syntax "pw_lemma" : tactic
macro_rules | `(tactic| pw_lemma) => `(tactic| with_reducible exact Pw_pure _)
macro_rules | `(tactic| pw_lemma) => `(tactic| with_reducible exact Pw_Mpure _)
macro_rules | `(tactic| pw_lemma) => `(tactic| with_reducible exact Pw_throw _)
macro_rules | `(tactic| pw_lemma) => `(tactic| with_reducible exact Pw_get)
macro_rules | `(tactic| pw_lemma) => `(tactic| with_reducible exact Pw_now)
macro_rules | `(tactic| pw_lemma) => `(tactic| with_reducible exact Pw_liftExcept _)
macro_rules | `(tactic| pw_lemma) => `(tactic| exact Pw_emit _ rfl)
macro_rules | `(tactic| pw_lemma) => `(tactic| with_reducible exact Pw_elapsedGt _ _)

/-- structural decomposition of a `do` block; `pw [ih]` also tries the induction hypothesis `ih` -/
syntax "pw" ("[" term "]")? : tactic
macro_rules
  | `(tactic| pw) => `(tactic| pw [@Pw_get])
  | `(tactic| pw [$h]) => `(tactic| first
    | pw_lemma
    | with_reducible assumption
    | with_reducible exact $h
    | with_reducible exact $h _
    | with_reducible exact $h _ _
    | with_reducible exact $h _ _ _
    | (with_reducible apply Pw_bind) <;> (first | (intro _; pw [$h]) | pw [$h])
    | (with_reducible apply Pw_withLock); pw [$h]
    | (with_reducible apply Pw_modify); intro _; exact ⟨rfl, rfl, rfl⟩
    | (with_reducible apply Pw_ite) <;> pw [$h]
    | (split <;> pw [$h])
    | (dsimp only; pw [$h])
    | (intro _; pw [$h]))

/-! ### the transport and `_send` -/

theorem SameDevice.past_eq {w w' : World} (h : SameDevice w w') : w'.past = w.past := by
  unfold SameDevice at h
  exact h.2.2.2.2.2.2.2.2.2.1

theorem peerAll_of {w w' : World} (hp : w'.past = w.past) : w'.peerAll = (w.past.reverse).flatten ++ w'.peerGot := by
  simp [World.peerAll, hp]

theorem Pw_waitTimeout {s α} (tt : Timeout) : Pw s (waitTimeout tt : M α) :=
  Pw_of_same fun w => by unfold waitTimeout; cases tt <;> exact ⟨rfl, rfl, rfl⟩

/-- a read appends nothing to what the peer has (C03) -/
theorem Pw_bulkRead {s} (n : Nat) (tt : Timeout) : Pw s (bulkRead n tt) := by
  intro w r w' h
  obtain ⟨sd, hpg, htr, -, -⟩ := bulkRead_spec n tt w r w' h
  refine ⟨[], by simpa using htr, ?_, Or.inl (SameDevice.past_eq sd)⟩
  have : w'.peerAll = w.peerAll := by rw [peerAll_of (SameDevice.past_eq sd), hpg]; rfl
  rw [this]
  exact Out.nil _

/-- `_write_all` of non-empty data that raises left a PROPER prefix with the peer -/
theorem writeAllLoop_err_strict (t : Txn) (start : Int) (fuel : Nat) (data : Bytes) (w : World)
    (e : Err) (w' : World) (hd : data ≠ []) (h : writeAllLoop t start fuel data w = (.error e, w')) :
    ∃ k, k < data.length ∧ w'.peerGot = w.peerGot ++ data.take k := by
  induction fuel generalizing data w with
  | zero =>
    have hpos : 0 < data.length := List.length_pos_iff.2 hd
    simp only [writeAllLoop, M.throw_run, Prod.mk.injEq] at h
    obtain ⟨-, rfl⟩ := h
    exact ⟨0, hpos, by simp⟩
  | succ fuel ih =>
    have hpos : 0 < data.length := List.length_pos_iff.2 hd
    rw [writeAllLoop, bind_run] at h
    rcases hb : bulkWrite data t.tt w with ⟨r1, w1⟩
    obtain ⟨-, -, -, hsome, -, herr⟩ := bulkWrite_spec _ _ _ _ _ hb
    rw [hb] at h
    cases r1 with
    | error e1 =>
      simp only [Prod.mk.injEq] at h; obtain ⟨-, rfl⟩ := h
      exact ⟨0, hpos, by simp [herr e1 rfl]⟩
    | ok nw =>
      cases nw with
      | none => simp [pure_run] at h
      | some k =>
        obtain ⟨hk, hpg⟩ := hsome k rfl
        simp only at h
        split at h
        · simp [pure_run] at h
        · next hlt =>
          have hlt' : k < data.length := by omega
          rw [timeoutCheck_run] at h
          split at h
          · simp only [Prod.mk.injEq] at h; obtain ⟨-, rfl⟩ := h
            exact ⟨k, hlt', hpg⟩
          · split at h
            · simp only [Prod.mk.injEq] at h; obtain ⟨-, rfl⟩ := h
              exact ⟨k, hlt', hpg⟩
            · have hne : data.drop k ≠ [] := by
                intro h0
                have := congrArg List.length h0
                simp at this; omega
              obtain ⟨k2, hk2, hpg2⟩ := ih _ _ hne h
              simp only [List.length_drop] at hk2
              refine ⟨k + k2, by omega, ?_⟩
              rw [hpg2, hpg, List.append_assoc, List.take_add]

theorem writeAll_err_strict (data : Bytes) (t : Txn) (w : World) (e : Err) (w' : World) (hd : data ≠ [])
    (h : writeAll data t w = (.error e, w')) :
    ∃ k, k < data.length ∧ w'.peerGot = w.peerGot ++ data.take k := by
  simp only [writeAll, bind_run, now_run, M.get_run] at h
  exact writeAllLoop_err_strict _ _ _ _ _ _ _ hd h

/-- `_send` that raises left a PROPER prefix of the encoding with the peer; nothing if not packable -/
theorem sendRaw_err_strict (m : Msg) (t : Txn) (w : World) (e : Err) (w' : World)
    (h : sendRaw m t w = (.error e, w')) :
    ∃ k, k < m.encode.length ∧ (¬ m.Packable → k = 0) ∧ w'.peerGot = w.peerGot ++ m.encode.take k := by
  have hlen : m.packHdr.length = 24 := by simp [Msg.packHdr]
  have henc : m.encode.length = 24 + m.data.length := by simp [Msg.encode, hlen]
  by_cases hp : m.Packable
  · simp only [sendRaw, bind_run, emit_run] at h
    have hpg0 : ({ w with trace := .tx m :: w.trace } : World).peerGot = w.peerGot := rfl
    generalize ({ w with trace := .tx m :: w.trace } : World) = w0 at h hpg0
    unfold Msg.pack? at h
    simp only [hp, if_true] at h
    rcases h1 : writeAll m.packHdr t w0 with ⟨r1, w1⟩
    rw [bind_run, h1] at h
    cases r1 with
    | error e1 =>
      simp only [Prod.mk.injEq] at h; obtain ⟨-, rfl⟩ := h
      have hne : m.packHdr ≠ [] := by intro h0; rw [h0] at hlen; simp at hlen
      obtain ⟨k1, hk1, hpg1⟩ := writeAll_err_strict _ _ _ _ _ hne h1
      refine ⟨k1, by omega, fun hn => (hn hp).elim, ?_⟩
      rw [hpg1, hpg0, Msg.encode, List.take_append_of_le_length (by omega)]
    | ok u =>
      have hpg1 := (writeAll_spec _ _ _ _ _ h1).2.2.2.2 rfl
      simp only at h
      by_cases hd : m.data.isEmpty
      · simp [hd, pure_run] at h
      · simp only [hd, Bool.not_false, if_true] at h
        have hne : m.data ≠ [] := by simpa using hd
        obtain ⟨k2, hk2, hpg2⟩ := writeAll_err_strict _ _ _ _ _ hne h
        refine ⟨24 + k2, by omega, fun hn => (hn hp).elim, ?_⟩
        rw [hpg2, hpg1, hpg0, Msg.encode, List.append_assoc, ← hlen, List.take_length_add_append]
  · rw [C15_unpackable m t w hp] at h
    simp only [Prod.mk.injEq] at h
    obtain ⟨-, rfl⟩ := h
    exact ⟨0, by omega, fun _ => rfl, by simp; rfl⟩
where
  C15_unpackable (m : Msg) (t : Txn) (w : World) (hp : ¬ m.Packable) :
      sendRaw m t w = (.error .pyStructError, { w with trace := .tx m :: w.trace }) := by
    simp [sendRaw, bind_run, Msg.pack?, hp]

/-- `_send` is the one function that writes: the whole encoding of a packable message on a normal
    return, a proper prefix of it when it raises (C15) -/
theorem Pw_sendRaw {s} (m : Msg) (t : Txn) : Pw s (sendRaw m t) := by
  intro w r w' h
  obtain ⟨sd, -, htr, -, hok⟩ := sendRaw_spec m t w r w' h
  have hpast := SameDevice.past_eq sd
  refine ⟨[.tx m], by simp [htr], ?_, Or.inl hpast⟩
  have hT : transmitted [TEv.tx m] = [m] := rfl
  rw [hT, peerAll_of hpast]
  cases r with
  | ok u =>
    obtain ⟨hp, hpg⟩ := hok rfl
    refine .whole (by simpa using hp) ?_
    rw [hpg, flat_singleton, World.peerAll, List.append_assoc]
  | error e =>
    obtain ⟨k, hk, hu, hpg⟩ := sendRaw_err_strict m t w e w' h
    refine .broken [] m k (failed_error e) rfl (by simp) hk hu ?_
    rw [hpg, World.peerAll]
    simp [List.append_assoc]

macro_rules | `(tactic| pw_lemma) => `(tactic| with_reducible exact Pw_waitTimeout _)
macro_rules | `(tactic| pw_lemma) => `(tactic| with_reducible exact Pw_bulkRead _ _)
macro_rules | `(tactic| pw_lemma) => `(tactic| with_reducible exact Pw_sendRaw _ _)

end PeerF
end Adb
