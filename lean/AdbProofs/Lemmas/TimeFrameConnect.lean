import AdbProofs.Lemmas.TimeFrameSync
/-
  The time frame for `connect` and `close`.  `connect` runs under the transport lock on a FRESH connection and
  clears the packet store first, so it has its own small frame (`HF`): the same accounting as `TF` (one wait per
  delivered packet, one or two write waits per `_send`), without the packet store.  The wait that follows the
  public key uses `auth_timeout_s` as transport timeout; `P.τ` bounds both timeouts.
-/
namespace Adb
variable {P : TP} {X : Int}

/-! ### the handshake frame: `connect` runs under the transport lock, on a fresh connection and an empty store -/

/-- a wait that returns a packet delivered exactly that packet; a failing wait delivered nothing -/
def RxPost (w : World) (r : Except Err Pkt) (w' : World) : Prop :=
  match r with
  | .ok p => Adds w w' [.rx p] []
  | .error _ => Adds w w' [] []

theorem expectLoop_adds (ex : List Cmd) (t : Txn) (start : Int) : ∀ (fuel : Nat) (w w' : World) (r : Except Err Pkt),
    expectLoop ex t start fuel w = (r, w') → RxPost w r w' := by
  intro fuel
  induction fuel with
  | zero =>
    intro w w' r h
    simp only [expectLoop, M.throw_run, Prod.mk.injEq] at h
    obtain ⟨rfl, rfl⟩ := h
    exact (Adds.rfl' _ : Adds w w [] [])
  | succ n ih =>
    intro w w' r h
    unfold expectLoop at h
    rcases bind_any_inv h with ⟨e, he, rfl⟩ | ⟨p, w1, hp, hrest⟩
    · exact (Qt.adds (Qt_readPacket t) he : Adds w w' [] [])
    · have h1 : Adds w w1 [] [] := Qt.adds (Qt_readPacket t) hp
      simp only at hrest
      split at hrest
      · simp only [bind_run, emit_run, pure_run, Prod.mk.injEq] at hrest
        obtain ⟨rfl, rfl⟩ := hrest
        have h2 : Adds w1 { w1 with trace := .deliver p :: w1.trace } [.rx p] [] := Adds.deliver rfl
        exact (by simpa using h1.trans h2 : Adds w _ [.rx p] [])
      · rcases bind_any_inv hrest with ⟨e, he, _⟩ | ⟨_, w2, hem, hrest2⟩
        · simp at he
        · simp only [emit_run, Prod.mk.injEq] at hem
          have h2 : Adds w1 w2 [] [] := Adds.silent (e := .skip p) rfl (by rw [← hem.2])
          rcases bind_any_inv hrest2 with ⟨e, he, rfl⟩ | ⟨b, w3, hel, hrest3⟩
          · have h3 : Adds w2 w' [] [] := Qt.adds (Qt_elapsedGt _ _) he
            exact (by simpa using (h1.trans h2).trans h3 : Adds w w' [] [])
          · have h3 : Adds w2 w3 [] [] := Qt.adds (Qt_elapsedGt _ _) hel
            have h123 : Adds w w3 [] [] := by simpa using (h1.trans h2).trans h3
            split at hrest3
            · simp only [bind_run, M.throw_run, Prod.mk.injEq] at hrest3
              obtain ⟨rfl, rfl⟩ := hrest3
              exact h123
            · have h4 := ih _ _ _ hrest3
              cases r with
              | ok q => have h4' : Adds w3 w' [.rx q] [] := h4; exact (by simpa using h123.trans h4' : Adds w w' [.rx q] [])
              | error e => have h4' : Adds w3 w' [] [] := h4; exact (by simpa using h123.trans h4' : Adds w w' [] [])

theorem expectPacket_adds {ex : List Cmd} {t : Txn} {w w' : World} {r : Except Err Pkt}
    (h : expectPacket ex t w = (r, w')) : RxPost w r w' := by
  simp only [expectPacket, bind_run, now_run, M.get_run] at h
  exact expectLoop_adds ex t _ _ _ _ _ h

structure HPost (P : TP) (w : World) (ok : Bool) (w' : World) : Prop where
  cost : w'.CallCost P.D
  fuel : w'.fuel = w.fuel
  locks : w'.locks = w.locks
  dtt : w'.defaultTT = w.defaultTT
  files : w'.files = w.files
  mono : w.now ≤ w'.now
  time : w'.now - w.now ≤ w'.tcost P - w.tcost P + (if ok then 0 else P.W)

/-- the frame of one handshake step (lock set arbitrary, store not used) -/
def HFat {α : Type} (P : TP) (w : World) (r : Except Err α) (w' : World) : Prop :=
  Ext w w' ∧ (w.CallCost P.D → P.R < w.fuel → isHang r = false ∧ HPost P w (okB r) w')

def HF {α : Type} (P : TP) (x : M α) : Prop := ∀ w r w', x w = (r, w') → HFat P w r w'

theorem HF_bind {α β} {x : M α} {f : α → M β} (hx : HF P x) (hf : ∀ a, HF P (f a)) : HF P (x >>= f) := by
  intro w r w' h
  have hW := P.W_pos
  rcases bind_any_inv h with ⟨e, he, rfl⟩ | ⟨a, w1, hxa, hfa⟩
  · obtain ⟨e1, h1⟩ := hx w _ w' he
    refine ⟨e1, fun hc hf => ?_⟩
    simpa [isHang_error] using h1 hc hf
  · obtain ⟨e1, h1⟩ := hx w _ w1 hxa
    obtain ⟨e2, h2⟩ := hf a w1 r w' hfa
    refine ⟨e1.trans e2, fun hc hfu => ?_⟩
    obtain ⟨_, a1⟩ := h1 hc hfu
    obtain ⟨b0, b1⟩ := h2 a1.cost (by rw [a1.fuel]; exact hfu)
    have t1 := a1.time
    have t2 := b1.time
    simp only [okB_ok, if_true] at t1
    refine ⟨b0, b1.cost, b1.fuel.trans a1.fuel, b1.locks.trans a1.locks, b1.dtt.trans a1.dtt, b1.files.trans a1.files,
      by have := a1.mono; have := b1.mono; omega, ?_⟩
    split at t2 <;> simp_all <;> omega

theorem HF_ite {α} {c : Prop} [Decidable c] {a b : M α} (ha : HF P a) (hb : HF P b) : HF P (if c then a else b) := by
  split <;> assumption

theorem TQ.hf {α} {x : M α} (hx : TQ x) : HF P x := by
  intro w r w' h
  have q := hx.at h
  obtain ⟨Y, ha⟩ := q.adds
  have hW := P.W_pos
  refine ⟨ha.ext, fun hc _ => ⟨q.nohang, hc.of_cur_eq q.cur, q.fuel, q.locks, q.dtt, q.files, by rw [q.now]; omega, ?_⟩⟩
  obtain ⟨_, _, _, hcst⟩ := ha.pot P
  rw [hcst, q.now]
  split <;> simp <;> omega

theorem HF_tClose : HF P tClose := by
  intro w r w' h
  have hW := P.W_pos
  have ha : Adds w w' [] [] ∧ r = .ok () ∧ w'.now = w.now ∧ w'.fuel = w.fuel ∧ w'.locks = w.locks ∧
      w'.defaultTT = w.defaultTT ∧ w'.files = w.files ∧ w'.cur = none := by
    unfold tClose at h
    split at h <;>
    ( simp only [Prod.mk.injEq] at h
      obtain ⟨rfl, rfl⟩ := h
      exact ⟨Adds.silent (e := .tclose) rfl rfl, rfl, rfl, rfl, rfl, rfl, rfl, by first | assumption | rfl⟩ )
  obtain ⟨ha, rfl, h1, h2, h3, h4, h5, h6⟩ := ha
  refine ⟨ha.ext, fun _ _ => ⟨rfl, ?_, h2, h3, h4, h5, by omega, ?_⟩⟩
  · intro c hcur; rw [h6] at hcur; simp at hcur
  · obtain ⟨_, _, _, hcst⟩ := ha.pot P
    rw [hcst, h1]; simp

/-- a transport timeout `τ0 ≤ P.τ` only makes the waits shorter -/
theorem HF_sendRaw (m : Msg) (t : Txn) {τ0 : Int} (hrt : t.rt = some P.R) (htt : t.tt = some τ0) (h0 : 0 ≤ τ0)
    (hle : τ0 ≤ P.τ) : HF P (sendRaw m t) := by
  intro w r w' h
  have hfr := Fr_sendRaw m t w
  rw [h] at hfr
  refine ⟨hfr.ext, fun hc hfu => ?_⟩
  obtain ⟨a1, a2, a3, a4, a5, a6⟩ := sendRaw_time m t P.R τ0 P.D w r w' h hrt htt P.hR h0 hc (by omega)
  obtain ⟨_, _, _, hcst⟩ := (sendRaw_adds h).pot P
  have hW := P.W_pos
  refine ⟨isHang_of_mem a5 hang_not_mem_sendErrs, a1, hfr.fuel, hfr.locks, hfr.defaultTT, hfr.files, a2, ?_⟩
  rw [hcst]
  have hS : P.S = P.R + max P.D P.τ := rfl
  have hS0 := P.S_pos
  simp only [rxs_cons_tx, rxs_nil, List.length_nil, txs_cons_tx, txs_nil, List.map_cons, List.map_nil, List.sum_cons,
    List.sum_nil, msgWaits]
  by_cases hd : m.data = []
  · have := a4 hd
    simp [hd]
    split <;> omega
  · have : m.data.isEmpty = false := by simpa using hd
    simp [this]
    split <;> omega

theorem HF_expectPacket (ex : List Cmd) (t : Txn) {τ0 : Int} (hrt : t.rt = some P.R) (htt : t.tt = some τ0) (h0 : 0 ≤ τ0)
    (hle : τ0 ≤ P.τ) : HF P (expectPacket ex t) := by
  intro w r w' h
  have hfr := Fr_expectPacket ex t w
  rw [h] at hfr
  refine ⟨hfr.ext, fun hc hfu => ?_⟩
  obtain ⟨a1, a2, a3, a4, a5, a6⟩ := expectPacket_time ex t P.R τ0 P.D w r w' h hrt htt P.hR h0 hc (by omega)
  have hd := expectPacket_adds h
  have hWe : P.W = P.R + 2 * (P.R + max P.D P.τ) := rfl
  refine ⟨isHang_of_mem a4 hang_not_mem_pktErrs, a1, hfr.fuel, hfr.locks, hfr.defaultTT, hfr.files, a2, ?_⟩
  cases r with
  | ok p =>
    have hd' : Adds w w' [.rx p] [] := hd
    obtain ⟨_, _, _, hcst⟩ := hd'.pot P
    rw [hcst]; simp; omega
  | error e =>
    have hd' : Adds w w' [] [] := hd
    obtain ⟨_, _, _, hcst⟩ := hd'.pot P
    rw [hcst]; simp; omega

syntax "hf" ("[" term "]")? : tactic
macro_rules
  | `(tactic| hf) => `(tactic| hf [TQ_get])
  | `(tactic| hf [$h]) => `(tactic| first
    | (with_reducible apply HF_sendRaw) <;> assumption
    | (with_reducible apply HF_expectPacket) <;> assumption
    | with_reducible exact HF_tClose
    | with_reducible exact $h
    | with_reducible exact $h _
    | with_reducible exact $h _ _
    | (with_reducible apply HF_bind) <;> (first | (intro _; hf [$h]) | hf [$h])
    | (with_reducible apply HF_ite) <;> hf [$h]
    | (dsimp only; hf [$h])
    | (apply TQ.hf; tq)
    | (split <;> hf [$h]))

theorem HF_authLoop (t : Txn) {τ0 : Int} (hrt : t.rt = some P.R) (htt : t.tt = some τ0) (h0 : 0 ≤ τ0) (hle : τ0 ≤ P.τ) :
    ∀ keys last, HF P (authLoop t keys last) := by
  intro keys
  induction keys with
  | nil => intro last; unfold authLoop; hf
  | cons k ks ih => intro last; unfold authLoop; hf [ih]

/-- the handshake proper: everything `_AdbIOManager.connect` does after `transport.connect()` -/
def connHandshake (banner : Bytes) (keys : List Nat) (authTimeout : Timeout) (hasCb : Bool) (t : Txn) : M Nat := do
    sendRaw ⟨.CNXN, Generated.VERSION, Generated.MAX_ADB_DATA, ascii "host::" ++ banner ++ [0]⟩ t
    let p ← expectPacket [.AUTH, .CNXN] t
    if p.cmd ≠ Cmd.AUTH then pure p.arg1 else do
      if keys.isEmpty then do
        tClose
        M.throw .deviceAuth
      match (← authLoop t keys p) with
      | (some maxdata, _) => pure maxdata
      | (none, _) =>
        let pubkey := stubPub (keys.headD 0)
        if hasCb then emit .cbAuth
        sendRaw ⟨.AUTH, Generated.AUTH_RSAPUBLICKEY, 0, pubkey ++ [0]⟩ t
        let t' := { t with tt := authTimeout }
        let p ← expectPacket [.CNXN] t'
        pure p.arg1

theorem ioConnect_eq_handshake (banner : Bytes) (keys : List Nat) (authTimeout : Timeout) (hasCb : Bool) (t : Txn) :
    ioConnect banner keys authTimeout hasCb t = withLock lockTransport (do
      tClose
      withLock lockStore storeClearAll
      tConnect t.tt
      connHandshake banner keys authTimeout hasCb t) := rfl

theorem HF_connHandshake (banner : Bytes) (keys : List Nat) (A : Int) (hasCb : Bool) (t : Txn) {τ0 : Int}
    (hrt : t.rt = some P.R) (htt : t.tt = some τ0) (h0 : 0 ≤ τ0) (hle : τ0 ≤ P.τ) (hA : 0 ≤ A) (hAle : A ≤ P.τ) :
    HF P (connHandshake banner keys (some A) hasCb t) := by
  have hal := HF_authLoop (P := P) t hrt htt h0 hle
  have hrt' : ({ t with tt := some A } : Txn).rt = some P.R := hrt
  have htt' : ({ t with tt := some A } : Txn).tt = some A := rfl
  unfold connHandshake
  hf [hal]

/-- what the steps before the handshake do: no time, nothing delivered or transmitted -/
structure Still (w w' : World) : Prop where
  now : w'.now = w.now
  fuel : w'.fuel = w.fuel
  locks : w'.locks = w.locks
  dtt : w'.defaultTT = w.defaultTT
  files : w'.files = w.files
  adds : Adds w w' [] []

theorem Still.trans {a b c : World} (h1 : Still a b) (h2 : Still b c) : Still a c :=
  ⟨h2.now.trans h1.now, h2.fuel.trans h1.fuel, h2.locks.trans h1.locks, h2.dtt.trans h1.dtt, h2.files.trans h1.files,
    by simpa using h1.adds.trans h2.adds⟩

theorem tClose_still {w w' : World} {r : Except Err Unit} (h : tClose w = (r, w')) :
    r = .ok () ∧ Still w w' ∧ w'.cur = none ∧ w'.conns = w.conns := by
  unfold tClose at h
  split at h <;>
  ( simp only [Prod.mk.injEq] at h
    obtain ⟨rfl, rfl⟩ := h
    exact ⟨rfl, ⟨rfl, rfl, rfl, rfl, rfl, Adds.silent (e := .tclose) rfl rfl⟩, by first | assumption | rfl, rfl⟩ )

theorem clearAll_still {w w' : World} {r : Except Err Unit} (h : withLock lockStore storeClearAll w = (r, w'))
    (hl : lockStore ∉ w.locks) : r = .ok () ∧ Still w w' ∧ w'.cur = w.cur ∧ w'.conns = w.conns ∧ w'.store = [] := by
  obtain ⟨w1, hb, rfl⟩ := withLock_free _ _ _ _ _ h hl
  simp only [storeClearAll, M.modify_run, Prod.mk.injEq] at hb
  obtain ⟨rfl, rfl⟩ := hb
  exact ⟨rfl, ⟨rfl, rfl, by simp, rfl, rfl, Adds.of_trace_eq rfl⟩, rfl, rfl, rfl⟩

theorem tConnect_still {tt : Timeout} {w w' : World} {r : Except Err Unit} (h : tConnect tt w = (r, w')) :
    Still w w' ∧ w'.store = w.store ∧
    ((r = .error .transportError ∧ w'.cur = w.cur) ∨ (r = .ok () ∧ ∃ c, w.conns.head? = some c ∧ w'.cur = some c)) := by
  unfold tConnect at h
  split at h
  · simp only [Prod.mk.injEq] at h
    obtain ⟨rfl, rfl⟩ := h
    exact ⟨⟨rfl, rfl, rfl, rfl, rfl, Adds.silent (e := .tconnect) rfl rfl⟩, rfl, Or.inl ⟨rfl, rfl⟩⟩
  · next c rest hc =>
    split at h <;>
    ( simp only [Prod.mk.injEq] at h
      obtain ⟨rfl, rfl⟩ := h
      refine ⟨⟨rfl, rfl, rfl, rfl, rfl, Adds.silent (e := .tconnect) rfl rfl⟩, rfl, ?_⟩
      first
        | exact Or.inl ⟨rfl, rfl⟩
        | exact Or.inr ⟨rfl, c, by rw [hc]; rfl, rfl⟩ )

theorem Still.hpost {w w' : World} (s : Still w w') (hc : w'.CallCost P.D) (ok : Bool) : HPost P w ok w' := by
  have hW := P.W_pos
  obtain ⟨_, _, _, hcst⟩ := s.adds.pot P
  refine ⟨hc, s.fuel, s.locks, s.dtt, s.files, by rw [s.now]; omega, ?_⟩
  rw [hcst, s.now]
  split <;> simp <;> omega

theorem HPost.trans {a b c : World} {ok : Bool} (h1 : HPost P a true b) (h2 : HPost P b ok c) : HPost P a ok c := by
  have t1 := h1.time
  have t2 := h2.time
  simp only [if_true] at t1
  exact ⟨h2.cost, h2.fuel.trans h1.fuel, h2.locks.trans h1.locks, h2.dtt.trans h1.dtt, h2.files.trans h1.files,
    by have := h1.mono; have := h2.mono; omega, by omega⟩

/-- `_AdbIOManager.connect` with numeric timeouts, no lock held: the next scripted connection must be a
    conforming one (every call on it costs between 1 and `D` ticks) -/
theorem ioConnect_time (banner : Bytes) (keys : List Nat) (A : Int) (hasCb : Bool) (t : Txn) {τ0 : Int}
    (hrt : t.rt = some P.R) (htt : t.tt = some τ0) (h0 : 0 ≤ τ0) (hle : τ0 ≤ P.τ) (hA : 0 ≤ A) (hAle : A ≤ P.τ)
    {w w' : World} {r : Except Err Nat} (h : ioConnect banner keys (some A) hasCb t w = (r, w'))
    (hl : w.locks = []) (hconn : ∀ c, w.conns.head? = some c → 1 ≤ c.dt ∧ c.dt ≤ P.D) (hfu : P.R < w.fuel) :
    isHang r = false ∧ HPost P w (okB r) w' := by
  rw [ioConnect_eq_handshake] at h
  obtain ⟨w1, hb, rfl⟩ := withLock_free _ _ _ _ _ h (by simp [hl])
  -- inside the lock
  have key : ∀ w0 : World, lockStore ∉ w0.locks → (∀ c, w0.conns.head? = some c → 1 ≤ c.dt ∧ c.dt ≤ P.D) → P.R < w0.fuel →
      (do tClose
          withLock lockStore storeClearAll
          tConnect t.tt
          connHandshake banner keys (some A) hasCb t : M Nat) w0 = (r, w1) → isHang r = false ∧ HPost P w0 (okB r) w1 := by
    intro w0 hls hcn hfu0 hrun
    rcases bind_any_inv hrun with ⟨e, he, rfl⟩ | ⟨_, wa, hca, hrest⟩
    · have := (tClose_still he).1; simp at this
    obtain ⟨-, s1, hcur1, hcn1⟩ := tClose_still hca
    rcases bind_any_inv hrest with ⟨e, he, rfl⟩ | ⟨_, wb, hcb, hrest⟩
    · have := (clearAll_still he (by rw [s1.locks]; exact hls)).1; simp at this
    obtain ⟨-, s2, hcur2, hcn2, -⟩ := clearAll_still hcb (by rw [s1.locks]; exact hls)
    rcases bind_any_inv hrest with ⟨e, he, rfl⟩ | ⟨_, wc, hcc, hrest⟩
    · obtain ⟨s3, -, hor⟩ := tConnect_still he
      rcases hor with ⟨he', hcur3⟩ | ⟨he', -⟩
      · simp only [Except.error.injEq] at he'
        subst he'
        have s := (s1.trans s2).trans s3
        refine ⟨rfl, s.hpost ?_ _⟩
        intro c hc; rw [hcur3, hcur2, hcur1] at hc; simp at hc
      · simp at he'
    · obtain ⟨s3, -, hor⟩ := tConnect_still hcc
      rcases hor with ⟨he', -⟩ | ⟨-, c, hhead, hcur3⟩
      · simp at he'
      · have s := (s1.trans s2).trans s3
        have hcc3 : wc.CallCost P.D := by
          intro c' hc'
          rw [hcur3] at hc'
          simp only [Option.some.injEq] at hc'
          subst hc'
          exact hcn c (by rw [← hcn1, ← hcn2]; exact hhead)
        obtain ⟨-, htl⟩ := HF_connHandshake banner keys A hasCb t hrt htt h0 hle hA hAle wc r w1 hrest
        obtain ⟨nh, post⟩ := htl hcc3 (by rw [s.fuel]; exact hfu0)
        exact ⟨nh, (s.hpost hcc3 true).trans post⟩
  obtain ⟨nh, post⟩ := key { w with locks := lockTransport :: w.locks } (by simp [hl, lockStore, lockTransport]) hconn hfu hb
  refine ⟨nh, post.cost, post.fuel, ?_, post.dtt, post.files, post.mono, ?_⟩
  · have := post.locks
    simp only at this ⊢
    rw [this, hl]; simp
  · have hc : ({ w1 with locks := w1.locks.erase lockTransport } : World).tcost P = w1.tcost P := rfl
    have hc0 : ({ w with locks := lockTransport :: w.locks } : World).tcost P = w.tcost P := rfl
    have := post.time
    rw [hc0] at this
    rw [hc]
    exact this

/-- effective timeouts of `connect(rsa_keys, transport_timeout_s, auth_timeout_s, read_timeout_s)`: the read
    timeout is `P.R`; the transport timeout (`τ0`) and the auth timeout (`A`, used for the wait that follows the
    public key) are numbers between `0` and `P.τ` -/
def ConnEff (P : TP) (tt authT rt : Timeout) : Prop :=
  ∃ (t0 : Txn) (τ0 A : Int), Txn.make none none (if tt.isSome then tt else P.dtt) rt none = .ok t0 ∧
    t0.rt = some P.R ∧ t0.tt = some τ0 ∧ 0 ≤ τ0 ∧ τ0 ≤ P.τ ∧ authT = some A ∧ 0 ≤ A ∧ A ≤ P.τ

/-- precondition of `connect`: no lock held and the NEXT scripted connection is a conforming one -/
structure ConnPre (P : TP) (w : World) : Prop where
  locks : w.locks = []
  dtt : w.defaultTT = P.dtt
  files : w.files = P.files
  next : ∀ c, w.conns.head? = some c → 1 ≤ c.dt ∧ c.dt ≤ P.D

theorem devConnect_time {keys : List Nat} {tt authT rt : Timeout} {hasCb : Bool} (heff : ConnEff P tt authT rt)
    {w w' : World} {r : Except Err Val} (h : devConnect keys tt authT rt hasCb w = (r, w'))
    (hp : ConnPre P w) (hfu : P.R < w.fuel) :
    Ext w w' ∧ isHang r = false ∧ TPre P w' ∧ w'.fuel = w.fuel ∧ w.now ≤ w'.now ∧
    w'.now - w.now ≤ w'.tcost P - w.tcost P + (if okB r then 0 else P.W) := by
  obtain ⟨t0, τ0, A, hmk, hrt, htt, h0, hle, rfl, hA, hAle⟩ := heff
  have hmk' : Txn.make none none (if tt.isSome then tt else w.defaultTT) rt none = .ok t0 := by rw [hp.dtt]; exact hmk
  unfold devConnect at h
  simp only [getTT, bind_run, liftExcept_run, hmk', M.modify_run, M.get_run] at h
  rcases hio : ioConnect w.banner keys (some A) hasCb t0 { w with available := false } with ⟨r1, w1⟩
  have hext : Ext { w with available := false } w1 := (Fr_ioConnect _ keys (some A) hasCb t0).ext hio
  obtain ⟨nh, post⟩ := ioConnect_time _ keys A hasCb t0 hrt htt h0 hle hA hAle hio hp.locks hp.next hfu
  have hc0 : ({ w with available := false } : World).tcost P = w.tcost P := rfl
  have ptime := post.time
  have pmono := post.mono
  have pfuel := post.fuel
  have plocks := post.locks
  have pdtt := post.dtt
  have pfiles := post.files
  simp only at ptime pmono pfuel plocks pdtt pfiles
  rw [hc0] at ptime
  simp only [hio] at h
  obtain ⟨evs, he⟩ := hext
  simp only at he
  cases r1 with
  | error e =>
    simp only [Prod.mk.injEq] at h
    obtain ⟨rfl, rfl⟩ := h
    refine ⟨⟨evs, he⟩, by rw [isHang_error] at nh ⊢; exact nh,
      ⟨post.cost, by rw [plocks, hp.locks], by rw [pdtt, hp.dtt], by rw [pfiles, hp.files]⟩,
      pfuel, pmono, ?_⟩
    simpa using ptime
  | ok md =>
    simp only [pure_run, Prod.mk.injEq] at h
    obtain ⟨rfl, rfl⟩ := h
    refine ⟨⟨evs, he⟩, rfl,
      ⟨post.cost.of_cur_eq rfl, by simp only; rw [plocks, hp.locks], by simp only; rw [pdtt, hp.dtt],
        by simp only; rw [pfiles, hp.files]⟩,
      pfuel, pmono, ?_⟩
    have hc1 : ({ w1 with available := true, maxdata := md } : World).tcost P = w1.tcost P := rfl
    rw [hc1]
    simpa using ptime

/-- `close()`: no time passes, the device object stays idle, nothing is delivered or transmitted -/
theorem devClose_time {w w' : World} {r : Except Err Val} (h : devClose w = (r, w')) (hp : TPre P w) :
    Ext w w' ∧ r = .ok .none ∧ TPre P w' ∧ w'.fuel = w.fuel ∧ w'.now = w.now ∧ w'.tcost P = w.tcost P := by
  unfold devClose ioClose at h
  simp only [bind_run, M.modify_run] at h
  generalize hw0 : ({ w with available := false } : World) = w0 at h
  rcases hio : withLock lockTransport (do tClose; withLock lockStore storeClearAll) w0 with ⟨r1, w1⟩
  rw [hio] at h
  obtain ⟨w2, hb, rfl⟩ := withLock_free _ _ _ _ _ hio (by rw [← hw0]; simp [hp.locks])
  rcases bind_any_inv hb with ⟨e, he, rfl⟩ | ⟨_, wa, hca, hrest⟩
  · have := (tClose_still he).1; simp at this
  obtain ⟨-, s1, hcur1, -⟩ := tClose_still hca
  have hls : lockStore ∉ wa.locks := by rw [s1.locks, ← hw0]; simp [hp.locks, lockStore, lockTransport]
  obtain ⟨rfl, s2, hcur2, -, -⟩ := clearAll_still hrest hls
  simp only [pure_run, Prod.mk.injEq] at h
  obtain ⟨rfl, rfl⟩ := h
  have s := s1.trans s2
  obtain ⟨_, _, _, hcst⟩ := s.adds.pot P
  obtain ⟨evs, he⟩ := s.adds.ext
  refine ⟨⟨evs, by simp only; rw [he, ← hw0]⟩, rfl, ⟨?_, ?_, ?_, ?_⟩, ?_, ?_, ?_⟩
  · intro c hc; simp only at hc; rw [hcur2, hcur1] at hc; simp at hc
  · simp only; rw [s.locks, ← hw0]; simp [hp.locks]
  · simp only; rw [s.dtt, ← hw0]; exact hp.dtt
  · simp only; rw [s.files, ← hw0]; exact hp.files
  · simp only; rw [s.fuel, ← hw0]
  · simp only; rw [s.now, ← hw0]
  · have : ({ w2 with locks := w2.locks.erase lockTransport } : World).tcost P = w2.tcost P := rfl
    rw [this, hcst, ← hw0]; simp [World.tcost]

theorem devConnect_ext {keys : List Nat} {tt authT rt : Timeout} {hasCb : Bool} {w w' : World} {r : Except Err Val}
    (h : devConnect keys tt authT rt hasCb w = (r, w')) : Ext w w' := by
  unfold devConnect at h
  simp only [getTT, bind_run, liftExcept_run, M.modify_run, M.get_run] at h
  split at h
  · next t wa hmk =>
    simp only [Prod.mk.injEq] at hmk
    obtain ⟨-, rfl⟩ := hmk
    split at h
    · next md wb hio =>
      have := (Fr_ioConnect _ keys authT hasCb t).ext hio
      simp only [pure_run, Prod.mk.injEq] at h
      obtain ⟨-, rfl⟩ := h
      obtain ⟨evs, he⟩ := this
      exact ⟨evs, he⟩
    · next e wb hio =>
      have := (Fr_ioConnect _ keys authT hasCb t).ext hio
      simp only [Prod.mk.injEq] at h
      obtain ⟨-, rfl⟩ := h
      obtain ⟨evs, he⟩ := this
      exact ⟨evs, he⟩
  · next e wa hmk =>
    simp only [Prod.mk.injEq] at hmk h
    obtain ⟨-, rfl⟩ := hmk
    obtain ⟨-, rfl⟩ := h
    exact Ext.refl _

theorem devClose_ext {w w' : World} {r : Except Err Val} (h : devClose w = (r, w')) : Ext w w' := by
  unfold devClose at h
  simp only [bind_run, M.modify_run] at h
  split at h
  · next u wa hio =>
    have := (Fr_ioClose).ext hio
    simp only [pure_run, Prod.mk.injEq] at h
    obtain ⟨-, rfl⟩ := h
    obtain ⟨evs, he⟩ := this
    exact ⟨evs, he⟩
  · next e wa hio =>
    have := (Fr_ioClose).ext hio
    simp only [Prod.mk.injEq] at h
    obtain ⟨-, rfl⟩ := h
    obtain ⟨evs, he⟩ := this
    exact ⟨evs, he⟩

end Adb
