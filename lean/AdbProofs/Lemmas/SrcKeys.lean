import AdbProofs.Lemmas.SrcEnc
import AdbModel.Generated.Src
import AdbProofs.Lemmas.KeysLemmas
import Mathlib.Data.Int.GCD
/-
  Lemmas behind C17Src (tie of auth/keygen.py's `_to_bytes` / arithmetic of `encode_pubkey` to the model `Adb.Keys`, by proof):
  the big-integer helpers of `AdbModel/Py.lean` evaluated on naturals, `Py.leBytesN = Keys.leBytes`, `Py.xgcdAux = Nat.xgcdAux`
  (hence `rsa._modinv(a, 2**32) = Keys.inv32 a` for odd `a`, by uniqueness of the inverse), and `struct.pack` of the public-key format.
  Generated definitions are only unfolded by name.
-/
set_option linter.unusedSimpArgs false
namespace Adb
open Py Keys

/-! ### `to_bytes` -/

theorem Py.leBytesN_eq : ∀ (len n : Nat), Py.leBytesN len n = leBytes len n
  | 0, _ => rfl
  | len + 1, n => by simp only [Py.leBytesN, leBytes, Py.leBytesN_eq len]

theorem Py.natOf_nat (v : Nat) : Py.natOf (.int (v : Int)) = .ok v := by
  simp [Py.natOf, Py.asInt, bind, Except.bind, pure, Except.pure]

theorem Py.intToBytes_little (v len : Nat) :
    Py.intToBytes (.int v) (.int len) (.str "little")
      = if v < 256 ^ len then .ok (.bytes (leBytes len v)) else .error .overflowError := by
  simp only [Py.intToBytes, Py.natOf_nat, pysimp, Py.leBytesN_eq]
  by_cases h : v < 256 ^ len <;> simp [h]

theorem Py.intToBytes_big (v len : Nat) :
    Py.intToBytes (.int v) (.int len) (.str "big")
      = if v < 256 ^ len then .ok (.bytes (i2osp len v)) else .error .overflowError := by
  simp only [Py.intToBytes, Py.natOf_nat, pysimp, Py.leBytesN_eq, i2osp]
  by_cases h : v < 256 ^ len <;> simp [h]

theorem Src.keygen_to_bytes_little (v len : Nat) :
    Src.keygen_to_bytes (.int v) (.int len) (.str "little")
      = if v < 256 ^ len then .ok (.bytes (leBytes len v)) else .error .overflowError := by
  simp only [Src.keygen_to_bytes, Py.hasToBytes, pysimp, Py.intToBytes_little]
  simp

theorem Src.keygen_to_bytes_big (v len : Nat) :
    Src.keygen_to_bytes (.int v) (.int len) (.str "big")
      = if v < 256 ^ len then .ok (.bytes (i2osp len v)) else .error .overflowError := by
  simp only [Src.keygen_to_bytes, Py.hasToBytes, pysimp, Py.intToBytes_big]
  simp

/-! ### extended Euclid -/

theorem Py.xgcdAux_eq (r : Nat) : ∀ (s t : Int) (r' : Nat) (s' t' : Int),
    Py.xgcdAux r s t r' s' t' = Nat.xgcdAux r s t r' s' t' := by
  induction r using Nat.strong_induction_on with
  | _ r ih =>
    intro s t r' s' t'
    cases r with
    | zero => rw [Py.xgcdAux, Nat.xgcd_zero_left]
    | succ k =>
      rw [Py.xgcdAux, Nat.xgcdAux_rec (Nat.succ_pos k)]
      rw [ih _ (Nat.mod_lt _ (Nat.succ_pos k))]
      simp only [Int.natCast_ediv, Nat.succ_eq_add_one]

theorem Py.gcdA_eq (a b : Nat) : Py.gcdA a b = Nat.gcdA a b := by
  simp only [Py.gcdA, Nat.gcdA, Nat.xgcd, Py.xgcdAux_eq]

/-- the reduced Bezout coefficient is an inverse -/
theorem Py.gcdA_emod_inverse (a m : Nat) (hm : 0 < m) (hg : Nat.gcd a m = 1) :
    ∃ x : Nat, Int.emod (Py.gcdA a m) (m : Int) = (x : Int) ∧ x < m ∧ a * x % m = 1 % m := by
  have hb := Nat.gcd_eq_gcd_ab a m
  rw [hg, ← Py.gcdA_eq] at hb
  generalize Py.gcdA a m = g at hb
  generalize Nat.gcdB a m = B at hb
  have hm' : (0 : Int) < (m : Int) := by exact_mod_cast hm
  have h0 : 0 ≤ g % (m : Int) := Int.emod_nonneg _ (by omega)
  have h1 : g % (m : Int) < m := Int.emod_lt_of_pos _ hm'
  refine ⟨(g % (m : Int)).toNat, ?_, ?_, ?_⟩
  · show g % (m : Int) = _
    omega
  · omega
  · have e : ((a * (g % (m : Int)).toNat : Nat) : Int) % (m : Int) = ((1 : Nat) : Int) % (m : Int) := by
      rw [Nat.cast_mul, Int.toNat_of_nonneg h0, Int.mul_emod, Int.emod_emod_of_dvd _ (dvd_refl _), ← Int.mul_emod]
      have : (a : Int) * g = 1 - m * B := by rw [Nat.cast_one] at hb; omega
      rw [this, Nat.cast_one, Int.sub_mul_emod_self_left]
    exact_mod_cast e

/-! ### arithmetic on naturals -/

theorem Py.mul_int (a b : Int) : Py.mul (.int a) (.int b) = .ok (.int (a * b)) := by
  simp [Py.mul, Py.asInt, bind, Except.bind, pure, Except.pure]

theorem Py.mod_nat (a b : Nat) (hb : b ≠ 0) : Py.mod (.int a) (.int b) = .ok (.int ((a % b : Nat) : Int)) := by
  have hb' : ¬ (b : Int) = 0 := by omega
  simp only [Py.mod, Py.asInt, pysimp, hb', if_false]
  rw [Int.fmod_eq_emod_of_nonneg _ (by omega)]
  rfl

theorem Py.shl_nat (a b : Nat) : Py.shl (.int a) (.int b) = .ok (.int ((a <<< b : Nat) : Int)) := by
  simp only [Py.shl, Py.natOf_nat, pysimp]

theorem Py.shl_one_nat (b : Nat) : Py.shl (.int 1) (.int b) = .ok (.int ((2 ^ b : Nat) : Int)) := by
  have h := Py.shl_nat 1 b
  rw [Nat.one_shiftLeft] at h
  exact h

theorem Py.pow_nat (a b : Nat) : Py.pow (.int a) (.int b) = .ok (.int ((a ^ b : Nat) : Int)) := by
  simp only [Py.pow, Py.natOf_nat, pysimp]

theorem Py.modinv_nat (a b : Nat) (hb : b ≠ 0) :
    Py.modinv (.int a) (.int b) = .ok (.int (Int.emod (Py.gcdA a b) (b : Int))) := by
  simp only [Py.modinv, Py.natOf_nat, pysimp, hb, if_false]

/-- for odd `a`, `rsa._modinv(a, 2**32)` is the model's `inv32 a` -/
theorem Py.modinv_odd32 (a : Nat) (ha : a % 2 = 1) :
    Py.modinv (.int a) (.int 4294967296) = .ok (.int ((inv32 a : Nat) : Int)) := by
  have hc2 : Nat.Coprime 2 a := (Nat.Prime.coprime_iff_not_dvd Nat.prime_two).2 (by omega)
  have hc : Nat.gcd a (2 ^ 32) = 1 := (Nat.Coprime.pow_left 32 hc2).symm
  obtain ⟨x, hx, hlt, hinv⟩ := Py.gcdA_emod_inverse a (2 ^ 32) (by norm_num) hc
  have hi := inv32_spec ha
  have hil := inv32_lt a
  have heq : a * x ≡ a * inv32 a [MOD 2 ^ 32] := by
    unfold Nat.ModEq; rw [hinv, hi]; norm_num
  have hxe : x = inv32 a := by
    have := Nat.ModEq.cancel_left_of_coprime (by rw [Nat.gcd_comm]; exact hc) heq
    unfold Nat.ModEq at this
    rwa [Nat.mod_eq_of_lt hlt, Nat.mod_eq_of_lt hil] at this
  have := Py.modinv_nat a (2 ^ 32) (by norm_num)
  rw [hx, hxe] at this
  exact this

theorem Py.mul_nat (a b : Nat) : Py.mul (.int a) (.int b) = .ok (.int ((a * b : Nat) : Int)) := by
  rw [Py.mul_int, Nat.cast_mul]

/-! ### `struct.pack` of the public-key format -/

theorem Py.packItems_nil : Py.packItems [] [] = .ok [] := by
  simp only [Py.packItems, pysimp]

theorem Py.packItems_u32 (x : Nat) (hx : x < 2 ^ 32) (is : List Py.FmtItem) (vs : List Py.Val) (r : Bytes)
    (h : Py.packItems is vs = .ok r) :
    Py.packItems (.u32 :: is) (.int (x : Int) :: vs) = .ok (le32 x ++ r) := by
  have h1 : (0 : Int) ≤ (x : Int) ∧ (x : Int) < 4294967296 := by omega
  simp only [Py.packItems, h1, h, pysimp, and_self, if_true, Int.toNat_natCast]

theorem Py.packItems_bytesN (k : Nat) (b : Bytes) (hb : b.length = k) (is : List Py.FmtItem) (vs : List Py.Val) (r : Bytes)
    (h : Py.packItems is vs = .ok r) :
    Py.packItems (.bytesN k :: is) (.bytes b :: vs) = .ok (b ++ r) := by
  subst hb
  simp only [Py.packItems, h, pysimp, List.take_length, Nat.sub_self, List.replicate_zero, List.append_nil]

theorem Src.pubkey_struct_items :
    ∃ fb, Py.fmtBytes Src.const_ANDROID_RSAPUBLICKEY_STRUCT = .ok fb
      ∧ Py.parseFmtG fb = some [.u32, .u32, .bytesN modSize, .bytesN modSize, .u32] :=
  ⟨_, rfl, by decide⟩

theorem Src.structPackG_pubkey (w i e : Nat) (a b : Bytes) (hw : w < 2 ^ 32) (hi : i < 2 ^ 32) (he : e < 2 ^ 32)
    (ha : a.length = modSize) (hb : b.length = modSize) :
    Py.structPackG Src.const_ANDROID_RSAPUBLICKEY_STRUCT [.int w, .int i, .bytes a, .bytes b, .int e]
      = .ok (.bytes (le32 w ++ le32 i ++ a ++ b ++ le32 e)) := by
  have hk := Py.packItems_u32 w hw _ _ _ (Py.packItems_u32 i hi _ _ _ (Py.packItems_bytesN modSize a ha _ _ _
    (Py.packItems_bytesN modSize b hb _ _ _ (Py.packItems_u32 e he _ _ _ Py.packItems_nil))))
  obtain ⟨fb, hf, hp⟩ := Src.pubkey_struct_items
  simp only [Py.structPackG, hf, hp, hk, pysimp, List.append_assoc, List.append_nil]

end Adb
