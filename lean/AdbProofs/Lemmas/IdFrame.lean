import AdbProofs.Lemmas.Monad
/-
  "The id counter stays 32-bit": `Bd x` says that running `x` in a world whose `localId` is below 2^32 ends in
  such a world again, whatever the outcome.  Same compositional discipline (and tactic) as `Fr` in Frame.lean;
  the only function that writes the counter is `openStream`, which sets it to `nextId` of its value.
-/
namespace Adb

/-- the counter bound is preserved from `w` to `w'` -/
def IdB (w w' : World) : Prop := w.localId < 4294967296 → w'.localId < 4294967296

theorem IdB.refl (w : World) : IdB w w := id
theorem IdB.trans {a b c : World} (h1 : IdB a b) (h2 : IdB b c) : IdB a c := fun h => h2 (h1 h)
theorem IdB.of_eq {w w' : World} (h : w'.localId = w.localId) : IdB w w' := fun hb => h ▸ hb

def Bd {α : Type} (x : M α) : Prop := ∀ w, IdB w (x w).2

theorem Bd_pure {α} (a : α) : Bd (pure a : M α) := fun w => IdB.refl w
theorem Bd_Mpure {α} (a : α) : Bd (M.pure a : M α) := fun w => IdB.refl w
theorem Bd_throw {α} (e : Err) : Bd (M.throw e : M α) := fun w => IdB.refl w
theorem Bd_get : Bd M.get := fun w => IdB.refl w
theorem Bd_now : Bd now := fun w => IdB.refl w
theorem Bd_liftExcept {α} (x : Except Err α) : Bd (liftExcept x) := fun w => IdB.refl w
theorem Bd_emit (e : TEv) : Bd (emit e) := fun w => IdB.of_eq rfl
theorem Bd_elapsedGt (s : Int) (l : Timeout) : Bd (elapsedGt s l) := by
  intro w; unfold elapsedGt; cases l <;> exact IdB.refl w

theorem Bd_bind {α β} {x : M α} {f : α → M β} (hx : Bd x) (hf : ∀ a, Bd (f a)) : Bd (x >>= f) := by
  intro w
  rw [bind_run]
  have h1 := hx w
  split
  · next a w' hxw => rw [hxw] at h1; exact IdB.trans h1 (hf a w')
  · next e w' hxw => rw [hxw] at h1; exact h1

theorem Bd_ite {α} {c : Prop} [Decidable c] {a b : M α} (ha : Bd a) (hb : Bd b) : Bd (if c then a else b) := by
  split <;> assumption

theorem Bd_withLock {α} (l : Nat) {body : M α} (hb : Bd body) : Bd (withLock l body) := by
  intro w
  rw [withLock_run]
  split
  · exact IdB.refl w
  · exact hb { w with locks := l :: w.locks }

theorem Bd_tryFinally {α} {x : M α} {fin : M Unit} (hx : Bd x) (hf : Bd fin) : Bd (M.tryFinally x fin) := by
  intro w
  unfold M.tryFinally
  have h1 := hx w
  split
  · next a w' hxw =>
    rw [hxw] at h1
    have h2 := hf w'
    split <;> next _ w'' hfw => rw [hfw] at h2; exact IdB.trans h1 h2
  · next e w' hxw =>
    rw [hxw] at h1
    have h2 := hf w'
    split <;> next _ w'' hfw => rw [hfw] at h2; exact IdB.trans h1 h2

theorem Bd_swallow {x : M Unit} (hx : Bd x) : Bd (M.swallow x) := by
  intro w
  unfold M.swallow
  have h1 := hx w
  split
  next r w' hxw => rw [hxw] at h1; exact h1

theorem Bd_modify {f : World → World} (hf : ∀ w, IdB w (f w)) : Bd (M.modify f) := fun w => hf w

/-- closes `IdB w w'` when `w'` is an explicit record update of `w` that leaves `localId` alone -/
macro "bd_rfl" : tactic => `(tactic| first | exact IdB.refl _ | exact IdB.of_eq rfl)

syntax "bd_lemma" : tactic
macro_rules | `(tactic| bd_lemma) => `(tactic| with_reducible exact Bd_pure _)
macro_rules | `(tactic| bd_lemma) => `(tactic| with_reducible exact Bd_Mpure _)
macro_rules | `(tactic| bd_lemma) => `(tactic| with_reducible exact Bd_throw _)
macro_rules | `(tactic| bd_lemma) => `(tactic| with_reducible exact Bd_get)
macro_rules | `(tactic| bd_lemma) => `(tactic| with_reducible exact Bd_now)
macro_rules | `(tactic| bd_lemma) => `(tactic| with_reducible exact Bd_liftExcept _)
macro_rules | `(tactic| bd_lemma) => `(tactic| with_reducible exact Bd_emit _)
macro_rules | `(tactic| bd_lemma) => `(tactic| with_reducible exact Bd_elapsedGt _ _)

syntax "bd" ("[" term "]")? : tactic
macro_rules
  | `(tactic| bd) => `(tactic| bd [Bd_get])
  | `(tactic| bd [$h]) => `(tactic| first
    | bd_lemma
    | with_reducible assumption
    | with_reducible exact $h
    | with_reducible exact $h _
    | with_reducible exact $h _ _
    | with_reducible exact $h _ _ _
    | (with_reducible apply Bd_bind) <;> (first | (intro _; bd [$h]) | bd [$h])
    | (with_reducible apply Bd_withLock); bd [$h]
    | (with_reducible apply Bd_tryFinally) <;> bd [$h]
    | (with_reducible apply Bd_swallow); bd [$h]
    | (with_reducible apply Bd_modify); intro _; bd_rfl
    | (with_reducible apply Bd_ite) <;> bd [$h]
    | (split <;> bd [$h])
    | (dsimp only; bd [$h])
    | (intro _; bd [$h]))

end Adb
