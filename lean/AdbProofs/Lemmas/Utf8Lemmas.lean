import AdbModel.Utf8
/-
  Helper lemmas for C01 (UTF-8 `backslashreplace` decoding, `AdbModel/Utf8.lean`).
  * `WF bs cp len`: a Nat-level description of "a well-formed UTF-8 sequence of `len` bytes encoding `cp`
    starts `bs`" (RFC 3629 / Unicode table 3-7), proved equivalent to `decodeStep bs = some (cp, len)`.
  * soundness / completeness of `decodeStep` w.r.t. `encodeCp`;
  * fuel independence of `decodeAux` and the unfolding equations of `decodeBS`;
  * `Segmented`: the segmentation of an input into well-formed sequences and single escaped bytes.
-/
namespace Adb
namespace Utf8

theorem isCont_iff (b : UInt8) : isCont b = true ↔ 128 ≤ b.toNat ∧ b.toNat ≤ 191 := by
  simp [isCont, UInt8.le_iff_toNat_le]

theorem inRange_iff (lo hi b : UInt8) : inRange lo hi b = true ↔ lo.toNat ≤ b.toNat ∧ b.toNat ≤ hi.toNat := by
  simp [inRange, UInt8.le_iff_toNat_le]

theorem u8_eq_iff (a b : UInt8) : a = b ↔ a.toNat = b.toNat := UInt8.toNat_inj.symm

theorem ok3_iff (b0 b1 : UInt8) :
    (if b0 == 0xE0 then inRange 0xA0 0xBF b1 else if b0 == 0xED then inRange 0x80 0x9F b1 else isCont b1) = true
      ↔ (128 ≤ b1.toNat ∧ b1.toNat ≤ 191 ∧ (b0.toNat = 224 → 160 ≤ b1.toNat) ∧ (b0.toNat = 237 → b1.toNat ≤ 159)) := by
  by_cases h1 : b0 = 0xE0
  · subst h1; simp [inRange_iff]; omega
  · by_cases h2 : b0 = 0xED
    · subst h2; simp [inRange_iff]; omega
    · have h1' := h1; have h2' := h2
      rw [u8_eq_iff] at h1' h2'
      simp at h1' h2'
      simp [h1, h2, isCont_iff, h1', h2']

theorem ok4_iff (b0 b1 : UInt8) :
    (if b0 == 0xF0 then inRange 0x90 0xBF b1 else if b0 == 0xF4 then inRange 0x80 0x8F b1 else isCont b1) = true
      ↔ (128 ≤ b1.toNat ∧ b1.toNat ≤ 191 ∧ (b0.toNat = 240 → 144 ≤ b1.toNat) ∧ (b0.toNat = 244 → b1.toNat ≤ 143)) := by
  by_cases h1 : b0 = 0xF0
  · subst h1; simp [inRange_iff]; omega
  · by_cases h2 : b0 = 0xF4
    · subst h2; simp [inRange_iff]; omega
    · have h1' := h1; have h2' := h2
      rw [u8_eq_iff] at h1' h2'
      simp at h1' h2'
      simp [h1, h2, isCont_iff, h1', h2']

/-- Nat-level description of the well-formed sequences (RFC 3629 table 3-7). -/
def WF (bs : Bytes) (cp len : Nat) : Prop :=
  (∃ (b0 : UInt8) (r : Bytes), bs = b0 :: r ∧ b0.toNat < 128 ∧ cp = b0.toNat ∧ len = 1) ∨
  (∃ (b0 b1 : UInt8) (r : Bytes), bs = b0 :: b1 :: r ∧ 194 ≤ b0.toNat ∧ b0.toNat ≤ 223 ∧ 128 ≤ b1.toNat ∧ b1.toNat ≤ 191 ∧
      cp = (b0.toNat % 32) * 64 + b1.toNat % 64 ∧ len = 2) ∨
  (∃ (b0 b1 b2 : UInt8) (r : Bytes), bs = b0 :: b1 :: b2 :: r ∧ 224 ≤ b0.toNat ∧ b0.toNat ≤ 239 ∧
      128 ≤ b1.toNat ∧ b1.toNat ≤ 191 ∧ (b0.toNat = 224 → 160 ≤ b1.toNat) ∧ (b0.toNat = 237 → b1.toNat ≤ 159) ∧
      128 ≤ b2.toNat ∧ b2.toNat ≤ 191 ∧
      cp = (b0.toNat % 16) * 4096 + (b1.toNat % 64) * 64 + b2.toNat % 64 ∧ len = 3) ∨
  (∃ (b0 b1 b2 b3 : UInt8) (r : Bytes), bs = b0 :: b1 :: b2 :: b3 :: r ∧ 240 ≤ b0.toNat ∧ b0.toNat ≤ 244 ∧
      128 ≤ b1.toNat ∧ b1.toNat ≤ 191 ∧ (b0.toNat = 240 → 144 ≤ b1.toNat) ∧ (b0.toNat = 244 → b1.toNat ≤ 143) ∧
      128 ≤ b2.toNat ∧ b2.toNat ≤ 191 ∧ 128 ≤ b3.toNat ∧ b3.toNat ≤ 191 ∧
      cp = (b0.toNat % 8) * 262144 + (b1.toNat % 64) * 4096 + (b2.toNat % 64) * 64 + b3.toNat % 64 ∧ len = 4)

theorem lt128_iff (b : UInt8) : b < 0x80 ↔ b.toNat < 128 := by
  simp [UInt8.lt_iff_toNat_lt]

theorem decodeStep_one (b0 : UInt8) (rest : Bytes) (h : b0.toNat < 128) :
    decodeStep (b0 :: rest) = some (b0.toNat, 1) := by
  simp [decodeStep, lt128_iff, h]

theorem decodeStep_two (b0 : UInt8) (rest : Bytes) (h1 : 194 ≤ b0.toNat) (h2 : b0.toNat ≤ 223) :
    decodeStep (b0 :: rest) = match rest with
      | b1 :: _ => if 128 ≤ b1.toNat ∧ b1.toNat ≤ 191 then some ((b0.toNat % 32) * 64 + b1.toNat % 64, 2) else none
      | [] => none := by
  have h0 : ¬ b0.toNat < 128 := by omega
  have hr : inRange 0xC2 0xDF b0 = true := by rw [inRange_iff]; simp; omega
  simp only [decodeStep, lt128_iff, h0, if_false, hr, if_true]
  cases rest with
  | nil => rfl
  | cons b1 r => simp only [isCont_iff]

theorem decodeStep_three (b0 : UInt8) (rest : Bytes) (h1 : 224 ≤ b0.toNat) (h2 : b0.toNat ≤ 239) :
    decodeStep (b0 :: rest) = match rest with
      | b1 :: b2 :: _ =>
        if (128 ≤ b1.toNat ∧ b1.toNat ≤ 191 ∧ (b0.toNat = 224 → 160 ≤ b1.toNat) ∧ (b0.toNat = 237 → b1.toNat ≤ 159))
            ∧ (128 ≤ b2.toNat ∧ b2.toNat ≤ 191) then
          some ((b0.toNat % 16) * 4096 + (b1.toNat % 64) * 64 + b2.toNat % 64, 3) else none
      | _ => none := by
  have h0 : ¬ b0.toNat < 128 := by omega
  have hr : inRange 0xC2 0xDF b0 = false := by
    rw [← Bool.not_eq_true, inRange_iff]; simp; omega
  have hr3 : inRange 0xE0 0xEF b0 = true := by rw [inRange_iff]; simp; omega
  simp only [decodeStep, lt128_iff, h0, if_false, hr, hr3, if_true, Bool.false_eq_true]
  match rest with
  | [] => rfl
  | [_] => rfl
  | b1 :: b2 :: r => simp only [Bool.and_eq_true, ok3_iff, isCont_iff]

theorem decodeStep_four (b0 : UInt8) (rest : Bytes) (h1 : 240 ≤ b0.toNat) (h2 : b0.toNat ≤ 244) :
    decodeStep (b0 :: rest) = match rest with
      | b1 :: b2 :: b3 :: _ =>
        if ((128 ≤ b1.toNat ∧ b1.toNat ≤ 191 ∧ (b0.toNat = 240 → 144 ≤ b1.toNat) ∧ (b0.toNat = 244 → b1.toNat ≤ 143))
            ∧ (128 ≤ b2.toNat ∧ b2.toNat ≤ 191)) ∧ (128 ≤ b3.toNat ∧ b3.toNat ≤ 191) then
          some ((b0.toNat % 8) * 262144 + (b1.toNat % 64) * 4096 + (b2.toNat % 64) * 64 + b3.toNat % 64, 4) else none
      | _ => none := by
  have h0 : ¬ b0.toNat < 128 := by omega
  have hr : inRange 0xC2 0xDF b0 = false := by
    rw [← Bool.not_eq_true, inRange_iff]; simp; omega
  have hr3 : inRange 0xE0 0xEF b0 = false := by
    rw [← Bool.not_eq_true, inRange_iff]; simp; omega
  have hr4 : inRange 0xF0 0xF4 b0 = true := by rw [inRange_iff]; simp; omega
  simp only [decodeStep, lt128_iff, h0, if_false, hr, hr3, hr4, if_true, Bool.false_eq_true]
  match rest with
  | [] => rfl
  | [_] => rfl
  | [_, _] => rfl
  | b1 :: b2 :: b3 :: r => simp only [Bool.and_eq_true, ok4_iff, isCont_iff]

theorem decodeStep_bad (b0 : UInt8) (rest : Bytes)
    (h : (128 ≤ b0.toNat ∧ b0.toNat < 194) ∨ 245 ≤ b0.toNat) : decodeStep (b0 :: rest) = none := by
  have h0 : ¬ b0.toNat < 128 := by omega
  have hr : inRange 0xC2 0xDF b0 = false := by
    rw [← Bool.not_eq_true, inRange_iff]; simp; omega
  have hr3 : inRange 0xE0 0xEF b0 = false := by
    rw [← Bool.not_eq_true, inRange_iff]; simp; omega
  have hr4 : inRange 0xF0 0xF4 b0 = false := by
    rw [← Bool.not_eq_true, inRange_iff]; simp; omega
  simp only [decodeStep, lt128_iff, h0, if_false, hr, hr3, hr4, Bool.false_eq_true]


theorem decodeStep_wf (bs : Bytes) (cp len : Nat) (h : decodeStep bs = some (cp, len)) : WF bs cp len := by
  match bs, h with
  | [], h => simp [decodeStep] at h
  | b0 :: rest, h =>
    have hb0 := UInt8.toNat_lt b0
    by_cases c1 : b0.toNat < 128
    · rw [decodeStep_one _ _ c1] at h
      simp only [Option.some.injEq, Prod.mk.injEq] at h
      exact Or.inl ⟨b0, rest, rfl, c1, h.1.symm, h.2.symm⟩
    · by_cases c2 : b0.toNat < 194 ∨ 245 ≤ b0.toNat
      · rw [decodeStep_bad _ _ (by omega)] at h; simp at h
      · by_cases c3 : b0.toNat ≤ 223
        · rw [decodeStep_two _ _ (by omega) c3] at h
          match rest, h with
          | [], h => simp at h
          | b1 :: r, h =>
            simp only [] at h
            split at h
            · rename_i hc
              simp only [Option.some.injEq, Prod.mk.injEq] at h
              exact Or.inr (Or.inl ⟨b0, b1, r, rfl, by omega, c3, hc.1, hc.2, h.1.symm, h.2.symm⟩)
            · simp at h
        · by_cases c4 : b0.toNat ≤ 239
          · rw [decodeStep_three _ _ (by omega) c4] at h
            match rest, h with
            | [], h => simp at h
            | [_], h => simp at h
            | b1 :: b2 :: r, h =>
              simp only [] at h
              split at h
              · rename_i hc
                simp only [Option.some.injEq, Prod.mk.injEq] at h
                obtain ⟨⟨h1, h2, h3, h4⟩, h5, h6⟩ := hc
                exact Or.inr (Or.inr (Or.inl ⟨b0, b1, b2, r, rfl, by omega, c4, h1, h2, h3, h4, h5, h6, h.1.symm, h.2.symm⟩))
              · simp at h
          · rw [decodeStep_four _ _ (by omega) (by omega)] at h
            match rest, h with
            | [], h => simp at h
            | [_], h => simp at h
            | [_, _], h => simp at h
            | b1 :: b2 :: b3 :: r, h =>
              simp only [] at h
              split at h
              · rename_i hc
                simp only [Option.some.injEq, Prod.mk.injEq] at h
                obtain ⟨⟨⟨h1, h2, h3, h4⟩, h5, h6⟩, h7, h8⟩ := hc
                exact Or.inr (Or.inr (Or.inr ⟨b0, b1, b2, b3, r, rfl, by omega, by omega, h1, h2, h3, h4, h5, h6, h7, h8, h.1.symm, h.2.symm⟩))
              · simp at h

theorem wf_decodeStep (bs : Bytes) (cp len : Nat) (h : WF bs cp len) : decodeStep bs = some (cp, len) := by
  rcases h with ⟨b0, r, rfl, h1, rfl, rfl⟩ | ⟨b0, b1, r, rfl, h1, h2, h3, h4, rfl, rfl⟩
    | ⟨b0, b1, b2, r, rfl, h1, h2, h3, h4, h5, h6, h7, h8, rfl, rfl⟩
    | ⟨b0, b1, b2, b3, r, rfl, h1, h2, h3, h4, h5, h6, h7, h8, h9, h10, rfl, rfl⟩
  · exact decodeStep_one _ _ h1
  · rw [decodeStep_two _ _ h1 h2]; simp [h3, h4]
  · rw [decodeStep_three _ _ h1 h2]; simp [h3, h4, h7, h8]; exact ⟨h5, h6⟩
  · rw [decodeStep_four _ _ h1 h2]; simp [h3, h4, h7, h8, h9, h10]; exact ⟨h5, h6⟩

theorem decodeStep_iff_wf (bs : Bytes) (cp len : Nat) : decodeStep bs = some (cp, len) ↔ WF bs cp len :=
  ⟨decodeStep_wf bs cp len, wf_decodeStep bs cp len⟩


theorem wf_sound (bs : Bytes) (cp len : Nat) (h : WF bs cp len) :
    IsScalar cp ∧ 1 ≤ len ∧ len ≤ 4 ∧ len ≤ bs.length ∧ encodeCp cp = bs.take len := by
  rcases h with ⟨b0, r, rfl, h1, rfl, rfl⟩ | ⟨b0, b1, r, rfl, h1, h2, h3, h4, rfl, rfl⟩
    | ⟨b0, b1, b2, r, rfl, h1, h2, h3, h4, h5, h6, h7, h8, rfl, rfl⟩
    | ⟨b0, b1, b2, b3, r, rfl, h1, h2, h3, h4, h5, h6, h7, h8, h9, h10, rfl, rfl⟩
  · refine ⟨Or.inl (by omega), by omega, by omega, by simp, ?_⟩
    simp [encodeCp, h1]
  · refine ⟨Or.inl (by omega), by omega, by omega, by simp, ?_⟩
    have c1 : ¬ (b0.toNat % 32 * 64 + b1.toNat % 64 < 128) := by omega
    have c2 : (b0.toNat % 32 * 64 + b1.toNat % 64 < 2048) := by omega
    simp only [encodeCp, c1, c2, if_true, if_false, List.take_succ_cons, List.take_zero,
      List.cons.injEq, and_true, u8_eq_iff, UInt8.toNat_ofNat']
    omega
  · refine ⟨by unfold IsScalar; omega, by omega, by omega, by simp, ?_⟩
    have c1 : ¬ (b0.toNat % 16 * 4096 + b1.toNat % 64 * 64 + b2.toNat % 64 < 128) := by omega
    have c2 : ¬ (b0.toNat % 16 * 4096 + b1.toNat % 64 * 64 + b2.toNat % 64 < 2048) := by omega
    have c3 : (b0.toNat % 16 * 4096 + b1.toNat % 64 * 64 + b2.toNat % 64 < 65536) := by omega
    simp only [encodeCp, c1, c2, c3, if_true, if_false, List.take_succ_cons, List.take_zero,
      List.cons.injEq, and_true, u8_eq_iff, UInt8.toNat_ofNat']
    omega
  · refine ⟨by unfold IsScalar; omega, by omega, by omega, by simp, ?_⟩
    have c1 : ¬ (b0.toNat % 8 * 262144 + b1.toNat % 64 * 4096 + b2.toNat % 64 * 64 + b3.toNat % 64 < 128) := by omega
    have c2 : ¬ (b0.toNat % 8 * 262144 + b1.toNat % 64 * 4096 + b2.toNat % 64 * 64 + b3.toNat % 64 < 2048) := by omega
    have c3 : ¬ (b0.toNat % 8 * 262144 + b1.toNat % 64 * 4096 + b2.toNat % 64 * 64 + b3.toNat % 64 < 65536) := by omega
    simp only [encodeCp, c1, c2, c3, if_false, List.take_succ_cons, List.take_zero,
      List.cons.injEq, and_true, u8_eq_iff, UInt8.toNat_ofNat']
    omega


theorem wf_complete (c : Nat) (rest : Bytes) (h : IsScalar c) :
    WF (encodeCp c ++ rest) c (encodeCp c).length := by
  unfold IsScalar at h
  by_cases c1 : c < 128
  · refine Or.inl ⟨UInt8.ofNat c, rest, ?_, ?_, ?_, ?_⟩
    · simp [encodeCp, c1]
    · simp only [UInt8.toNat_ofNat']; omega
    · simp only [UInt8.toNat_ofNat']; omega
    · simp [encodeCp, c1]
  · by_cases c2 : c < 2048
    · refine Or.inr (Or.inl ⟨UInt8.ofNat (0xC0 + c / 64), UInt8.ofNat (0x80 + c % 64), rest, ?_, ?_⟩)
      · simp [encodeCp, c1, c2]
      · simp only [UInt8.toNat_ofNat', encodeCp, c1, c2, if_true, if_false, List.length_cons, List.length_nil, Nat.reducePow, and_true, Nat.reduceAdd, List.length_cons, Nat.zero_add]
        omega
    · by_cases c3 : c < 65536
      · refine Or.inr (Or.inr (Or.inl ⟨UInt8.ofNat (0xE0 + c / 4096), UInt8.ofNat (0x80 + c / 64 % 64),
          UInt8.ofNat (0x80 + c % 64), rest, ?_, ?_⟩))
        · simp [encodeCp, c1, c2, c3]
        · simp only [UInt8.toNat_ofNat', encodeCp, c1, c2, c3, if_true, if_false, List.length_cons, List.length_nil, Nat.reducePow, and_true, Nat.reduceAdd, List.length_cons, Nat.zero_add]
          omega
      · refine Or.inr (Or.inr (Or.inr ⟨UInt8.ofNat (0xF0 + c / 262144), UInt8.ofNat (0x80 + c / 4096 % 64),
          UInt8.ofNat (0x80 + c / 64 % 64), UInt8.ofNat (0x80 + c % 64), rest, ?_, ?_⟩))
        · simp [encodeCp, c1, c2, c3]
        · simp only [UInt8.toNat_ofNat', encodeCp, c1, c2, c3, if_false, List.length_cons, List.length_nil, Nat.reducePow, and_true, Nat.reduceAdd, List.length_cons, Nat.zero_add]
          omega


/-! ### `decodeStep` against `encodeCp` -/

theorem decodeStep_sound (bs : Bytes) (cp len : Nat) (h : decodeStep bs = some (cp, len)) :
    IsScalar cp ∧ 1 ≤ len ∧ len ≤ 4 ∧ len ≤ bs.length ∧ encodeCp cp = bs.take len :=
  wf_sound bs cp len (decodeStep_wf bs cp len h)

theorem decodeStep_complete (c : Nat) (rest : Bytes) (h : IsScalar c) :
    decodeStep (encodeCp c ++ rest) = some (c, (encodeCp c).length) :=
  wf_decodeStep _ _ _ (wf_complete c rest h)

theorem encodeCp_length_pos (c : Nat) : 1 ≤ (encodeCp c).length := by
  unfold encodeCp; split
  · simp
  · split
    · simp
    · split <;> simp

/-! ### fuel independence and unfolding of `decodeBS` -/

theorem decodeAux_fuel (f1 : Nat) : ∀ (f2 : Nat) (bs : Bytes), bs.length ≤ f1 → bs.length ≤ f2 →
    decodeAux f1 bs = decodeAux f2 bs := by
  induction f1 with
  | zero =>
    intro f2 bs h1 _
    have : bs = [] := List.length_eq_zero_iff.mp (by omega)
    subst this
    cases f2 <;> simp [decodeAux]
  | succ f1 ih =>
    intro f2 bs h1 h2
    match bs, h1, h2 with
    | [], _, _ => cases f2 <;> simp [decodeAux]
    | b :: rest, h1, h2 =>
      match f2, h2 with
      | f2 + 1, h2 =>
        simp only [List.length_cons] at h1 h2
        simp only [decodeAux]
        cases hs : decodeStep (b :: rest) with
        | none =>
          simp only []
          rw [ih f2 rest (by omega) (by omega)]
        | some p =>
          obtain ⟨cp, len⟩ := p
          have hl := decodeStep_sound _ _ _ hs
          simp only []
          have hd : ((b :: rest).drop len).length ≤ rest.length := by
            simp only [List.length_drop, List.length_cons]; omega
          rw [ih f2 _ (by omega) (by omega)]

theorem decodeBS_nil : decodeBS [] = [] := rfl

theorem decodeBS_valid (bs : Bytes) (cp len : Nat) (h : decodeStep bs = some (cp, len)) :
    decodeBS bs = cp :: decodeBS (bs.drop len) := by
  match bs, h with
  | [], h => simp [decodeStep] at h
  | b :: rest, h =>
    have hl := decodeStep_sound _ _ _ h
    simp only [decodeBS, List.length_cons, decodeAux, h]
    have hd : ((b :: rest).drop len).length ≤ rest.length := by
      simp only [List.length_drop, List.length_cons]; omega
    rw [decodeAux_fuel rest.length _ _ hd (Nat.le_refl _)]

theorem decodeBS_invalid (b : UInt8) (rest : Bytes) (h : decodeStep (b :: rest) = none) :
    decodeBS (b :: rest) = escape b ++ decodeBS rest := by
  simp only [decodeBS, List.length_cons, decodeAux, h]

/-! ### every produced code point is a scalar value -/

theorem hexDigitLower_range (n : Nat) (h : n < 16) :
    (48 ≤ hexDigitLower n ∧ hexDigitLower n ≤ 57) ∨ (97 ≤ hexDigitLower n ∧ hexDigitLower n ≤ 102) := by
  unfold hexDigitLower; split <;> omega

theorem escape_scalar (b : UInt8) : ∀ c ∈ escape b, IsScalar c := by
  have hb := UInt8.toNat_lt b
  have h1 := hexDigitLower_range (b.toNat / 16) (by omega)
  have h2 := hexDigitLower_range (b.toNat % 16) (by omega)
  intro c hc
  simp only [escape, List.mem_cons, List.not_mem_nil, or_false] at hc
  unfold IsScalar
  rcases hc with rfl | rfl | rfl | rfl <;> omega

theorem decodeAux_scalar (fuel : Nat) : ∀ (bs : Bytes), ∀ c ∈ decodeAux fuel bs, IsScalar c := by
  induction fuel with
  | zero => intro bs c hc; simp [decodeAux] at hc
  | succ f ih =>
    intro bs c hc
    match bs, hc with
    | [], hc => simp [decodeAux] at hc
    | b :: rest, hc =>
      simp only [decodeAux] at hc
      cases hs : decodeStep (b :: rest) with
      | none =>
        simp only [hs, List.mem_append] at hc
        rcases hc with hc | hc
        · exact escape_scalar b c hc
        · exact ih _ c hc
      | some p =>
        obtain ⟨cp, len⟩ := p
        simp only [hs, List.mem_cons] at hc
        rcases hc with rfl | hc
        · exact (decodeStep_sound _ _ _ hs).1
        · exact ih _ c hc

theorem decodeBS_scalar (bs : Bytes) : ∀ c ∈ decodeBS bs, IsScalar c :=
  decodeAux_scalar bs.length bs

/-! ### valid prefixes, ASCII -/

theorem decodeBS_encodeCp_append (c : Nat) (rest : Bytes) (h : IsScalar c) :
    decodeBS (encodeCp c ++ rest) = c :: decodeBS rest := by
  rw [decodeBS_valid _ _ _ (decodeStep_complete c rest h), List.drop_left]

theorem decodeBS_encode_append (cps : List Nat) (rest : Bytes) (h : ∀ c ∈ cps, IsScalar c) :
    decodeBS (encode cps ++ rest) = cps ++ decodeBS rest := by
  induction cps with
  | nil => simp [encode]
  | cons c cs ih =>
    have hc : IsScalar c := h c (by simp)
    have hcs : ∀ x ∈ cs, IsScalar x := fun x hx => h x (by simp [hx])
    have : encode (c :: cs) = encodeCp c ++ encode cs := by simp [encode]
    rw [this, List.append_assoc, decodeBS_encodeCp_append _ _ hc, ih hcs, List.cons_append]

theorem decodeBS_ascii (bs : Bytes) (h : ∀ b ∈ bs, b < 0x80) : decodeBS bs = bs.map (·.toNat) := by
  induction bs with
  | nil => rfl
  | cons b rest ih =>
    have hb : b.toNat < 128 := (lt128_iff b).mp (h b (by simp))
    rw [decodeBS_valid _ _ _ (decodeStep_one b rest hb)]
    simp only [List.drop_succ_cons, List.drop_zero, List.map_cons]
    rw [ih (fun x hx => h x (by simp [hx]))]

/-! ### segmentation -/

/-- `Segmented bs segs`: `segs` is the left-to-right segmentation of `bs` made by the decoder. Each segment is
    `(consumed bytes, produced code points)`: either a well-formed sequence found by `decodeStep` at that position
    (producing its code point) or, only when `decodeStep` finds none there, the single byte at that position
    (producing its `\xNN` escape). -/
inductive Segmented : Bytes → List (Bytes × List Nat) → Prop
  | nil : Segmented [] []
  | valid (bs : Bytes) (cp len : Nat) (segs : List (Bytes × List Nat)) :
      decodeStep bs = some (cp, len) → Segmented (bs.drop len) segs →
      Segmented bs ((bs.take len, [cp]) :: segs)
  | invalid (b : UInt8) (rest : Bytes) (segs : List (Bytes × List Nat)) :
      decodeStep (b :: rest) = none → Segmented rest segs →
      Segmented (b :: rest) (([b], escape b) :: segs)

theorem segmented_exists (n : Nat) : ∀ (bs : Bytes), bs.length ≤ n →
    ∃ segs, Segmented bs segs ∧ (segs.map (·.1)).flatten = bs ∧ (segs.map (·.2)).flatten = decodeBS bs
      ∧ ∀ s ∈ segs, 1 ≤ s.1.length ∧ s.1.length ≤ 4 := by
  induction n with
  | zero =>
    intro bs h
    have : bs = [] := List.length_eq_zero_iff.mp (by omega)
    subst this
    exact ⟨[], .nil, rfl, rfl, by simp⟩
  | succ n ih =>
    intro bs h
    match bs, h with
    | [], _ => exact ⟨[], .nil, rfl, rfl, by simp⟩
    | b :: rest, h =>
      simp only [List.length_cons] at h
      cases hs : decodeStep (b :: rest) with
      | none =>
        obtain ⟨segs, h1, h2, h3, h4⟩ := ih rest (by omega)
        refine ⟨([b], escape b) :: segs, .invalid b rest segs hs h1, ?_, ?_, ?_⟩
        · simp [h2]
        · simp only [List.map_cons, List.flatten_cons, h3, decodeBS_invalid b rest hs]
        · intro s hs'
          simp only [List.mem_cons] at hs'
          rcases hs' with rfl | hs'
          · simp
          · exact h4 s hs'
      | some p =>
        obtain ⟨cp, len⟩ := p
        have hl := decodeStep_sound _ _ _ hs
        have hd : ((b :: rest).drop len).length ≤ n := by
          simp only [List.length_drop, List.length_cons]; omega
        obtain ⟨segs, h1, h2, h3, h4⟩ := ih _ hd
        refine ⟨((b :: rest).take len, [cp]) :: segs, .valid _ cp len segs hs h1, ?_, ?_, ?_⟩
        · simp only [List.map_cons, List.flatten_cons, h2, List.take_append_drop]
        · simp only [List.map_cons, List.flatten_cons, h3, decodeBS_valid _ _ _ hs, List.singleton_append]
        · intro s hs'
          simp only [List.mem_cons] at hs'
          rcases hs' with rfl | hs'
          · simp only [List.length_take, List.length_cons]
            simp only [List.length_cons] at hl
            omega
          · exact h4 s hs'

end Utf8
end Adb
