import AdbProofs.Lemmas.PeerFrameOps
/- From `Pw` (PeerFrame.lean / PeerFrameOps.lean) to statements about the public API:
   `peerGot` readings, `connect` / `close`, the strict parser on concatenated encodings. -/
namespace Adb

/-- `pull` is the one operation with a `finally` clause that writes -/
def ApiOp.isPull : ApiOp → Bool
  | .pull .. => true
  | _ => false

/-- no scripted future connection has a peer that already received something -/
def World.FreshConns (w : World) : Prop := ∀ c ∈ w.conns, c.peerChunks = []

namespace PeerF

theorem Out.cancel {err : Prop} {T : List Msg} {p a b : Bytes} (h : Out err T (p ++ a) (p ++ b)) : Out err T a b := by
  cases h with
  | whole hp hb =>
    rw [List.append_assoc] at hb
    exact .whole hp (List.append_cancel_left hb)
  | broken ms m k he hT hp hk hu hb =>
    rw [List.append_assoc, List.append_assoc] at hb
    exact .broken ms m k he hT hp hk hu (by rw [List.append_cancel_left hb, List.append_assoc])

/-- the unpacked reading of `Out` used in the property statements -/
theorem Out.unpack {err : Prop} {T : List Msg} {a b : Bytes} (h : Out err T a b) :
    ∃ ms tail, (∀ m ∈ ms, m.Packable) ∧ b = a ++ flat ms ++ tail ∧
      ((tail = [] ∧ T = ms) ∨
       (err ∧ ∃ (m : Msg) (k : Nat), T = ms ++ [m] ∧ k < m.encode.length ∧ (¬ m.Packable → k = 0)
          ∧ tail = m.encode.take k)) := by
  cases h with
  | whole hp hb => exact ⟨T, [], hp, by simpa using hb, Or.inl ⟨rfl, rfl⟩⟩
  | broken ms m k he hT hp hk hu hb => exact ⟨ms, _, hp, hb, Or.inr ⟨he, m, k, hT, hk, hu, rfl⟩⟩

/-- strict functions: the same statement about the OPEN connection -/
theorem Pw.peerGot {α} {x : M α} (hx : Pw true x) {w w' : World} {r : Except Err α} (h : x w = (r, w')) :
    ∃ evs, w'.trace = evs ++ w.trace ∧ Out (Failed r) (transmitted evs) w.peerGot w'.peerGot ∧ w'.past = w.past := by
  obtain ⟨evs, ht, ho, hp⟩ := hx w r w' h
  have hp' : w'.past = w.past := by
    rcases hp with hp | ⟨hs, _⟩
    · exact hp
    · cases hs
  refine ⟨evs, ht, ?_, hp'⟩
  rw [World.peerAll, World.peerAll, hp'] at ho
  exact ho.cancel

theorem Pw2.peerGot {α} {x : M α} (hx : Pw2 true x) {w w' : World} {r : Except Err α} (h : x w = (r, w')) :
    ∃ evs1 evs2 mid, w'.trace = evs2 ++ evs1 ++ w.trace ∧ Out (Failed r) (transmitted evs1) w.peerGot mid ∧
      Out (Failed r) (transmitted evs2) mid w'.peerGot ∧ w'.past = w.past := by
  obtain ⟨e1, e2, mid, ht, ho1, ho2, hp⟩ := hx w r w' h
  have hp' : w'.past = w.past := by
    rcases hp with hp | ⟨hs, _⟩
    · exact hp
    · cases hs
  obtain ⟨b1, hb1, -⟩ := ho1.wellFormed
  subst hb1
  have e : w'.peerAll = w.past.reverse.flatten ++ w'.peerGot := by rw [World.peerAll, hp']
  rw [e, World.peerAll, List.append_assoc] at ho2
  rw [World.peerAll, List.append_assoc] at ho1
  exact ⟨e1, e2, w.peerGot ++ b1, ht, ho1.cancel, ho2.cancel, hp'⟩

theorem Pw2_of_Pw {s α} {x : M α} (hx : Pw s x) : Pw2 s x := by
  intro w r w' h
  obtain ⟨evs, ht, ho, hp⟩ := hx w r w' h
  exact ⟨evs, [], w'.peerAll, by simpa using ht, ho, Out.nil _, hp⟩

/-- every operation that talks over the established connection, except `pull` -/
theorem Pw_run (op : ApiOp) (hs : op.isStreamOp = true) (hp : op.isPull = false) : Pw true op.run := by
  cases op <;> simp only [ApiOp.isStreamOp, ApiOp.isPull, Bool.false_eq_true, Bool.true_eq_false] at hs hp <;>
    unfold ApiOp.run <;> pw

/-- every operation that talks over the established connection, `pull` included -/
theorem Pw2_run (op : ApiOp) (hs : op.isStreamOp = true) : Pw2 true op.run := by
  by_cases hp : op.isPull = true
  · cases op <;> simp only [ApiOp.isPull, Bool.false_eq_true] at hp
    exact Pw2_devPull _ _ _ _
  · exact Pw2_of_Pw (Pw_run op hs (by simpa using hp))

/-- `AdbDevice.connect` (see `ioConnect_peer`) -/
theorem devConnect_peer (keys : List Nat) (tt authT rt : Timeout) (hasCb : Bool)
    (w : World) (r : Except Err Val) (w' : World) (h : devConnect keys tt authT rt hasCb w = (r, w')) :
    ∃ evs base, w'.trace = evs ++ w.trace ∧
      (base = [] ∨ ∃ c rest, w.conns = c :: rest ∧ base = c.peerGot) ∧
      Out (Failed r) (transmitted evs) (w.peerAll ++ base) w'.peerAll ∧
      (∀ v, r = .ok v → w'.peerGot = base ++ flat (transmitted evs)) := by
  have triv : ∀ (e : Err), ∃ evs base, w.trace = evs ++ w.trace ∧
      (base = [] ∨ ∃ c rest, w.conns = c :: rest ∧ base = c.peerGot) ∧
      Out (Failed (.error e : Except Err Val)) (transmitted evs) (w.peerAll ++ base) w.peerAll ∧
      (∀ v, (.error e : Except Err Val) = .ok v → w.peerGot = base ++ flat (transmitted evs)) :=
    fun e => ⟨[], [], rfl, Or.inl rfl, by simpa using Out.nil _, by simp⟩
  unfold devConnect at h
  rcases bind_any_inv h with ⟨e, he, rfl⟩ | ⟨tt', w1, he, h⟩
  · simp only [getTT, Prod.mk.injEq] at he; obtain ⟨-, rfl⟩ := he; exact triv e
  simp only [getTT, Prod.mk.injEq] at he; obtain ⟨-, rfl⟩ := he
  rcases bind_any_inv h with ⟨e, he, rfl⟩ | ⟨t, w1, he, h⟩
  · simp only [liftExcept_run, Prod.mk.injEq] at he; obtain ⟨-, rfl⟩ := he; exact triv e
  simp only [liftExcept_run, Prod.mk.injEq] at he; obtain ⟨-, rfl⟩ := he
  rcases bind_any_inv h with ⟨e, he, rfl⟩ | ⟨u, w1, he, h⟩
  · simp at he
  simp only [M.modify_run, Prod.mk.injEq] at he; obtain ⟨-, rfl⟩ := he
  rcases bind_any_inv h with ⟨e, he, rfl⟩ | ⟨w0, w1, he, h⟩
  · simp at he
  simp only [M.get_run, Prod.mk.injEq] at he; obtain ⟨-, rfl⟩ := he
  rcases bind_any_inv h with ⟨e, he, rfl⟩ | ⟨md, w5, he, h⟩
  · obtain ⟨evs, base, ht, hb, ho, hk⟩ := ioConnect_peer _ _ _ _ _ _ _ _ he
    exact ⟨evs, base, ht, hb, ho.mono (fun _ => failed_error e), by simp⟩
  · obtain ⟨evs, base, ht, hb, ho, hk⟩ := ioConnect_peer _ _ _ _ _ _ _ _ he
    simp only [bind_run, M.modify_run, pure_run, Prod.mk.injEq] at h
    obtain ⟨rfl, rfl⟩ := h
    refine ⟨evs, base, ht, hb, ?_, fun v _ => hk md rfl⟩
    exact (ho.mono (not_failed_ok md)).mono (fun h => h.elim)

/-- `AdbDevice.close()`: nothing is written, nothing the peer had is forgotten -/
theorem devClose_peer (w : World) (r : Except Err Val) (w' : World) (h : devClose w = (r, w')) :
    ∃ evs, w'.trace = evs ++ w.trace ∧ transmitted evs = [] ∧ w'.peerAll = w.peerAll := by
  unfold devClose at h
  rcases bind_any_inv h with ⟨e, he, rfl⟩ | ⟨u, w1, he, h⟩
  · simp at he
  simp only [M.modify_run, Prod.mk.injEq] at he; obtain ⟨-, rfl⟩ := he
  rcases bind_any_inv h with ⟨e, he, rfl⟩ | ⟨u, w1, he, h⟩
  · obtain ⟨evs, ht, hT, hpa⟩ := ioClose_peer _ _ _ he
    exact ⟨evs, ht, hT, hpa⟩
  · simp only [pure_run, Prod.mk.injEq] at h
    obtain ⟨-, rfl⟩ := h
    obtain ⟨evs, ht, hT, hpa⟩ := ioClose_peer _ _ _ he
    exact ⟨evs, ht, hT, hpa⟩

theorem WellFormedStream.nil : WellFormedStream [] := ⟨[], [], by simp, rfl, Or.inl rfl⟩

theorem WellFormedStream.flat {ms : List Msg} (h : ∀ m ∈ ms, m.Packable) : WellFormedStream (flat ms) :=
  ⟨ms, [], h, by simp, Or.inl rfl⟩

/-- the bytes added are a well-formed stream; without an exception they are exactly the encodings of `T` -/
theorem Out.stream {err : Prop} {T : List Msg} {a b : Bytes} (h : Out err T a b) :
    ∃ bs, b = a ++ bs ∧ WellFormedStream bs ∧ (¬ err → bs = flat T ∧ ∀ m ∈ T, m.Packable) := by
  cases h with
  | whole hp hb => exact ⟨_, hb, WellFormedStream.flat hp, fun _ => ⟨rfl, hp⟩⟩
  | broken ms m k he hT hp hk hu hb =>
    obtain ⟨bs, hbs, hw⟩ := (Out.broken ms m k he hT hp hk hu hb : Out err T a b).wellFormed
    exact ⟨bs, hbs, hw, fun hn => (hn he).elim⟩

/-! ### the strict parser on concatenated encodings -/

theorem encode_length (m : Msg) : m.encode.length = 24 + m.data.length := by
  simp [Msg.encode, Msg.packHdr]
  omega

theorem flat_length_ge (ms : List Msg) : 24 * ms.length ≤ (flat ms).length := by
  induction ms with
  | nil => simp
  | cons m ms ih =>
    have : flat (m :: ms) = m.encode ++ flat ms := by simp [flat]
    rw [this, List.length_append, encode_length, List.length_cons]
    omega

/-- the oracle the harness runs on the implementation's bytes accepts whole packable messages and
    returns exactly them -/
theorem parseStrict_flat (ms : List Msg) (h : ∀ m ∈ ms, m.Packable) :
    parseStrict (flat ms) = (ms.map (fun m => (⟨m.cmd, m.arg0, m.arg1, m.data⟩ : Pkt)), []) := by
  unfold parseStrict
  have hf : ms.length ≤ (flat ms).length / 24 := by
    have := flat_length_ge ms
    omega
  have := C02_parse_stream ms h [] ((flat ms).length / 24) hf
  simpa [flat] using this

end PeerF
end Adb
