import AdbProofs.Lemmas.TimeFrameConnect
import AdbProofs.Lemmas.TimeFrameTotal
/-
  The time frame for every API operation (`ApiOp`), and its reading in terms of the events an operation adds
  to the trace: `rxCount evs` packets delivered, `txCount evs` write waits of the messages sent, `rxBytes evs`
  payload bytes delivered.
-/
namespace Adb

variable {P : TP} {X : Int}

/-- the effective timeouts of the operation are the numbers in `P` (for `push` also: the static loop budget
    `P.F` covers every local file) -/
def ApiOp.Eff (P : TP) : ApiOp → Prop
  | .connect _ tt authT rt _ => ConnEff P tt authT rt
  | .close => True
  | .shell _ tt rt total _ => EffT P tt rt total
  | .execOut _ tt rt total _ => EffT P tt rt total
  | .root tt rt total => EffT P tt rt total
  | .reboot _ tt rt total => EffT P tt rt total
  | .streamingShell _ tt rt _ => EffT P tt rt none
  | .list _ tt rt => EffT P tt rt none
  | .stat _ tt rt => EffT P tt rt none
  | .pull _ _ tt rt => EffT P tt rt none
  | .push _ _ _ _ _ tt rt => EffT P tt rt none ∧ P.FilesFit

/-- what the operation needs of the world it starts in: an idle device object on a conforming transport;
    for `connect`: no lock held and a conforming NEXT connection -/
def ApiOp.Pre (P : TP) : ApiOp → World → Prop
  | .connect .., w => ConnPre P w
  | _, w => TPre P w

/-- number of failing waits an operation can meet: one; `pull` closes its stream after a failure, which may
    wait once more; `close` never waits -/
def ApiOp.failWaits : ApiOp → Nat
  | .pull .. => 2
  | .close => 0
  | _ => 1

theorem tcost_of_trace {w w' : World} {evs : List TEv} (h : w'.trace = evs ++ w.trace) :
    w'.tcost P - w.tcost P = (rxCount evs : Int) * P.W + (txCount evs : Int) * P.S ∧
    w'.tneed P - w.tneed P = (rxCount evs : Int) * P.W + (txCount evs : Int) * P.S + (rxBytes evs : Int) := by
  unfold World.tneed World.tcost
  rw [h, rxCount_append, txCount_append, rxBytes_append]
  simp only [Int.natCast_add, Int.add_mul]
  omega

/-- the loop budget hypothesis in terms of the events `evs` the operation added: it exceeds the packets parked
    in the store + the time justified by the events + the delivered payload bytes + the allowance for the
    failing waits + the read timeout + the static part -/
def EvBudget (P : TP) (c : Nat) (w : World) (evs : List TEv) : Prop :=
  (parkedCount w.store : Int) + ((rxCount evs : Int) * P.W + (txCount evs : Int) * P.S) + (rxBytes evs : Int)
    + (c : Int) * P.W + P.R + P.F < w.fuel

theorem EvBudget.budget {c : Nat} {w w' : World} {evs : List TEv} (h : w'.trace = evs ++ w.trace)
    (hb : EvBudget P c w evs) : Budget P ((c : Int) * P.W) w w' := by
  unfold EvBudget at hb
  unfold Budget
  rw [(tcost_of_trace h).2]
  omega

/-- the frame of every API operation -/
theorem ApiOp.frame (op : ApiOp) (heff : op.Eff P) {w w' : World} {r : Except Err Val} (h : op.run w = (r, w')) :
    Ext w w' ∧ (op.Pre P w → Budget P ((op.failWaits : Int) * P.W) w w' →
      isHang r = false ∧ TPre P w' ∧ w'.fuel = w.fuel ∧ w.now ≤ w'.now ∧
      w'.now - w.now ≤ w'.tcost P - w.tcost P + (if okB r then 0 else (op.failWaits : Int) * P.W)) := by
  have hW := P.W_pos
  have fin : ∀ {X : Int}, TFat P X w r w' → Ext w w' ∧ (TPre P w → Budget P X w w' →
      isHang r = false ∧ TPre P w' ∧ w'.fuel = w.fuel ∧ w.now ≤ w'.now ∧
      w'.now - w.now ≤ w'.tcost P - w.tcost P + (if okB r then 0 else X)) := by
    intro X hf
    refine ⟨hf.1, fun hp hb => ?_⟩
    obtain ⟨a, b⟩ := hf.2 hp hb
    refine ⟨a, b.pre, b.fuel, b.mono, ?_⟩
    have := b.time
    split at this <;> simp_all
  have one : ((1 : Nat) : Int) * P.W = P.W := by omega
  have two : ((2 : Nat) : Int) * P.W = P.W + P.W := by omega
  cases op with
  | connect keys tt authT rt cb =>
    refine ⟨devConnect_ext h, fun hp hb => ?_⟩
    have hbase := hb.base (devConnect_ext h) (by simp only [ApiOp.failWaits, one]; omega)
    obtain ⟨-, a, b, c, d, e⟩ := devConnect_time heff h hp (by omega)
    simp only [ApiOp.failWaits, one]
    exact ⟨a, b, c, d, e⟩
  | close =>
    refine ⟨devClose_ext h, fun hp _ => ?_⟩
    obtain ⟨-, rfl, hp', hfu, hnow, hc⟩ := devClose_time (P := P) h hp
    refine ⟨rfl, hp', hfu, by omega, ?_⟩
    rw [hnow, hc]; simp
  | shell cmd tt rt total dec =>
    simp only [ApiOp.failWaits, one]
    exact fin (TF_devShellLike _ _ cmd tt rt total dec heff (Int.le_refl _) w r w' h)
  | execOut cmd tt rt total dec =>
    simp only [ApiOp.failWaits, one]
    exact fin (TF_devShellLike _ _ cmd tt rt total dec heff (Int.le_refl _) w r w' h)
  | root tt rt total =>
    simp only [ApiOp.failWaits, one]
    exact fin (TF_devRoot tt rt total heff (Int.le_refl _) w r w' h)
  | reboot fb tt rt total =>
    simp only [ApiOp.failWaits, one]
    exact fin (TF_devReboot fb tt rt total heff (Int.le_refl _) w r w' h)
  | streamingShell cmd tt rt dec =>
    simp only [ApiOp.failWaits, one]
    exact fin (TF_devStreamingShell cmd tt rt dec heff (Int.le_refl _) w r w' h)
  | list p tt rt =>
    simp only [ApiOp.failWaits, one]
    exact fin (TF_devList p tt rt heff (Int.le_refl _) w r w' h)
  | stat p tt rt =>
    simp only [ApiOp.failWaits, one]
    exact fin (TF_devStat p tt rt heff (Int.le_refl _) w r w' h)
  | pull p cb tt rt =>
    simp only [ApiOp.failWaits, two]
    exact fin (TF_devPull p cb tt rt heff (Int.le_refl _) w r w' h)
  | push src p mode mtime cb tt rt =>
    simp only [ApiOp.failWaits, one]
    exact fin (TF_devPush src p mode mtime cb tt rt heff.1 (Int.le_refl _) heff.2 w r w' h)

/-! ### example worlds for the non-vacuity examples of C11Api -/

/-- total silence on an established connection (`available`), every call costs 1 tick -/
def c11ApiSilent : World := { c11Silent with available := true, fuel := 100000 }

/-- a well-behaved shell device: OKAY for the OPEN, two WRTE items, CLSE; every call costs 3 ticks -/
def c11ApiShell : World :=
  { cur := some { dt := 3, segs := [⟨0, (Msg.mk .OKAY 7 1 []).encode ++ (Msg.mk .WRTE 7 1 [65]).encode ++
      (Msg.mk .WRTE 7 1 [66]).encode ++ (Msg.mk .CLSE 7 1 []).encode⟩] }, available := true }

/-- only traffic for another stream (local id 9), 600 ticks per read call -/
def c11ApiFlood : World := { c11Flood with available := true, fuel := 100000 }

/-- a device that answers the OPEN and the STAT request and then falls silent before answering the CLSE -/
def c11ApiStat : World :=
  { cur := some { dt := 2, segs := [⟨0, (Msg.mk .OKAY 7 1 []).encode ++ (Msg.mk .OKAY 7 1 []).encode ++
      (Msg.mk .WRTE 7 1 (le32 SyncId.STAT.wire ++ le32 33188 ++ le32 5 ++ le32 1700000000)).encode⟩] },
    available := true }

/-- pull from a device that answers the OPEN and then falls silent: the failing wait is followed by the
    clean-up CLSE handshake, which waits once more -/
def c11ApiPull : World :=
  { cur := some { dt := 2, segs := [⟨0, (Msg.mk .OKAY 7 1 []).encode⟩] }, available := true }

/-- a device that answers the OPEN and then keeps sending WRTE items; every call costs 300 ticks (an item costs
    900: header, payload, OKAY) -/
def c11ApiStreamT : World :=
  { cur := some { dt := 300, segs := [⟨0, (Msg.mk .OKAY 7 1 []).encode ++
      (List.replicate 5 (Msg.mk .WRTE 7 1 [65]).encode).flatten⟩] }, available := true }

/-- a device object that is not connected; the next connection answers the CNXN with a CNXN (no authentication) -/
def c11ApiConn : World :=
  { conns := [{ dt := 2, segs := [⟨0, (Msg.mk .CNXN 0x01000000 4096 (ascii "device::")).encode⟩] }] }

/-- a device object that is not connected; the next connection accepts the CNXN and never answers -/
def c11ApiConnSilent : World := { conns := [{ dt := 2 }] }

/-- shell with `timeout_s` = 1024 ticks -/
def c11ShellTOp : ApiOp := .shell [108, 115] (some 50) (some 1024) (some 1024) false
/-- connect without keys: transport timeout 50, auth timeout 50, read timeout 1024 -/
def c11ConnOp : ApiOp := .connect [] (some 50) (some 50) (some 1024) false
def c11ShellOp : ApiOp := .shell [108, 115] (some 50) (some 1024) none false
def c11StatOp : ApiOp := .stat [47, 120] (some 50) (some 1024)
def c11PullOp : ApiOp := .pull [47, 120] .none (some 50) (some 1024)


/-- the value of a result, if any (so that concrete results can be compared with `decide`) -/
def c11ValOf {α : Type} : Except Err α → Option α
  | .ok v => some v
  | .error _ => none

theorem eq_ok_of_c11ValOf {α : Type} {x : Except Err α} {v : α} (h : c11ValOf x = some v) : x = .ok v := by
  cases x <;> simp_all [c11ValOf]

/-- read timeout 1024 ticks (1 s), transport timeout 50 ticks, call cost `D`; no default transport timeout,
    no local files -/
def c11P (D : Int) (hD : 1 ≤ D) : TP := ⟨1024, 50, D, none, [], 0, by omega, by omega, hD⟩

theorem c11P_eff (D : Int) (hD : 1 ≤ D) (total : Timeout) (htot : total = none ∨ ∃ T, total = some T ∧ 1024 ≤ T) :
    EffT (c11P D hD) (some 50) (some 1024) total := by
  rcases htot with rfl | ⟨T, rfl, hT⟩
  · exact ⟨⟨none, none, some 50, some 1024, none⟩, rfl, rfl, rfl⟩
  · refine ⟨⟨none, none, some 50, some 1024, some T⟩, ?_, rfl, rfl⟩
    simp only [Txn.make, pyMin, Option.isSome_some, if_true, bind, Except.bind, pure, Except.pure]
    have h1 : min (1024 : Int) T = 1024 := by omega
    have h2 : min (50 : Int) 1024 = 50 := by omega
    simp [h1, h2]

theorem TPre.of_cur {P : TP} {w : World} {c : Conn} (h : w.cur = some c) (h1 : 1 ≤ c.dt) (h2 : c.dt ≤ P.D)
    (hl : w.locks = []) (hd : w.defaultTT = P.dtt) (hf : w.files = P.files) : TPre P w :=
  ⟨fun c' hc' => by rw [h] at hc'; cases hc'; exact ⟨h1, h2⟩, hl, hd, hf⟩

end Adb
