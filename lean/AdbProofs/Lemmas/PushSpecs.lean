import AdbProofs.Lemmas.PushTrace
/-
  Specifications of the FileSync send side for C07: what `_send`, `_filesync_flush`, `_filesync_send`,
  the data loop of `_push`, `_filesync_read` and `_push` itself put on the wire on a normal return.
  All statements have the form `f args w = (.ok r, w') → w'.trace = evs ++ w.trace → facts about evs`.
-/
namespace Adb.Push
open Adb

/-- no event at all -/
def QNone : TEv → Prop := fun _ => False

theorem Tr.silent {α} {x : M α} (h : Tr QNone x) (w : World) : (x w).2.trace = w.trace := by
  obtain ⟨evs, h1, h2⟩ := h.trace w
  cases evs with
  | nil => simpa using h1
  | cons e es => exact (h2 e (by simp)).elim

/-- what `_send` does after recording the message -/
def sendRawRest (m : Msg) (t : Txn) : M Unit :=
  match m.pack? with
  | none => M.throw .pyStructError
  | some hdr => do
    writeAll hdr t
    if !m.data.isEmpty then writeAll m.data t

theorem sendRaw_eq (m : Msg) (t : Txn) (w : World) :
    sendRaw m t w = sendRawRest m t { w with trace := .tx m :: w.trace } := rfl

theorem Tr_sendRawRest {Q} (m : Msg) (t : Txn) : Tr Q (sendRawRest m t) := by
  unfold sendRawRest
  trq

/-- `_send` records exactly its message -/
theorem sendRaw_trace (m : Msg) (t : Txn) (w : World) : (sendRaw m t w).2.trace = .tx m :: w.trace := by
  rw [sendRaw_eq]
  exact (Tr_sendRawRest (Q := QNone) m t).silent _

theorem withLock_ok_inv {α} {l : Nat} {body : M α} {w w' : World} {a : α} (h : withLock l body w = (.ok a, w')) :
    ∃ w1, body { w with locks := l :: w.locks } = (.ok a, w1) ∧ w' = { w1 with locks := w1.locks.erase l } := by
  rw [withLock_run] at h
  split at h
  · simp at h
  · refine ⟨(body { w with locks := l :: w.locks }).2, ?_, ?_⟩
    · simp only [Prod.mk.injEq] at h
      exact Prod.ext h.1 rfl
    · simp only [Prod.mk.injEq] at h
      exact h.2.symm

theorem ioSend_ok_trace {m : Msg} {t : Txn} {w w' : World} {u : Unit} (h : ioSend m t w = (.ok u, w')) :
    w'.trace = .tx m :: w.trace := by
  unfold ioSend at h
  obtain ⟨w1, h1, rfl⟩ := withLock_ok_inv h
  have := sendRaw_trace m t { w with locks := lockTransport :: w.locks }
  rw [h1] at this
  exact this


/-- run a step whose trace class is known: the new events -/
theorem Tr.step {α} {Q} {x : M α} (h : Tr Q x) {w w1 : World} {r : Except Err α} (hx : x w = (r, w1)) :
    ∃ evs, w1.trace = evs ++ w.trace ∧ ∀ e ∈ evs, Q e := by
  have := h.trace w
  rw [hx] at this
  exact this

theorem fsFlushLoop_ok {t : Txn} : ∀ {fuel : Nat} {fi fi' : FsInfo} {w w' : World},
    fsFlushLoop t fuel fi w = (.ok fi', w') →
    fi'.sendBuf = [] ∧ fi'.fmt = fi.fmt ∧ fi'.maxdata = fi.maxdata := by
  intro fuel
  induction fuel with
  | zero => intro fi fi' w w' h; simp [fsFlushLoop] at h
  | succ f ih =>
    intro fi fi' w w' h
    unfold fsFlushLoop at h
    obtain ⟨⟨cmd, data⟩, w1, h1, h2⟩ := bind_ok_inv h
    dsimp only at h2
    split at h2
    · simp only [pure_run, Prod.mk.injEq, Except.ok.injEq] at h2
      obtain ⟨rfl, _⟩ := h2
      simp
    · have := ih h2
      simpa using this

/-- `_filesync_flush`: exactly one WRTE, carrying the whole buffer; the buffer is empty afterwards -/
theorem fsFlush_ok {t : Txn} {fi fi' : FsInfo} {w w' : World} {evs : List TEv}
    (h : fsFlush t fi w = (.ok fi', w')) (hev : w'.trace = evs ++ w.trace) :
    transmitted evs ≠ [] ∧
    wrtePayloads (t.localId.getD 0) (t.remoteId.getD 0) evs = [fi.sendBuf] ∧ progressCalls evs = [] ∧
    fi'.sendBuf = [] ∧ fi'.fmt = fi.fmt ∧ fi'.maxdata = fi.maxdata := by
  unfold fsFlush at h
  obtain ⟨u, w1, h1, h2⟩ := bind_ok_inv h
  have ht1 := ioSend_ok_trace h1
  simp only [bind_run, M.get_run] at h2
  obtain ⟨e2, ht2, hq2⟩ := (Tr_fsFlushLoop QOkay.house QOkay.deliv QOkay.txOkay t w1.fuel fi).step h2
  have hevs : evs = e2 ++ [TEv.tx ⟨.WRTE, t.localId.getD 0, t.remoteId.getD 0, fi.sendBuf⟩] :=
    evs_split (e1 := [_]) ht1 ht2 hev
  subst hevs
  refine ⟨?_, ?_, ?_, fsFlushLoop_ok h2⟩
  · simp [transmitted_append]
  · rw [wrtePayloads_append, wrtePayloads_wrte, QOkay.wrtePayloads hq2]; rfl
  · rw [progressCalls_append, QOkay.progressCalls hq2]; rfl


/-- `_filesync_send`, normal return: either the record was appended to the buffer and nothing
    happened on the wire, or the buffer went out as one WRTE and the record starts a new buffer. -/
theorem fsSend_ok {id : SyncId} {t : Txn} {fi fi' : FsInfo} {data : Bytes} {size : Option Nat} {w w' : World}
    {evs : List TEv} (h : fsSend id t fi data size w = (.ok fi', w')) (hev : w'.trace = evs ++ w.trace) :
    ((fi.canAdd data.length = true ∧ evs = [] ∧
        fi'.sendBuf = fi.sendBuf ++ syncRec id (size.getD data.length) data) ∨
     (fi.canAdd data.length = false ∧ transmitted evs ≠ [] ∧
        wrtePayloads (t.localId.getD 0) (t.remoteId.getD 0) evs = [fi.sendBuf] ∧
        fi'.sendBuf = syncRec id (size.getD data.length) data)) ∧
    progressCalls evs = [] ∧ fi'.fmt = fi.fmt ∧ fi'.maxdata = fi.maxdata ∧ size.getD data.length < 4294967296 := by
  unfold fsSend at h
  cases hc : fi.canAdd data.length with
  | true =>
    simp only [hc, Bool.not_true, Bool.false_eq_true, if_false] at h
    obtain ⟨fi1, w1, h1, h2⟩ := bind_ok_inv h
    simp only [pure_run, Prod.mk.injEq, Except.ok.injEq] at h1
    obtain ⟨rfl, rfl⟩ := h1
    split at h2
    · simp [bind_run] at h2
    · next hlt =>
      simp only [pure_run, Prod.mk.injEq, Except.ok.injEq] at h2
      obtain ⟨rfl, rfl⟩ := h2
      have : evs = [] := evs_unique (e1 := []) (t0 := w.trace) (evs := evs) (by simpa using hev)
      subst this
      refine ⟨Or.inl ⟨rfl, rfl, ?_⟩, rfl, rfl, rfl, by omega⟩
      simp [syncRec, List.append_assoc]
  | false =>
    simp only [hc, Bool.not_false, if_true] at h
    obtain ⟨fi1, w1, h1, h2⟩ := bind_ok_inv h
    split at h2
    · simp [bind_run] at h2
    · next hlt =>
      simp only [pure_run, Prod.mk.injEq, Except.ok.injEq] at h2
      obtain ⟨rfl, rfl⟩ := h2
      obtain ⟨hne, hp, hpc, hsb, hf, hm⟩ := fsFlush_ok h1 hev
      refine ⟨Or.inr ⟨rfl, hne, hp, ?_⟩, hpc, hf, hm, by omega⟩
      simp [hsb, syncRec, List.append_assoc]

/-- the buffering law of `_filesync_send` -/
theorem fsSend_conservation {id : SyncId} {t : Txn} {fi fi' : FsInfo} {data : Bytes} {size : Option Nat} {w w' : World}
    {evs : List TEv} (h : fsSend id t fi data size w = (.ok fi', w')) (hev : w'.trace = evs ++ w.trace) :
    (wrtePayloads (t.localId.getD 0) (t.remoteId.getD 0) evs).flatten ++ fi'.sendBuf
      = fi.sendBuf ++ syncRec id (size.getD data.length) data := by
  obtain ⟨hcase, -⟩ := fsSend_ok h hev
  rcases hcase with ⟨-, rfl, hb⟩ | ⟨-, -, hp, hb⟩
  · simp [hb]
  · simp [hp, hb]

/-- the progress callback: never fails, touches nothing but the trace -/
theorem callProgress_run (cb : CbMode) (p : Bytes) (n tot : Nat) (w : World) :
    callProgress cb p n tot w =
      (.ok (), { w with trace := (if cb = CbMode.none then [] else [TEv.cbProgress p n tot]) ++ w.trace }) := by
  cases cb <;> rfl


/-- no WRTE of `_filesync_send` is empty or reaches maxdata, as long as the record fits an empty buffer -/
theorem fsSend_bound {id : SyncId} {t : Txn} {fi fi' : FsInfo} {data : Bytes} {size : Option Nat} {w w' : World}
    {evs : List TEv} (h : fsSend id t fi data size w = (.ok fi', w')) (hev : w'.trace = evs ++ w.trace)
    (hfit : fi.fmt.size + data.length < fi.maxdata)
    (hinv : 0 < fi.sendBuf.length → fi.sendBuf.length < fi.maxdata) :
    (∀ p ∈ wrtePayloads (t.localId.getD 0) (t.remoteId.getD 0) evs, 0 < p.length ∧ p.length < fi.maxdata) ∧
    0 < fi'.sendBuf.length ∧ fi'.sendBuf.length < fi.maxdata := by
  obtain ⟨hcase, -, -, -, -⟩ := fsSend_ok h hev
  have h8 := fmt_size_ge fi.fmt
  rcases hcase with ⟨hc, rfl, hb⟩ | ⟨hc, -, hp, hb⟩
  · simp only [FsInfo.canAdd, decide_eq_true_eq] at hc
    refine ⟨by simp, ?_, ?_⟩ <;> simp [hb] <;> omega
  · simp only [FsInfo.canAdd, decide_eq_false_iff_not] at hc
    rw [hp]
    refine ⟨?_, ?_, ?_⟩
    · intro p hp'
      simp only [List.mem_singleton] at hp'
      subst hp'
      have : 0 < fi.sendBuf.length := by omega
      exact ⟨this, hinv this⟩
    · simp [hb]; omega
    · simp [hb]; omega

theorem pushDataLoop_ok {devPath : Bytes} {cb : CbMode} {total chunk : Nat} {t : Txn} :
    ∀ {fuel : Nat} {content : Bytes} {fi fi' : FsInfo} {w w' : World} {evs : List TEv},
    pushDataLoop devPath cb total chunk t fuel content fi w = (.ok fi', w') → w'.trace = evs ++ w.trace →
    (wrtePayloads (t.localId.getD 0) (t.remoteId.getD 0) evs).flatten ++ fi'.sendBuf
        = fi.sendBuf ++ ((chunksOf chunk content).map fun c => syncRec .DATA c.length c).flatten ∧
    progressCalls evs = (if cb = CbMode.none then [] else (chunksOf chunk content).map fun c => (devPath, c.length, total)) ∧
    fi'.fmt = fi.fmt ∧ fi'.maxdata = fi.maxdata := by
  intro fuel
  induction fuel with
  | zero => intro content fi fi' w w' evs h; simp [pushDataLoop] at h
  | succ f ih =>
    intro content fi fi' w w' evs h hev
    unfold pushDataLoop at h
    dsimp only at h
    rw [chunksOf_unfold]
    split at h
    · next hemp =>
      simp only [pure_run, Prod.mk.injEq, Except.ok.injEq] at h
      obtain ⟨rfl, rfl⟩ := h
      have : evs = [] := evs_unique (e1 := []) (t0 := w.trace) (evs := evs) (by simpa using hev)
      subst this
      simp [hemp]
    · next hemp =>
      obtain ⟨fi1, w1, h1, h2⟩ := bind_ok_inv h
      obtain ⟨u, w2, h3, h4⟩ := bind_ok_inv h2
      rw [callProgress_run] at h3
      simp only [Prod.mk.injEq, true_and] at h3
      obtain ⟨e1, he1⟩ := (by have := (Fr_fsSend .DATA t fi (content.take chunk) none w).trace; rwa [h1] at this :
        ∃ e1, w1.trace = e1 ++ w.trace)
      obtain ⟨e3, he3⟩ := (by
        have := (Fr_pushDataLoop devPath cb total chunk t f (content.drop chunk) fi1 w2).trace; rwa [h4] at this :
        ∃ e3, w'.trace = e3 ++ w2.trace)
      have hw2 : w2.trace = (if cb = CbMode.none then [] else [TEv.cbProgress devPath (content.take chunk).length total]) ++ w1.trace := by
        rw [← h3]
      obtain ⟨hcase, hpc1, hf1, hm1, -⟩ := fsSend_ok h1 he1
      have hcons := fsSend_conservation h1 he1
      obtain ⟨ihc, ihp, ihf, ihm⟩ := ih h4 he3
      have hevs : evs = e3 ++ ((if cb = CbMode.none then [] else [TEv.cbProgress devPath (content.take chunk).length total]) ++ e1) :=
        evs_split (by rw [hw2, he1, List.append_assoc]) he3 hev
      subst hevs
      simp only [hemp, Bool.false_eq_true, if_false, List.map_cons, List.flatten_cons]
      refine ⟨?_, ?_, ihf.trans hf1, ihm.trans hm1⟩
      · rw [wrtePayloads_append, wrtePayloads_append, List.flatten_append, List.flatten_append, List.append_assoc, ihc]
        have : wrtePayloads (t.localId.getD 0) (t.remoteId.getD 0)
            (if cb = CbMode.none then [] else [TEv.cbProgress devPath (content.take chunk).length total]) = [] := by
          split <;> rfl
        rw [this, List.flatten_nil, List.append_nil, ← List.append_assoc, hcons]
        simp
      · rw [progressCalls_append, progressCalls_append, hpc1, ihp]
        cases cb <;> simp


theorem pushDataLoop_bound {devPath : Bytes} {cb : CbMode} {total chunk : Nat} {t : Txn} :
    ∀ {fuel : Nat} {content : Bytes} {fi fi' : FsInfo} {w w' : World} {evs : List TEv},
    pushDataLoop devPath cb total chunk t fuel content fi w = (.ok fi', w') → w'.trace = evs ++ w.trace →
    fi.fmt.size + chunk < fi.maxdata → (0 < fi.sendBuf.length → fi.sendBuf.length < fi.maxdata) →
    (∀ p ∈ wrtePayloads (t.localId.getD 0) (t.remoteId.getD 0) evs, 0 < p.length ∧ p.length < fi.maxdata) ∧
    (0 < fi'.sendBuf.length → fi'.sendBuf.length < fi.maxdata) := by
  intro fuel
  induction fuel with
  | zero => intro content fi fi' w w' evs h; simp [pushDataLoop] at h
  | succ f ih =>
    intro content fi fi' w w' evs h hev hfit hinv
    unfold pushDataLoop at h
    dsimp only at h
    split at h
    · next hemp =>
      simp only [pure_run, Prod.mk.injEq, Except.ok.injEq] at h
      obtain ⟨rfl, rfl⟩ := h
      have : evs = [] := evs_unique (e1 := []) (t0 := w.trace) (evs := evs) (by simpa using hev)
      subst this
      exact ⟨by simp, hinv⟩
    · next hemp =>
      obtain ⟨fi1, w1, h1, h2⟩ := bind_ok_inv h
      obtain ⟨u, w2, h3, h4⟩ := bind_ok_inv h2
      rw [callProgress_run] at h3
      simp only [Prod.mk.injEq, true_and] at h3
      obtain ⟨e1, he1⟩ := (by have := (Fr_fsSend .DATA t fi (content.take chunk) none w).trace; rwa [h1] at this :
        ∃ e1, w1.trace = e1 ++ w.trace)
      obtain ⟨e3, he3⟩ := (by
        have := (Fr_pushDataLoop devPath cb total chunk t f (content.drop chunk) fi1 w2).trace; rwa [h4] at this :
        ∃ e3, w'.trace = e3 ++ w2.trace)
      have hw2 : w2.trace = (if cb = CbMode.none then [] else [TEv.cbProgress devPath (content.take chunk).length total]) ++ w1.trace := by
        rw [← h3]
      obtain ⟨-, -, hf1, hm1, -⟩ := fsSend_ok h1 he1
      have hlen : (content.take chunk).length ≤ chunk := by simp; omega
      obtain ⟨hb1, hpos1, hlt1⟩ := fsSend_bound h1 he1 (by omega) hinv
      obtain ⟨ihb, ihi⟩ := ih h4 he3 (by rw [hf1, hm1]; exact hfit) (by rw [hm1]; exact fun _ => hlt1)
      have hevs : evs = e3 ++ ((if cb = CbMode.none then [] else [TEv.cbProgress devPath (content.take chunk).length total]) ++ e1) :=
        evs_split (by rw [hw2, he1, List.append_assoc]) he3 hev
      subst hevs
      rw [hm1] at ihb ihi
      refine ⟨?_, ihi⟩
      intro p hp
      rw [wrtePayloads_append, wrtePayloads_append] at hp
      have : wrtePayloads (t.localId.getD 0) (t.remoteId.getD 0)
          (if cb = CbMode.none then [] else [TEv.cbProgress devPath (content.take chunk).length total]) = [] := by
        split <;> rfl
      rw [this, List.append_nil] at hp
      rcases List.mem_append.1 hp with hp | hp
      · exact hb1 p hp
      · exact ihb p hp

/-- the part of `_filesync_read` after the initial flush -/
def fsReadRest (expected : List SyncId) (t : Txn) (fi : FsInfo) : M (SyncRec × FsInfo) := do
  let (hdrBytes, fi) ← fsReadBuffered fi.fmt.size t fi
  let header := unpackWords (fi.fmt.size / 4) hdrBytes
  match SyncId.ofWire? (header.headD 0) with
  | none => M.throw .pyKeyError
  | some cid =>
    let readData := cid ≠ SyncId.STAT
    let (data, fi) ← if readData then fsReadBuffered (header.getLastD 0) t fi else pure ([], fi)
    if !expected.contains cid then
      if cid = SyncId.FAIL then M.throw (.adbCommandFailure data)
      else M.throw .invalidResponse
    if !readData then pure (⟨cid, header.drop 1, none⟩, fi)
    else pure (⟨cid, (header.drop 1).dropLast, some data⟩, fi)

theorem fsRead_eq (ex : List SyncId) (t : Txn) (fi : FsInfo) :
    fsRead ex t fi = if !fi.sendBuf.isEmpty then fsFlush t fi >>= fsReadRest ex t else fsReadRest ex t fi := by
  unfold fsRead
  split <;> rfl

theorem Tr_fsReadRest {Q} (hQ : House Q) (hd : Deliv Q) (ho : TxOkay Q) (ex : List SyncId) (t : Txn) (fi : FsInfo) :
    Tr Q (fsReadRest ex t fi) := by
  unfold fsReadRest
  trq

/-- `_filesync_read`: whatever is buffered goes out as one WRTE before anything is read -/
theorem fsRead_ok {ex : List SyncId} {t : Txn} {fi : FsInfo} {x : SyncRec × FsInfo} {w w' : World} {evs : List TEv}
    (h : fsRead ex t fi w = (.ok x, w')) (hev : w'.trace = evs ++ w.trace) :
    wrtePayloads (t.localId.getD 0) (t.remoteId.getD 0) evs = (if fi.sendBuf.isEmpty then [] else [fi.sendBuf]) ∧
    progressCalls evs = [] := by
  rw [fsRead_eq] at h
  cases hb : fi.sendBuf.isEmpty with
  | true =>
    simp only [hb, Bool.not_true, Bool.false_eq_true, if_false] at h
    obtain ⟨e, he, hq⟩ := (Tr_fsReadRest QOkay.house QOkay.deliv QOkay.txOkay ex t fi).step h
    have : evs = e := evs_unique (he ▸ hev)
    subst this
    exact ⟨by simp [QOkay.wrtePayloads hq], QOkay.progressCalls hq⟩
  | false =>
    simp only [hb, Bool.not_false, if_true] at h
    obtain ⟨fi1, w1, h1, h2⟩ := bind_ok_inv h
    obtain ⟨e1, he1⟩ := (by have := (Fr_fsFlush t fi w).trace; rwa [h1] at this : ∃ e1, w1.trace = e1 ++ w.trace)
    obtain ⟨e2, he2, hq2⟩ := (Tr_fsReadRest QOkay.house QOkay.deliv QOkay.txOkay ex t fi1).step h2
    have := evs_split he1 he2 hev
    subst this
    obtain ⟨-, hp, hpc, -⟩ := fsFlush_ok h1 he1
    exact ⟨by simp [wrtePayloads_append, hp, QOkay.wrtePayloads hq2],
           by simp [progressCalls_append, hpc, QOkay.progressCalls hq2]⟩

/-- `_push` returns normally only through an OKAY status record -/
theorem pushStatus_ok {t : Txn} {fi : FsInfo} {w w' : World} {u : Unit} (h : pushStatus t fi w = (.ok u, w')) :
    ∃ r fi2, fsRead [.OKAY, .FAIL] t fi w = (.ok (r, fi2), w') ∧ r.id = SyncId.OKAY := by
  unfold pushStatus at h
  obtain ⟨⟨r, fi2⟩, w1, h1, h2⟩ := bind_ok_inv h
  dsimp only at h2
  split at h2
  · next hid =>
    simp only [pure_run, Prod.mk.injEq, true_and] at h2
    subst h2
    exact ⟨r, fi2, h1, hid⟩
  · simp at h2


theorem get_bind_run {β} (f : World → M β) (w : World) : (M.get >>= f) w = f w w := rfl

theorem Fr.evs {α} {x : M α} (h : Fr x) {w w1 : World} {r : Except Err α} (hx : x w = (r, w1)) :
    ∃ e, w1.trace = e ++ w.trace := by
  have := (h w).trace
  rwa [hx] at this

theorem chain4 {A1 A2 A3 b0 b1 b2 b3 S D N : Bytes} (h1 : A1 ++ b1 = b0 ++ S) (h2 : A2 ++ b2 = b1 ++ D)
    (h3 : A3 ++ b3 = b2 ++ N) : A1 ++ A2 ++ A3 ++ b3 = b0 ++ S ++ D ++ N := by
  calc A1 ++ A2 ++ A3 ++ b3 = A1 ++ (A2 ++ (A3 ++ b3)) := by simp [List.append_assoc]
    _ = A1 ++ (A2 ++ (b2 ++ N)) := by rw [h3]
    _ = A1 ++ ((A2 ++ b2) ++ N) := by simp [List.append_assoc]
    _ = A1 ++ ((b1 ++ D) ++ N) := by rw [h2]
    _ = (A1 ++ b1) ++ D ++ N := by simp [List.append_assoc]
    _ = b0 ++ S ++ D ++ N := by rw [h1]

/-- everything `_push` establishes on a normal return -/
theorem pushOne_ok {content devPath : Bytes} {mode mtime : Nat} {cb : CbMode} {t : Txn} {fi0 : FsInfo} {w w' : World}
    {evs : List TEv} {u : Unit}
    (h : pushOne content devPath mode mtime cb t fi0 w = (.ok u, w')) (hev : w'.trace = evs ++ w.trace) :
    ∃ (fi1 fi2 fi3 : FsInfo) (w1 w2 w3 : World) (mtime' : Nat),
      fsSend .SEND t fi0 (devPath ++ [44] ++ decimal mode) none w = (.ok fi1, w1) ∧
      pushDataLoop devPath cb content.length (maxChunkSize w.maxdata) t w1.fuel content fi1 w1 = (.ok fi2, w2) ∧
      mtime' = (if mtime = 0 then (w2.now / 1024).toNat else mtime) ∧
      fsSend .DONE t fi2 [] (some mtime') w2 = (.ok fi3, w3) ∧
      pushStatus t fi3 w3 = (.ok (), w') ∧
      (wrtePayloads (t.localId.getD 0) (t.remoteId.getD 0) evs).flatten =
        fi0.sendBuf ++ syncRec .SEND (devPath ++ [44] ++ decimal mode).length (devPath ++ [44] ++ decimal mode) ++
        ((chunksOf (maxChunkSize w.maxdata) content).map fun c => syncRec .DATA c.length c).flatten ++
        syncRec .DONE mtime' [] ∧
      progressCalls evs = (if cb = CbMode.none then []
        else (chunksOf (maxChunkSize w.maxdata) content).map fun c => (devPath, c.length, content.length)) := by
  unfold pushOne at h
  obtain ⟨fi1, w1, h1, h2⟩ := bind_ok_inv h
  rw [get_bind_run] at h2
  obtain ⟨fi2, w2, h3, h4⟩ := bind_ok_inv h2
  rw [get_bind_run] at h4
  obtain ⟨fi3, w3, h5, h6⟩ := bind_ok_inv h4
  have hmd : w1.maxdata = w.maxdata := by
    have := (Fr_fsSend .SEND t fi0 (devPath ++ [44] ++ decimal mode) none w).maxdata
    rwa [h1] at this
  rw [hmd] at h3
  obtain ⟨e1, he1⟩ := Fr.evs (Fr_fsSend _ _ _ _ _) h1
  obtain ⟨e2, he2⟩ := Fr.evs (Fr_pushDataLoop _ _ _ _ _ _ _ _) h3
  obtain ⟨e3, he3⟩ := Fr.evs (Fr_fsSend _ _ _ _ _) h5
  obtain ⟨e4, he4⟩ := Fr.evs (Fr_pushStatus _ _) h6
  have he12 : w2.trace = (e2 ++ e1) ++ w.trace := by rw [he2, he1, List.append_assoc]
  have he123 : w3.trace = (e3 ++ (e2 ++ e1)) ++ w.trace := by rw [he3, he12]; simp [List.append_assoc]
  have hevs : evs = e4 ++ (e3 ++ (e2 ++ e1)) := evs_split he123 he4 hev
  subst hevs
  have c1 := fsSend_conservation h1 he1
  obtain ⟨c2, p2, -, -⟩ := pushDataLoop_ok h3 he2
  have c3 := fsSend_conservation h5 he3
  obtain ⟨-, p1, -, -, -⟩ := fsSend_ok h1 he1
  obtain ⟨-, p3, -, -, -⟩ := fsSend_ok h5 he3
  obtain ⟨r, fi4, h7, -⟩ := pushStatus_ok h6
  obtain ⟨c4, p4⟩ := fsRead_ok h7 he4
  refine ⟨fi1, fi2, fi3, w1, w2, w3, _, h1, h3, rfl, h5, h6, ?_, ?_⟩
  · have c4' : (wrtePayloads (t.localId.getD 0) (t.remoteId.getD 0) e4).flatten = fi3.sendBuf := by
      rw [c4]
      cases hb : fi3.sendBuf with
      | nil => simp
      | cons x xs => simp
    simp only [wrtePayloads_append, List.flatten_append, c4']
    simp only [Option.getD_none, Option.getD_some, List.length_nil] at c1 c3
    exact chain4 c1 c2 c3
  · simp [progressCalls_append, p1, p2, p3, p4]

/-- the four phases of a normally returning `_push` and the events of each -/
theorem pushOne_inv {content devPath : Bytes} {mode mtime : Nat} {cb : CbMode} {t : Txn} {fi0 : FsInfo} {w w' : World}
    {evs : List TEv} {u : Unit}
    (h : pushOne content devPath mode mtime cb t fi0 w = (.ok u, w')) (hev : w'.trace = evs ++ w.trace) :
    ∃ (fi1 fi2 fi3 : FsInfo) (w1 w2 w3 : World) (e1 e2 e3 e4 : List TEv),
      fsSend .SEND t fi0 (devPath ++ [44] ++ decimal mode) none w = (.ok fi1, w1) ∧
      pushDataLoop devPath cb content.length (maxChunkSize w.maxdata) t w1.fuel content fi1 w1 = (.ok fi2, w2) ∧
      fsSend .DONE t fi2 [] (some (if mtime = 0 then (w2.now / 1024).toNat else mtime)) w2 = (.ok fi3, w3) ∧
      pushStatus t fi3 w3 = (.ok (), w') ∧
      w1.trace = e1 ++ w.trace ∧ w2.trace = e2 ++ w1.trace ∧ w3.trace = e3 ++ w2.trace ∧ w'.trace = e4 ++ w3.trace ∧
      evs = e4 ++ (e3 ++ (e2 ++ e1)) := by
  unfold pushOne at h
  obtain ⟨fi1, w1, h1, h2⟩ := bind_ok_inv h
  rw [get_bind_run] at h2
  obtain ⟨fi2, w2, h3, h4⟩ := bind_ok_inv h2
  rw [get_bind_run] at h4
  obtain ⟨fi3, w3, h5, h6⟩ := bind_ok_inv h4
  have hmd : w1.maxdata = w.maxdata := by
    have := (Fr_fsSend .SEND t fi0 (devPath ++ [44] ++ decimal mode) none w).maxdata
    rwa [h1] at this
  rw [hmd] at h3
  obtain ⟨e1, he1⟩ := Fr.evs (Fr_fsSend _ _ _ _ _) h1
  obtain ⟨e2, he2⟩ := Fr.evs (Fr_pushDataLoop _ _ _ _ _ _ _ _) h3
  obtain ⟨e3, he3⟩ := Fr.evs (Fr_fsSend _ _ _ _ _) h5
  obtain ⟨e4, he4⟩ := Fr.evs (Fr_pushStatus _ _) h6
  have he12 : w2.trace = (e2 ++ e1) ++ w.trace := by rw [he2, he1, List.append_assoc]
  have he123 : w3.trace = (e3 ++ (e2 ++ e1)) ++ w.trace := by rw [he3, he12]; simp [List.append_assoc]
  exact ⟨fi1, fi2, fi3, w1, w2, w3, e1, e2, e3, e4, h1, h3, h5, h6, he1, he2, he3, he4, evs_split he123 he4 hev⟩

theorem maxChunk_fits {maxdata : Nat} (h : 17 ≤ maxdata) : 8 + maxChunkSize maxdata < maxdata := by
  unfold maxChunkSize
  simp only [Generated.MAX_CHUNK_SIZE, Generated.MAX_PUSH_DATA]
  by_cases h0 : min 65536 (maxdata / 2) = 0
  · omega
  · simp only [h0, if_false]; omega

/-- no WRTE of a whole `_push` is empty or reaches maxdata, provided each record fits an empty buffer -/
theorem pushOne_bound {content devPath : Bytes} {mode mtime : Nat} {cb : CbMode} {t : Txn} {fi0 : FsInfo} {w w' : World}
    {evs : List TEv} {u : Unit}
    (h : pushOne content devPath mode mtime cb t fi0 w = (.ok u, w')) (hev : w'.trace = evs ++ w.trace)
    (hinv : 0 < fi0.sendBuf.length → fi0.sendBuf.length < fi0.maxdata)
    (hsend : fi0.fmt.size + (devPath ++ [44] ++ decimal mode).length < fi0.maxdata)
    (hdata : fi0.fmt.size + maxChunkSize w.maxdata < fi0.maxdata) :
    ∀ p ∈ wrtePayloads (t.localId.getD 0) (t.remoteId.getD 0) evs, 0 < p.length ∧ p.length < fi0.maxdata := by
  obtain ⟨fi1, fi2, fi3, w1, w2, w3, e1, e2, e3, e4, h1, h3, h5, h6, he1, he2, he3, he4, rfl⟩ := pushOne_inv h hev
  obtain ⟨-, -, hf1, hm1, -⟩ := fsSend_ok h1 he1
  obtain ⟨b1, pos1, lt1⟩ := fsSend_bound h1 he1 hsend hinv
  obtain ⟨-, -, hf2, hm2⟩ := pushDataLoop_ok h3 he2
  obtain ⟨b2, inv2⟩ := pushDataLoop_bound h3 he2 (by rw [hf1, hm1]; exact hdata) (by rw [hm1]; exact fun _ => lt1)
  rw [hm1] at b2 inv2
  obtain ⟨b3, pos3, lt3⟩ := fsSend_bound h5 he3 (by rw [hf2, hm2, hf1, hm1]; simp; omega) (by rw [hm2, hm1]; exact inv2)
  rw [hm2, hm1] at b3 lt3
  obtain ⟨r, fi4, h7, -⟩ := pushStatus_ok h6
  obtain ⟨c4, -⟩ := fsRead_ok h7 he4
  intro p hp
  simp only [wrtePayloads_append, List.mem_append] at hp
  rcases hp with ((hp | hp) | hp) | hp
  · exact b1 p hp
  · exact b2 p hp
  · exact b3 p hp
  · rw [c4] at hp
    split at hp
    · simp at hp
    · simp only [List.mem_singleton] at hp
      subst hp
      exact ⟨pos3, lt3⟩

end Adb.Push
