import AdbProofs.Lemmas.PeerFrame
/- `Pw` (PeerFrame.lean) for every function of the sequential model, bottom-up, in the order of
   FrameOps.lean / FrameOps2.lean.  `bulkWrite` / `writeAllLoop` / `writeAll` are covered through
   `Pw_sendRaw` (their only caller); `tClose` / `tConnect` / `ioClose` / `authLoop` / `ioConnect` /
   `devConnect` / `devClose` / `devPull` are treated at the end. -/
namespace Adb
namespace PeerF

/-! ### base functions that append nothing -/

theorem Pw_storeFind {s} (t : Txn) (az : Bool) : Pw s (storeFind t az) := Pw_of_same fun _ => ⟨rfl, rfl, rfl⟩
theorem Pw_storeGet {s} (k : Nat × Nat) : Pw s (storeGet k) :=
  Pw_of_same fun w => by unfold storeGet; split <;> exact ⟨rfl, rfl, rfl⟩
/-- parking a packet records `park`/`lost`, not a transmission -/
theorem Pw_storePut {s} (p : Pkt) : Pw s (storePut p) := by
  intro w r w' h
  unfold storePut at h
  simp only [Prod.mk.injEq] at h
  obtain ⟨-, rfl⟩ := h
  refine ⟨[_], rfl, ?_, Or.inl rfl⟩
  have : ∀ e : TEv, (e = .lost p ∨ e = .park p) → transmitted [e] = [] := by
    rintro e (rfl | rfl) <;> rfl
  rw [this _ (by split <;> simp)]
  exact Out.nil _
theorem Pw_storeClear {s} (a0 a1 : Nat) : Pw s (storeClear a0 a1) := Pw_of_same fun _ => ⟨rfl, rfl, rfl⟩
theorem Pw_storeClearAll {s} : Pw s storeClearAll := Pw_of_same fun _ => ⟨rfl, rfl, rfl⟩
theorem Pw_getTT {s} (tt : Timeout) : Pw s (getTT tt) := Pw_of_same fun _ => ⟨rfl, rfl, rfl⟩
theorem Pw_lookupFile {s} (id : Nat) : Pw s (lookupFile id) :=
  Pw_of_same fun w => by unfold lookupFile; split <;> exact ⟨rfl, rfl, rfl⟩
theorem Pw_runGuard {s} (g : String) (p : Option Bytes) : Pw s (runGuard g p) :=
  Pw_of_same fun w => by
    unfold runGuard
    repeat' split
    all_goals exact ⟨rfl, rfl, rfl⟩
/-- the progress callback (whatever it does, its exception is swallowed) records `cbProgress` only -/
theorem Pw_callProgress {s} (cb : CbMode) (path : Bytes) (n total : Nat) : Pw s (callProgress cb path n total) := by
  intro w r w' h
  cases cb with
  | none =>
    simp only [callProgress, pure_run, Prod.mk.injEq] at h
    obtain ⟨-, rfl⟩ := h
    exact ⟨[], rfl, Out.nil _, Or.inl rfl⟩
  | count =>
    simp [callProgress, M.swallow, bind_run] at h
    obtain ⟨-, rfl⟩ := h
    exact ⟨[.cbProgress path n total], rfl, Out.nil _, Or.inl rfl⟩
  | raise =>
    simp [callProgress, M.swallow, bind_run] at h
    obtain ⟨-, rfl⟩ := h
    exact ⟨[.cbProgress path n total], rfl, Out.nil _, Or.inl rfl⟩
macro_rules | `(tactic| pw_lemma) => `(tactic| with_reducible exact Pw_storeFind _ _)
macro_rules | `(tactic| pw_lemma) => `(tactic| with_reducible exact Pw_storeGet _)
macro_rules | `(tactic| pw_lemma) => `(tactic| with_reducible exact Pw_storePut _)
macro_rules | `(tactic| pw_lemma) => `(tactic| with_reducible exact Pw_storeClear _ _)
macro_rules | `(tactic| pw_lemma) => `(tactic| with_reducible exact Pw_storeClearAll)
macro_rules | `(tactic| pw_lemma) => `(tactic| with_reducible exact Pw_getTT _)
macro_rules | `(tactic| pw_lemma) => `(tactic| with_reducible exact Pw_lookupFile _)
macro_rules | `(tactic| pw_lemma) => `(tactic| with_reducible exact Pw_runGuard _ _)
macro_rules | `(tactic| pw_lemma) => `(tactic| with_reducible exact Pw_callProgress _ _ _ _)

/-! ### wire, stream, FileSync and device layers -/

theorem Pw_readBytesLoop {s} (t : Txn) (start : Int) : ∀ fuel rem acc, Pw s (readBytesLoop t start fuel rem acc) := by
  intro fuel
  induction fuel with
  | zero => intro rem acc; unfold readBytesLoop; pw
  | succ f ih =>
    intro rem acc
    unfold readBytesLoop
    pw [ih]

macro_rules | `(tactic| pw_lemma) => `(tactic| with_reducible exact Pw_readBytesLoop _ _ _ _ _)
theorem Pw_readBytes {s} (n : Nat) (t : Txn) : Pw s (readBytes n t) := by
  unfold readBytes
  pw
macro_rules | `(tactic| pw_lemma) => `(tactic| with_reducible exact Pw_readBytes _ _)

theorem Pw_readPacket {s} (t : Txn) : Pw s (readPacket t) := by
  unfold readPacket
  pw
macro_rules | `(tactic| pw_lemma) => `(tactic| with_reducible exact Pw_readPacket _)







theorem Pw_ioSend {s} (m : Msg) (t : Txn) : Pw s (ioSend m t) := by
  unfold ioSend
  pw
macro_rules | `(tactic| pw_lemma) => `(tactic| with_reducible exact Pw_ioSend _ _)

theorem Pw_expectLoop {s} (ex : List Cmd) (t : Txn) (start : Int) : ∀ fuel , Pw s (expectLoop ex t start fuel ) := by
  intro fuel
  induction fuel with
  | zero => unfold expectLoop; pw
  | succ f ih =>
    unfold expectLoop
    pw [ih]
macro_rules | `(tactic| pw_lemma) => `(tactic| with_reducible exact Pw_expectLoop _ _ _ _)

theorem Pw_expectPacket {s} (ex : List Cmd) (t : Txn) : Pw s (expectPacket ex t) := by
  unfold expectPacket
  pw
macro_rules | `(tactic| pw_lemma) => `(tactic| with_reducible exact Pw_expectPacket _ _)






theorem Pw_drainLoop {s} (ex : List Cmd) (t : Txn) (az : Bool) : ∀ fuel , Pw s (drainLoop ex t az fuel ) := by
  intro fuel
  induction fuel with
  | zero => unfold drainLoop; pw
  | succ f ih =>
    unfold drainLoop
    pw [ih]
macro_rules | `(tactic| pw_lemma) => `(tactic| with_reducible exact Pw_drainLoop _ _ _ _)

theorem Pw_readIter {s} (ex : List Cmd) (t : Txn) (az : Bool) : Pw s (readIter ex t az) := by
  unfold readIter
  pw
macro_rules | `(tactic| pw_lemma) => `(tactic| with_reducible exact Pw_readIter _ _ _)

theorem Pw_readLoop {s} (ex : List Cmd) (t : Txn) (az : Bool) (start : Int) : ∀ fuel , Pw s (readLoop ex t az start fuel ) := by
  intro fuel
  induction fuel with
  | zero => unfold readLoop; pw
  | succ f ih =>
    unfold readLoop
    pw [ih]
macro_rules | `(tactic| pw_lemma) => `(tactic| with_reducible exact Pw_readLoop _ _ _ _ _)

theorem Pw_ioRead {s} (ex : List Cmd) (t : Txn) (az : Bool) : Pw s (ioRead ex t az) := by
  unfold ioRead
  pw
macro_rules | `(tactic| pw_lemma) => `(tactic| with_reducible exact Pw_ioRead _ _ _)










theorem Pw_openStream {s} (dest : Bytes) (tt rt total : Timeout) : Pw s (openStream dest tt rt total) := by
  unfold openStream
  pw
macro_rules | `(tactic| pw_lemma) => `(tactic| with_reducible exact Pw_openStream _ _ _ _)

theorem Pw_okay {s} (t : Txn) : Pw s (okay t) := by
  unfold okay
  pw
macro_rules | `(tactic| pw_lemma) => `(tactic| with_reducible exact Pw_okay _)

theorem Pw_readUntil {s} (ex : List Cmd) (t : Txn) : Pw s (readUntil ex t) := by
  unfold readUntil
  pw
macro_rules | `(tactic| pw_lemma) => `(tactic| with_reducible exact Pw_readUntil _ _)

theorem Pw_clse {s} (t : Txn) : Pw s (clse t) := by
  unfold clse
  pw
macro_rules | `(tactic| pw_lemma) => `(tactic| with_reducible exact Pw_clse _)

theorem Pw_readUntilCloseLoop {s} (t : Txn) (start : Int) : ∀ fuel acc, Pw s (readUntilCloseLoop t start fuel acc) := by
  intro fuel
  induction fuel with
  | zero => intro acc; unfold readUntilCloseLoop; pw
  | succ f ih =>
    intro acc
    unfold readUntilCloseLoop
    pw [ih]
macro_rules | `(tactic| pw_lemma) => `(tactic| with_reducible exact Pw_readUntilCloseLoop _ _ _ _)

theorem Pw_readUntilClose {s} (t : Txn) : Pw s (readUntilClose t) := by
  unfold readUntilClose
  pw
macro_rules | `(tactic| pw_lemma) => `(tactic| with_reducible exact Pw_readUntilClose _)

theorem Pw_streamingCommand {s} (svc cmd : Bytes) (tt rt total : Timeout) : Pw s (streamingCommand svc cmd tt rt total) := by
  unfold streamingCommand
  pw
macro_rules | `(tactic| pw_lemma) => `(tactic| with_reducible exact Pw_streamingCommand _ _ _ _ _)

theorem Pw_service {s} (svc cmd : Bytes) (tt rt total : Timeout) (dec : Bool) : Pw s (service svc cmd tt rt total dec) := by
  unfold service
  pw
macro_rules | `(tactic| pw_lemma) => `(tactic| with_reducible exact Pw_service _ _ _ _ _ _)

theorem Pw_streamingService {s} (svc cmd : Bytes) (tt rt : Timeout) (dec : Bool) : Pw s (streamingService svc cmd tt rt dec) := by
  unfold streamingService
  pw
macro_rules | `(tactic| pw_lemma) => `(tactic| with_reducible exact Pw_streamingService _ _ _ _ _)

theorem Pw_fsFlushLoop {s} (t : Txn) : ∀ fuel fi, Pw s (fsFlushLoop t fuel fi) := by
  intro fuel
  induction fuel with
  | zero => intro fi; unfold fsFlushLoop; pw
  | succ f ih =>
    intro fi
    unfold fsFlushLoop
    pw [ih]
macro_rules | `(tactic| pw_lemma) => `(tactic| with_reducible exact Pw_fsFlushLoop _ _ _)

theorem Pw_fsFlush {s} (t : Txn) (fi : FsInfo) : Pw s (fsFlush t fi) := by
  unfold fsFlush
  pw
macro_rules | `(tactic| pw_lemma) => `(tactic| with_reducible exact Pw_fsFlush _ _)

theorem Pw_fsSend {s} (id : SyncId) (t : Txn) (fi : FsInfo) (data : Bytes) (size : Option Nat) : Pw s (fsSend id t fi data size) := by
  unfold fsSend
  pw
macro_rules | `(tactic| pw_lemma) => `(tactic| with_reducible exact Pw_fsSend _ _ _ _ _)

theorem Pw_fsReadBufferedLoop {s} (size : Nat) (t : Txn) : ∀ fuel fi, Pw s (fsReadBufferedLoop size t fuel fi) := by
  intro fuel
  induction fuel with
  | zero => intro fi; unfold fsReadBufferedLoop; pw
  | succ f ih =>
    intro fi
    unfold fsReadBufferedLoop
    pw [ih]
macro_rules | `(tactic| pw_lemma) => `(tactic| with_reducible exact Pw_fsReadBufferedLoop _ _ _ _)

theorem Pw_fsReadBuffered {s} (size : Nat) (t : Txn) (fi : FsInfo) : Pw s (fsReadBuffered size t fi) := by
  unfold fsReadBuffered
  pw
macro_rules | `(tactic| pw_lemma) => `(tactic| with_reducible exact Pw_fsReadBuffered _ _ _)

theorem Pw_fsRead {s} (ex : List SyncId) (t : Txn) (fi : FsInfo) : Pw s (fsRead ex t fi) := by
  unfold fsRead
  pw
macro_rules | `(tactic| pw_lemma) => `(tactic| with_reducible exact Pw_fsRead _ _ _)



theorem Pw_pushDataLoop {s} (devPath : Bytes) (cb : CbMode) (total chunk : Nat) (t : Txn) : ∀ fuel content fi, Pw s (pushDataLoop devPath cb total chunk t fuel content fi) := by
  intro fuel
  induction fuel with
  | zero => intro content fi; unfold pushDataLoop; pw
  | succ f ih =>
    intro content fi
    unfold pushDataLoop
    pw [ih]
macro_rules | `(tactic| pw_lemma) => `(tactic| with_reducible exact Pw_pushDataLoop _ _ _ _ _ _ _ _)

theorem Pw_pushStatus {s} (t : Txn) (fi : FsInfo) : Pw s (pushStatus t fi) := by
  unfold pushStatus
  pw
macro_rules | `(tactic| pw_lemma) => `(tactic| with_reducible exact Pw_pushStatus _ _)

theorem Pw_pushOne {s} (content devPath : Bytes) (mode mtime : Nat) (cb : CbMode) (t : Txn) (fi : FsInfo) : Pw s (pushOne content devPath mode mtime cb t fi) := by
  unfold pushOne
  pw
macro_rules | `(tactic| pw_lemma) => `(tactic| with_reducible exact Pw_pushOne _ _ _ _ _ _ _)


theorem Pw_runGuards {s} : ∀ gs p, Pw s (runGuards gs p) := by
  intro gs
  induction gs with
  | nil => intro p; unfold runGuards; pw
  | cons g gs ih => intro p; unfold runGuards; pw [ih]
macro_rules | `(tactic| pw_lemma) => `(tactic| with_reducible exact Pw_runGuards _ _)
theorem Pw_devShellLike {s} (op : String) (svc cmd : Bytes) (tt rt total : Timeout) (dec : Bool) : Pw s (devShellLike op svc cmd tt rt total dec) := by
  unfold devShellLike
  pw
macro_rules | `(tactic| pw_lemma) => `(tactic| with_reducible exact Pw_devShellLike _ _ _ _ _ _ _)

theorem Pw_devRoot {s} (tt rt total : Timeout) : Pw s (devRoot tt rt total) := by
  unfold devRoot
  pw
macro_rules | `(tactic| pw_lemma) => `(tactic| with_reducible exact Pw_devRoot _ _ _)

theorem Pw_devReboot {s} (fb : Bool) (tt rt total : Timeout) : Pw s (devReboot fb tt rt total) := by
  unfold devReboot
  pw
macro_rules | `(tactic| pw_lemma) => `(tactic| with_reducible exact Pw_devReboot _ _ _ _)

theorem Pw_devStreamingShell {s} (cmd : Bytes) (tt rt : Timeout) (dec : Bool) : Pw s (devStreamingShell cmd tt rt dec) := by
  unfold devStreamingShell
  pw
macro_rules | `(tactic| pw_lemma) => `(tactic| with_reducible exact Pw_devStreamingShell _ _ _ _)

theorem Pw_listLoop {s} (t : Txn) : ∀ fuel fi acc, Pw s (listLoop t fuel fi acc) := by
  intro fuel
  induction fuel with
  | zero => intro fi acc; unfold listLoop; pw
  | succ f ih =>
    intro fi acc
    unfold listLoop
    pw [ih]
macro_rules | `(tactic| pw_lemma) => `(tactic| with_reducible exact Pw_listLoop _ _ _ _)

theorem Pw_devList {s} (p : Bytes) (tt rt : Timeout) : Pw s (devList p tt rt) := by
  unfold devList
  pw
macro_rules | `(tactic| pw_lemma) => `(tactic| with_reducible exact Pw_devList _ _ _)

theorem Pw_devStat {s} (p : Bytes) (tt rt : Timeout) : Pw s (devStat p tt rt) := by
  unfold devStat
  pw
macro_rules | `(tactic| pw_lemma) => `(tactic| with_reducible exact Pw_devStat _ _ _)

theorem Pw_pullLoop {s} (devPath : Bytes) (cb : CbMode) (total : Nat) (t : Txn) : ∀ fuel fi, Pw s (pullLoop devPath cb total t fuel fi) := by
  intro fuel
  induction fuel with
  | zero => intro fi; unfold pullLoop; pw
  | succ f ih =>
    intro fi
    unfold pullLoop
    pw [ih]
macro_rules | `(tactic| pw_lemma) => `(tactic| with_reducible exact Pw_pullLoop _ _ _ _ _ _)

theorem Pw_pullInner {s} (devPath : Bytes) (cb : CbMode) (t : Txn) (fi : FsInfo) : Pw s (pullInner devPath cb t fi) := by
  unfold pullInner
  pw
macro_rules | `(tactic| pw_lemma) => `(tactic| with_reducible exact Pw_pullInner _ _ _ _)



theorem Pw_pushFile {s} (fid : Nat) (devPath : Bytes) (mode mtime : Nat) (cb : CbMode) (tt rt : Timeout) : Pw s (pushFile fid devPath mode mtime cb tt rt) := by
  unfold pushFile
  pw
macro_rules | `(tactic| pw_lemma) => `(tactic| with_reducible exact Pw_pushFile _ _ _ _ _ _ _)

theorem Pw_pushFiles {s} (devPath : Bytes) (mode mtime : Nat) (cb : CbMode) (tt rt : Timeout) : ∀ es, Pw s (pushFiles devPath mode mtime cb tt rt es) := by
  intro es
  induction es with
  | nil => unfold pushFiles; pw
  | cons e es ih => obtain ⟨n, f⟩ := e; unfold pushFiles; pw [ih]
macro_rules | `(tactic| pw_lemma) => `(tactic| with_reducible exact Pw_pushFiles _ _ _ _ _ _ _)
theorem Pw_devPush {s} (src : LocalRef) (devPath : Bytes) (mode mtime : Nat) (cb : CbMode) (tt rt : Timeout) : Pw s (devPush src devPath mode mtime cb tt rt) := by
  unfold devPush
  pw
macro_rules | `(tactic| pw_lemma) => `(tactic| with_reducible exact Pw_devPush _ _ _ _ _ _ _)



/-! ### `try … finally` (only `pull` uses it): two phases -/

/-- two-phase version of `Pw`: the run splits into a first part (events `evs1`) and a second part
    (`evs2`, the `finally` clause), each of which is whole messages plus — only if the call raised — a
    proper prefix of one more -/
def Pw2 (s : Bool) {α : Type} (x : M α) : Prop :=
  ∀ w r w', x w = (r, w') →
    ∃ evs1 evs2 mid, w'.trace = evs2 ++ evs1 ++ w.trace ∧
      Out (Failed r) (transmitted evs1) w.peerAll mid ∧ Out (Failed r) (transmitted evs2) mid w'.peerAll ∧
      (w'.past = w.past ∨ (s = false ∧ Failed r))

theorem Pw2_tryFinally {s α} {x : M α} {fin : M Unit} (hx : Pw s x) (hf : Pw s fin) :
    Pw2 s (M.tryFinally x fin) := by
  intro w r w' h
  unfold M.tryFinally at h
  rcases hxw : x w with ⟨rx, w1⟩
  rcases hfw : fin w1 with ⟨rf, w2⟩
  obtain ⟨e1, ht1, ho1, hp1⟩ := hx w _ _ hxw
  obtain ⟨e2, ht2, ho2, hp2⟩ := hf w1 _ _ hfw
  rw [hxw] at h
  have key : w' = w2 ∧ (Failed rx → Failed r) ∧ (Failed rf → Failed r) := by
    cases rx with
    | ok a =>
      cases rf with
      | ok u =>
        simp only [hfw, Prod.mk.injEq] at h; obtain ⟨rfl, rfl⟩ := h
        exact ⟨rfl, id, fun h => (not_failed_ok _ h).elim⟩
      | error e2 =>
        simp only [hfw, Prod.mk.injEq] at h; obtain ⟨rfl, rfl⟩ := h
        exact ⟨rfl, fun _ => failed_error _, fun _ => failed_error _⟩
    | error e1 =>
      cases rf with
      | ok u =>
        simp only [hfw, Prod.mk.injEq] at h; obtain ⟨rfl, rfl⟩ := h
        exact ⟨rfl, fun _ => failed_error _, fun _ => failed_error _⟩
      | error e2 =>
        simp only [hfw, Prod.mk.injEq] at h; obtain ⟨rfl, rfl⟩ := h
        exact ⟨rfl, fun _ => failed_error _, fun _ => failed_error _⟩
  obtain ⟨rfl, k1, k2⟩ := key
  refine ⟨e1, e2, w1.peerAll, by rw [ht2, ht1, List.append_assoc], ho1.mono k1, ho2.mono k2, ?_⟩
  rcases hp1 with hp1 | ⟨hs, hf1⟩
  · rcases hp2 with hp2 | ⟨hs, hf2⟩
    · exact Or.inl (hp2.trans hp1)
    · exact Or.inr ⟨hs, k2 hf2⟩
  · exact Or.inr ⟨hs, k1 hf1⟩

/-- a one-phase prefix in front of a two-phase computation -/
theorem Pw2_bind_left {s α β} {x : M α} {f : α → M β} (hx : Pw s x) (hf : ∀ a, Pw2 s (f a)) : Pw2 s (x >>= f) := by
  intro w r w' h
  rcases bind_any_inv h with ⟨e, he, rfl⟩ | ⟨a, w1, he, hrest⟩
  · obtain ⟨evs, ht, ho, hp⟩ := hx w _ _ he
    refine ⟨evs, [], w'.peerAll, by simpa using ht, ho.mono (fun _ => failed_error e), Out.nil _, ?_⟩
    rcases hp with hp | ⟨hs, _⟩
    · exact Or.inl hp
    · exact Or.inr ⟨hs, failed_error e⟩
  · obtain ⟨e1, ht1, ho1, hp1⟩ := hx w _ _ he
    obtain ⟨e2, e3, mid, ht2, ho2, ho3, hp2⟩ := hf a w1 _ _ hrest
    have hp1' : w1.past = w.past := by
      rcases hp1 with hp | ⟨_, hf⟩
      · exact hp
      · exact (not_failed_ok a hf).elim
    refine ⟨e2 ++ e1, e3, mid, by rw [ht2, ht1]; simp only [List.append_assoc], ?_, ho3, ?_⟩
    · rw [transmitted_append]
      exact Out.trans (ho1.mono (not_failed_ok a)) ho2
    · rcases hp2 with hp | hp
      · exact Or.inl (hp.trans hp1')
      · exact Or.inr hp

/-- a two-phase computation followed by a `pure` -/
theorem Pw2_bind_pure {s α β} {x : M α} (b : β) (hx : Pw2 s x) : Pw2 s (x >>= fun _ => (pure b : M β)) := by
  intro w r w' h
  rcases bind_any_inv h with ⟨e, he, rfl⟩ | ⟨a, w1, he, hrest⟩
  · obtain ⟨e1, e2, mid, ht, ho1, ho2, hp⟩ := hx w _ _ he
    refine ⟨e1, e2, mid, ht, ho1.mono (fun _ => failed_error e), ho2.mono (fun _ => failed_error e), ?_⟩
    rcases hp with hp | ⟨hs, _⟩
    · exact Or.inl hp
    · exact Or.inr ⟨hs, failed_error e⟩
  · simp only [pure_run, Prod.mk.injEq] at hrest
    obtain ⟨rfl, rfl⟩ := hrest
    obtain ⟨e1, e2, mid, ht, ho1, ho2, hp⟩ := hx w _ _ he
    refine ⟨e1, e2, mid, ht, ho1.mono (fun h => (not_failed_ok a h).elim), ho2.mono (fun h => (not_failed_ok a h).elim), ?_⟩
    rcases hp with hp | ⟨_, hf⟩
    · exact Or.inl hp
    · exact (not_failed_ok a hf).elim

/-- `pull`: everything up to and including `_pull` is the first phase, the `finally: self._clse()` the second -/
theorem Pw2_devPull {s} (devPath : Bytes) (cb : CbMode) (tt rt : Timeout) : Pw2 s (devPull devPath cb tt rt) := by
  unfold devPull
  refine Pw2_bind_left (by pw) fun _ => ?_
  refine Pw2_bind_left (by pw) fun _ => ?_
  refine Pw2_bind_left (by pw) fun t => ?_
  refine Pw2_bind_left (by pw) fun w0 => ?_
  exact Pw2_bind_pure _ (Pw2_tryFinally (by pw) (by pw))

/-! ### connect / close -/

theorem tClose_run (w : World) :
    ∃ w1, tClose w = (.ok (), w1) ∧ w1.trace = .tclose :: w.trace ∧ w1.peerAll = w.peerAll ∧ w1.cur = none
      ∧ w1.conns = w.conns ∧ w1.locks = w.locks ∧ w1.past.reverse.flatten = w.peerAll := by
  unfold tClose
  cases hc : w.cur with
  | none =>
    refine ⟨_, rfl, rfl, ?_, ?_, rfl, rfl, ?_⟩ <;> simp [World.peerAll, World.peerGot, hc]
  | some c =>
    refine ⟨_, rfl, rfl, ?_, rfl, rfl, rfl, ?_⟩ <;> simp [World.peerAll, World.peerGot, hc]

/-- `self._transport.close()` followed by `raise`: what the peer had is kept (moved to `past`) -/
theorem Pw_tClose_throw {α} (e : Err) : Pw false (tClose >>= fun _ => (M.throw e : M α)) := by
  intro w r w' h
  obtain ⟨w1, h1, ht, hpa, -⟩ := tClose_run w
  rw [bind_run_ok h1] at h
  simp only [M.throw_run, Prod.mk.injEq] at h
  obtain ⟨rfl, rfl⟩ := h
  refine ⟨[.tclose], by simp [ht], ?_, Or.inr ⟨rfl, failed_error e⟩⟩
  rw [hpa]
  exact Out.nil _
/-- the same in front of a dead continuation (how `do` elaborates `if c then do close; raise` in mid-block) -/
theorem Pw_tClose_throw_bind {α β} (e : Err) (f : α → M β) :
    Pw false (tClose >>= fun _ => ((M.throw e : M α) >>= f)) := by
  have : (tClose >>= fun _ => ((M.throw e : M α) >>= f)) = (tClose >>= fun _ => (M.throw e : M β)) := rfl
  rw [this]
  exact Pw_tClose_throw e
macro_rules | `(tactic| pw_lemma) => `(tactic| with_reducible exact Pw_tClose_throw _)
macro_rules | `(tactic| pw_lemma) => `(tactic| with_reducible exact Pw_tClose_throw_bind _ _)

/-- `close()`: nothing is written; what the peer had is kept -/
theorem ioClose_peer (w : World) (r : Except Err Unit) (w' : World) (h : ioClose w = (r, w')) :
    ∃ evs, w'.trace = evs ++ w.trace ∧ transmitted evs = [] ∧ w'.peerAll = w.peerAll := by
  unfold ioClose at h
  by_cases hl : lockTransport ∈ w.locks
  · rw [withLock_run, if_pos hl] at h
    simp only [Prod.mk.injEq] at h
    obtain ⟨-, rfl⟩ := h
    exact ⟨[], rfl, rfl, rfl⟩
  · obtain ⟨w1, hb, rfl⟩ := withLock_any_inv h hl
    obtain ⟨w2, h2, ht2, hpa2, -⟩ := tClose_run { w with locks := lockTransport :: w.locks }
    rw [bind_run_ok h2] at hb
    have h3 : Pw true (withLock lockStore storeClearAll) := by pw
    obtain ⟨evs, ht, ho, hp⟩ := h3 _ _ _ hb
    have hq : w1.past = w2.past := by
      rcases hp with hp | ⟨hs, _⟩
      · exact hp
      · cases hs
    have hcur : w1.cur = w2.cur := by
      rw [withLock_run] at hb
      split at hb <;> simp only [Prod.mk.injEq] at hb <;> obtain ⟨-, rfl⟩ := hb <;> rfl
    have htr : w1.trace = w2.trace := by
      rw [withLock_run] at hb
      split at hb <;> simp only [Prod.mk.injEq] at hb <;> obtain ⟨-, rfl⟩ := hb <;> rfl
    refine ⟨[.tclose], ?_, rfl, ?_⟩
    · show w1.trace = _
      rw [htr, ht2]; rfl
    · show w1.peerAll = _
      rw [peerAll_congr hcur hq, hpa2]; rfl

theorem Pw_authLoop (t : Txn) : ∀ keys last, Pw false (authLoop t keys last) := by
  intro keys
  induction keys with
  | nil => intro last; unfold authLoop; pw
  | cons k ks ih =>
    intro last
    unfold authLoop
    pw [ih]
macro_rules | `(tactic| pw_lemma) => `(tactic| with_reducible exact Pw_authLoop _ _ _)

/-- use a `Pw` fact on a concrete run -/
theorem Pw.apply {s α} {x : M α} {w w' : World} {r : Except Err α} (h : x w = (r, w')) (hp : Pw s x) :
    ∃ evs, w'.trace = evs ++ w.trace ∧ Out (Failed r) (transmitted evs) w.peerAll w'.peerAll ∧
      (w'.past = w.past ∨ (s = false ∧ Failed r)) := hp w r w' h

theorem lockedClear_run (w : World) :
    ∃ r w1, withLock lockStore storeClearAll w = (r, w1) ∧ w1.trace = w.trace ∧ w1.cur = w.cur ∧ w1.past = w.past
      ∧ w1.conns = w.conns := by
  rw [withLock_run]
  split
  · exact ⟨_, _, rfl, rfl, rfl, rfl, rfl⟩
  · exact ⟨_, _, rfl, rfl, rfl, rfl, rfl⟩

theorem tConnect_run (tt : Timeout) (w : World) (r : Except Err Unit) (w1 : World) (h : tConnect tt w = (r, w1)) :
    w1.trace = .tconnect :: w.trace ∧ w1.past = w.past ∧
      ((Failed r ∧ w1.cur = w.cur) ∨ (r = .ok () ∧ ∃ c rest, w.conns = c :: rest ∧ w1.cur = some c)) := by
  unfold tConnect at h
  split at h
  · simp only [Prod.mk.injEq] at h; obtain ⟨rfl, rfl⟩ := h
    exact ⟨rfl, rfl, Or.inl ⟨failed_error _, rfl⟩⟩
  · next c rest hc =>
    split at h
    · simp only [Prod.mk.injEq] at h; obtain ⟨rfl, rfl⟩ := h
      exact ⟨rfl, rfl, Or.inl ⟨failed_error _, rfl⟩⟩
    · simp only [Prod.mk.injEq] at h; obtain ⟨rfl, rfl⟩ := h
      exact ⟨rfl, rfl, Or.inr ⟨rfl, c, rest, hc, rfl⟩⟩

/-- `_AdbIOManager.connect`: the old connection is closed (its bytes are kept in `past`), and on the new
    connection — whose peer starts with `base` (nothing, for a fresh connection) — the CNXN/AUTH
    exchange writes whole messages, plus a proper prefix of one more only if it raised.  A normal
    return leaves the new connection open with exactly these messages received by its peer. -/
theorem ioConnect_peer (banner : Bytes) (keys : List Nat) (authTimeout : Timeout) (hasCb : Bool) (t : Txn)
    (w : World) (r : Except Err Nat) (w' : World) (h : ioConnect banner keys authTimeout hasCb t w = (r, w')) :
    ∃ evs base, w'.trace = evs ++ w.trace ∧
      (base = [] ∨ ∃ c rest, w.conns = c :: rest ∧ base = c.peerGot) ∧
      Out (Failed r) (transmitted evs) (w.peerAll ++ base) w'.peerAll ∧
      (∀ v, r = .ok v → w'.peerGot = base ++ flat (transmitted evs)) := by
  unfold ioConnect at h
  by_cases hl : lockTransport ∈ w.locks
  · rw [withLock_run, if_pos hl] at h
    simp only [Prod.mk.injEq] at h
    obtain ⟨rfl, rfl⟩ := h
    exact ⟨[], [], rfl, Or.inl rfl, by simpa using Out.nil _, by simp⟩
  · obtain ⟨w9, hb, rfl⟩ := withLock_any_inv h hl
    show ∃ evs base, w9.trace = evs ++ w.trace ∧ _ ∧ Out _ _ _ w9.peerAll ∧ (∀ v, r = .ok v → w9.peerGot = _)
    obtain ⟨w1, h1, ht1, hpa1, hcur1, hconns1, -, hpast1⟩ := tClose_run { w with locks := lockTransport :: w.locks }
    rw [bind_run_ok h1] at hb
    obtain ⟨r2, w2, h2, ht2, hcur2, hpast2, hconns2⟩ := lockedClear_run w1
    have hpa0 : ({ w with locks := lockTransport :: w.locks } : World).peerAll = w.peerAll := rfl
    have hconns0 : ({ w with locks := lockTransport :: w.locks } : World).conns = w.conns := rfl
    have htr0 : ({ w with locks := lockTransport :: w.locks } : World).trace = w.trace := rfl
    rw [hpa0] at hpa1 hpast1
    rw [hconns0] at hconns1
    rw [htr0] at ht1
    have hpa2 : w2.peerAll = w.peerAll := by rw [peerAll_congr hcur2 hpast2, hpa1]
    rcases bind_any_inv hb with ⟨e, he, rfl⟩ | ⟨u, w2', he, hb⟩
    · rw [h2] at he
      simp only [Prod.mk.injEq] at he
      obtain ⟨-, rfl⟩ := he
      refine ⟨[.tclose], [], by rw [ht2, ht1]; rfl, Or.inl rfl, ?_, by simp⟩
      rw [List.append_nil, hpa2]
      exact Out.nil _
    · rw [h2] at he
      simp only [Prod.mk.injEq] at he
      obtain ⟨-, rfl⟩ := he
      rcases bind_any_inv hb with ⟨e, he, rfl⟩ | ⟨u3, w3, he, hb⟩
      · obtain ⟨ht3, hpast3, hc3⟩ := tConnect_run _ _ _ _ he
        have hcur3 : w9.cur = w2.cur := by
          rcases hc3 with ⟨_, hc⟩ | ⟨hr, _⟩
          · exact hc
          · cases hr
        refine ⟨[.tconnect, .tclose], [], by rw [ht3, ht2, ht1]; rfl, Or.inl rfl, ?_, by simp⟩
        rw [List.append_nil, peerAll_congr hcur3 hpast3, hpa2]
        exact Out.nil _
      · obtain ⟨ht3, hpast3, hc3⟩ := tConnect_run _ _ _ _ he
        rcases hc3 with ⟨hf, _⟩ | ⟨-, c, rest, hc, hcur3⟩
        · exact (not_failed_ok _ hf).elim
        · have hpa3 : w3.peerAll = w.peerAll ++ c.peerGot := by
            rw [World.peerAll, World.peerGot, hcur3, hpast3, hpast2, hpast1]
          obtain ⟨evs, ht, ho, hp⟩ := Pw.apply (s := false) hb (by pw)
          refine ⟨evs ++ [.tconnect, .tclose], c.peerGot, by rw [ht, ht3, ht2, ht1]; simp, Or.inr ⟨c, rest, ?_, rfl⟩, ?_, ?_⟩
          · rw [← hconns1, ← hconns2, hc]
          · rw [transmitted_append]
            have : transmitted [TEv.tconnect, TEv.tclose] = [] := rfl
            rw [this, List.nil_append, ← hpa3]
            exact ho
          · intro v hv
            subst hv
            rw [transmitted_append]
            have : transmitted [TEv.tconnect, TEv.tclose] = [] := rfl
            rw [this, List.nil_append]
            have hpast9 : w9.past = w3.past := by
              rcases hp with hp | ⟨_, hf⟩
              · exact hp
              · exact (not_failed_ok _ hf).elim
            obtain ⟨-, hb9⟩ := (ho.mono (not_failed_ok v)).of_ok
            rw [World.peerAll, World.peerAll, hpast9, List.append_assoc] at hb9
            have := List.append_cancel_left hb9
            rw [this, World.peerGot, hcur3]

end PeerF
end Adb
