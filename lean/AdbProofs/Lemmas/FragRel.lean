import AdbProofs.Lemmas.Monad
/-
  Relational frame for C03 at the level of the public API: "read fragmentation does not change any result".

  `FragAgree w₁ w₂`: the two worlds are equal except for the read-fragmentation script (`Conn.frags`,
  `Conn.fragLeft`) of the open and of the future connections, and for the `TEv.req` events of the ghost trace.
  `Frag.Ins x` ("x is insensitive to read fragmentation"): started in two such worlds in which no virtual
  time passes in completed transport calls (`World.Dt0`), either one of the runs ends in `Err.hang`, or both
  return the same result and end in such worlds again.
  This file: the relation, the combinators (`bind`, `get`, `withLock`, …), the primitives
  that do not read the fragmentation script.  The base case (`readBytes`) is in FragWire.lean, the lifting
  to every model function in FragOps.lean.
-/
namespace Adb

/-- forget the read-fragmentation script of a connection -/
def Conn.unfrag (c : Conn) : Conn := { c with frags := [], fragLeft := none }

/-- every event except the `bulk_read` requests -/
def TEv.notReq : TEv → Bool
  | .req _ _ => false
  | _ => true

/-- the same world with unfragmented delivery on the open and on all future connections -/
def World.unfrag (w : World) : World :=
  { w with cur := w.cur.map Conn.unfrag, conns := w.conns.map Conn.unfrag }

/-- equal except for the read-fragmentation scripts and the `req` events of the trace -/
structure FragAgree (w₁ w₂ : World) : Prop where
  conns : w₁.conns.map Conn.unfrag = w₂.conns.map Conn.unfrag
  cur : w₁.cur.map Conn.unfrag = w₂.cur.map Conn.unfrag
  past : w₁.past = w₂.past
  now : w₁.now = w₂.now
  fuel : w₁.fuel = w₂.fuel
  store : w₁.store = w₂.store
  available : w₁.available = w₂.available
  maxdata : w₁.maxdata = w₂.maxdata
  localId : w₁.localId = w₂.localId
  banner : w₁.banner = w₂.banner
  defaultTT : w₁.defaultTT = w₂.defaultTT
  locks : w₁.locks = w₂.locks
  files : w₁.files = w₂.files
  dirs : w₁.dirs = w₂.dirs
  sink : w₁.sink = w₂.sink
  trace : w₁.trace.filter TEv.notReq = w₂.trace.filter TEv.notReq

/-- no virtual time passes in completed transport calls, on the open and on every future connection -/
def World.Dt0 (w : World) : Prop := (∀ c, w.cur = some c → c.dt = 0) ∧ ∀ c ∈ w.conns, c.dt = 0

/-- a numeric, non-negative `read_timeout_s` -/
def RtOk (rt : Timeout) : Prop := ∃ l : Int, rt = some l ∧ 0 ≤ l

/-- `timeout_s` is `None` or non-negative -/
def TotOk (total : Timeout) : Prop := ∀ l : Int, total = some l → 0 ≤ l

/-- canonical representative of a `FragAgree` class -/
def Frag.erase (w : World) : World :=
  { w with cur := w.cur.map Conn.unfrag, conns := w.conns.map Conn.unfrag, trace := w.trace.filter TEv.notReq }

open Frag

theorem FragAgree.of_erase {w₁ w₂ : World} (h : erase w₁ = erase w₂) : FragAgree w₁ w₂ :=
  ⟨(congrArg World.conns h : (erase w₁).conns = (erase w₂).conns),
   (congrArg World.cur h : (erase w₁).cur = (erase w₂).cur),
   (congrArg World.past h : (erase w₁).past = (erase w₂).past),
   (congrArg World.now h : (erase w₁).now = (erase w₂).now),
   (congrArg World.fuel h : (erase w₁).fuel = (erase w₂).fuel),
   (congrArg World.store h : (erase w₁).store = (erase w₂).store),
   (congrArg World.available h : (erase w₁).available = (erase w₂).available),
   (congrArg World.maxdata h : (erase w₁).maxdata = (erase w₂).maxdata),
   (congrArg World.localId h : (erase w₁).localId = (erase w₂).localId),
   (congrArg World.banner h : (erase w₁).banner = (erase w₂).banner),
   (congrArg World.defaultTT h : (erase w₁).defaultTT = (erase w₂).defaultTT),
   (congrArg World.locks h : (erase w₁).locks = (erase w₂).locks),
   (congrArg World.files h : (erase w₁).files = (erase w₂).files),
   (congrArg World.dirs h : (erase w₁).dirs = (erase w₂).dirs),
   (congrArg World.sink h : (erase w₁).sink = (erase w₂).sink),
   (congrArg World.trace h : (erase w₁).trace = (erase w₂).trace)⟩

theorem FragAgree.erase_eq {w₁ w₂ : World} (h : FragAgree w₁ w₂) : erase w₁ = erase w₂ := by
  obtain ⟨h1, h2, h3, h4, h5, h6, h7, h8, h9, h10, h11, h12, h13, h14, h15, h16⟩ := h
  cases w₁; cases w₂
  simp only at h1 h2 h3 h4 h5 h6 h7 h8 h9 h10 h11 h12 h13 h14 h15 h16
  subst h3 h4 h5 h6 h7 h8 h9 h10 h11 h12 h13 h14 h15
  simp only [erase, h1, h2, h16]

theorem FragAgree.refl (w : World) : FragAgree w w := FragAgree.of_erase rfl
theorem FragAgree.symm {w₁ w₂ : World} (h : FragAgree w₁ w₂) : FragAgree w₂ w₁ := FragAgree.of_erase h.erase_eq.symm
theorem FragAgree.trans {a b c : World} (h1 : FragAgree a b) (h2 : FragAgree b c) : FragAgree a c :=
  FragAgree.of_erase (h1.erase_eq.trans h2.erase_eq)

@[simp] theorem unfrag_unfrag (c : Conn) : c.unfrag.unfrag = c.unfrag := rfl
@[simp] theorem unfrag_dt (c : Conn) : c.unfrag.dt = c.dt := rfl

theorem erase_erase (w : World) : erase (erase w) = erase w := by
  cases w with
  | mk conns cur past now fuel store available maxdata localId banner defaultTT locks files dirs sink trace =>
    simp only [erase, Option.map_map, List.map_map, List.filter_filter, Bool.and_self]
    congr 1

theorem FragAgree.erase_right (w : World) : FragAgree w (erase w) := FragAgree.of_erase (erase_erase w).symm

theorem FragAgree.unfrag_right (w : World) : FragAgree w w.unfrag := by
  apply FragAgree.of_erase
  cases w with
  | mk conns cur past now fuel store available maxdata localId banner defaultTT locks files dirs sink trace =>
    simp only [erase, World.unfrag, Option.map_map, List.map_map]
    congr 1

/-- the second world is the first one with other values in the free fields -/
theorem FragAgree.eq {w₁ w₂ : World} (h : FragAgree w₁ w₂) :
    w₂ = { w₁ with cur := w₂.cur, conns := w₂.conns, trace := w₂.trace } := by
  obtain ⟨h1, h2, h3, h4, h5, h6, h7, h8, h9, h10, h11, h12, h13, h14, h15, h16⟩ := h
  cases w₁; cases w₂
  simp only at h3 h4 h5 h6 h7 h8 h9 h10 h11 h12 h13 h14 h15
  subst h3 h4 h5 h6 h7 h8 h9 h10 h11 h12 h13 h14 h15
  rfl

theorem Dt0_erase {w : World} : (erase w).Dt0 ↔ w.Dt0 := by
  unfold World.Dt0 erase
  constructor
  · rintro ⟨h1, h2⟩
    refine ⟨fun c hc => ?_, fun c hc => ?_⟩
    · have := h1 c.unfrag (by simp [hc])
      simpa using this
    · have := h2 c.unfrag (List.mem_map_of_mem hc)
      simpa using this
  · rintro ⟨h1, h2⟩
    refine ⟨fun c hc => ?_, fun c hc => ?_⟩
    · simp only [Option.map_eq_some_iff] at hc
      obtain ⟨c', hc', rfl⟩ := hc
      simpa using h1 c' hc'
    · simp only [List.mem_map] at hc
      obtain ⟨c', hc', rfl⟩ := hc
      simpa using h2 c' hc'

theorem FragAgree.dt0 {w₁ w₂ : World} (h : FragAgree w₁ w₂) (hd : w₁.Dt0) : w₂.Dt0 := by
  rw [← Dt0_erase, ← h.erase_eq, Dt0_erase]; exact hd

namespace Frag

/-- the relation carried through every model function -/
def FR (w₁ w₂ : World) : Prop := FragAgree w₁ w₂ ∧ w₁.Dt0

theorem FR.refl {w : World} (hd : w.Dt0) : FR w w := ⟨FragAgree.refl w, hd⟩
theorem FR.symm {w₁ w₂ : World} (h : FR w₁ w₂) : FR w₂ w₁ := ⟨h.1.symm, h.1.dt0 h.2⟩
theorem FR.trans {a b c : World} (h1 : FR a b) (h2 : FR b c) : FR a c := ⟨h1.1.trans h2.1, h1.2⟩

/-- outcome of two runs: one of them hung, or same result and related worlds -/
def Out {α} (o₁ o₂ : Except Err α × World) : Prop :=
  o₁.1 = .error .hang ∨ o₂.1 = .error .hang ∨ (o₁.1 = o₂.1 ∧ FR o₁.2 o₂.2)

/-- `x` is insensitive to read fragmentation (up to `hang`) -/
def Ins {α : Type} (x : M α) : Prop := ∀ w₁ w₂, FR w₁ w₂ → Out (x w₁) (x w₂)

/-- `x` commutes with forgetting the fragmentation scripts (no escape needed) -/
def Comm {α : Type} (x : M α) : Prop := ∀ w, x (erase w) = ((x w).1, erase (x w).2)

theorem Ins_of_comm {α} {x : M α} (hc : Comm x) (hd : ∀ w, w.Dt0 → (x w).2.Dt0) : Ins x := by
  intro w₁ w₂ h
  refine Or.inr (Or.inr ?_)
  have c1 := hc w₁
  have c2 := hc w₂
  rw [h.1.erase_eq, c2] at c1
  simp only [Prod.mk.injEq] at c1
  exact ⟨c1.1.symm, FragAgree.of_erase c1.2.symm, hd w₁ h.2⟩

/-- `x` neither reads nor writes the open connection, the future connections, the trace -/
theorem Ins_of_silent {α} {x : M α}
    (h : ∀ w c cs tr, x { w with cur := c, conns := cs, trace := tr } =
      ((x w).1, { (x w).2 with cur := c, conns := cs, trace := tr })) : Ins x := by
  have hw : ∀ w, (x w).2.cur = w.cur ∧ (x w).2.conns = w.conns ∧ (x w).2.trace = w.trace := by
    intro w
    have h0 := h w w.cur w.conns w.trace
    have e0 : ({ w with cur := w.cur, conns := w.conns, trace := w.trace } : World) = w := rfl
    rw [e0] at h0
    have hw := congrArg Prod.snd h0
    simp only at hw
    exact ⟨by rw [hw], by rw [hw], by rw [hw]⟩
  apply Ins_of_comm
  · intro w
    obtain ⟨e1, e2, e3⟩ := hw w
    show x { w with cur := w.cur.map Conn.unfrag, conns := w.conns.map Conn.unfrag, trace := w.trace.filter TEv.notReq } = _
    rw [h]
    simp only [erase, e1, e2, e3]
  · intro w hd
    obtain ⟨e1, e2, -⟩ := hw w
    unfold World.Dt0
    rw [e1, e2]
    exact hd

theorem Ins_pure {α} (a : α) : Ins (pure a : M α) := Ins_of_silent fun _ _ _ _ => rfl
theorem Ins_Mpure {α} (a : α) : Ins (M.pure a : M α) := Ins_of_silent fun _ _ _ _ => rfl
theorem Ins_throw {α} (e : Err) : Ins (M.throw e : M α) := Ins_of_silent fun _ _ _ _ => rfl
theorem Ins_now : Ins now := Ins_of_silent fun _ _ _ _ => rfl
theorem Ins_liftExcept {α} (x : Except Err α) : Ins (liftExcept x) := Ins_of_silent fun _ _ _ _ => rfl
theorem Ins_elapsedGt (st : Int) (l : Timeout) : Ins (elapsedGt st l) :=
  Ins_of_silent fun _ _ _ _ => by cases l <;> rfl
theorem Ins_waitTimeout {α} (tt : Timeout) : Ins (waitTimeout tt : M α) :=
  Ins_of_silent fun _ _ _ _ => by cases tt <;> rfl

/-- any event except a `req` -/
theorem Ins_emit (e : TEv) (he : e.notReq = true) : Ins (emit e) := by
  apply Ins_of_comm
  · intro w
    simp only [emit_run, erase, List.filter_cons, he, if_true]
  · intro w hd; exact hd

theorem Ins_bind {α β} {x : M α} {f : α → M β} (hx : Ins x) (hf : ∀ a, Ins (f a)) : Ins (x >>= f) := by
  intro w₁ w₂ h
  have hx' := hx w₁ w₂ h
  unfold Out at hx' ⊢
  rw [bind_run, bind_run]
  cases hx1 : x w₁ with
  | mk r1 v1 =>
    cases hx2 : x w₂ with
    | mk r2 v2 =>
      rw [hx1, hx2] at hx'
      simp only at hx'
      rcases hx' with rfl | rfl | ⟨rfl, h2⟩
      · exact Or.inl rfl
      · exact Or.inr (Or.inl rfl)
      · cases r1 with
        | error e => exact Or.inr (Or.inr ⟨rfl, h2⟩)
        | ok a => exact hf a v1 v2 h2

/-- bind with a fact about the value handed on -/
theorem Ins_bind_post {α β} {x : M α} {f : α → M β} (Q : α → Prop) (hx : Ins x)
    (hq : ∀ w a w', x w = (.ok a, w') → Q a) (hf : ∀ a, Q a → Ins (f a)) : Ins (x >>= f) := by
  intro w₁ w₂ h
  have hx' := hx w₁ w₂ h
  unfold Out at hx' ⊢
  rw [bind_run, bind_run]
  cases hx1 : x w₁ with
  | mk r1 v1 =>
    cases hx2 : x w₂ with
    | mk r2 v2 =>
      rw [hx1, hx2] at hx'
      simp only at hx'
      rcases hx' with rfl | rfl | ⟨rfl, h2⟩
      · exact Or.inl rfl
      · exact Or.inr (Or.inl rfl)
      · cases r1 with
        | error e => exact Or.inr (Or.inr ⟨rfl, h2⟩)
        | ok a => exact hf a (hq _ _ _ hx1) v1 v2 h2

/-- `let w ← get; f w` where `f` does not look at the free fields of `w` -/
theorem Ins_get_bind {β} {f : World → M β} (hf : ∀ w, Ins (f w))
    (hi : ∀ w c cs tr, f { w with cur := c, conns := cs, trace := tr } = f w) :
    Ins (M.get >>= f) := by
  intro w₁ w₂ h
  have e : f w₂ = f w₁ := by rw [h.1.eq]; exact hi w₁ _ _ _
  simp only [bind_run, M.get_run]
  rw [e]
  exact hf w₁ w₁ w₂ h

theorem Ins_ite {α} {c : Prop} [Decidable c] {a b : M α} (ha : Ins a) (hb : Ins b) :
    Ins (if c then a else b) := by
  split <;> assumption

theorem FR.setLocks {w₁ w₂ : World} (h : FR w₁ w₂) (l₁ l₂ : List Nat) (hl : l₁ = l₂) :
    FR { w₁ with locks := l₁ } { w₂ with locks := l₂ } :=
  ⟨⟨h.1.conns, h.1.cur, h.1.past, h.1.now, h.1.fuel, h.1.store, h.1.available, h.1.maxdata, h.1.localId, h.1.banner,
    h.1.defaultTT, hl, h.1.files, h.1.dirs, h.1.sink, h.1.trace⟩, h.2⟩

theorem Ins_withLock {α} (l : Nat) {body : M α} (hb : Ins body) : Ins (withLock l body) := by
  intro w₁ w₂ h
  unfold Out
  rw [withLock_run, withLock_run, ← h.1.locks]
  split
  · exact Or.inr (Or.inr ⟨rfl, h⟩)
  · have h' : FR { w₁ with locks := l :: w₁.locks } { w₂ with locks := l :: w₁.locks } := h.setLocks _ _ rfl
    rcases hb _ _ h' with g | g | ⟨g1, g2⟩
    · exact Or.inl g
    · exact Or.inr (Or.inl g)
    · refine Or.inr (Or.inr ⟨g1, ?_⟩)
      exact g2.setLocks _ _ (by rw [g2.1.locks])

/-- a state update that keeps the relation -/
theorem Ins_modify {f : World → World} (hf : ∀ w₁ w₂, FR w₁ w₂ → FR (f w₁) (f w₂)) : Ins (M.modify f) := by
  intro w₁ w₂ h
  exact Or.inr (Or.inr ⟨rfl, hf w₁ w₂ h⟩)

/-- the hang-strict `try/finally`: as `M.tryFinally`, except that a `hang` of the clean-up is reported
    even when the body raised (Python would report the body's exception and lose the hang) -/
def tryFinallyS {α} (x : M α) (fin : M Unit) : M α := fun w =>
  match x w with
  | (.ok a, w') => (match fin w' with | (.ok _, w'') => (.ok a, w'') | (.error e, w'') => (.error e, w''))
  | (.error e, w') =>
    (match fin w' with
     | (.ok _, w'') => (.error e, w'')
     | (.error e', w'') => if e' = .hang then (.error .hang, w'') else (.error e, w''))

/-- the strict version differs from `M.tryFinally` only when it reports `hang` -/
theorem tryFinallyS_eq {α} (x : M α) (fin : M Unit) (w : World)
    (h : (tryFinallyS x fin w).1 ≠ .error .hang) : M.tryFinally x fin w = tryFinallyS x fin w := by
  unfold tryFinallyS at h ⊢
  unfold M.tryFinally
  cases hx : x w with
  | mk r v =>
    rw [hx] at h
    cases r with
    | ok a => rfl
    | error e =>
      simp only at h ⊢
      cases hf : fin v with
      | mk q u =>
        rw [hf] at h
        cases q with
        | ok _ => rfl
        | error e' =>
          simp only at h ⊢
          by_cases he : e' = .hang
          · simp [he] at h
          · simp [he]

/-- a `hang` reported by `M.tryFinally` is also reported by the strict version -/
theorem tryFinallyS_hang {α} (x : M α) (fin : M Unit) (w : World)
    (h : (M.tryFinally x fin w).1 = .error .hang) : (tryFinallyS x fin w).1 = .error .hang := by
  by_cases hs : (tryFinallyS x fin w).1 = .error .hang
  · exact hs
  · rw [← tryFinallyS_eq x fin w hs]; exact h

/-- result of the strict `try/finally` from the results of body and clean-up -/
def tfsRes {α} : Except Err α → Except Err Unit → Except Err α
  | .ok a, .ok _ => .ok a
  | .ok _, .error e => .error e
  | .error e, .ok _ => .error e
  | .error e, .error e' => if e' = .hang then .error .hang else .error e

theorem tryFinallyS_run {α} {x : M α} {fin : M Unit} {w v u : World} {r : Except Err α} {q : Except Err Unit}
    (hx : x w = (r, v)) (hf : fin v = (q, u)) : tryFinallyS x fin w = (tfsRes r q, u) := by
  unfold tryFinallyS
  rw [hx]
  cases r <;> (simp only [hf]; cases q <;> simp only [tfsRes] <;> (try split) <;> rfl)

theorem Ins_tryFinallyS {α} {x : M α} {fin : M Unit} (hx : Ins x) (hf : Ins fin) : Ins (tryFinallyS x fin) := by
  intro w₁ w₂ h
  have hx' := hx w₁ w₂ h
  unfold Out at hx' ⊢
  cases hx1 : x w₁ with
  | mk r1 v1 =>
    cases hx2 : x w₂ with
    | mk r2 v2 =>
      rw [hx1, hx2] at hx'
      simp only at hx'
      cases hf1 : fin v1 with
      | mk q1 u1 =>
        cases hf2 : fin v2 with
        | mk q2 u2 =>
          rw [tryFinallyS_run hx1 hf1, tryFinallyS_run hx2 hf2]
          simp only
          rcases hx' with rfl | rfl | ⟨rfl, h2⟩
          · left
            cases q1 with
            | ok _ => rfl
            | error e' => by_cases he : e' = .hang <;> simp [tfsRes, he]
          · right; left
            cases q2 with
            | ok _ => rfl
            | error e' => by_cases he : e' = .hang <;> simp [tfsRes, he]
          · have hf' := hf v1 v2 h2
            unfold Out at hf'
            rw [hf1, hf2] at hf'
            simp only at hf'
            rcases hf' with rfl | rfl | ⟨rfl, g2⟩
            · left; cases r1 <;> simp [tfsRes]
            · right; left; cases r1 <;> simp [tfsRes]
            · right; right
              exact ⟨rfl, g2⟩

/-! ### primitives that touch the connection but not its read-fragmentation script -/

theorem Comm_bulkWrite (d : Bytes) (tt : Timeout) : Comm (bulkWrite d tt) := by
  intro w
  cases w with
  | mk conns cur past now fuel store available maxdata localId banner defaultTT locks files dirs sink trace =>
    cases cur with
    | none => rfl
    | some c =>
      unfold bulkWrite waitTimeout
      simp only [erase, Option.map_some, Conn.unfrag]
      repeat' split
      all_goals rfl

theorem Dt0_bulkWrite (d : Bytes) (tt : Timeout) (w : World) (hd : w.Dt0) : (bulkWrite d tt w).2.Dt0 := by
  obtain ⟨h1, h2⟩ := hd
  unfold bulkWrite waitTimeout
  cases hc : w.cur with
  | none => exact ⟨by simp [hc], h2⟩
  | some c =>
    have hc0 := h1 c hc
    dsimp only
    repeat' split
    all_goals (refine ⟨?_, h2⟩; intro c' hc'; first | exact h1 _ hc' | (simp only [Option.some.injEq] at hc'; subst hc'; exact hc0))

theorem Ins_bulkWrite (d : Bytes) (tt : Timeout) : Ins (bulkWrite d tt) :=
  Ins_of_comm (Comm_bulkWrite d tt) (Dt0_bulkWrite d tt)

theorem Ins_tClose : Ins tClose := by
  apply Ins_of_comm
  · intro w
    cases w with
    | mk conns cur past now fuel store available maxdata localId banner defaultTT locks files dirs sink trace =>
      cases cur <;> rfl
  · intro w hd
    unfold tClose
    split
    · exact hd
    · exact ⟨by simp, hd.2⟩

theorem Ins_tConnect (tt : Timeout) : Ins (tConnect tt) := by
  apply Ins_of_comm
  · intro w
    cases w with
    | mk conns cur past now fuel store available maxdata localId banner defaultTT locks files dirs sink trace =>
      cases conns with
      | nil => rfl
      | cons c rest =>
        unfold tConnect
        simp only [erase, List.map_cons, Conn.unfrag]
        split <;> rfl
  · intro w hd
    unfold tConnect
    split
    · exact hd
    · next c rest hc =>
      have hd2 := hd.2
      rw [hc] at hd2
      split
      · exact ⟨hd.1, fun c' h' => hd2 c' (List.mem_cons_of_mem _ h')⟩
      · refine ⟨?_, fun c' h' => hd2 c' (List.mem_cons_of_mem _ h')⟩
        intro c' h'
        simp only [Option.some.injEq] at h'
        subst h'
        exact hd2 _ (List.mem_cons_self)

theorem Ins_storePut (p : Pkt) : Ins (storePut p) := by
  apply Ins_of_comm
  · intro w
    unfold storePut erase
    dsimp only
    split <;> rfl
  · intro w hd; exact hd

end Frag
end Adb
