import AdbModel.Usb
/-
  Helper lemmas for C20 (USB transport on a scripted libusb backend).
-/
namespace Adb.Usb

/-! ### the backend -/

theorem call_log (b : Backend) (c : Call) : (b.call c).2.log = b.log ++ [c] := by
  unfold Backend.call; cases b.script <;> rfl

theorem call_opened (b : Backend) (c : Call) : (b.call c).2.opened = b.opened := by
  unfold Backend.call; cases b.script <;> rfl

theorem call_script (b : Backend) (c : Call) : (b.call c).2.script = b.script.drop 1 := by
  unfold Backend.call; cases b.script <;> rfl

theorem call_res (b : Backend) (c : Call) : (b.call c).1 = b.script.head?.getD (.ok [] 0) := by
  unfold Backend.call; cases b.script <;> rfl

theorem usbInfo_log (b : Backend) : (usbInfo b).log = b.log ++ [.serial] := call_log b .serial

theorem usbInfo_script (b : Backend) : (usbInfo b).script = b.script.drop 1 := call_script b .serial

/-! ### endpoint scan -/

def scanStep (acc : Option Nat × Option Nat) (a : Nat) : Option Nat × Option Nat :=
  if isIn a then (some a, acc.2) else (acc.1, some a)

theorem scanEndpoints_eq (eps : List Nat) : scanEndpoints eps = eps.foldl scanStep (none, none) := rfl

theorem scan_foldl_fst (eps : List Nat) (acc : Option Nat × Option Nat) :
    (eps.foldl scanStep acc).1 = match (eps.filter isIn).getLast? with | some a => some a | none => acc.1 := by
  induction eps generalizing acc with
  | nil => simp
  | cons a eps ih =>
    rw [List.foldl_cons, ih]
    by_cases ha : isIn a = true
    · simp only [scanStep, ha, if_true, List.filter_cons_of_pos, List.getLast?_cons]
      cases (List.filter isIn eps).getLast? <;> simp
    · simp only [Bool.not_eq_true] at ha
      simp [scanStep, ha]

theorem scan_foldl_snd (eps : List Nat) (acc : Option Nat × Option Nat) :
    (eps.foldl scanStep acc).2 = match (eps.filter (fun a => !isIn a)).getLast? with | some a => some a | none => acc.2 := by
  induction eps generalizing acc with
  | nil => simp
  | cons a eps ih =>
    rw [List.foldl_cons, ih]
    by_cases ha : isIn a = true
    · simp [scanStep, ha]
    · simp only [Bool.not_eq_true] at ha
      have hf : (a :: eps).filter (fun a => !isIn a) = a :: eps.filter (fun a => !isIn a) := by
        simp [ha]
      rw [hf, List.getLast?_cons]
      simp only [scanStep, ha, Bool.false_eq_true, if_false]
      cases (List.filter (fun a => !isIn a) eps).getLast? <;> simp

/-- which endpoints `connect` picks: the LAST IN address and the LAST OUT address of the setting -/
theorem scanEndpoints_last (eps : List Nat) :
    scanEndpoints eps = ((eps.filter isIn).getLast?, (eps.filter (fun a => !isIn a)).getLast?) := by
  rw [scanEndpoints_eq]
  apply Prod.ext
  · rw [scan_foldl_fst]; cases (List.filter isIn eps).getLast? <;> rfl
  · rw [scan_foldl_snd]; cases (List.filter (fun a => !isIn a) eps).getLast? <;> rfl

theorem scan_read_mem {eps : List Nat} {r : Nat} (h : (scanEndpoints eps).1 = some r) : r ∈ eps ∧ isIn r = true := by
  rw [scanEndpoints_last] at h
  have := List.mem_of_getLast? h
  simpa [List.mem_filter] using this

theorem scan_write_mem {eps : List Nat} {wr : Nat} (h : (scanEndpoints eps).2 = some wr) : wr ∈ eps ∧ isIn wr = false := by
  rw [scanEndpoints_last] at h
  have := List.mem_of_getLast? h
  simpa [List.mem_filter] using this

theorem isIn_iff (a : Nat) : isIn a = true ↔ a &&& 0x80 ≠ 0 := by
  simp [isIn]

/-! ### kernel driver step -/

theorem kernelStep_spec (win : Bool) (h i : Nat) (b : Backend) :
    ∃ mid, (kernelStep win h i b).2.log = b.log ++ mid ∧ (kernelStep win h i b).2.opened = b.opened ∧
      ((win = true ∧ mid = []) ∨ (win = false ∧ (mid = [.kda h i] ∨ mid = [.kda h i, .detach h i]))) := by
  cases win with
  | true => exact ⟨[], by simp [kernelStep], by simp [kernelStep], .inl ⟨rfl, rfl⟩⟩
  | false =>
    simp only [kernelStep, Bool.false_eq_true, if_false]
    have hl := call_log b (.kda h i)
    have ho := call_opened b (.kda h i)
    cases hr : (b.call (.kda h i)).1 with
    | err k =>
      refine ⟨[.kda h i], ?_, ?_, .inr ⟨by simp, .inl rfl⟩⟩
      · cases k <;> simp [hl]
      · cases k <;> simp [ho]
    | ok bs n =>
      by_cases hn : n = 0
      · exact ⟨[.kda h i], by simp [hn, hl], by simp [hn, ho], .inr ⟨by simp, .inl rfl⟩⟩
      · have hl2 := call_log (b.call (.kda h i)).2 (.detach h i)
        have ho2 := call_opened (b.call (.kda h i)).2 (.detach h i)
        refine ⟨[.kda h i, .detach h i], ?_, ?_, .inr ⟨by simp, .inr rfl⟩⟩
        · simp only [hn, if_false]
          cases hr2 : ((b.call (.kda h i)).2.call (.detach h i)).1 with
          | ok _ _ => simp [hl2, hl]
          | err k => cases k <;> simp [hl2, hl]
        · simp only [hn, if_false]
          cases hr2 : ((b.call (.kda h i)).2.call (.detach h i)).1 with
          | ok _ _ => simp [ho2, ho]
          | err k => cases k <;> simp [ho2, ho]

theorem kernelStep_calls (win : Bool) (h i : Nat) (b : Backend) :
    ∃ mid, (kernelStep win h i b).2.log = b.log ++ mid ∧ ∀ c ∈ mid, c = .kda h i ∨ c = .detach h i := by
  obtain ⟨mid, hl, _, hm⟩ := kernelStep_spec win h i b
  refine ⟨mid, hl, ?_⟩
  rcases hm with ⟨_, rfl⟩ | ⟨_, rfl | rfl⟩ <;> simp

/-! ### connect -/

/-- everything a successful `connect` does -/
theorem connect_ok {w w' : World} (h : connect w = (.ok (), w')) :
    ∃ r wr mid, scanEndpoints w.cfg.eps = (some r, some wr) ∧ w'.cfg = w.cfg ∧
      w'.st = { w.st with handle := some ⟨w.be.opened + 1⟩, readEp := some r, writeEp := some wr, iface := some w.cfg.iface } ∧
      w'.be.log = w.be.log ++ ([Call.open] ++ mid ++ [Call.claim (w.be.opened + 1) w.cfg.iface]) ∧
      ((w.cfg.windows = true ∧ mid = []) ∨
        (w.cfg.windows = false ∧ (mid = [.kda (w.be.opened + 1) w.cfg.iface] ∨
          mid = [.kda (w.be.opened + 1) w.cfg.iface, .detach (w.be.opened + 1) w.cfg.iface]))) := by
  unfold connect at h
  rcases hs : scanEndpoints w.cfg.eps with ⟨r?, w?⟩
  rw [hs] at h
  cases r? with
  | none => simp at h
  | some r =>
    cases w? with
    | none => simp at h
    | some wr =>
      simp only at h
      have hol := call_log w.be .open
      have hoo := call_opened w.be .open
      rcases hc : w.be.call .open with ⟨ro, b1⟩
      rw [hc] at h hol hoo
      simp only at h hol hoo
      cases ro with
      | err k => simp at h
      | ok bs0 n0 =>
        simp only at h
        obtain ⟨mid, hkl, _, hmid⟩ := kernelStep_spec w.cfg.windows (b1.opened + 1) w.cfg.iface { b1 with opened := b1.opened + 1 }
        rcases hk : kernelStep w.cfg.windows (b1.opened + 1) w.cfg.iface { b1 with opened := b1.opened + 1 } with ⟨k?, b2⟩
        rw [hk] at h hkl
        simp only at h hkl
        cases k? with
        | some k => simp at h
        | none =>
          simp only at h
          have hcl := call_log b2 (.claim (b1.opened + 1) w.cfg.iface)
          rcases hcc : b2.call (.claim (b1.opened + 1) w.cfg.iface) with ⟨rc, b3⟩
          rw [hcc] at h hcl
          simp only at h hcl
          cases rc with
          | err k => simp at h
          | ok bs1 n1 =>
            simp only [Prod.mk.injEq, true_and] at h
            subst h
            rw [hoo] at hmid hcl ⊢
            refine ⟨r, wr, mid, rfl, rfl, rfl, ?_, hmid⟩
            simp [hcl, hkl, hol]

/-- shape of `connect` in every outcome: the configuration is kept, the calls are open / kernel-driver / claim calls for the
    setting's interface number, and the attributes are either untouched or set from the endpoint scan -/
theorem connect_shape (w : World) :
    (connect w).2.cfg = w.cfg ∧
    (∃ calls, (connect w).2.be.log = w.be.log ++ calls ∧
      ∀ c ∈ calls, c = .open ∨ ∃ h, c = .kda h w.cfg.iface ∨ c = .detach h w.cfg.iface ∨ c = .claim h w.cfg.iface) ∧
    ((connect w).2.st = w.st ∨ ∃ r wr h, scanEndpoints w.cfg.eps = (some r, some wr) ∧
      (connect w).2.st = { w.st with handle := some ⟨h⟩, readEp := some r, writeEp := some wr, iface := some w.cfg.iface }) := by
  unfold connect
  rcases hs : scanEndpoints w.cfg.eps with ⟨r?, w?⟩
  cases r? with
  | none => exact ⟨rfl, ⟨[], by simp, by simp⟩, .inl rfl⟩
  | some r =>
    cases w? with
    | none => exact ⟨rfl, ⟨[], by simp, by simp⟩, .inl rfl⟩
    | some wr =>
      simp only
      have hol := call_log w.be .open
      rcases hc : w.be.call .open with ⟨ro, b1⟩
      rw [hc] at hol
      simp only at hol
      cases ro with
      | err k => exact ⟨rfl, ⟨[.open], by simp [hol], by simp⟩, .inl rfl⟩
      | ok bs0 n0 =>
        simp only
        obtain ⟨mid, hkl, hmid⟩ := kernelStep_calls w.cfg.windows (b1.opened + 1) w.cfg.iface { b1 with opened := b1.opened + 1 }
        rcases hk : kernelStep w.cfg.windows (b1.opened + 1) w.cfg.iface { b1 with opened := b1.opened + 1 } with ⟨k?, b2⟩
        rw [hk] at hkl
        simp only at hkl
        cases k? with
        | some k =>
          refine ⟨rfl, ⟨.open :: mid, by simp [hkl, hol], ?_⟩, .inl rfl⟩
          intro c hcm
          rcases List.mem_cons.mp hcm with rfl | hcm
          · exact .inl rfl
          · rcases hmid c hcm with rfl | rfl
            · exact .inr ⟨_, .inl rfl⟩
            · exact .inr ⟨_, .inr (.inl rfl)⟩
        | none =>
          simp only
          have hcl := call_log b2 (.claim (b1.opened + 1) w.cfg.iface)
          rcases hcc : b2.call (.claim (b1.opened + 1) w.cfg.iface) with ⟨rc, b3⟩
          rw [hcc] at hcl
          simp only at hcl
          have hcalls : ∀ c ∈ .open :: (mid ++ [Call.claim (b1.opened + 1) w.cfg.iface]),
              c = Call.open ∨ ∃ h, c = .kda h w.cfg.iface ∨ c = .detach h w.cfg.iface ∨ c = .claim h w.cfg.iface := by
            intro c hcm
            rcases List.mem_cons.mp hcm with rfl | hcm
            · exact .inl rfl
            · rcases List.mem_append.mp hcm with hcm | hcm
              · rcases hmid c hcm with rfl | rfl
                · exact .inr ⟨_, .inl rfl⟩
                · exact .inr ⟨_, .inr (.inl rfl)⟩
              · simp only [List.mem_singleton] at hcm
                subst hcm
                exact .inr ⟨_, .inr (.inr rfl)⟩
          cases rc with
          | err k =>
            exact ⟨rfl, ⟨_, by simp [hcl, hkl, hol], hcalls⟩, .inr ⟨r, wr, _, rfl, rfl⟩⟩
          | ok bs1 n1 =>
            exact ⟨rfl, ⟨_, by simp [hcl, hkl, hol], hcalls⟩, .inr ⟨r, wr, _, rfl, rfl⟩⟩

/-! ### bulk transfers and close -/

theorem bulkRead_closed {w : World} (h : w.st.handle = none) (n : Nat) (t : Option Nat) :
    bulkRead w n t = (.err .usbReadFailed, w) := by
  simp [bulkRead, h]

theorem bulkWrite_closed {w : World} (h : w.st.handle = none) (d : Bytes) (t : Option Nat) :
    bulkWrite w d t = (.err .usbWriteFailed, w) := by
  simp [bulkWrite, h]

theorem bulkRead_open {w : World} {h : Handle} (hh : w.st.handle = some h) (n : Nat) (t : Option Nat) :
    (bulkRead w n t).2.st = w.st ∧ (bulkRead w n t).2.cfg = w.cfg ∧
    ∃ tail, (bulkRead w n t).2.be.log = w.be.log ++ (.bulkRead h.id w.st.readEp n (timeoutMs w.st t) :: tail) ∧
      (tail = [] ∨ tail = [.serial]) := by
  have hl := call_log w.be (.bulkRead h.id w.st.readEp n (timeoutMs w.st t))
  simp only [bulkRead, hh]
  rcases hc : w.be.call (.bulkRead h.id w.st.readEp n (timeoutMs w.st t)) with ⟨r, b1⟩
  rw [hc] at hl
  simp only at hl
  cases r with
  | ok bs k => exact ⟨rfl, rfl, [], by simp [hl], .inl rfl⟩
  | err k => exact ⟨rfl, rfl, [.serial], by simp [usbInfo_log, hl], .inr rfl⟩

theorem bulkWrite_open {w : World} {h : Handle} (hh : w.st.handle = some h) (d : Bytes) (t : Option Nat) :
    (bulkWrite w d t).2.st = w.st ∧ (bulkWrite w d t).2.cfg = w.cfg ∧
    ∃ tail, (bulkWrite w d t).2.be.log = w.be.log ++ (.bulkWrite h.id w.st.writeEp d (timeoutMs w.st t) :: tail) ∧
      (tail = [] ∨ tail = [.serial]) := by
  have hl := call_log w.be (.bulkWrite h.id w.st.writeEp d (timeoutMs w.st t))
  simp only [bulkWrite, hh]
  rcases hc : w.be.call (.bulkWrite h.id w.st.writeEp d (timeoutMs w.st t)) with ⟨r, b1⟩
  rw [hc] at hl
  simp only at hl
  cases r with
  | ok bs k => exact ⟨rfl, rfl, [], by simp [hl], .inl rfl⟩
  | err k => exact ⟨rfl, rfl, [.serial], by simp [usbInfo_log, hl], .inr rfl⟩

/-- result and remaining script of a read on an open transport, by the head of the script -/
theorem bulkRead_script {w : World} {h : Handle} (hh : w.st.handle = some h) (n : Nat) (t : Option Nat) :
    match w.be.script with
    | [] => (bulkRead w n t).1 = .ok [] ∧ (bulkRead w n t).2.be.script = []
    | .ok bs _ :: rest => (bulkRead w n t).1 = .ok bs ∧ (bulkRead w n t).2.be.script = rest
    | .err _ :: rest => (bulkRead w n t).1 = .err .usbReadFailed ∧ (bulkRead w n t).2.be.script = rest.drop 1 := by
  simp only [bulkRead, hh, Backend.call]
  cases hs : w.be.script with
  | nil => simp
  | cons r rest =>
    cases r with
    | ok bs k => simp
    | err k => simp [usbInfo, Backend.call]; cases rest <;> simp

theorem bulkWrite_script {w : World} {h : Handle} (hh : w.st.handle = some h) (d : Bytes) (t : Option Nat) :
    match w.be.script with
    | [] => (bulkWrite w d t).1 = .ok 0
    | .ok _ k :: _ => (bulkWrite w d t).1 = .ok k
    | .err _ :: _ => (bulkWrite w d t).1 = .err .usbWriteFailed := by
  simp only [bulkWrite, hh, Backend.call]
  cases hs : w.be.script with
  | nil => simp
  | cons r rest => cases r <;> simp

theorem close_closed {w : World} (h : w.st.handle = none) : close w = w := by
  simp [close, h]

theorem close_handle (w : World) : (close w).st.handle = none := by
  unfold close
  cases h : w.st.handle with
  | none => simpa using h
  | some hd => simp

theorem close_open {w : World} {h : Handle} (hh : w.st.handle = some h) :
    (close w).cfg = w.cfg ∧ (close w).st = { w.st with handle := none } ∧
    ∃ tail, (close w).be.log = w.be.log ++ (.release h.id w.st.iface :: tail) ∧
      (tail = [.hclose h.id] ∨ tail = [.serial] ∨ tail = [.hclose h.id, .serial]) := by
  have hl := call_log w.be (.release h.id w.st.iface)
  simp only [close, hh]
  rcases hc : w.be.call (.release h.id w.st.iface) with ⟨r, b1⟩
  rw [hc] at hl
  simp only at hl
  cases r with
  | err k => exact ⟨trivial, trivial, [.serial], by simp [usbInfo_log, hl], .inr (.inl rfl)⟩
  | ok bs k =>
    simp only
    have hl2 := call_log b1 (.hclose h.id)
    rcases hc2 : b1.call (.hclose h.id) with ⟨r2, b2⟩
    rw [hc2] at hl2
    simp only at hl2
    cases r2 with
    | ok _ _ => exact ⟨trivial, trivial, [.hclose h.id], by simp [hl2, hl], .inl rfl⟩
    | err _ => exact ⟨trivial, trivial, [.hclose h.id, .serial], by simp [usbInfo_log, hl2, hl], .inr (.inr rfl)⟩

/-! ### invariant of every run -/

/-- a backend call is about the setting the transport was built for: transfers use an endpoint of that setting with the
    right direction bit, interface calls use the setting's number -/
def GoodCall (cfg : Dev) : Call → Prop
  | .bulkRead _ ep _ _ => ∃ a, ep = some a ∧ a ∈ cfg.eps ∧ a &&& 0x80 ≠ 0
  | .bulkWrite _ ep _ _ => ∃ a, ep = some a ∧ a ∈ cfg.eps ∧ a &&& 0x80 = 0
  | .kda _ i => i = cfg.iface
  | .detach _ i => i = cfg.iface
  | .claim _ i => i = cfg.iface
  | .release _ i => i = some cfg.iface
  | .open => True
  | .hclose _ => True
  | .serial => True

/-- while a handle is held, the attributes describe the setting -/
def WF (w : World) : Prop :=
  ∀ h, w.st.handle = some h → w.st.iface = some w.cfg.iface ∧
    ∃ r wr, w.st.readEp = some r ∧ w.st.writeEp = some wr ∧ r ∈ w.cfg.eps ∧ wr ∈ w.cfg.eps ∧ isIn r = true ∧ isIn wr = false

def Inv (w : World) : Prop := WF w ∧ ∀ c ∈ w.be.log, GoodCall w.cfg c

theorem inv_new (cfg : Dev) (d : Option Nat) (script : List Res) : Inv (World.new cfg d script) := by
  refine ⟨?_, ?_⟩
  · intro h hh; simp [World.new, St.new] at hh
  · intro c hc; simp [World.new] at hc

theorem isIn_false_iff (a : Nat) : isIn a = false ↔ a &&& 0x80 = 0 := by
  simp [isIn]

theorem inv_step {w : World} (hI : Inv w) (op : Op) : Inv (step w op) ∧ (step w op).cfg = w.cfg := by
  obtain ⟨hW, hL⟩ := hI
  cases op with
  | connect =>
    obtain ⟨hcfg, ⟨calls, hlog, hcalls⟩, hst⟩ := connect_shape w
    refine ⟨⟨?_, ?_⟩, hcfg⟩
    · intro h hh
      simp only [step] at hh ⊢
      rw [hcfg]
      rcases hst with hst | ⟨r, wr, h', hscan, hst⟩
      · rw [hst] at hh ⊢; exact hW h hh
      · rw [hst]
        refine ⟨rfl, r, wr, rfl, rfl, ?_⟩
        have h1 := scan_read_mem (eps := w.cfg.eps) (r := r) (by rw [hscan])
        have h2 := scan_write_mem (eps := w.cfg.eps) (wr := wr) (by rw [hscan])
        exact ⟨h1.1, h2.1, h1.2, h2.2⟩
    · intro c hc
      simp only [step] at hc ⊢
      rw [hcfg]
      rw [hlog] at hc
      rcases List.mem_append.mp hc with hc | hc
      · exact hL c hc
      · rcases hcalls c hc with rfl | ⟨h', rfl | rfl | rfl⟩ <;> simp [GoodCall]
  | read n t =>
    cases hh : w.st.handle with
    | none =>
      rw [show step w (.read n t) = w from by simp [step, bulkRead_closed hh]]; exact ⟨⟨hW, hL⟩, rfl⟩
    | some h =>
      obtain ⟨hst, hcfg, tail, hlog, htail⟩ := bulkRead_open hh n t
      refine ⟨⟨?_, ?_⟩, hcfg⟩
      · intro h' hh'
        simp only [step] at hh' ⊢
        rw [hcfg]; rw [hst] at hh' ⊢; exact hW h' hh'
      · intro c hc
        simp only [step] at hc ⊢
        rw [hcfg]; rw [hlog] at hc
        rcases List.mem_append.mp hc with hc | hc
        · exact hL c hc
        · obtain ⟨_, r, wr, hr, _, hrm, _, hri, _⟩ := hW h hh
          rcases List.mem_cons.mp hc with rfl | hc
          · exact ⟨r, hr, hrm, (isIn_iff r).mp hri⟩
          · rcases htail with rfl | rfl
            · simp at hc
            · simp only [List.mem_singleton] at hc; subst hc; trivial
  | write d t =>
    cases hh : w.st.handle with
    | none =>
      rw [show step w (.write d t) = w from by simp [step, bulkWrite_closed hh]]; exact ⟨⟨hW, hL⟩, rfl⟩
    | some h =>
      obtain ⟨hst, hcfg, tail, hlog, htail⟩ := bulkWrite_open hh d t
      refine ⟨⟨?_, ?_⟩, hcfg⟩
      · intro h' hh'
        simp only [step] at hh' ⊢
        rw [hcfg]; rw [hst] at hh' ⊢; exact hW h' hh'
      · intro c hc
        simp only [step] at hc ⊢
        rw [hcfg]; rw [hlog] at hc
        rcases List.mem_append.mp hc with hc | hc
        · exact hL c hc
        · obtain ⟨_, r, wr, _, hwr, _, hwm, _, hwi⟩ := hW h hh
          rcases List.mem_cons.mp hc with rfl | hc
          · exact ⟨wr, hwr, hwm, (isIn_false_iff wr).mp hwi⟩
          · rcases htail with rfl | rfl
            · simp at hc
            · simp only [List.mem_singleton] at hc; subst hc; trivial
  | close =>
    cases hh : w.st.handle with
    | none =>
      rw [show step w .close = w from by simp [step, close_closed hh]]; exact ⟨⟨hW, hL⟩, rfl⟩
    | some h =>
      obtain ⟨hcfg, hst, tail, hlog, htail⟩ := close_open hh
      refine ⟨⟨?_, ?_⟩, hcfg⟩
      · intro h' hh'
        simp only [step] at hh'
        rw [hst] at hh'; simp at hh'
      · intro c hc
        simp only [step] at hc ⊢
        rw [hcfg]; rw [hlog] at hc
        rcases List.mem_append.mp hc with hc | hc
        · exact hL c hc
        · obtain ⟨hi, _⟩ := hW h hh
          rcases List.mem_cons.mp hc with rfl | hc
          · exact hi
          · rcases htail with rfl | rfl | rfl <;> simp at hc <;> rcases hc with rfl | rfl <;> trivial

theorem inv_run {w : World} (hI : Inv w) (ops : List Op) : Inv (run w ops) ∧ (run w ops).cfg = w.cfg := by
  induction ops generalizing w with
  | nil => exact ⟨hI, rfl⟩
  | cons op ops ih =>
    obtain ⟨h1, h2⟩ := inv_step hI op
    obtain ⟨h3, h4⟩ := ih h1
    exact ⟨h3, h4.trans h2⟩

theorem step_defaultMs (w : World) (op : Op) : (step w op).st.defaultMs = w.st.defaultMs := by
  cases op with
  | connect =>
    obtain ⟨_, _, hst⟩ := connect_shape w
    simp only [step]
    rcases hst with hst | ⟨r, wr, h', _, hst⟩ <;> rw [hst]
  | read n t =>
    cases hh : w.st.handle with
    | none => simp only [step, bulkRead_closed hh]
    | some h => simp only [step, (bulkRead_open hh n t).1]
  | write d t =>
    cases hh : w.st.handle with
    | none => simp only [step, bulkWrite_closed hh]
    | some h => simp only [step, (bulkWrite_open hh d t).1]
  | close =>
    cases hh : w.st.handle with
    | none => simp only [step, close_closed hh]
    | some h => simp only [step, (close_open hh).2.1]

theorem run_defaultMs (w : World) (ops : List Op) : (run w ops).st.defaultMs = w.st.defaultMs := by
  induction ops generalizing w with
  | nil => rfl
  | cons o os ih => simp only [run, List.foldl_cons]; exact (ih (step w o)).trans (step_defaultMs w o)

/-! ### runs of reads against a conforming backend -/

/-- pointwise: the i-th result, when it is a payload, is no longer than the i-th requested size -/
def Within : List (Nat × Option Nat) → List (Out Bytes) → Prop
  | [], [] => True
  | c :: cs, r :: rs => (∀ bs, r = Out.ok bs → bs.length ≤ c.1) ∧ Within cs rs
  | [], _ :: _ => False
  | _ :: _, [] => False

theorem within_get : ∀ (cs : List (Nat × Option Nat)) (rs : List (Out Bytes)), Within cs rs →
    rs.length = cs.length ∧
      ∀ (i : Nat) (c : Nat × Option Nat) (bs : Bytes), cs[i]? = some c → rs[i]? = some (Out.ok bs) → bs.length ≤ c.1
  | [], [], _ => ⟨rfl, by intro i c bs h; simp at h⟩
  | [], _ :: _, h => by simp [Within] at h
  | _ :: _, [], h => by simp [Within] at h
  | c :: cs, r :: rs, h => by
    obtain ⟨h1, h2⟩ := h
    obtain ⟨ihl, ihg⟩ := within_get cs rs h2
    refine ⟨by simp [ihl], ?_⟩
    intro i c' bs hc hr
    cases i with
    | zero =>
      simp only [List.getElem?_cons_zero, Option.some.injEq] at hc hr
      subst hc; exact h1 bs hr
    | succ i =>
      simp only [List.getElem?_cons_succ] at hc hr
      exact ihg i c' bs hc hr

theorem readMany_conforming (calls : List (Nat × Option Nat)) :
    ∀ (w : World) (h : Handle) (stream : Bytes), w.st.handle = some h →
      Conforming (calls.map (·.1)) stream w.be.script →
      Within calls (readMany w calls).1 ∧
        okBytes (readMany w calls).1 <+: stream ∧ (readMany w calls).2.st = w.st := by
  induction calls with
  | nil => intro w h stream _ _; exact ⟨trivial, by simp [readMany, okBytes], rfl⟩
  | cons c rest ih =>
    intro w h stream hh hc
    obtain ⟨n, t⟩ := c
    have hopen := bulkRead_open hh n t
    have hscr := bulkRead_script hh n t
    have hh1 : (bulkRead w n t).2.st.handle = some h := by rw [hopen.1]; exact hh
    simp only [readMany]
    simp only [List.map_cons, Conforming] at hc
    cases hs : w.be.script with
    | nil =>
      rw [hs] at hc hscr
      simp only at hc hscr
      obtain ⟨hr, hs1⟩ := hscr
      obtain ⟨ih1, ih2, ih3⟩ := ih (bulkRead w n t).2 h stream hh1 (by rw [hs1]; exact hc)
      refine ⟨⟨?_, ih1⟩, ?_, ih3.trans hopen.1⟩
      · intro bs hb; rw [hr] at hb; cases hb; simp
      · rw [hr]; simpa [okBytes] using ih2
    | cons r0 rest0 =>
      rw [hs] at hc hscr
      cases r0 with
      | ok bs k =>
        simp only at hc hscr
        obtain ⟨hr, hs1⟩ := hscr
        obtain ⟨hlen, hpre, hc'⟩ := hc
        obtain ⟨ih1, ih2, ih3⟩ := ih (bulkRead w n t).2 h (stream.drop bs.length) hh1 (by rw [hs1]; exact hc')
        refine ⟨⟨?_, ih1⟩, ?_, ih3.trans hopen.1⟩
        · intro bs' hb; rw [hr] at hb; cases hb; exact hlen
        · rw [hr]
          simp only [okBytes]
          obtain ⟨tl, rfl⟩ := hpre
          simp only [List.drop_left] at ih2
          exact (List.prefix_append_right_inj bs).mpr ih2
      | err k =>
        simp only at hc hscr
        obtain ⟨hr, hs1⟩ := hscr
        obtain ⟨ih1, ih2, ih3⟩ := ih (bulkRead w n t).2 h stream hh1 (by rw [hs1]; exact hc)
        refine ⟨⟨?_, ih1⟩, ?_, ih3.trans hopen.1⟩
        · intro bs hb; rw [hr] at hb; cases hb
        · rw [hr]; simpa [okBytes] using ih2

/-! ### example values for the non-vacuity checks in Properties/C20.lean -/

/-- a device with two IN and two OUT endpoints on interface 3; the kernel driver is active -/
def c20Cfg : Dev := { iface := 3, eps := [0x81, 0x01, 0x82, 0x02] }

def c20Script : List Res :=
  [.ok [] 0, .ok [] 1, .ok [] 0, .ok [] 0,          -- open, kernelDriverActive = True, detach, claim
   .ok [1, 2] 0, .err .timeout, .ok [] 0, .ok [3, 4, 5] 0, .ok [] 7]

def c20W0 : World := World.new c20Cfg none c20Script

/-- after `connect` -/
def c20W1 : World := (connect c20W0).2

end Adb.Usb
