import AdbModel
import AdbModel.Py
import AdbModel.Generated.Src
import AdbProofs.Lemmas.Bytes
/-
  Encoders and helper lemmas for the refinement theorems between the GENERATED translation of
  adb_message.py (`Adb.Src.checksum`, `Src.unpack`, `Src.AdbMessage_*`) and the hand-written model
  (`AdbModel/Message.lean`). The property theorems are in `AdbProofs/Properties/C02Src.lean`.
-/
namespace Adb
open Py

/-- the command id as the bytes object the library passes to `AdbMessage(...)` (`constants.AUTH` = `b'AUTH'`, …) -/
def Cmd.idBytes (c : Cmd) : Bytes := ascii c.name

/-- an `AdbMessage` instance as `__init__` leaves it (attribute order = assignment order) -/
def encMsg (cls : String) (m : Msg) : Py.Val :=
  .obj cls [("command", .int m.cmd.wire), ("magic", .int (magicOf m.cmd.wire)), ("arg0", .int m.arg0),
            ("arg1", .int m.arg1), ("data", .bytes m.data)]

/-- the tuple `unpack` returns -/
def encHdr (h : Hdr) : Py.Val := .tuple [.int h.cmd, .int h.arg0, .int h.arg1, .int h.len, .int h.sum]

theorem Cmd.idBytes_eq (c : Cmd) :
    c.idBytes = match c with
      | .AUTH => [65, 85, 84, 72] | .CLSE => [67, 76, 83, 69] | .CNXN => [67, 78, 88, 78] | .OKAY => [79, 75, 65, 89]
      | .OPEN => [79, 80, 69, 78] | .SYNC => [83, 89, 78, 67] | .WRTE => [87, 82, 84, 69] := by
  cases c <;> decide

theorem Cmd.wire_eq (c : Cmd) :
    c.wire = match c with
      | .AUTH => 1213486401 | .CLSE => 1163086915 | .CNXN => 1314410051 | .OKAY => 1497451343
      | .OPEN => 1313165391 | .SYNC => 1129208147 | .WRTE => 1163154007 := by
  cases c <;> decide

theorem Cmd.wire_lt (c : Cmd) : c.wire < 4294967296 := by cases c <;> decide

theorem magicOf_wire_lt (c : Cmd) : magicOf c.wire < 4294967296 := by cases c <;> decide

/-- `sum(data)` over the ints a bytes object iterates to -/
theorem Py.sumInts_bytes (d : Bytes) :
    Py.sumInts (d.map (fun x => Py.Val.int x.toNat)) = .ok (byteSum d : Int) := by
  induction d with
  | nil => rfl
  | cons b bs ih =>
    simp [Py.sumInts, Py.asInt, byteSum, ih, bind, Except.bind, pure, Except.pure]

theorem and_mask32 (n : Nat) : n &&& 4294967295 = n % 4294967296 :=
  Nat.and_two_pow_sub_one_eq_mod n 32

/-! ### the `Except` monad of `Py.M`, as rewrite rules

  These are deliberately NOT `rfl`-lemmas (`id rfl`): `simp` then records an explicit rewrite step instead of a
  definitional one, so the kernel never has to re-check a `bind` reduction by evaluating the (large) generated
  body — which otherwise runs into string comparisons and `Int` comparisons against `4294967296`. -/

theorem Py.bind_ok {α β} (a : α) (f : α → Py.M β) : ((Except.ok a : Py.M α) >>= f) = f a := id rfl
theorem Py.bind_error {α β} (e : Py.Err) (f : α → Py.M β) : ((Except.error e : Py.M α) >>= f) = .error e := id rfl
theorem Py.pure_eq {α} (a : α) : (pure a : Py.M α) = .ok a := id rfl
theorem Py.throw_eq {α} (e : Py.Err) : (throw e : Py.M α) = .error e := id rfl

/-! ### `ID_TO_WIRE` and the magic -/

/-- the generated `ID_TO_WIRE` table maps every command id to the model's wire value -/
theorem src_idToWire_get (c : Cmd) : Py.getItem Src.const_ID_TO_WIRE (.bytes c.idBytes) = .ok (.int c.wire) := by
  cases c <;>
    simp [Src.const_ID_TO_WIRE, Cmd.idBytes_eq, Cmd.wire_eq, Py.getItem, Py.toKey, Py.dlookup, bind, Except.bind, pure, Except.pure]

/-- any other bytes key is a `KeyError` -/
theorem src_idToWire_get_bad (b : Bytes) (h : ∀ c : Cmd, b ≠ c.idBytes) :
    Py.getItem Src.const_ID_TO_WIRE (.bytes b) = .error .keyError := by
  have h1 := h .AUTH; have h2 := h .CLSE; have h3 := h .CNXN; have h4 := h .OKAY
  have h5 := h .OPEN; have h6 := h .SYNC; have h7 := h .WRTE
  simp only [Cmd.idBytes_eq] at h1 h2 h3 h4 h5 h6 h7
  simp [Src.const_ID_TO_WIRE, Py.getItem, Py.toKey, Py.dlookup, Ne.symm h1, Ne.symm h2, Ne.symm h3,
    Ne.symm h4, Ne.symm h5, Ne.symm h6, Ne.symm h7, bind, Except.bind, pure, Except.pure, throw, throwThe, MonadExceptOf.throw]

/-- `x ^ 0xFFFFFFFF` on a non-negative int is the model's `magicOf` -/
theorem Py.bitxor_mask (n : Nat) : Py.bitxor (.int n) (.int 4294967295) = .ok (.int (magicOf n)) := by
  simp [Py.bitxor, Py.natOf, Py.asInt, magicOf, bind, Except.bind, pure, Except.pure]

/-! ### attributes of an encoded message -/

theorem encMsg_attrs (cls : String) (m : Msg) :
    Py.getAttr (encMsg cls m) "command" = .ok (.int m.cmd.wire)
    ∧ Py.getAttr (encMsg cls m) "magic" = .ok (.int (magicOf m.cmd.wire))
    ∧ Py.getAttr (encMsg cls m) "arg0" = .ok (.int m.arg0)
    ∧ Py.getAttr (encMsg cls m) "arg1" = .ok (.int m.arg1)
    ∧ Py.getAttr (encMsg cls m) "data" = .ok (.bytes m.data) := by
  simp [encMsg, getAttr, alookupS, pure, Except.pure]

/-! ### `checksum` -/

theorem src_checksum_bytes (d : Bytes) : Src.checksum (.bytes d) = .ok (.int (checksum d)) := by
  cases d with
  | nil =>
    simp [Src.checksum, Py.isinstance, Py.truthy, Py.andV, Py.iter, Py.sum_, Py.sumInts, Py.bitand, Py.natOf, Py.asInt,
      checksum, byteSum, bind, Except.bind, pure, Except.pure]
  | cons b bs =>
    simp [Src.checksum, Py.isinstance, Py.truthy, Py.andV, Py.getItem, Py.iter, Py.sum_, Py.sumInts_bytes, Py.bitand,
      Py.natOf, Py.asInt, checksum, and_mask32, bind, Except.bind, pure, Except.pure, -List.map_cons]

theorem src_checksum_bytearray (d : Bytes) : Src.checksum (.bytearray d) = .ok (.int (checksum d)) := by
  simp [Src.checksum, Py.isinstance, Py.truthy, Py.iter, Py.sum_, Py.sumInts_bytes, Py.bitand, Py.natOf, Py.asInt,
    checksum, and_mask32, bind, Except.bind, pure, Except.pure]

/-- `AdbMessage.checksum` of any object whose `data` attribute is a bytes object -/
theorem src_msg_checksum_of_attr (v : Py.Val) (d : Bytes) (e5 : Py.getAttr v "data" = .ok (.bytes d)) :
    Src.AdbMessage_checksum v = .ok (.int (checksum d)) := by
  simp only [Src.AdbMessage_checksum, e5, src_checksum_bytes, Py.bind_ok]

/-! ### `struct.pack(MESSAGE_FORMAT, …)` / `struct.unpack(MESSAGE_FORMAT, …)` -/

/-- the generated `MESSAGE_FORMAT` is a six-word format -/
theorem src_structPack_msg (args : List Py.Val) :
    Py.structPack Src.const_MESSAGE_FORMAT args
      = if args.length = 6 then (Py.packWords args >>= fun b => pure (.bytes b)) else .error .structError := by
  have h : Py.fmtBytes Src.const_MESSAGE_FORMAT = .ok [60, 54, 73] := rfl
  have h2 : Py.fmtWords [60, 54, 73] = some 6 := by decide
  simp only [Py.structPack, h, bind, Except.bind, h2]
  rfl

theorem Py.packWords_nat (n : Nat) (vs : List Py.Val) :
    Py.packWords (.int n :: vs)
      = if n < 4294967296 then (Py.packWords vs >>= fun r => pure (le32 n ++ r)) else .error .structError := by
  by_cases h : n < 4294967296
  · have : (n : Int) < 4294967296 := by omega
    simp [Py.packWords, h, this]
  · have : ¬ (n : Int) < 4294967296 := by omega
    simp [Py.packWords, h, this, throw, throwThe, MonadExceptOf.throw]

/-- `AdbMessage.pack` of any object with the five attributes set to non-negative ints / a bytes object, command and
    magic in range: the six little-endian words, or `struct.error` when arg0, arg1 or the length do not fit 32 bits -/
theorem src_pack_of_attrs (v : Py.Val) (w mg a0 a1 : Nat) (d : Bytes)
    (e1 : Py.getAttr v "command" = .ok (.int w)) (e2 : Py.getAttr v "magic" = .ok (.int mg))
    (e3 : Py.getAttr v "arg0" = .ok (.int a0)) (e4 : Py.getAttr v "arg1" = .ok (.int a1))
    (e5 : Py.getAttr v "data" = .ok (.bytes d)) (hw : w < 4294967296) (hm : mg < 4294967296) :
    Src.AdbMessage_pack v =
      if a0 < 4294967296 ∧ a1 < 4294967296 ∧ d.length < 4294967296 then
        .ok (.bytes (le32 w ++ le32 a0 ++ le32 a1 ++ le32 d.length ++ le32 (checksum d) ++ le32 mg))
      else .error .structError := by
  have e6 := src_msg_checksum_of_attr v d e5
  have hc := checksum_lt d
  have hn : Py.packWords [] = .ok [] := id rfl
  simp only [Src.AdbMessage_pack, e1, e2, e3, e4, e5, e6, Py.len_, Py.bind_ok, Py.pure_eq, src_structPack_msg,
    Py.packWords_nat, List.length, if_pos hw, if_pos hm, if_pos hc, if_true, hn]
  by_cases h0 : a0 < 4294967296 <;> by_cases h1 : a1 < 4294967296 <;> by_cases h2 : d.length < 4294967296 <;>
    simp [h0, h1, h2, Py.bind_ok, Py.bind_error]

/-- `struct.unpack('<6I', bs)` against the model's `unpack`: the same five words plus a sixth (the magic), and it fails
    exactly when the model's `unpack` does -/
theorem Py.unpackWords_six (bs : Bytes) :
    match unpack bs with
    | some h => ∃ mg : Nat, Py.unpackWords 6 bs
        = some [.int h.cmd, .int h.arg0, .int h.arg1, .int h.len, .int h.sum, .int mg]
    | none => Py.unpackWords 6 bs = none := by
  simp only [unpack]
  cases h1 : rd32 bs with
  | none => simp [Py.unpackWords, h1]
  | some p1 =>
  obtain ⟨c, r1⟩ := p1
  cases h2 : rd32 r1 with
  | none => simp [Py.unpackWords, h1, h2]
  | some p2 =>
  obtain ⟨a0, r2⟩ := p2
  cases h3 : rd32 r2 with
  | none => simp [Py.unpackWords, h1, h2, h3]
  | some p3 =>
  obtain ⟨a1, r3⟩ := p3
  cases h4 : rd32 r3 with
  | none => simp [Py.unpackWords, h1, h2, h3, h4]
  | some p4 =>
  obtain ⟨ln, r4⟩ := p4
  cases h5 : rd32 r4 with
  | none => simp [Py.unpackWords, h1, h2, h3, h4, h5]
  | some p5 =>
  obtain ⟨sm, r5⟩ := p5
  cases h6 : rd32 r5 with
  | none => simp [Py.unpackWords, h1, h2, h3, h4, h5, h6]
  | some p6 =>
  obtain ⟨mg, r6⟩ := p6
  cases r6 with
  | nil => simp [Py.unpackWords, h1, h2, h3, h4, h5, h6]; exact ⟨mg, rfl⟩
  | cons x xs => simp [Py.unpackWords, h1, h2, h3, h4, h5, h6]

theorem src_structUnpack_msg (buf : Py.Val) (bs : Bytes) (hb : Py.bytesOf buf = .ok bs) :
    Py.structUnpack Src.const_MESSAGE_FORMAT buf
      = match Py.unpackWords 6 bs with
        | some l => .ok (.tuple l)
        | none => .error .structError := by
  have h : Py.fmtBytes Src.const_MESSAGE_FORMAT = .ok [60, 54, 73] := rfl
  have h2 : Py.fmtWords [60, 54, 73] = some 6 := by decide
  simp only [Py.structUnpack, h, hb, Py.bind_ok, h2]
  split <;> simp_all [Py.pure_eq, Py.throw_eq]

/-- `unpack(message)` for any buffer object (`bytes` or `bytearray`) with content `bs` -/
theorem src_unpack_of_bytesOf (buf : Py.Val) (bs : Bytes) (hb : Py.bytesOf buf = .ok bs) :
    Src.unpack buf = (match unpack bs with
      | some h => .ok (encHdr h)
      | none => .error .valueError) := by
  simp only [Src.unpack, src_structUnpack_msg buf bs hb]
  have h6 := Py.unpackWords_six bs
  cases hu : unpack bs with
  | none =>
    simp only [hu] at h6
    simp only [h6, Py.bind_error]
    rfl
  | some h =>
    simp only [hu] at h6
    obtain ⟨mg, h6⟩ := h6
    simp only [h6, Py.bind_ok, Py.unpackN, List.length, if_true, Py.pure_eq, Py.nth, List.getD, encHdr]
    rfl

end Adb
